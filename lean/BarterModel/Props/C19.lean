import BarterModel.Lemmas.EngineScope
import BarterModel.Lemmas.Review1Engine
import BarterModel.Lemmas.KernelsAgree.FiltersActionsSM
import BarterModel.Lemmas.EngineNetting
import BarterModel.Lemmas.KernelsAgree.PositionSM
/-!
# C19 — Cancel-orders and close-positions commands act on exactly the filtered scope

`cancelRequests e f` / `closeRequests e f` are the requests `Engine::cancel_orders(filter)` /
`close_open_positions_with_market_orders(filter)` generate in engine state `e`; `action e cmd` is
`Engine::action` (send on the execution links, record in flight). All theorems hold for EVERY engine
state (any number of exchanges / instruments / underlyings, any order tables, positions, prices, link
table) and EVERY filter. Where a theorem needs the hash-map invariant "a client order id occurs at
most once per order table" (`TablesUnique`), that invariant is proved to hold in every state reachable
from empty tables by any history of engine events (`keys_unique_invariant`,
`tables_unique_invariant`). The delivery side (sent ⇒ delivered exactly once on the addressed link,
failed ⇒ not delivered) is C03's (`Props/C03.lean`: `send_requests_partition`,
`process_delivers_exactly_sent`).
-/
namespace BarterModel.Props.C19
open BarterModel.Engine BarterModel.Orders

/-! ## (5) filter semantics -/

/-- `InstrumentFilter::None` selects every instrument -/
theorem filter_none (i : Nat) (s : Instr) : Filter.none.matches i s = true := rfl

/-- `Exchanges(l)` selects exactly the instruments whose exchange is in `l` -/
theorem filter_exchanges (l : List Nat) (i : Nat) (s : Instr) :
    (Filter.exchanges l).matches i s = true ↔ s.exchange ∈ l := by
  simp [Filter.matches]

/-- `Instruments(l)` selects exactly the instruments whose index is in `l` -/
theorem filter_instruments (l : List Nat) (i : Nat) (s : Instr) :
    (Filter.instruments l).matches i s = true ↔ i ∈ l := by
  simp [Filter.matches]

/-- `Underlyings(l)` selects exactly the instruments whose (base, quote) pair is in `l` -/
theorem filter_underlyings (l : List (Nat × Nat)) (i : Nat) (s : Instr) :
    (Filter.underlyings l).matches i s = true ↔ (s.base, s.quote) ∈ l := by
  simp [Filter.matches]

/-- whether an instrument is selected depends on nothing but its index, exchange and underlying -/
theorem filter_ignores_orders_position_price (f : Filter) (i : Nat) (s s' : Instr)
    (hx : s.exchange = s'.exchange) (hb : s.base = s'.base) (hq : s.quote = s'.quote) :
    f.matches i s = f.matches i s' := by
  cases f <;> simp [Filter.matches, hx, hb, hq]

/-! ## (1) cancel-orders: exactly the tracked, not-yet-cancelling orders of the matching instruments -/

/-- A cancel request is generated **iff** it is for a tracked order `(c, o)` of an instrument `i`
selected by the filter whose state is in flight or open (i.e. not already cancel-in-flight); it carries
that order's recorded exchange, instrument `i`, client order id `c`, and the exchange order id
exactly when the order is open (none while the open request is still in flight). -/
theorem cancel_scope (e : Eng) (f : Filter) (r : CancelReq) :
    r ∈ cancelRequests e f ↔
      ∃ i s c o, e.instruments[i]? = some s ∧ f.matches i s = true ∧ (c, o) ∈ s.orders ∧
        r.key = ⟨o.exchange, i, c⟩ ∧
        ((o.state = .inFlight ∧ r.id = none) ∨ (∃ op, o.state = .opn op ∧ r.id = some op.id)) := by
  rw [mem_cancelRequests]
  constructor
  · rintro ⟨i, s, c, o, hs, hf, hco, hr⟩
    exact ⟨i, s, c, o, hs, hf, hco, (toRequestCancel_eq_some i c o r).mp hr⟩
  · rintro ⟨i, s, c, o, hs, hf, hco, hr⟩
    exact ⟨i, s, c, o, hs, hf, hco, (toRequestCancel_eq_some i c o r).mpr hr⟩

/-- The same with the hash-map reading of the table (`lookup`), valid under key-uniqueness: a cancel
request is generated iff the order tracked under its client order id at its instrument is in flight
or open and the instrument is selected. -/
theorem cancel_scope_lookup (e : Eng) (hU : TablesUnique e) (f : Filter) (r : CancelReq) :
    r ∈ cancelRequests e f ↔
      ∃ s o, e.instruments[r.key.instrument]? = some s ∧ f.matches r.key.instrument s = true ∧
        lookup s.orders r.key.cid = some o ∧ r.key.exchange = o.exchange ∧
        ((o.state = .inFlight ∧ r.id = none) ∨ (∃ op, o.state = .opn op ∧ r.id = some op.id)) := by
  rw [cancel_scope]
  constructor
  · rintro ⟨i, s, c, o, hs, hf, hco, hk, hst⟩
    have h1 : r.key.instrument = i := by rw [hk]
    have h2 : r.key.cid = c := by rw [hk]
    have h3 : r.key.exchange = o.exchange := by rw [hk]
    subst h1; subst h2
    exact ⟨s, o, hs, hf, lookup_of_mem _ _ _ (hU _ s hs) hco, h3, hst⟩
  · rintro ⟨s, o, hs, hf, hl, hx, hst⟩
    refine ⟨r.key.instrument, s, r.key.cid, o, hs, hf, mem_of_lookup _ _ _ hl, ?_, hst⟩
    rw [← hx]

/-- An order that is already being cancelled is never addressed again. -/
theorem cancel_skips_cancel_in_flight (e : Eng) (hU : TablesUnique e) (f : Filter) (i c : Nat)
    (o : Order) (x : Option Open) (ho : orderOf e i c = some o) (hst : o.state = .cancelInFlight x) :
    ∀ r ∈ cancelRequests e f, ¬ (r.key.instrument = i ∧ r.key.cid = c) := by
  intro r hr hk
  obtain ⟨s, o', hs, _, hl, _, hst'⟩ := (cancel_scope_lookup e hU f r).mp hr
  rw [hk.1] at hs; rw [hk.2] at hl
  simp only [orderOf, hs, hl, Option.some.injEq] at ho
  subst ho
  rcases hst' with ⟨h, _⟩ | ⟨op, h, _⟩ <;> rw [hst] at h <;> cases h

/-- Each tracked order yields at most one request: no two generated requests address the same
`(instrument, client order id)`. -/
theorem cancel_at_most_once (e : Eng) (hU : TablesUnique e) (f : Filter) :
    ((cancelRequests e f).map CancelReq.orderKey).Nodup := by
  unfold cancelRequests
  apply cancel_flatMap_nodup
  · exact (zipIdx_pairwise e.instruments 0).sublist List.filter_sublist
  · intro si hsi
    have := (List.mem_filter.mp hsi).1
    exact hU si.2 si.1 (List.mem_zipIdx_iff_getElem?.mp this)

/-- Key-uniqueness holds for every order table built from the empty table by any history of
in-flight records, order snapshots and cancel responses. -/
theorem keys_unique_invariant (ops : List Op) : KeysUnique (run [] ops) :=
  keysUnique_run [] ops keysUnique_nil

/-- ... and for all tables of the engine, after any history of engine events (commands, trading-state
updates, account / market updates, shutdown) with any strategy output and risk verdict per tick. -/
theorem tables_unique_invariant (e : Eng) (h : TablesUnique e)
    (ticks : List (Event × List CancelReq × List OpenReq × (Key → Bool))) :
    TablesUnique (ticks.foldl (fun s t => (process s t.1 t.2.1 t.2.2.1 t.2.2.2).1) e) := by
  induction ticks generalizing e with
  | nil => exact h
  | cons t ts ih => exact ih _ (tablesUnique_process e t.1 t.2.1 t.2.2.1 t.2.2.2 h)

/-- a freshly built engine (no tracked orders) satisfies the invariant -/
theorem tables_unique_initial (e : Eng) (h : ∀ s ∈ e.instruments, s.orders = []) : TablesUnique e := by
  intro i s hs
  rw [h s (List.mem_of_getElem? hs)]
  exact keysUnique_nil

/-! ## (2) close-positions: one opposite, equal order per matching instrument with position and price -/

/-- An open request is generated **iff** it is for an instrument `i` selected by the filter that
holds a position `(side, q)` and has a market price `p`; it is addressed to that instrument's
exchange, has the opposite side, the position's quantity, the market price, and the generated
client order id of instrument `i`. -/
theorem close_scope (e : Eng) (f : Filter) (r : OpenReq) :
    r ∈ closeRequests e f ↔
      ∃ i s side q p, e.instruments[i]? = some s ∧ f.matches i s = true ∧
        s.position = some (side, q) ∧ s.price = some p ∧
        r = ⟨⟨s.exchange, i, closeCid i⟩, side.opposite, p, q⟩ :=
  mem_closeRequests e f r

/-- "opposite side" -/
theorem opposite_side : Side.buy.opposite = .sell ∧ Side.sell.opposite = .buy := ⟨rfl, rfl⟩

/-- Exactly one order per such instrument: the instrument indices of the generated requests are
strictly increasing (in particular no instrument is addressed twice). -/
theorem close_one_per_instrument (e : Eng) (f : Filter) :
    ((closeRequests e f).map (·.key.instrument)).Pairwise (· < ·) :=
  closeRequests_sorted e f

theorem close_one_per_instrument_nodup (e : Eng) (f : Filter) :
    ((closeRequests e f).map (·.key.instrument)).Nodup :=
  (close_one_per_instrument e f).imp (fun h => Nat.ne_of_lt h)

/-- the command sends what was generated: cancels of `CancelOrders(f)` / opens of `ClosePositions(f)`
reported as sent are the generated ones with a healthy link, in order; the others are reported as
errors; `ClosePositions` with the default strategy generates no cancels and `CancelOrders` no opens. -/
theorem commands_send_generated (e : Eng) (f : Filter) :
    (action e (.cancelOrders f)).2.cancels.sent = cancelSent e f ∧
    (action e (.cancelOrders f)).2.opens.sent = [] ∧ (action e (.cancelOrders f)).2.opens.errors = [] ∧
    (action e (.closePositions f)).2.opens.sent = closeSent e f ∧
    (action e (.closePositions f)).2.cancels.sent = [] ∧
    (action e (.closePositions f)).2.cancels.errors = [] ∧
    (∀ r err, (r, err) ∈ (action e (.cancelOrders f)).2.cancels.errors ↔
      r ∈ cancelRequests e f ∧ linkResult e.links r.key.exchange = some err) ∧
    (∀ r err, (r, err) ∈ (action e (.closePositions f)).2.opens.errors ↔
      r ∈ closeRequests e f ∧ linkResult e.links r.key.exchange = some err) := by
  refine ⟨rfl, rfl, rfl, rfl, rfl, rfl, ?_, ?_⟩
  · intro r err
    simp only [action, sendRequests, List.mem_filterMap]
    constructor
    · rintro ⟨a, ha, h⟩
      split at h
      · rename_i err' he; injection h with h; injection h with h1 h2; subst h1; subst h2; exact ⟨ha, he⟩
      · cases h
    · rintro ⟨hq, he⟩
      exact ⟨r, hq, by simp [Req.key, he]⟩
  · intro r err
    simp only [action, sendRequests, List.mem_filterMap]
    constructor
    · rintro ⟨a, ha, h⟩
      split at h
      · rename_i err' he; injection h with h; injection h with h1 h2; subst h1; subst h2; exact ⟨ha, he⟩
      · cases h
    · rintro ⟨hq, he⟩
      exact ⟨r, hq, by simp [Req.key, he]⟩

/-! ## (3) everything outside the filter is untouched -/

/-- After `CancelOrders(f)` every instrument not selected by `f` has exactly the state it had
(orders, position, price, everything). -/
theorem outside_untouched_cancel (e : Eng) (f : Filter) (j : Nat) (s : Instr)
    (hs : e.instruments[j]? = some s) (hf : f.matches j s = false) :
    (action e (.cancelOrders f)).1.instruments[j]? = some s := by
  rw [action_cancelOrders_instruments, recordCancels_untouched, hs]
  intro r hr hj
  obtain ⟨i, s', c, o, hs', hf', _, hk⟩ := (mem_cancelRequests e f r).mp (List.mem_filter.mp hr).1
  have := (toRequestCancel_key i (c, o) r hk).1
  rw [this] at hj; subst hj
  rw [hs] at hs'; injection hs' with hs'; subst hs'
  rw [hf] at hf'; cases hf'

/-- After `ClosePositions(f)` every instrument not selected by `f` has exactly the state it had. -/
theorem outside_untouched_close (e : Eng) (f : Filter) (j : Nat) (s : Instr)
    (hs : e.instruments[j]? = some s) (hf : f.matches j s = false) :
    (action e (.closePositions f)).1.instruments[j]? = some s := by
  rw [action_closePositions_instruments, recordOpens_untouched, hs]
  intro r hr hj
  obtain ⟨i, s', side, q, p, hs', hf', _, _, rfl⟩ :=
    (mem_closeRequests e f r).mp (List.mem_filter.mp hr).1
  simp only at hj; subst hj
  rw [hs] at hs'; injection hs' with hs'; subst hs'
  rw [hf] at hf'; cases hf'

/-- Neither command changes the position, the price, the exchange or the underlying of ANY
instrument (selected or not), nor the number of instruments. -/
theorem positions_prices_untouched (e : Eng) (f : Filter) (j : Nat) :
    (((action e (.cancelOrders f)).1.instruments[j]?).map Instr.static =
      (e.instruments[j]?).map Instr.static) ∧
    (((action e (.closePositions f)).1.instruments[j]?).map Instr.static =
      (e.instruments[j]?).map Instr.static) := by
  rw [action_cancelOrders_instruments, action_closePositions_instruments]
  exact ⟨recordCancels_static _ _ _, recordOpens_static _ _ _⟩

/-- Inside the filter, `CancelOrders(f)` changes exactly the orders it sent a cancel for — they become
cancel-in-flight keeping what the exchange last reported — and no other entry of any order table
(whole entry: quantity, price, recorded exchange, state). -/
theorem cancel_command_effect (e : Eng) (f : Filter) (i c : Nat) :
    orderOf (action e (.cancelOrders f)).1 i c =
      if (cancelSent e f).any (fun r => decide (r.key.instrument = i ∧ r.key.cid = c)) then
        (orderOf e i c).map markCancel
      else orderOf e i c := by
  rw [orderOf_congr _ _ (action_cancelOrders_instruments e f), orderOf_recordCancels]

/-! ## (4) repeating the cancel command while the first is in flight requests nothing new -/

/-- General form (any link table): everything the repeated command generates was already generated
by the first one AND could not be delivered then (its execution link was missing or closed). -/
theorem repeat_requests_nothing_new (e : Eng) (hU : TablesUnique e) (f : Filter) (r : CancelReq)
    (hr : r ∈ cancelRequests (action e (.cancelOrders f)).1 f) :
    r ∈ cancelRequests e f ∧ linkResult e.links r.key.exchange ≠ none := by
  obtain ⟨i, s', c, o', hs', hf', hco', hreq⟩ := (mem_cancelRequests _ f r).mp hr
  -- the instrument exists in `e` with the same static part, so it is selected there too
  have hst := (positions_prices_untouched e f i).1
  rw [hs'] at hst
  cases hs : e.instruments[i]? with
  | none => rw [hs] at hst; cases hst
  | some s =>
    rw [hs] at hst
    simp only [Option.map_some, Option.some.injEq] at hst
    have hf : f.matches i s = true := by rw [← matches_congr f i s' s hst]; exact hf'
    -- what the table of the new state holds under `c`
    have hU' : TablesUnique (action e (.cancelOrders f)).1 := tablesUnique_action e _ hU
    have hl' : orderOf (action e (.cancelOrders f)).1 i c = some o' := by
      simp only [orderOf, hs']; exact lookup_of_mem _ _ _ (hU' i s' hs') hco'
    rw [cancel_command_effect] at hl'
    split at hl'
    · -- it was addressed by a delivered cancel: now cancel-in-flight, cannot generate a request
      cases ho : orderOf e i c with
      | none => rw [ho] at hl'; cases hl'
      | some o =>
        rw [ho] at hl'
        simp only [Option.map_some, Option.some.injEq] at hl'
        subst hl'
        simp [toRequestCancel, markCancel] at hreq
    · rename_i hany
      -- untouched entry: the same request was generated the first time
      have hl : lookup s.orders c = some o' := by simpa [orderOf, hs] using hl'
      have hmem : r ∈ cancelRequests e f :=
        (mem_cancelRequests e f r).mpr ⟨i, s, c, o', hs, hf, mem_of_lookup _ _ _ hl, hreq⟩
      refine ⟨hmem, ?_⟩
      intro hlink
      apply hany
      rw [List.any_eq_true]
      refine ⟨r, List.mem_filter.mpr ⟨hmem, by simp [hlink]⟩, ?_⟩
      have := toRequestCancel_key i (c, o') r hreq
      simp [this.1, this.2]

/-- **repeat_idempotent**: if every request the command generates is addressed to a healthy link (so
all are sent), the same command issued again before any response generates nothing. -/
theorem repeat_idempotent (e : Eng) (hU : TablesUnique e) (f : Filter)
    (hH : ∀ r ∈ cancelRequests e f, linkResult e.links r.key.exchange = none) :
    cancelRequests (action e (.cancelOrders f)).1 f = [] := by
  rw [List.eq_nil_iff_forall_not_mem]
  intro r hr
  have := repeat_requests_nothing_new e hU f r hr
  exact this.2 (hH r this.1)

/-- ... hence the repeated command sends nothing, reports nothing, and leaves the delivery log and every
instrument state as they are. -/
theorem repeat_sends_nothing (e : Eng) (hU : TablesUnique e) (f : Filter)
    (hH : ∀ r ∈ cancelRequests e f, linkResult e.links r.key.exchange = none) :
    let e1 := (action e (.cancelOrders f)).1
    (action e1 (.cancelOrders f)).2.cancels.sent = [] ∧
    (action e1 (.cancelOrders f)).2.cancels.errors = [] ∧
    (action e1 (.cancelOrders f)).1.log = e1.log ∧
    (action e1 (.cancelOrders f)).1.instruments = e1.instruments := by
  intro e1
  have h0 : cancelRequests e1 f = [] := repeat_idempotent e hU f hH
  simp [action, sendRequests, h0, recordCancels]

/-! ## non-vacuity -/

/-- two exchanges, three instruments, every order state, long / short / flat, price known / unknown -/
def demo : Eng :=
  { enabled := true, links := [.healthy, .healthy], log := [], disabledCalls := 0,
    instruments := [
      { exchange := 0, base := 0, quote := 3, position := some (.buy, 2), price := some 100,
        orders := [(1, ⟨10, 100, .inFlight, 0⟩), (2, ⟨10, 100, .opn ⟨7, 1, 5⟩, 0⟩),
                   (3, ⟨10, 100, .cancelInFlight none, 0⟩)] },
      { exchange := 1, base := 1, quote := 3, position := some (.sell, 3), price := none,
        orders := [(1, ⟨10, 100, .opn ⟨8, 1, 0⟩, 1⟩)] },
      { exchange := 1, base := 0, quote := 3, position := none, price := some 101, orders := [] } ] }

example : TablesUnique demo := by
  intro i s hs
  match i, hs with
  | 0, hs => injection hs with hs; subst hs; simp [KeysUnique, keys]
  | 1, hs => injection hs with hs; subst hs; simp [KeysUnique, keys]
  | 2, hs => injection hs with hs; subst hs; simp [KeysUnique, keys]
  | (n + 3), hs => simp [demo] at hs

example : cancelRequests demo (.exchanges [0]) = [⟨⟨0, 0, 1⟩, none⟩, ⟨⟨0, 0, 2⟩, some 7⟩] := by decide
example : cancelRequests demo .none =
    [⟨⟨0, 0, 1⟩, none⟩, ⟨⟨0, 0, 2⟩, some 7⟩, ⟨⟨1, 1, 1⟩, some 8⟩] := by decide
example : closeRequests demo (.underlyings [(0, 3)]) = [⟨⟨0, 0, closeCid 0⟩, .sell, 100, 2⟩] := by decide
example : ∀ r ∈ cancelRequests demo .none, linkResult demo.links r.key.exchange = none := by decide
example : cancelRequests (action demo (.cancelOrders .none)).1 .none = [] := by decide
example : (Filter.instruments [1]).matches 0 (demo.instruments[0]!) = false := by decide

/-! ## Added after the independent review (audit/REVIEW-notes.md, C19 item 1) -/

/-- a tick in which the strategy stays silent leaves the order tables as the tick's own event left
them: nothing is generated, nothing is recorded -/
theorem generateStage_silent_instruments (e : Eng) (cmd : Option ActionOut) (refuse : Key → Bool) :
    (generateStage e cmd [] [] refuse).1.instruments = e.instruments := by
  unfold generateStage
  split <;> simp [generateAlgoOrders, sendRequests, recordCancels, recordOpens]

theorem process_cancel_instruments (e : Eng) (f : Filter) (refuse : Key → Bool) :
    (process e (.command (.cancelOrders f)) [] [] refuse).1.instruments
      = (action e (.cancelOrders f)).1.instruments := by
  simp only [process]
  split
  · rfl
  · exact generateStage_silent_instruments _ _ _

theorem process_cancel_links (e : Eng) (f : Filter) (refuse : Key → Bool) :
    (process e (.command (.cancelOrders f)) [] [] refuse).1.links = e.links := by
  have ha : (action e (.cancelOrders f)).1.links = e.links := by
    simp [action, (recordCancels_log _ _).2.1, sendRequests]
  simp only [process]
  split
  · exact ha
  · unfold generateStage
    split <;> simp [generateAlgoOrders, sendRequests, recordCancels, recordOpens, ha]

theorem process_update_instruments (e : Eng) (u : Update) (refuse : Key → Bool) :
    (process e (.update u) [] [] refuse).1.instruments = (applyUpdate e u).instruments := by
  simp only [process]
  exact generateStage_silent_instruments _ _ _

/-- the requests a `CancelOrders` command generates depend on the instrument states only -/
theorem cancelRequests_congr (e e' : Eng) (f : Filter) (h : e.instruments = e'.instruments) :
    cancelRequests e f = cancelRequests e' f := by simp [cancelRequests, h]

/-- (4, tick level) **repeat_idempotent_process**: the cancel command issued as a whole engine TICK
(`process`: the command's action, then the generation stage) with a strategy that stays silent; if
every request it generates is addressed to a healthy link, the same command issued as the next tick —
before any exchange response — generates nothing, so it sends nothing, fails nothing and changes no
order table. -/
theorem repeat_idempotent_process (e : Eng) (hU : TablesUnique e) (f : Filter) (refuse : Key → Bool)
    (hH : ∀ r ∈ cancelRequests e f, linkResult e.links r.key.exchange = none) :
    let e1 := (process e (.command (.cancelOrders f)) [] [] refuse).1
    cancelRequests e1 f = [] ∧
    (∀ refuse', (process e1 (.command (.cancelOrders f)) [] [] refuse').2.commanded =
        some ⟨⟨[], []⟩, SendOut.empty⟩ ∧
      (process e1 (.command (.cancelOrders f)) [] [] refuse').1.instruments = e1.instruments) := by
  intro e1
  have h0 : cancelRequests e1 f = [] := by
    rw [cancelRequests_congr _ _ f (process_cancel_instruments e f refuse)]
    exact repeat_idempotent e hU f hH
  refine ⟨h0, ?_⟩
  intro refuse'
  have ha : (action e1 (.cancelOrders f)).2 = ⟨⟨[], []⟩, SendOut.empty⟩ := by
    simp [action, sendRequests, h0]
  refine ⟨?_, ?_⟩
  · rw [(process_shape e1 _ [] [] refuse').1]
    exact congrArg some ha
  · rw [process_cancel_instruments]
    simp [action, sendRequests, h0, recordCancels]


/-- a tracked, selected order that generates no cancel request is already being cancelled -/
theorem cancelling_of_no_request (e : Eng) (f : Filter) (h0 : cancelRequests e f = []) (i : Nat)
    (s : Instr) (c : Nat) (o : Order) (hs : e.instruments[i]? = some s) (hf : f.matches i s = true)
    (hco : (c, o) ∈ s.orders) : ∃ x, o.state = .cancelInFlight x := by
  cases hst : o.state with
  | cancelInFlight x => exact ⟨x, rfl⟩
  | inFlight =>
    have : (⟨⟨o.exchange, i, c⟩, none⟩ : CancelReq) ∈ cancelRequests e f :=
      (mem_cancelRequests e f _).mpr ⟨i, s, c, o, hs, hf, hco, by simp [toRequestCancel, hst]⟩
    rw [h0] at this; cases this
  | opn op =>
    have : (⟨⟨o.exchange, i, c⟩, some op.id⟩ : CancelReq) ∈ cancelRequests e f :=
      (mem_cancelRequests e f _).mpr ⟨i, s, c, o, hs, hf, hco, by simp [toRequestCancel, hst]⟩
    rw [h0] at this; cases this

/-- **An exchange report between the two commands.** In a state in which the cancel command generates
nothing (every tracked order of the selected instruments is already being cancelled — the state the
first command leaves, `repeat_idempotent`), an order report for a TRACKED order `(i, c)` — an `Open`
report with any timestamp and fill (in particular the late acknowledgement of an order that was
cancelled while its open request was still in flight), a terminal report, or an in-flight echo — leaves
a state in which the command still generates nothing: the acknowledged order stays cancel-in-flight
(now carrying the exchange's details) or is no longer tracked. -/
theorem no_request_after_report (e : Eng) (hU : TablesUnique e) (f : Filter)
    (h0 : cancelRequests e f = []) (i : Nat) (sn : Snap)
    (hx : (Op.snapshot sn).exchangeStatesOnly = true)
    (htr : (orderOf e i sn.cid).isSome = true) :
    cancelRequests (applyUpdate e (.order i (.snapshot sn))) f = [] := by
  rw [List.eq_nil_iff_forall_not_mem]
  intro r hr
  obtain ⟨j, s2, c', o', hs2, hf2, hco, hreq⟩ := (mem_cancelRequests _ f r).mp hr
  simp only [applyUpdate, modifyInstr_getElem?] at hs2
  by_cases hj : j = i
  · subst hj
    cases hs1 : e.instruments[j]? with
    | none => simp [hs1] at hs2
    | some s1 =>
      simp only [hs1, ↓reduceIte, Option.map_some, Option.some.injEq] at hs2
      subst hs2
      have hf1 : f.matches j s1 = true := by
        rw [← hf2]; exact matches_congr f j _ _ rfl
      have hK : KeysUnique (step s1.orders (.snapshot sn)) := keysUnique_step _ _ (hU j s1 hs1)
      have hl : lookup (step s1.orders (.snapshot sn)) c' = some o' := lookup_of_mem _ _ _ hK hco
      by_cases hc : c' = sn.cid
      · -- the reported order itself: it was cancel-in-flight, and stays so (or is untracked)
        subst hc
        simp only [orderOf, hs1] at htr
        cases hl1 : lookup s1.orders sn.cid with
        | none => simp [hl1] at htr
        | some o1 =>
          obtain ⟨y, hy⟩ := cancelling_of_no_request e f h0 j s1 sn.cid o1 hs1 hf1 (mem_of_lookup _ _ _ hl1)
          have hst := step_refines s1.orders (.snapshot sn) sn.cid hx
          simp only [stateOf, hl, hl1, Option.map_some, hy] at hst
          obtain ⟨cid, q, p, st, sx⟩ := sn
          simp only at hst hl
          cases st with
          | inactive k => simp [Lifecycle.stepOp, Op.input, Lifecycle.step] at hst
          | active a =>
            cases a with
            | cancelInFlight z => simp [Op.exchangeStatesOnly] at hx
            | inFlight =>
              simp only [Lifecycle.stepOp, Op.input, ↓reduceIte, Lifecycle.step, Option.some.injEq] at hst
              simp [toRequestCancel, hst] at hreq
            | opn o =>
              simp only [Lifecycle.stepOp, Op.input, ↓reduceIte] at hst
              by_cases hz : remZero q o = true
              · simp [hz, Lifecycle.step] at hst
              · cases y with
                | none =>
                  simp only [hz, Lifecycle.step, Option.some.injEq] at hst
                  simp [toRequestCancel, hst] at hreq
                | some c0 =>
                  simp only [hz, Lifecycle.step] at hst
                  split at hst <;> (simp only [Option.some.injEq] at hst; simp [toRequestCancel, hst] at hreq)
      · -- another order of the same instrument: untouched, so the request was generated before
        have hl1 : lookup s1.orders c' = some o' := by
          rw [← step_frame s1.orders (.snapshot sn) c' hc]; exact hl
        have : r ∈ cancelRequests e f :=
          (mem_cancelRequests e f r).mpr ⟨j, s1, c', o', hs1, hf1, mem_of_lookup _ _ _ hl1, hreq⟩
        rw [h0] at this; cases this
  · simp only [hj, ↓reduceIte] at hs2
    have : r ∈ cancelRequests e f := (mem_cancelRequests e f r).mpr ⟨j, s2, c', o', hs2, hf2, hco, hreq⟩
    rw [h0] at this; cases this

/-- (4, review item (c)) **an `Open` report arriving between the two commands for an order that was
cancelled while in flight.** Tick 1: `CancelOrders(f)` (every generated request deliverable, silent
strategy) cancels — among others — the order `(i, c)` of a selected instrument whose open request is
still in flight: it becomes `cancelInFlight none`. Tick 2: the exchange's `Open` report for `(i, c)`
arrives (something left to fill, any timestamp): the order is now `cancelInFlight (some o)` — the
pending cancel is kept and carries the exchange's details. Tick 3: the repeated `CancelOrders(f)`
generates NOTHING — nothing for `(i, c)` (its cancel is still in flight; it is not re-sent with the now
known exchange order id) and nothing for any other order — sends nothing and changes no order table. -/
theorem repeat_after_open_report (e : Eng) (hU : TablesUnique e) (f : Filter) (refuse : Key → Bool)
    (hH : ∀ r ∈ cancelRequests e f, linkResult e.links r.key.exchange = none)
    (i c : Nat) (s : Instr) (ord : Order) (hs : e.instruments[i]? = some s)
    (hf : f.matches i s = true) (hord : lookup s.orders c = some ord) (hfl : ord.state = .inFlight)
    (q p : Rat) (x : Nat) (o : Open) (hz : remZero q o = false) :
    let e1 := (process e (.command (.cancelOrders f)) [] [] refuse).1
    let e2 := (process e1 (.update (.order i (.snapshot ⟨c, q, p, .active (.opn o), x⟩))) [] [] refuse).1
    orderState e1 i c = some (.cancelInFlight none) ∧
    orderState e2 i c = some (.cancelInFlight (some o)) ∧
    cancelRequests e2 f = [] ∧
    (process e2 (.command (.cancelOrders f)) [] [] refuse).2.commanded = some ⟨⟨[], []⟩, SendOut.empty⟩ ∧
    (process e2 (.command (.cancelOrders f)) [] [] refuse).1.instruments = e2.instruments := by
  intro e1 e2
  have hi1 : e1.instruments = (action e (.cancelOrders f)).1.instruments :=
    process_cancel_instruments e f refuse
  have h01 : cancelRequests e1 f = [] := (repeat_idempotent_process e hU f refuse hH).1
  have hU1 : TablesUnique e1 := tablesUnique_congr _ _ hi1 (tablesUnique_action e _ hU)
  -- the order's entry after the first command
  have hsent : (cancelSent e f).any (fun r => decide (r.key.instrument = i ∧ r.key.cid = c)) = true := by
    rw [List.any_eq_true]
    have hm : (⟨⟨ord.exchange, i, c⟩, none⟩ : CancelReq) ∈ cancelRequests e f :=
      (mem_cancelRequests e f _).mpr ⟨i, s, c, ord, hs, hf, mem_of_lookup _ _ _ hord, by simp [toRequestCancel, hfl]⟩
    exact ⟨_, List.mem_filter.mpr ⟨hm, by simp [hH _ hm]⟩, by simp⟩
  have ho1 : orderOf e1 i c = some (markCancel ord) := by
    rw [orderOf_congr _ _ hi1, cancel_command_effect, if_pos hsent]
    simp [orderOf, hs, hord]
  have hst1 : orderState e1 i c = some (.cancelInFlight none) := by
    have : orderState e1 i c = (orderOf e1 i c).map (·.state) := by
      unfold orderState orderOf stateOf; cases e1.instruments[i]? <;> rfl
    rw [this, ho1]; simp [markCancel, hfl, Active.openMeta]
  let sn : Snap := ⟨c, q, p, .active (.opn o), x⟩
  have hi2 : e2.instruments = (applyUpdate e1 (.order i (.snapshot sn))).instruments :=
    process_update_instruments e1 _ refuse
  have h02 : cancelRequests e2 f = [] := by
    rw [cancelRequests_congr _ _ f hi2]
    exact no_request_after_report e1 hU1 f h01 i sn rfl (by simp [sn, ho1])
  have hst2 : orderState e2 i c = some (.cancelInFlight (some o)) := by
    have : orderState e2 i c = orderState (applyUpdate e1 (.order i (.snapshot sn))) i c := by
      simp [orderState, hi2]
    rw [this, BarterModel.Audit.orderState_applyUpdate_order]
    simp only [↓reduceIte]
    have hst1' := hst1
    unfold orderState at hst1'
    cases hs1 : e1.instruments[i]? with
    | none => simp [hs1] at hst1'
    | some s1 =>
      simp only [hs1] at hst1' ⊢
      rw [step_refines _ _ _ rfl, hst1']
      simp [sn, Lifecycle.stepOp, Op.input, hz, Lifecycle.step]
  have ha : (action e2 (.cancelOrders f)).2 = ⟨⟨[], []⟩, SendOut.empty⟩ := by
    simp [action, sendRequests, h02]
  refine ⟨hst1, hst2, h02, ?_, ?_⟩
  · rw [(process_shape e2 _ [] [] refuse).1]
    exact congrArg some ha
  · rw [process_cancel_instruments]
    simp [action, sendRequests, h02, recordCancels]

/-! Non-vacuity: instrument 0 of `demo` holds the in-flight order `(0, 1)`; all links are healthy. -/
example :
    let e1 := (process demo (.command (.cancelOrders .none)) [] [] (fun _ => false)).1
    let e2 := (process e1 (.update (.order 0 (.snapshot ⟨1, 10, 100, .active (.opn ⟨9, 5, 0⟩), 0⟩))) [] []
      (fun _ => false)).1
    orderState demo 0 1 = some .inFlight ∧ orderState e1 0 1 = some (.cancelInFlight none) ∧
    orderState e2 0 1 = some (.cancelInFlight (some ⟨9, 5, 0⟩)) ∧ cancelRequests e2 .none = [] := by
  decide +kernel
-- a FAILED cancel response in between is different: the order is open again and the repeat cancels it
example :
    let e1 := (process demo (.command (.cancelOrders .none)) [] [] (fun _ => false)).1
    let e2 := (process e1 (.update (.order 0 (.cancelResp 2 false))) [] [] (fun _ => false)).1
    cancelRequests e2 .none = [⟨⟨0, 0, 2⟩, some 7⟩] := by decide +kernel

/-! ## (7) the position a close request reads is the NET of the fills (engine-level netting)

The engine-level model carries `(side, quantity_abs)` of the open position; account trades on an
instrument that ALREADY holds a position are netted by `netFill` (the driver resolves `ev fill i side q`
to `fillUpdate`). `netFill` is the projection of the C02 position model (`netFill_is_position_model`,
`enter_is_position_model`), so the position that `closeRequests` turns into a closing order is, after
any history of fills of positive quantity, the signed sum of the fills: opposite side, absolute size. -/

/-- one fill adds its signed quantity -/
theorem fill_adds_signed_quantity (pos : Option (Side × Rat)) (side : Side) (q : Rat) :
    signedQty (netFill pos side q) = signedQty pos + signedFill side q :=
  signedQty_netFill pos side q

/-- a carried position keeps a positive open quantity under fills of positive quantity -/
theorem fill_keeps_quantity_positive (pos : Option (Side × Rat)) (side : Side) (q : Rat)
    (h : PosWF pos) (hq : 0 < q) : PosWF (netFill pos side q) :=
  netFill_wf pos side q h hq

/-- after ANY history of fills (positive quantities) from flat, the carried position is the signed sum:
long iff positive, short iff negative, flat iff zero, with the absolute size -/
theorem net_position_after_fills (fills : List (Side × Rat)) (hq : ∀ f ∈ fills, 0 < f.2) :
    netAll fills none =
      (if 0 < signedSum fills then some (.buy, signedSum fills)
       else if signedSum fills < 0 then some (.sell, -signedSum fills) else none) := by
  have h := pos_of_signed (netAll fills none) (netAll_wf fills none trivial hq)
  have e : signedQty (netAll fills none) = signedSum fills := by
    rw [signedQty_netAll]; simp [signedQty, Rat.zero_add]
  rw [e] at h; exact h

/-- the trade the audit replica is told about (`tradeBetween`, used by the record digest) is the trade
that was netted: `netFill` and `tradeBetween` are inverse -/
theorem netted_trade_is_recovered (pos : Option (Side × Rat)) (side : Side) (q : Rat) (hq : 0 < q) :
    tradeBetween pos (netFill pos side q) = some (side, q) :=
  tradeBetween_netFill pos side q hq

/-- `netFill` is `Position::update_from_trade` of the C02 model projected on (side, quantity_abs) -/
theorem netting_is_the_position_model (p : BarterModel.Position.Position) (t : BarterModel.Position.Trade)
    (hi : p.instrument = t.instrument) (hq : 0 < t.quantity) :
    carried (p.updateFromTrade t).1
      = netFill (some (ofPSide p.side, p.quantityAbs)) (ofPSide t.side) t.quantity :=
  netFill_is_position_model p t hi hq

theorem entering_is_the_position_model (t : BarterModel.Position.Trade) (hq : 0 < t.quantity) :
    carried (BarterModel.Position.PositionManager.init.update t).1.current
      = netFill none (ofPSide t.side) t.quantity :=
  enter_is_position_model t hq

/-- … and of the SOURCE: `netFill` is `Position::update_from_trade` AS REGENERATED FROM /repo ON THIS RUN
(`Generated.Machines.Position.update_from_trade`, tools/rust2lean_sm.py, group `position_sm`) projected on
(side, quantity_abs), for every position and every trade of positive quantity on the same instrument: the chain
generated machine = C02 model (`KernelsAgree.PositionSM.update_from_trade_agrees`) = engine-level netting. -/
theorem netting_is_the_source (p : BarterModel.KernelsAgree.PositionSM.G.Position)
    (t : BarterModel.KernelsAgree.PositionSM.G.Trade)
    (hi : p.instrument = t.instrument) (hq : 0 < t.quantity) :
    ((p.update_from_trade t).1.map fun p' =>
        (ofPSide (BarterModel.KernelsAgree.PositionSM.ofSide p'.side), p'.quantity_abs))
      = netFill (some (ofPSide (BarterModel.KernelsAgree.PositionSM.ofSide p.side), p.quantity_abs))
          (ofPSide (BarterModel.KernelsAgree.PositionSM.ofSide t.side)) t.quantity := by
  open BarterModel.KernelsAgree.PositionSM in
  have h := update_from_trade_agrees p t
  open BarterModel.KernelsAgree.PositionSM in
  have h2 := netFill_is_position_model (ofPos p) (ofTrade t) (by simpa [ofPos, ofTrade] using hi)
    (by simpa [ofTrade] using hq)
  rw [h] at h2
  open BarterModel.KernelsAgree.PositionSM in
  simpa [carried, Option.map_map, Function.comp_def, ofPos, ofTrade] using h2

/-- applying the resolved update leaves the instrument with the netted position -/
theorem fill_update_sets_net (e : Eng) (i : Nat) (side : Side) (q : Rat) (s : Instr)
    (h : e.instruments[i]? = some s) :
    ((applyUpdate e (fillUpdate e i side q)).instruments[i]?).map (·.position)
      = some (netFill s.position side q) := by
  unfold fillUpdate
  simp only [h, Option.bind_some]
  cases hp : s.position with
  | none => simp [applyUpdate, modifyInstr_getElem?, h, netFill]
  | some p =>
    simp only
    cases hn : netFill (some p) side q with
    | none => simp [applyUpdate, modifyInstr_getElem?, h]
    | some r => obtain ⟨s', q'⟩ := r; simp [applyUpdate, modifyInstr_getElem?, h]

/-- The closing order of an instrument whose position is the result of ANY history of positive fills from flat:
a long net (positive signed sum) is closed by a SELL of exactly the sum, a short net by a BUY of its absolute value,
and a history that nets to zero produces no closing order for that instrument at all. -/
theorem close_request_of_net_history (e : Eng) (f : Filter) (i : Nat) (s : Instr) (p : Rat)
    (fills : List (Side × Rat)) (hq : ∀ g ∈ fills, 0 < g.2)
    (hi : e.instruments[i]? = some s) (hm : f.matches i s = true) (hp : s.price = some p)
    (hpos : s.position = netAll fills none) :
    (0 < signedSum fills → (⟨⟨s.exchange, i, closeCid i⟩, .sell, p, signedSum fills⟩ : OpenReq) ∈ closeRequests e f) ∧
    (signedSum fills < 0 → (⟨⟨s.exchange, i, closeCid i⟩, .buy, p, -signedSum fills⟩ : OpenReq) ∈ closeRequests e f) ∧
    (signedSum fills = 0 → ∀ r ∈ closeRequests e f, r.key.instrument ≠ i) := by
  have hnet := net_position_after_fills fills hq
  refine ⟨fun h => ?_, fun h => ?_, fun h r hr hri => ?_⟩
  · rw [close_scope]
    refine ⟨i, s, .buy, signedSum fills, p, hi, hm, ?_, hp, rfl⟩
    rw [hpos, hnet, if_pos h]
  · rw [close_scope]
    have h0 : ¬ 0 < signedSum fills := by grind
    refine ⟨i, s, .sell, -signedSum fills, p, hi, hm, ?_, hp, rfl⟩
    rw [hpos, hnet, if_neg h0, if_pos h]
  · rw [close_scope] at hr
    obtain ⟨j, s', side, q, p', hj, _, hps, _, rfl⟩ := hr
    simp only at hri
    subst hri
    rw [hi] at hj
    cases hj
    have h1 : ¬ 0 < signedSum fills := by grind
    have h2 : ¬ signedSum fills < 0 := by grind
    rw [hpos, hnet, if_neg h1, if_neg h2] at hps
    cases hps

-- the hypotheses are satisfiable and the arms are all reached: long 3, +2 → long 5; −5 → flat; −7 → short 2
example : netAll [(.buy, 3), (.buy, 2)] none = some (.buy, 5) := by simp [netAll, netFill] <;> grind
example : netAll [(.buy, 3), (.buy, 2), (.sell, 5)] none = none := by simp [netAll, netFill] <;> grind
example : netAll [(.buy, 3), (.sell, 1)] none = some (.buy, 2) := by simp [netAll, netFill] <;> grind
example : netAll [(.buy, 3), (.sell, 7)] none = some (.sell, 4) := by simp [netAll, netFill] <;> grind

/-- **Tie to the source by translation: the instrument filter and the request generators.** `InstrumentFilter` with its three
constructors (barter/src/engine/state/instrument/filter.rs), `InstrumentStates::{filtered, instruments, orders, positions,
tear_sheets, instrument_datas}`, `InstrumentState`, `InstrumentStates` (instrument/mod.rs), `Orders::orders`
(barter/src/engine/state/order/mod.rs), `Order::to_request_cancel` (barter-execution/src/order/mod.rs),
`close_open_positions_with_market_orders` and `build_ioc_market_order_to_close_position` (barter/src/strategy/
close_positions.rs) are regenerated from the current source by `tools/rust2lean_sm.py` on every run
(`Generated/Machines4.lean`, group `filters_actions`): the `IndexMap` of instrument states is iterated in insertion order,
`itertools::Either` is transparent, `OneOrMany::contains` is fixed vocabulary, the `FnvHashMap` of tracked orders yields a
`Rust.Bag` that stays one under `filter_map` (hash order is never observed). For ALL filters, states, orders, positions,
prices and generators: the predicate `filtered` applies IS the model's `Filter.matches` at the index `state.key`
(`filter_none` .. `filter_underlyings` are about it); `filtered` = `instruments` keeps exactly the states the model's
`zipIdx.filter` keeps, in order, when the `i`-th state has key `i` (`KeysArePositions`); per order `to_request_cancel` IS the
model's `toRequestCancel` (the function `cancel_scope`, `cancel_skips_cancel_in_flight` are about) at the order's own key; the
cancel requests of one instrument are a PERMUTATION of the model's `sortByCid`-ordered ones (hash order is not modelled)
when its table is `OrderKeysConsistent`; `build_ioc_market_order_to_close_position` IS the model's closing request
(opposite side, price, `quantity_abs`; `Market` / `ImmediateOrCancel`), and `close_open_positions_with_market_orders`
returns no cancel requests and exactly the model's `closeRequests` (what `close_scope`, `close_one_per_instrument` are
about), in order, under `KeysArePositions`, `PositionKeysConsistent` and `gen_cid = closeCid`. The three consistency
hypotheses are invariants of reachable engine states that the model bakes into its representation. The statement is that of
`KernelsAgree.FiltersActionsSM.filters_actions_agree` (Lemmas/KernelsAgree/FiltersActionsSM.lean). NOT translated:
`cancel_orders` itself (it hands the hash-ordered requests to the ordered consumer `send_requests`: rejected by design),
`close_positions`, `Engine::action`. -/
theorem filters_and_request_generators_agree_with_source :
    type_of% BarterModel.KernelsAgree.FiltersActionsSM.filters_actions_agree :=
  BarterModel.KernelsAgree.FiltersActionsSM.filters_actions_agree

end BarterModel.Props.C19
