import BarterModel.Lemmas.EngineScope
/-!
# C19 — Cancel-orders and close-positions commands act on exactly the filtered scope

`cancelRequests e f` / `closeRequests e f` are the requests `Engine::cancel_orders(filter)` /
`close_open_positions_with_market_orders(filter)` generate in engine state `e`; `action e cmd` is
`Engine::action` (send on the execution links, record in flight). All theorems hold for EVERY engine
state (any number of exchanges / instruments / underlyings, any order tables, positions, prices, link
table) and EVERY filter. Where a theorem needs the hash-map invariant "a client order id occurs at
most once per order table" (`TablesUnique`), that invariant is proved to hold in every state reachable
from empty tables by any history of engine events (`keys_unique_invariant`,
`tables_unique_invariant`). The delivery side (sent ⇒ delivered exactly once on the addressed link,
failed ⇒ not delivered) is C03's (`Props/C03.lean`: `send_requests_partition`,
`process_delivers_exactly_sent`).
-/
namespace BarterModel.Props.C19
open BarterModel.Engine BarterModel.Orders

/-! ## (5) filter semantics -/

/-- `InstrumentFilter::None` selects every instrument -/
theorem filter_none (i : Nat) (s : Instr) : Filter.none.matches i s = true := rfl

/-- `Exchanges(l)` selects exactly the instruments whose exchange is in `l` -/
theorem filter_exchanges (l : List Nat) (i : Nat) (s : Instr) :
    (Filter.exchanges l).matches i s = true ↔ s.exchange ∈ l := by
  simp [Filter.matches]

/-- `Instruments(l)` selects exactly the instruments whose index is in `l` -/
theorem filter_instruments (l : List Nat) (i : Nat) (s : Instr) :
    (Filter.instruments l).matches i s = true ↔ i ∈ l := by
  simp [Filter.matches]

/-- `Underlyings(l)` selects exactly the instruments whose (base, quote) pair is in `l` -/
theorem filter_underlyings (l : List (Nat × Nat)) (i : Nat) (s : Instr) :
    (Filter.underlyings l).matches i s = true ↔ (s.base, s.quote) ∈ l := by
  simp [Filter.matches]

/-- whether an instrument is selected depends on nothing but its index, exchange and underlying -/
theorem filter_ignores_orders_position_price (f : Filter) (i : Nat) (s s' : Instr)
    (hx : s.exchange = s'.exchange) (hb : s.base = s'.base) (hq : s.quote = s'.quote) :
    f.matches i s = f.matches i s' := by
  cases f <;> simp [Filter.matches, hx, hb, hq]

/-! ## (1) cancel-orders: exactly the tracked, not-yet-cancelling orders of the matching instruments -/

/-- A cancel request is generated **iff** it is for a tracked order `(c, o)` of an instrument `i`
selected by the filter whose state is in flight or open (i.e. not already cancel-in-flight); it carries
that order's recorded exchange, instrument `i`, client order id `c`, and the exchange order id
exactly when the order is open (none while the open request is still in flight). -/
theorem cancel_scope (e : Eng) (f : Filter) (r : CancelReq) :
    r ∈ cancelRequests e f ↔
      ∃ i s c o, e.instruments[i]? = some s ∧ f.matches i s = true ∧ (c, o) ∈ s.orders ∧
        r.key = ⟨o.exchange, i, c⟩ ∧
        ((o.state = .inFlight ∧ r.id = none) ∨ (∃ op, o.state = .opn op ∧ r.id = some op.id)) := by
  rw [mem_cancelRequests]
  constructor
  · rintro ⟨i, s, c, o, hs, hf, hco, hr⟩
    exact ⟨i, s, c, o, hs, hf, hco, (toRequestCancel_eq_some i c o r).mp hr⟩
  · rintro ⟨i, s, c, o, hs, hf, hco, hr⟩
    exact ⟨i, s, c, o, hs, hf, hco, (toRequestCancel_eq_some i c o r).mpr hr⟩

/-- The same with the hash-map reading of the table (`lookup`), valid under key-uniqueness: a cancel
request is generated iff the order tracked under its client order id at its instrument is in flight
or open and the instrument is selected. -/
theorem cancel_scope_lookup (e : Eng) (hU : TablesUnique e) (f : Filter) (r : CancelReq) :
    r ∈ cancelRequests e f ↔
      ∃ s o, e.instruments[r.key.instrument]? = some s ∧ f.matches r.key.instrument s = true ∧
        lookup s.orders r.key.cid = some o ∧ r.key.exchange = o.exchange ∧
        ((o.state = .inFlight ∧ r.id = none) ∨ (∃ op, o.state = .opn op ∧ r.id = some op.id)) := by
  rw [cancel_scope]
  constructor
  · rintro ⟨i, s, c, o, hs, hf, hco, hk, hst⟩
    have h1 : r.key.instrument = i := by rw [hk]
    have h2 : r.key.cid = c := by rw [hk]
    have h3 : r.key.exchange = o.exchange := by rw [hk]
    subst h1; subst h2
    exact ⟨s, o, hs, hf, lookup_of_mem _ _ _ (hU _ s hs) hco, h3, hst⟩
  · rintro ⟨s, o, hs, hf, hl, hx, hst⟩
    refine ⟨r.key.instrument, s, r.key.cid, o, hs, hf, mem_of_lookup _ _ _ hl, ?_, hst⟩
    rw [← hx]

/-- An order that is already being cancelled is never addressed again. -/
theorem cancel_skips_cancel_in_flight (e : Eng) (hU : TablesUnique e) (f : Filter) (i c : Nat)
    (o : Order) (x : Option Open) (ho : orderOf e i c = some o) (hst : o.state = .cancelInFlight x) :
    ∀ r ∈ cancelRequests e f, ¬ (r.key.instrument = i ∧ r.key.cid = c) := by
  intro r hr hk
  obtain ⟨s, o', hs, _, hl, _, hst'⟩ := (cancel_scope_lookup e hU f r).mp hr
  rw [hk.1] at hs; rw [hk.2] at hl
  simp only [orderOf, hs, hl, Option.some.injEq] at ho
  subst ho
  rcases hst' with ⟨h, _⟩ | ⟨op, h, _⟩ <;> rw [hst] at h <;> cases h

/-- Each tracked order yields at most one request: no two generated requests address the same
`(instrument, client order id)`. -/
theorem cancel_at_most_once (e : Eng) (hU : TablesUnique e) (f : Filter) :
    ((cancelRequests e f).map CancelReq.orderKey).Nodup := by
  unfold cancelRequests
  apply cancel_flatMap_nodup
  · exact (zipIdx_pairwise e.instruments 0).sublist List.filter_sublist
  · intro si hsi
    have := (List.mem_filter.mp hsi).1
    exact hU si.2 si.1 (List.mem_zipIdx_iff_getElem?.mp this)

/-- Key-uniqueness holds for every order table built from the empty table by any history of
in-flight records, order snapshots and cancel responses. -/
theorem keys_unique_invariant (ops : List Op) : KeysUnique (run [] ops) :=
  keysUnique_run [] ops keysUnique_nil

/-- ... and for all tables of the engine, after any history of engine events (commands, trading-state
updates, account / market updates, shutdown) with any strategy output and risk verdict per tick. -/
theorem tables_unique_invariant (e : Eng) (h : TablesUnique e)
    (ticks : List (Event × List CancelReq × List OpenReq × (Key → Bool))) :
    TablesUnique (ticks.foldl (fun s t => (process s t.1 t.2.1 t.2.2.1 t.2.2.2).1) e) := by
  induction ticks generalizing e with
  | nil => exact h
  | cons t ts ih => exact ih _ (tablesUnique_process e t.1 t.2.1 t.2.2.1 t.2.2.2 h)

/-- a freshly built engine (no tracked orders) satisfies the invariant -/
theorem tables_unique_initial (e : Eng) (h : ∀ s ∈ e.instruments, s.orders = []) : TablesUnique e := by
  intro i s hs
  rw [h s (List.mem_of_getElem? hs)]
  exact keysUnique_nil

/-! ## (2) close-positions: one opposite, equal order per matching instrument with position and price -/

/-- An open request is generated **iff** it is for an instrument `i` selected by the filter that
holds a position `(side, q)` and has a market price `p`; it is addressed to that instrument's
exchange, has the opposite side, the position's quantity, the market price, and the generated
client order id of instrument `i`. -/
theorem close_scope (e : Eng) (f : Filter) (r : OpenReq) :
    r ∈ closeRequests e f ↔
      ∃ i s side q p, e.instruments[i]? = some s ∧ f.matches i s = true ∧
        s.position = some (side, q) ∧ s.price = some p ∧
        r = ⟨⟨s.exchange, i, closeCid i⟩, side.opposite, p, q⟩ :=
  mem_closeRequests e f r

/-- "opposite side" -/
theorem opposite_side : Side.buy.opposite = .sell ∧ Side.sell.opposite = .buy := ⟨rfl, rfl⟩

/-- Exactly one order per such instrument: the instrument indices of the generated requests are
strictly increasing (in particular no instrument is addressed twice). -/
theorem close_one_per_instrument (e : Eng) (f : Filter) :
    ((closeRequests e f).map (·.key.instrument)).Pairwise (· < ·) :=
  closeRequests_sorted e f

theorem close_one_per_instrument_nodup (e : Eng) (f : Filter) :
    ((closeRequests e f).map (·.key.instrument)).Nodup :=
  (close_one_per_instrument e f).imp (fun h => Nat.ne_of_lt h)

/-- the command sends what was generated: cancels of `CancelOrders(f)` / opens of `ClosePositions(f)`
reported as sent are the generated ones with a healthy link, in order; the others are reported as
errors; `ClosePositions` with the default strategy generates no cancels and `CancelOrders` no opens. -/
theorem commands_send_generated (e : Eng) (f : Filter) :
    (action e (.cancelOrders f)).2.cancels.sent = cancelSent e f ∧
    (action e (.cancelOrders f)).2.opens.sent = [] ∧ (action e (.cancelOrders f)).2.opens.errors = [] ∧
    (action e (.closePositions f)).2.opens.sent = closeSent e f ∧
    (action e (.closePositions f)).2.cancels.sent = [] ∧
    (action e (.closePositions f)).2.cancels.errors = [] ∧
    (∀ r err, (r, err) ∈ (action e (.cancelOrders f)).2.cancels.errors ↔
      r ∈ cancelRequests e f ∧ linkResult e.links r.key.exchange = some err) ∧
    (∀ r err, (r, err) ∈ (action e (.closePositions f)).2.opens.errors ↔
      r ∈ closeRequests e f ∧ linkResult e.links r.key.exchange = some err) := by
  refine ⟨rfl, rfl, rfl, rfl, rfl, rfl, ?_, ?_⟩
  · intro r err
    simp only [action, sendRequests, List.mem_filterMap]
    constructor
    · rintro ⟨a, ha, h⟩
      split at h
      · rename_i err' he; injection h with h; injection h with h1 h2; subst h1; subst h2; exact ⟨ha, he⟩
      · cases h
    · rintro ⟨hq, he⟩
      exact ⟨r, hq, by simp [Req.key, he]⟩
  · intro r err
    simp only [action, sendRequests, List.mem_filterMap]
    constructor
    · rintro ⟨a, ha, h⟩
      split at h
      · rename_i err' he; injection h with h; injection h with h1 h2; subst h1; subst h2; exact ⟨ha, he⟩
      · cases h
    · rintro ⟨hq, he⟩
      exact ⟨r, hq, by simp [Req.key, he]⟩

/-! ## (3) everything outside the filter is untouched -/

/-- After `CancelOrders(f)` every instrument not selected by `f` has exactly the state it had
(orders, position, price, everything). -/
theorem outside_untouched_cancel (e : Eng) (f : Filter) (j : Nat) (s : Instr)
    (hs : e.instruments[j]? = some s) (hf : f.matches j s = false) :
    (action e (.cancelOrders f)).1.instruments[j]? = some s := by
  rw [action_cancelOrders_instruments, recordCancels_untouched, hs]
  intro r hr hj
  obtain ⟨i, s', c, o, hs', hf', _, hk⟩ := (mem_cancelRequests e f r).mp (List.mem_filter.mp hr).1
  have := (toRequestCancel_key i (c, o) r hk).1
  rw [this] at hj; subst hj
  rw [hs] at hs'; injection hs' with hs'; subst hs'
  rw [hf] at hf'; cases hf'

/-- After `ClosePositions(f)` every instrument not selected by `f` has exactly the state it had. -/
theorem outside_untouched_close (e : Eng) (f : Filter) (j : Nat) (s : Instr)
    (hs : e.instruments[j]? = some s) (hf : f.matches j s = false) :
    (action e (.closePositions f)).1.instruments[j]? = some s := by
  rw [action_closePositions_instruments, recordOpens_untouched, hs]
  intro r hr hj
  obtain ⟨i, s', side, q, p, hs', hf', _, _, rfl⟩ :=
    (mem_closeRequests e f r).mp (List.mem_filter.mp hr).1
  simp only at hj; subst hj
  rw [hs] at hs'; injection hs' with hs'; subst hs'
  rw [hf] at hf'; cases hf'

/-- Neither command changes the position, the price, the exchange or the underlying of ANY
instrument (selected or not), nor the number of instruments. -/
theorem positions_prices_untouched (e : Eng) (f : Filter) (j : Nat) :
    (((action e (.cancelOrders f)).1.instruments[j]?).map Instr.static =
      (e.instruments[j]?).map Instr.static) ∧
    (((action e (.closePositions f)).1.instruments[j]?).map Instr.static =
      (e.instruments[j]?).map Instr.static) := by
  rw [action_cancelOrders_instruments, action_closePositions_instruments]
  exact ⟨recordCancels_static _ _ _, recordOpens_static _ _ _⟩

/-- Inside the filter, `CancelOrders(f)` changes exactly the orders it sent a cancel for — they become
cancel-in-flight keeping what the exchange last reported — and no other entry of any order table
(whole entry: quantity, price, recorded exchange, state). -/
theorem cancel_command_effect (e : Eng) (f : Filter) (i c : Nat) :
    orderOf (action e (.cancelOrders f)).1 i c =
      if (cancelSent e f).any (fun r => decide (r.key.instrument = i ∧ r.key.cid = c)) then
        (orderOf e i c).map markCancel
      else orderOf e i c := by
  rw [orderOf_congr _ _ (action_cancelOrders_instruments e f), orderOf_recordCancels]

/-! ## (4) repeating the cancel command while the first is in flight requests nothing new -/

/-- General form (any link table): everything the repeated command generates was already generated
by the first one AND could not be delivered then (its execution link was missing or closed). -/
theorem repeat_requests_nothing_new (e : Eng) (hU : TablesUnique e) (f : Filter) (r : CancelReq)
    (hr : r ∈ cancelRequests (action e (.cancelOrders f)).1 f) :
    r ∈ cancelRequests e f ∧ linkResult e.links r.key.exchange ≠ none := by
  obtain ⟨i, s', c, o', hs', hf', hco', hreq⟩ := (mem_cancelRequests _ f r).mp hr
  -- the instrument exists in `e` with the same static part, so it is selected there too
  have hst := (positions_prices_untouched e f i).1
  rw [hs'] at hst
  cases hs : e.instruments[i]? with
  | none => rw [hs] at hst; cases hst
  | some s =>
    rw [hs] at hst
    simp only [Option.map_some, Option.some.injEq] at hst
    have hf : f.matches i s = true := by rw [← matches_congr f i s' s hst]; exact hf'
    -- what the table of the new state holds under `c`
    have hU' : TablesUnique (action e (.cancelOrders f)).1 := tablesUnique_action e _ hU
    have hl' : orderOf (action e (.cancelOrders f)).1 i c = some o' := by
      simp only [orderOf, hs']; exact lookup_of_mem _ _ _ (hU' i s' hs') hco'
    rw [cancel_command_effect] at hl'
    split at hl'
    · -- it was addressed by a delivered cancel: now cancel-in-flight, cannot generate a request
      cases ho : orderOf e i c with
      | none => rw [ho] at hl'; cases hl'
      | some o =>
        rw [ho] at hl'
        simp only [Option.map_some, Option.some.injEq] at hl'
        subst hl'
        simp [toRequestCancel, markCancel] at hreq
    · rename_i hany
      -- untouched entry: the same request was generated the first time
      have hl : lookup s.orders c = some o' := by simpa [orderOf, hs] using hl'
      have hmem : r ∈ cancelRequests e f :=
        (mem_cancelRequests e f r).mpr ⟨i, s, c, o', hs, hf, mem_of_lookup _ _ _ hl, hreq⟩
      refine ⟨hmem, ?_⟩
      intro hlink
      apply hany
      rw [List.any_eq_true]
      refine ⟨r, List.mem_filter.mpr ⟨hmem, by simp [hlink]⟩, ?_⟩
      have := toRequestCancel_key i (c, o') r hreq
      simp [this.1, this.2]

/-- **repeat_idempotent**: if every request the command generates is addressed to a healthy link (so
all are sent), the same command issued again before any response generates nothing. -/
theorem repeat_idempotent (e : Eng) (hU : TablesUnique e) (f : Filter)
    (hH : ∀ r ∈ cancelRequests e f, linkResult e.links r.key.exchange = none) :
    cancelRequests (action e (.cancelOrders f)).1 f = [] := by
  rw [List.eq_nil_iff_forall_not_mem]
  intro r hr
  have := repeat_requests_nothing_new e hU f r hr
  exact this.2 (hH r this.1)

/-- ... hence the repeated command sends nothing, reports nothing, and leaves the delivery log and every
instrument state as they are. -/
theorem repeat_sends_nothing (e : Eng) (hU : TablesUnique e) (f : Filter)
    (hH : ∀ r ∈ cancelRequests e f, linkResult e.links r.key.exchange = none) :
    let e1 := (action e (.cancelOrders f)).1
    (action e1 (.cancelOrders f)).2.cancels.sent = [] ∧
    (action e1 (.cancelOrders f)).2.cancels.errors = [] ∧
    (action e1 (.cancelOrders f)).1.log = e1.log ∧
    (action e1 (.cancelOrders f)).1.instruments = e1.instruments := by
  intro e1
  have h0 : cancelRequests e1 f = [] := repeat_idempotent e hU f hH
  simp [action, sendRequests, h0, recordCancels]

/-! ## non-vacuity -/

/-- two exchanges, three instruments, every order state, long / short / flat, price known / unknown -/
def demo : Eng :=
  { enabled := true, links := [.healthy, .healthy], log := [], disabledCalls := 0,
    instruments := [
      { exchange := 0, base := 0, quote := 3, position := some (.buy, 2), price := some 100,
        orders := [(1, ⟨10, 100, .inFlight, 0⟩), (2, ⟨10, 100, .opn ⟨7, 1, 5⟩, 0⟩),
                   (3, ⟨10, 100, .cancelInFlight none, 0⟩)] },
      { exchange := 1, base := 1, quote := 3, position := some (.sell, 3), price := none,
        orders := [(1, ⟨10, 100, .opn ⟨8, 1, 0⟩, 1⟩)] },
      { exchange := 1, base := 0, quote := 3, position := none, price := some 101, orders := [] } ] }

example : TablesUnique demo := by
  intro i s hs
  match i, hs with
  | 0, hs => injection hs with hs; subst hs; simp [KeysUnique, keys]
  | 1, hs => injection hs with hs; subst hs; simp [KeysUnique, keys]
  | 2, hs => injection hs with hs; subst hs; simp [KeysUnique, keys]
  | (n + 3), hs => simp [demo] at hs

example : cancelRequests demo (.exchanges [0]) = [⟨⟨0, 0, 1⟩, none⟩, ⟨⟨0, 0, 2⟩, some 7⟩] := by decide
example : cancelRequests demo .none =
    [⟨⟨0, 0, 1⟩, none⟩, ⟨⟨0, 0, 2⟩, some 7⟩, ⟨⟨1, 1, 1⟩, some 8⟩] := by decide
example : closeRequests demo (.underlyings [(0, 3)]) = [⟨⟨0, 0, closeCid 0⟩, .sell, 100, 2⟩] := by decide
example : ∀ r ∈ cancelRequests demo .none, linkResult demo.links r.key.exchange = none := by decide
example : cancelRequests (action demo (.cancelOrders .none)).1 .none = [] := by decide
example : (Filter.instruments [1]).matches 0 (demo.instruments[0]!) = false := by decide

end BarterModel.Props.C19
