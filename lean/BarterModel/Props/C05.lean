import BarterModel.Lemmas.Book
import BarterModel.Lemmas.KernelsAgree.Book
/-!
# C05 — the local L2 order book equals a price → amount map after any event sequence

Statements only (proofs are in `Lemmas/Book.lean`). The concrete model (`OrderBook.update`,
`upsert`, `upsertSingle`, `OrderBook.snapshot`, `midPrice`, …) is the one `drv_c05 model` executes;
the abstract side is (a) the function spec `FBook` (`Rat → Rat` per side, `setLevel` = point update,
0 = no level) and (b) its executable form `Spec`/`PMap` which `drv_c05 spec` executes.

Quantifier: *every* finite list of events, each a `Snapshot` or an `Update` carrying arbitrary
level lists (unsorted, duplicates of a price, zero amounts, absent prices: no restriction at all
on updates), starting from any book satisfying the invariant (in particular `OrderBook::default()`).

Hypothesis on snapshots (`WFBook sn` for every `Snapshot(sn)` in the history): the snapshot's sides
are in strict book order and carry no zero amount. `new_wf` discharges it for every snapshot built
by `OrderBook::new` from levels with pairwise distinct prices and non-zero amounts (the documented
precondition, DESIGN §7 C05: the constructor sorts but neither dedups nor drops zeros). Theorems
that need only the order half say so (`SortedBook`).
-/
namespace BarterModel.Props.C05
open BarterModel.Book

/-- every snapshot event of the history carries a well-formed book -/
def WFEvents (evs : List Event) : Prop := ∀ sn, Event.snapshot sn ∈ evs → WFBook sn

/-- every snapshot event of the history carries strictly ordered sides (zero amounts allowed) -/
def SortedEvents (evs : List Event) : Prop := ∀ sn, Event.snapshot sn ∈ evs → SortedBook sn

/-! ## 1. invariant: strict order, no duplicate price, no zero amount -/

/-- After any event sequence bids are strictly descending, asks strictly ascending and no stored
amount is zero. -/
theorem inv {b : OrderBook} (hb : WFBook b) (evs : List Event) (h : WFEvents evs) :
    WFBook (b.run evs) := wfBook_run hb h

/-- … in particular from the default (empty) book the manager starts with. -/
theorem inv_from_default (evs : List Event) (h : WFEvents evs) :
    WFBook (OrderBook.default.run evs) := wfBook_run wfBook_default h

/-- The order half alone needs only ordered snapshots (zero-amount snapshot levels allowed). -/
theorem sorted_inv {b : OrderBook} (hb : SortedBook b) (evs : List Event) (h : SortedEvents evs) :
    SortedBook (b.run evs) := sortedBook_run hb h

/-- Spelled out: bids strictly descending, asks strictly ascending (as `<` on prices of any two
positions `i < j`), and no price appears twice on a side. -/
theorem strictly_ordered {b : OrderBook} (hb : SortedBook b) :
    (∀ i j (hi : i < j) (hj : j < b.bids.length), b.bids[j].price < b.bids[i].price) ∧
    (∀ i j (hi : i < j) (hj : j < b.asks.length), b.asks[i].price < b.asks[j].price) ∧
    (b.bids.map Level.price).Nodup ∧ (b.asks.map Level.price).Nodup := by
  refine ⟨?_, ?_, sorted_prices_nodup hb.bids, sorted_prices_nodup hb.asks⟩
  · intro i j hi hj
    have := (List.pairwise_iff_getElem.mp hb.bids) i j (by omega) hj hi
    simpa [Side.before] using this
  · intro i j hi hj
    have := (List.pairwise_iff_getElem.mp hb.asks) i j (by omega) hj hi
    simpa [Side.before] using this

/-- A snapshot constructed by `OrderBook::new` from levels with pairwise distinct prices and
non-zero amounts (in any order) is well-formed, and holds exactly the given levels. -/
theorem new_wf (seq : Nat) (bids asks : List Level)
    (hb : (bids.map Level.price).Nodup) (ha : (asks.map Level.price).Nodup)
    (zb : NonZero bids) (za : NonZero asks) :
    WFBook (OrderBook.new seq bids asks) ∧
    (OrderBook.new seq bids asks).bids.Perm bids ∧ (OrderBook.new seq bids asks).asks.Perm asks ∧
    (OrderBook.new seq bids asks).sequence = seq :=
  ⟨wfBook_new hb ha zb za, sortLevels_perm _ _, sortLevels_perm _ _, rfl⟩

/-! ## 2. one upsert = one point update of the map; an update event = its changes in list order -/

/-- `upsert_single` on a strictly ordered side is the point update of the denoted function:
amount zero deletes (the function becomes 0 there), any other amount sets it, every other price is
untouched; deleting an absent level changes nothing (`setLevel m p 0 = m` when `m p = 0`). -/
theorem abs_upsertSingle (s : Side) (ls : List Level) (new : Level) (h : Sorted s ls) :
    ∀ q, abs (upsertSingle s new ls) q = if q = new.price then new.amount else abs ls q := by
  intro q; rw [Book.abs_upsertSingle h]; rfl

/-- deleting an absent level is a no-op on the stored list itself (not only on the function) -/
theorem delete_absent_noop (s : Side) (ls : List Level) (new : Level) (h : Sorted s ls)
    (hz : NonZero ls) (hzero : new.amount = 0) (habsent : ∀ l ∈ ls, l.price ≠ new.price) :
    upsertSingle s new ls = ls := by
  apply canonical (sorted_upsertSingle h) h (nonZero_upsertSingle hz) hz
  funext q
  rw [Book.abs_upsertSingle h, setLevel, hzero]
  by_cases hq : q = new.price
  · rw [if_pos hq, hq, abs_eq_zero_of_not_mem habsent]
  · rw [if_neg hq]

/-- a whole update list (any order, duplicates: the later entry wins) -/
theorem abs_upsert (s : Side) (ls update : List Level) (h : Sorted s ls) :
    abs (upsert s ls update) = applyLevels (abs ls) update := Book.abs_upsert h

/-- Refinement to the function spec, for all histories: the functions denoted by the book after
the events are the abstract map after the same events (snapshot = replace, update = point updates
in list order), and so is the sequence. Needs only ordered snapshots. -/
theorem abs_run {b : OrderBook} (hb : SortedBook b) (evs : List Event) (h : SortedEvents evs) :
    absBook (b.run evs) = (absBook b).run evs := absBook_run hb h

/-! ## 3. the book holds *exactly* the levels of the map -/

/-- Two sides satisfying the invariant that denote the same function are the same list: the stored
list is determined by the map. -/
theorem canonical (s : Side) (a b : List Level) (ha : Sorted s a) (hb : Sorted s b)
    (za : NonZero a) (zb : NonZero b) (h : abs a = abs b) : a = b := Book.canonical ha hb za zb h

/-- After any history, a level `(p, a)` is stored on a side iff the abstract map (the fold of the
events over the initial map) has the non-zero amount `a` at `p`. -/
theorem holds_exactly {b : OrderBook} (hb : WFBook b) (evs : List Event) (h : WFEvents evs) (l : Level) :
    (l ∈ (b.run evs).bids ↔ (((absBook b).run evs).bids l.price = l.amount ∧ l.amount ≠ 0)) ∧
    (l ∈ (b.run evs).asks ↔ (((absBook b).run evs).asks l.price = l.amount ∧ l.amount ≠ 0)) := by
  have hw := wfBook_run hb h
  have hr := absBook_run hb.toSortedBook (fun sn hs => (h sn hs).toSortedBook)
  rw [← hr]
  exact ⟨mem_iff_abs hw.bids hw.bidsNonZero l, mem_iff_abs hw.asks hw.asksNonZero l⟩

/-! ## 4. best bid / ask, mid-price, volume-weighted mid-price, depth-limited snapshots, sequence -/

/-- The first bid is the highest-priced point of the bid map's support, with the map's amount. -/
theorem best_bid_is_max {b : OrderBook} (hb : WFBook b) (l : Level) (hl : b.bids.head? = some l) :
    abs b.bids l.price = l.amount ∧ l.amount ≠ 0 ∧ ∀ q, abs b.bids q ≠ 0 → q ≤ l.price := by
  obtain ⟨h1, h2, h3⟩ := head_is_best hb.bids hb.bidsNonZero l hl
  refine ⟨h1, h2, fun q hq => ?_⟩
  rcases h3 q hq with h | h
  · rw [h]; exact Rat.le_refl
  · simp only [Side.before, decide_eq_true_eq] at h; exact Rat.le_of_lt h

/-- The first ask is the lowest-priced point of the ask map's support, with the map's amount. -/
theorem best_ask_is_min {b : OrderBook} (hb : WFBook b) (l : Level) (hl : b.asks.head? = some l) :
    abs b.asks l.price = l.amount ∧ l.amount ≠ 0 ∧ ∀ q, abs b.asks q ≠ 0 → l.price ≤ q := by
  obtain ⟨h1, h2, h3⟩ := head_is_best hb.asks hb.asksNonZero l hl
  refine ⟨h1, h2, fun q hq => ?_⟩
  rcases h3 q hq with h | h
  · rw [h]; exact Rat.le_refl
  · simp only [Side.before, decide_eq_true_eq] at h; exact Rat.le_of_lt h

/-- A side has no best level exactly when its map is empty. -/
theorem no_best_iff_empty {b : OrderBook} (hb : WFBook b) :
    (b.bids.head? = none ↔ ∀ q, abs b.bids q = 0) ∧ (b.asks.head? = none ↔ ∀ q, abs b.asks q = 0) :=
  ⟨head_none_iff hb.bidsNonZero, head_none_iff hb.asksNonZero⟩

/-- Refinement to the *executable* map specification (the one `drv_c05 spec` runs, in which levels
are "the entries sorted by price", the best level is "the entry no other entry beats", and a
depth-`d` snapshot is "the first `d` sorted levels"), for all histories from the default book:
the whole book (sequence, bids, asks), `mid_price`, `volume_weighed_mid_price` and `snapshot(d)`
for every depth are those of the map. -/
theorem refines_spec (evs : List Event) (h : WFEvents evs) :
    let b := OrderBook.default.run evs
    let s := Spec.init.run evs
    b = s.book ∧
    b.midPrice = s.midPrice ∧
    b.volumeWeightedMidPrice = s.volumeWeightedMidPrice ∧
    ∀ d, b.snapshot d = s.snapshot d := by
  have hr := refines_run refines_init h
  exact ⟨hr.book_eq, hr.midPrice_eq, hr.vwMidPrice_eq, hr.snapshot_eq⟩

/-- The same from any start: a book and a map that agree keep agreeing, on every observable. -/
theorem refines_spec_from {b : OrderBook} {s : Spec} (h0 : Refines b s) (evs : List Event)
    (h : WFEvents evs) :
    b.run evs = (s.run evs).book ∧
    (b.run evs).midPrice = (s.run evs).midPrice ∧
    (b.run evs).volumeWeightedMidPrice = (s.run evs).volumeWeightedMidPrice ∧
    ∀ d, (b.run evs).snapshot d = (s.run evs).snapshot d := by
  have hr := refines_run h0 h
  exact ⟨hr.book_eq, hr.midPrice_eq, hr.vwMidPrice_eq, hr.snapshot_eq⟩

/-- `snapshot(depth)` of an ordered book is the first `depth` levels of each side (re-sorting in
the constructor changes nothing), with the same sequence; it is again well-formed. -/
theorem snapshot_depth {b : OrderBook} (hb : WFBook b) (d : Nat) :
    b.snapshot d = ⟨b.sequence, b.bids.take d, b.asks.take d⟩ ∧ WFBook (b.snapshot d) := by
  have he := snapshot_eq hb.toSortedBook d
  refine ⟨he, ?_⟩
  rw [he]
  exact { bids := sorted_take hb.bids d, asks := sorted_take hb.asks d,
          bidsNonZero := fun l hl => hb.bidsNonZero l (List.mem_of_mem_take hl),
          asksNonZero := fun l hl => hb.asksNonZero l (List.mem_of_mem_take hl) }

/-- The book's sequence is that of the last applied event (no hypothesis at all). -/
theorem sequence_last (b : OrderBook) (evs : List Event) :
    (b.run evs).sequence = (evs.getLast?.map (·.book.sequence)).getD b.sequence := sequence_run b evs

/-! ## 5. the manager applies each instrument's events to that instrument's book only -/

/-- After any stream, every configured book is its initial book run over exactly the items
addressed to its key, in stream order; reconnecting notices and items for non-configured keys
change nothing. -/
theorem manager_applies_per_instrument (books : Books) (stream : List StreamEvent) :
    managerRun books stream = books.map (fun kb => (kb.1, kb.2.run (eventsFor kb.1 stream))) :=
  managerRun_eq books stream

/-! ## Non-vacuity: the hypotheses are satisfiable by non-trivial values, conclusions are not
trivially true -/

/-- a well-formed snapshot -/
def exSnap : OrderBook := ⟨5, [⟨101, 2⟩, ⟨100, 1⟩], [⟨102, 3/2⟩, ⟨103, 1⟩]⟩

/-- an update with a duplicate price (99: the later entry wins), a delete of a present level (101,
102), a delete of an absent level (50), inserts at the back (99 for bids, 104 for asks) and at the
front (101.5 for asks) -/
def exUpd : OrderBook :=
  ⟨6, [⟨101, 0⟩, ⟨99, 3⟩, ⟨99, 4⟩, ⟨50, 0⟩], [⟨203/2, 7⟩, ⟨104, 1⟩, ⟨102, 0⟩]⟩

example : WFBook exSnap := by
  refine { bids := ?_, asks := ?_, bidsNonZero := ?_, asksNonZero := ?_ } <;> decide +kernel

example : WFEvents [.snapshot exSnap, .update exUpd] := by
  intro sn h
  simp only [List.mem_cons, Event.snapshot.injEq, reduceCtorEq, List.not_mem_nil, or_false] at h
  subst h
  refine { bids := ?_, asks := ?_, bidsNonZero := ?_, asksNonZero := ?_ } <;> decide +kernel

example : OrderBook.default.run [.snapshot exSnap, .update exUpd] =
    ⟨6, [⟨100, 1⟩, ⟨99, 4⟩], [⟨203/2, 7⟩, ⟨103, 1⟩, ⟨104, 1⟩]⟩ := by decide +kernel

example : (OrderBook.default.run [.snapshot exSnap, .update exUpd]).midPrice = some (403/4) := by
  decide +kernel

/-- the hypotheses of `new_wf` hold for an unsorted input -/
example : (([⟨100, 1⟩, ⟨101, 2⟩] : List Level).map Level.price).Nodup ∧
    NonZero ([⟨100, 1⟩, ⟨101, 2⟩] : List Level) := by decide +kernel

/-- the order hypothesis of `abs_upsertSingle` is necessary: on an unordered side the scan misses
the level (this is also why snapshots must be ordered) -/
example : abs (upsertSingle .asks ⟨1, 0⟩ [⟨2, 1⟩, ⟨1, 1⟩]) 1 ≠ 0 := by decide +kernel

/-- **Tie to the source by translation.** The two top-of-book price kernels (`mid_price`,
`volume_weighted_mid_price`, the free functions of `barter-data/src/books/mod.rs`) are regenerated
from the current source by `tools/rust2lean.py` on every run, and the generated definitions equal the
model's for all arguments (`levelOf` is the field-by-field bijection between the model's `Level` and
the one translated from `struct Level`). A change of one of them in the source makes this theorem
fail to build. -/
theorem kernels_agree_with_source :
    (∀ bestBidPrice bestAskPrice : Rat,
        BarterModel.Generated.mid_price bestBidPrice bestAskPrice = midPrice bestBidPrice bestAskPrice)
    ∧ (∀ bestBid bestAsk : Level,
        BarterModel.Generated.volume_weighted_mid_price (BarterModel.KernelsAgree.levelOf bestBid)
            (BarterModel.KernelsAgree.levelOf bestAsk)
          = volumeWeightedMidPrice bestBid bestAsk)
    ∧ (∀ l, BarterModel.KernelsAgree.levelTo (BarterModel.KernelsAgree.levelOf l) = l)
    ∧ (∀ l, BarterModel.KernelsAgree.levelOf (BarterModel.KernelsAgree.levelTo l) = l) :=
  BarterModel.KernelsAgree.book_kernels_agree

end BarterModel.Props.C05
