import BarterModel.Lemmas.Book
import BarterModel.Lemmas.Review2_C05
import BarterModel.Lemmas.KernelsAgree.Book
/-!
# C05 — the local L2 order book equals a price → amount map after any event sequence

Statements only (proofs are in `Lemmas/Book.lean`). The concrete model (`OrderBook.update`,
`upsert`, `upsertSingle`, `OrderBook.snapshot`, `midPrice`, …) is the one `drv_c05 model` executes;
the abstract side is (a) the function spec `FBook` (`Rat → Rat` per side, `setLevel` = point update,
0 = no level) and (b) its executable form `Spec`/`PMap` which `drv_c05 spec` executes.

Quantifier: *every* finite list of events, each a `Snapshot` or an `Update` carrying arbitrary
level lists (unsorted, duplicates of a price, zero amounts, absent prices: no restriction at all
on updates), starting from any book satisfying the invariant (in particular `OrderBook::default()`).

Hypothesis on snapshots (`WFBook sn` for every `Snapshot(sn)` in the history): the snapshot's sides
are in strict book order and carry no zero amount. `new_wf` discharges it for every snapshot built
by `OrderBook::new` from levels with pairwise distinct prices and non-zero amounts (the documented
precondition, DESIGN §7 C05: the constructor sorts but neither dedups nor drops zeros). Theorems
that need only the order half say so (`SortedBook`).
-/
namespace BarterModel.Props.C05
open BarterModel.Book

/-- every snapshot event of the history carries a well-formed book -/
def WFEvents (evs : List Event) : Prop := ∀ sn, Event.snapshot sn ∈ evs → WFBook sn

/-- every snapshot event of the history carries strictly ordered sides (zero amounts allowed) -/
def SortedEvents (evs : List Event) : Prop := ∀ sn, Event.snapshot sn ∈ evs → SortedBook sn

/-! ## 1. invariant: strict order, no duplicate price, no zero amount -/

/-- After any event sequence bids are strictly descending, asks strictly ascending and no stored
amount is zero. -/
theorem inv {b : OrderBook} (hb : WFBook b) (evs : List Event) (h : WFEvents evs) :
    WFBook (b.run evs) := wfBook_run hb h

/-- … in particular from the default (empty) book the manager starts with. -/
theorem inv_from_default (evs : List Event) (h : WFEvents evs) :
    WFBook (OrderBook.default.run evs) := wfBook_run wfBook_default h

/-- The order half alone needs only ordered snapshots (zero-amount snapshot levels allowed). -/
theorem sorted_inv {b : OrderBook} (hb : SortedBook b) (evs : List Event) (h : SortedEvents evs) :
    SortedBook (b.run evs) := sortedBook_run hb h

/-- Spelled out: bids strictly descending, asks strictly ascending (as `<` on prices of any two
positions `i < j`), and no price appears twice on a side. -/
theorem strictly_ordered {b : OrderBook} (hb : SortedBook b) :
    (∀ i j (hi : i < j) (hj : j < b.bids.length), b.bids[j].price < b.bids[i].price) ∧
    (∀ i j (hi : i < j) (hj : j < b.asks.length), b.asks[i].price < b.asks[j].price) ∧
    (b.bids.map Level.price).Nodup ∧ (b.asks.map Level.price).Nodup := by
  refine ⟨?_, ?_, sorted_prices_nodup hb.bids, sorted_prices_nodup hb.asks⟩
  · intro i j hi hj
    have := (List.pairwise_iff_getElem.mp hb.bids) i j (by omega) hj hi
    simpa [Side.before] using this
  · intro i j hi hj
    have := (List.pairwise_iff_getElem.mp hb.asks) i j (by omega) hj hi
    simpa [Side.before] using this

/-- A snapshot constructed by `OrderBook::new` from levels with pairwise distinct prices and
non-zero amounts (in any order) is well-formed, and holds exactly the given levels. -/
theorem new_wf (seq : Nat) (bids asks : List Level)
    (hb : (bids.map Level.price).Nodup) (ha : (asks.map Level.price).Nodup)
    (zb : NonZero bids) (za : NonZero asks) :
    WFBook (OrderBook.new seq bids asks) ∧
    (OrderBook.new seq bids asks).bids.Perm bids ∧ (OrderBook.new seq bids asks).asks.Perm asks ∧
    (OrderBook.new seq bids asks).sequence = seq :=
  ⟨wfBook_new hb ha zb za, sortLevels_perm _ _, sortLevels_perm _ _, rfl⟩

/-! ## 2. one upsert = one point update of the map; an update event = its changes in list order -/

/-- `upsert_single` on a strictly ordered side is the point update of the denoted function:
amount zero deletes (the function becomes 0 there), any other amount sets it, every other price is
untouched; deleting an absent level changes nothing (`setLevel m p 0 = m` when `m p = 0`). -/
theorem abs_upsertSingle (s : Side) (ls : List Level) (new : Level) (h : Sorted s ls) :
    ∀ q, abs (upsertSingle s new ls) q = if q = new.price then new.amount else abs ls q := by
  intro q; rw [Book.abs_upsertSingle h]; rfl

/-- deleting an absent level is a no-op on the stored list itself (not only on the function) -/
theorem delete_absent_noop (s : Side) (ls : List Level) (new : Level) (h : Sorted s ls)
    (hz : NonZero ls) (hzero : new.amount = 0) (habsent : ∀ l ∈ ls, l.price ≠ new.price) :
    upsertSingle s new ls = ls := by
  apply canonical (sorted_upsertSingle h) h (nonZero_upsertSingle hz) hz
  funext q
  rw [Book.abs_upsertSingle h, setLevel, hzero]
  by_cases hq : q = new.price
  · rw [if_pos hq, hq, abs_eq_zero_of_not_mem habsent]
  · rw [if_neg hq]

/-- a whole update list (any order, duplicates: the later entry wins) -/
theorem abs_upsert (s : Side) (ls update : List Level) (h : Sorted s ls) :
    abs (upsert s ls update) = applyLevels (abs ls) update := Book.abs_upsert h

/-- Refinement to the function spec, for all histories: the functions denoted by the book after
the events are the abstract map after the same events (snapshot = replace, update = point updates
in list order), and so is the sequence. Needs only ordered snapshots. -/
theorem abs_run {b : OrderBook} (hb : SortedBook b) (evs : List Event) (h : SortedEvents evs) :
    absBook (b.run evs) = (absBook b).run evs := absBook_run hb h

/-! ## 3. the book holds *exactly* the levels of the map -/

/-- Two sides satisfying the invariant that denote the same function are the same list: the stored
list is determined by the map. -/
theorem canonical (s : Side) (a b : List Level) (ha : Sorted s a) (hb : Sorted s b)
    (za : NonZero a) (zb : NonZero b) (h : abs a = abs b) : a = b := Book.canonical ha hb za zb h

/-- After any history, a level `(p, a)` is stored on a side iff the abstract map (the fold of the
events over the initial map) has the non-zero amount `a` at `p`. -/
theorem holds_exactly {b : OrderBook} (hb : WFBook b) (evs : List Event) (h : WFEvents evs) (l : Level) :
    (l ∈ (b.run evs).bids ↔ (((absBook b).run evs).bids l.price = l.amount ∧ l.amount ≠ 0)) ∧
    (l ∈ (b.run evs).asks ↔ (((absBook b).run evs).asks l.price = l.amount ∧ l.amount ≠ 0)) := by
  have hw := wfBook_run hb h
  have hr := absBook_run hb.toSortedBook (fun sn hs => (h sn hs).toSortedBook)
  rw [← hr]
  exact ⟨mem_iff_abs hw.bids hw.bidsNonZero l, mem_iff_abs hw.asks hw.asksNonZero l⟩

/-! ## 4. best bid / ask, mid-price, volume-weighted mid-price, depth-limited snapshots, sequence -/

/-- The first bid is the highest-priced point of the bid map's support, with the map's amount. -/
theorem best_bid_is_max {b : OrderBook} (hb : WFBook b) (l : Level) (hl : b.bids.head? = some l) :
    abs b.bids l.price = l.amount ∧ l.amount ≠ 0 ∧ ∀ q, abs b.bids q ≠ 0 → q ≤ l.price := by
  obtain ⟨h1, h2, h3⟩ := head_is_best hb.bids hb.bidsNonZero l hl
  refine ⟨h1, h2, fun q hq => ?_⟩
  rcases h3 q hq with h | h
  · rw [h]; exact Rat.le_refl
  · simp only [Side.before, decide_eq_true_eq] at h; exact Rat.le_of_lt h

/-- The first ask is the lowest-priced point of the ask map's support, with the map's amount. -/
theorem best_ask_is_min {b : OrderBook} (hb : WFBook b) (l : Level) (hl : b.asks.head? = some l) :
    abs b.asks l.price = l.amount ∧ l.amount ≠ 0 ∧ ∀ q, abs b.asks q ≠ 0 → l.price ≤ q := by
  obtain ⟨h1, h2, h3⟩ := head_is_best hb.asks hb.asksNonZero l hl
  refine ⟨h1, h2, fun q hq => ?_⟩
  rcases h3 q hq with h | h
  · rw [h]; exact Rat.le_refl
  · simp only [Side.before, decide_eq_true_eq] at h; exact Rat.le_of_lt h

/-- A side has no best level exactly when its map is empty. -/
theorem no_best_iff_empty {b : OrderBook} (hb : WFBook b) :
    (b.bids.head? = none ↔ ∀ q, abs b.bids q = 0) ∧ (b.asks.head? = none ↔ ∀ q, abs b.asks q = 0) :=
  ⟨head_none_iff hb.bidsNonZero, head_none_iff hb.asksNonZero⟩

/-- Refinement to the *executable* map specification (the one `drv_c05 spec` runs, in which levels
are "the entries sorted by price", the best level is "the entry no other entry beats", and a
depth-`d` snapshot is "the first `d` sorted levels"), for all histories from the default book:
the whole book (sequence, bids, asks), `mid_price`, `volume_weighed_mid_price` and `snapshot(d)`
for every depth are those of the map. -/
theorem refines_spec (evs : List Event) (h : WFEvents evs) :
    let b := OrderBook.default.run evs
    let s := Spec.init.run evs
    b = s.book ∧
    b.midPrice = s.midPrice ∧
    b.volumeWeightedMidPrice = s.volumeWeightedMidPrice ∧
    ∀ d, b.snapshot d = s.snapshot d := by
  have hr := refines_run refines_init h
  exact ⟨hr.book_eq, hr.midPrice_eq, hr.vwMidPrice_eq, hr.snapshot_eq⟩

/-- The same from any start: a book and a map that agree keep agreeing, on every observable. -/
theorem refines_spec_from {b : OrderBook} {s : Spec} (h0 : Refines b s) (evs : List Event)
    (h : WFEvents evs) :
    b.run evs = (s.run evs).book ∧
    (b.run evs).midPrice = (s.run evs).midPrice ∧
    (b.run evs).volumeWeightedMidPrice = (s.run evs).volumeWeightedMidPrice ∧
    ∀ d, (b.run evs).snapshot d = (s.run evs).snapshot d := by
  have hr := refines_run h0 h
  exact ⟨hr.book_eq, hr.midPrice_eq, hr.vwMidPrice_eq, hr.snapshot_eq⟩

/-- `snapshot(depth)` of an ordered book is the first `depth` levels of each side (re-sorting in
the constructor changes nothing), with the same sequence; it is again well-formed. -/
theorem snapshot_depth {b : OrderBook} (hb : WFBook b) (d : Nat) :
    b.snapshot d = ⟨b.sequence, b.bids.take d, b.asks.take d⟩ ∧ WFBook (b.snapshot d) := by
  have he := snapshot_eq hb.toSortedBook d
  refine ⟨he, ?_⟩
  rw [he]
  exact { bids := sorted_take hb.bids d, asks := sorted_take hb.asks d,
          bidsNonZero := fun l hl => hb.bidsNonZero l (List.mem_of_mem_take hl),
          asksNonZero := fun l hl => hb.asksNonZero l (List.mem_of_mem_take hl) }

/-- The book's sequence is that of the last applied event (no hypothesis at all). -/
theorem sequence_last (b : OrderBook) (evs : List Event) :
    (b.run evs).sequence = (evs.getLast?.map (·.book.sequence)).getD b.sequence := sequence_run b evs

/-! ## 5. the manager applies each instrument's events to that instrument's book only -/

/-- After any stream, every configured book is its initial book run over exactly the items
addressed to its key, in stream order; reconnecting notices and items for non-configured keys
change nothing. -/
theorem manager_applies_per_instrument (books : Books) (stream : List StreamEvent) :
    managerRun books stream = books.map (fun kb => (kb.1, kb.2.run (eventsFor kb.1 stream))) :=
  managerRun_eq books stream

/-! ## Non-vacuity: the hypotheses are satisfiable by non-trivial values, conclusions are not
trivially true -/

/-- a well-formed snapshot -/
def exSnap : OrderBook := ⟨5, [⟨101, 2⟩, ⟨100, 1⟩], [⟨102, 3/2⟩, ⟨103, 1⟩]⟩

/-- an update with a duplicate price (99: the later entry wins), a delete of a present level (101,
102), a delete of an absent level (50), inserts at the back (99 for bids, 104 for asks) and at the
front (101.5 for asks) -/
def exUpd : OrderBook :=
  ⟨6, [⟨101, 0⟩, ⟨99, 3⟩, ⟨99, 4⟩, ⟨50, 0⟩], [⟨203/2, 7⟩, ⟨104, 1⟩, ⟨102, 0⟩]⟩

example : WFBook exSnap := by
  refine { bids := ?_, asks := ?_, bidsNonZero := ?_, asksNonZero := ?_ } <;> decide +kernel

example : WFEvents [.snapshot exSnap, .update exUpd] := by
  intro sn h
  simp only [List.mem_cons, Event.snapshot.injEq, reduceCtorEq, List.not_mem_nil, or_false] at h
  subst h
  refine { bids := ?_, asks := ?_, bidsNonZero := ?_, asksNonZero := ?_ } <;> decide +kernel

example : OrderBook.default.run [.snapshot exSnap, .update exUpd] =
    ⟨6, [⟨100, 1⟩, ⟨99, 4⟩], [⟨203/2, 7⟩, ⟨103, 1⟩, ⟨104, 1⟩]⟩ := by decide +kernel

example : (OrderBook.default.run [.snapshot exSnap, .update exUpd]).midPrice = some (403/4) := by
  decide +kernel

/-- the hypotheses of `new_wf` hold for an unsorted input -/
example : (([⟨100, 1⟩, ⟨101, 2⟩] : List Level).map Level.price).Nodup ∧
    NonZero ([⟨100, 1⟩, ⟨101, 2⟩] : List Level) := by decide +kernel

/-- the order hypothesis of `abs_upsertSingle` is necessary: on an unordered side the scan misses
the level (this is also why snapshots must be ordered) -/
example : abs (upsertSingle .asks ⟨1, 0⟩ [⟨2, 1⟩, ⟨1, 1⟩]) 1 ≠ 0 := by decide +kernel

/-- **Tie to the source by translation.** The two top-of-book price kernels (`mid_price`,
`volume_weighted_mid_price`, the free functions of `barter-data/src/books/mod.rs`) are regenerated
from the current source by `tools/rust2lean.py` on every run, and the generated definitions equal the
model's for all arguments (`levelOf` is the field-by-field bijection between the model's `Level` and
the one translated from `struct Level`). A change of one of them in the source makes this theorem
fail to build. -/
theorem kernels_agree_with_source :
    (∀ bestBidPrice bestAskPrice : Rat,
        BarterModel.Generated.mid_price bestBidPrice bestAskPrice = midPrice bestBidPrice bestAskPrice)
    ∧ (∀ bestBid bestAsk : Level,
        BarterModel.Generated.volume_weighted_mid_price (BarterModel.KernelsAgree.levelOf bestBid)
            (BarterModel.KernelsAgree.levelOf bestAsk)
          = volumeWeightedMidPrice bestBid bestAsk)
    ∧ (∀ l, BarterModel.KernelsAgree.levelTo (BarterModel.KernelsAgree.levelOf l) = l)
    ∧ (∀ l, BarterModel.KernelsAgree.levelOf (BarterModel.KernelsAgree.levelTo l) = l) :=
  BarterModel.KernelsAgree.book_kernels_agree

/-! ## Review 2 (audit/report_C01-C05.md, section C05): the side lemma that makes the
`volume_weighed_mid_price` clause non-vacuous, history versions of the single-state lemmas,
`delete_absent_noop` under its minimal hypothesis, and witnesses of the excluded snapshots -/

/-! ### volume-weighted mid-price: a genuine quotient when the total amount is non-zero -/

/-- Side lemma for the `volume_weighed_mid_price` clause (review C05-F2). `Rat` division is total
(`x / 0 = 0`), `Decimal` division panics (`books/mod.rs:310-311`), so the equalities of
`refines_spec` say something about the code only where the divisor is non-zero. This theorem states
the value explicitly: for ANY book whose best bid is `bb` and best ask is `ba` with
`bb.amount + ba.amount ≠ 0`, the result is the documented quotient
`(bidPrice·askAmount + askPrice·bidAmount) / (bidAmount + askAmount)` and it is the genuine
quotient — the unique `v` with `v · (bidAmount + askAmount) = bidPrice·askAmount + askPrice·bidAmount`
(the last conjunct is false for the totalised `x / 0 = 0` unless the numerator vanishes). -/
theorem vwmid_is_documented_quotient {b : OrderBook} {bb ba : Level}
    (hb : b.bids.head? = some bb) (ha : b.asks.head? = some ba) (hne : bb.amount + ba.amount ≠ 0) :
    b.volumeWeightedMidPrice =
      some ((bb.price * ba.amount + ba.price * bb.amount) / (bb.amount + ba.amount)) ∧
    (bb.price * ba.amount + ba.price * bb.amount) / (bb.amount + ba.amount) * (bb.amount + ba.amount)
      = bb.price * ba.amount + ba.price * bb.amount ∧
    ∀ v : Rat, v * (bb.amount + ba.amount) = bb.price * ba.amount + ba.price * bb.amount →
      b.volumeWeightedMidPrice = some v := by
  have h0 : b.volumeWeightedMidPrice =
      some ((bb.price * ba.amount + ba.price * bb.amount) / (bb.amount + ba.amount)) := by
    simp only [OrderBook.volumeWeightedMidPrice, hb, ha, Book.volumeWeightedMidPrice]
  refine ⟨h0, Rat.div_mul_cancel hne, fun v hv => ?_⟩
  rw [h0, ← hv, Rat.mul_div_cancel hne]

/-- Sufficient condition, single state: on a book satisfying the invariant whose stored amounts are
all `≥ 0` (hence `> 0`), the divisor of the volume-weighted mid-price is non-zero (indeed positive),
so `Rat`'s `x / 0 = 0` is never used and the `Decimal` division does not panic on a zero divisor.
Review C05-F2 (`vw_divisor_ne_zero` of the reviewer's `C05_c.lean`). -/
theorem vwmid_divisor_ne_zero {b : OrderBook} (hw : WFBook b)
    (hnb : ∀ l ∈ b.bids, 0 ≤ l.amount) (hna : ∀ l ∈ b.asks, 0 ≤ l.amount)
    {bb ba : Level} (hb : b.bids.head? = some bb) (ha : b.asks.head? = some ba) :
    0 < bb.amount + ba.amount ∧ bb.amount + ba.amount ≠ 0 := by
  have m1 : bb ∈ b.bids := List.mem_of_head? hb
  have m2 : ba ∈ b.asks := List.mem_of_head? ha
  have := hw.bidsNonZero bb m1
  have := hw.asksNonZero ba m2
  have := hnb bb m1
  have := hna ba m2
  constructor <;> grind

/-- every level carried by every event of the history (snapshot levels and update levels, both
sides) has an amount `≥ 0`; zero amounts (deletes) are allowed in updates -/
def NonNegEvents (evs : List Event) : Prop := ∀ ev ∈ evs, ev.NonNeg

/-- Sufficient condition, history version: after ANY history from the default book whose snapshots
are well-formed and whose levels all carry amounts `≥ 0` (what a venue sends: an amount is a
quantity; `0` = delete), every stored amount is strictly positive. -/
theorem amounts_positive_history (evs : List Event) (h : WFEvents evs) (hn : NonNegEvents evs) :
    (∀ l ∈ (OrderBook.default.run evs).bids, 0 < l.amount) ∧
    (∀ l ∈ (OrderBook.default.run evs).asks, 0 < l.amount) :=
  let hp := posBook_run posBook_default hn h
  ⟨hp.bids, hp.asks⟩

/-- The `volume_weighed_mid_price` clause, non-vacuous, for all such histories: when both sides are
non-empty the divisor is positive and the value is the genuine documented quotient of the best
levels (which are the map's best levels, `best_bid_is_max_history` / `best_ask_is_min_history`).
Review C05-F2. -/
theorem vwmid_history (evs : List Event) (h : WFEvents evs) (hn : NonNegEvents evs) {bb ba : Level}
    (hb : (OrderBook.default.run evs).bids.head? = some bb)
    (ha : (OrderBook.default.run evs).asks.head? = some ba) :
    0 < bb.amount + ba.amount ∧
    (OrderBook.default.run evs).volumeWeightedMidPrice =
      some ((bb.price * ba.amount + ba.price * bb.amount) / (bb.amount + ba.amount)) ∧
    (bb.price * ba.amount + ba.price * bb.amount) / (bb.amount + ba.amount) * (bb.amount + ba.amount)
      = bb.price * ba.amount + ba.price * bb.amount := by
  obtain ⟨h1, h2⟩ := amounts_positive_history evs h hn
  have hd := vwmid_divisor_ne_zero (inv_from_default evs h)
    (fun l hl => Rat.le_of_lt (h1 l hl)) (fun l hl => Rat.le_of_lt (h2 l hl)) hb ha
  obtain ⟨q1, q2, _⟩ := vwmid_is_documented_quotient hb ha hd.2
  exact ⟨hd.1, q1, q2⟩

/-- **Witness of the zero-divisor point** (review C05-F2): best bid `100:1`, best ask `101:-1`
(negative amounts are storable: `upsert_single` only tests `is_zero()`), reached by a single
`Update` from the default book (no snapshot, so `WFEvents` holds vacuously) or by a well-formed
snapshot. The total amount is `0`; the Lean model answers `some 0` (`Rat`: `x / 0 = 0`) and so does
the specification, hence `refines_spec` holds — while the code panics on the `Decimal` division
(`books/mod.rs:310-311`). Outside `NonNegEvents`; inside, `vwmid_history` applies. -/
theorem vwmid_zero_divisor_witness :
    WFEvents [.update ⟨1, [⟨100, 1⟩], [⟨101, -1⟩]⟩] ∧
    (OrderBook.default.run [.update ⟨1, [⟨100, 1⟩], [⟨101, -1⟩]⟩]).bids = [⟨100, 1⟩] ∧
    (OrderBook.default.run [.update ⟨1, [⟨100, 1⟩], [⟨101, -1⟩]⟩]).asks = [⟨101, -1⟩] ∧
    (1 : Rat) + (-1) = 0 ∧
    (OrderBook.default.run [.update ⟨1, [⟨100, 1⟩], [⟨101, -1⟩]⟩]).volumeWeightedMidPrice = some 0 ∧
    (Spec.init.run [.update ⟨1, [⟨100, 1⟩], [⟨101, -1⟩]⟩]).volumeWeightedMidPrice = some 0 ∧
    WFBook ⟨1, [⟨100, 1⟩], [⟨101, -1⟩]⟩ ∧
    (OrderBook.default.run [.snapshot ⟨1, [⟨100, 1⟩], [⟨101, -1⟩]⟩]).volumeWeightedMidPrice = some 0 := by
  refine ⟨?_, by decide +kernel, by decide +kernel, by decide +kernel, by decide +kernel,
    by decide +kernel, ?_, by decide +kernel⟩
  · intro sn h
    simp only [List.mem_cons, reduceCtorEq, List.not_mem_nil, or_false] at h
  · refine { bids := ?_, asks := ?_, bidsNonZero := ?_, asksNonZero := ?_ } <;> decide +kernel

/-! ### history versions of the single-state lemmas -/

/-- `best_bid_is_max` for histories (review C05 LOW): after any history of well-formed snapshots and
unrestricted updates from the default book, the first stored bid is the highest-priced point of the
support of the abstract bid map (the fold of the events), with the map's amount. -/
theorem best_bid_is_max_history (evs : List Event) (h : WFEvents evs) (l : Level)
    (hl : (OrderBook.default.run evs).bids.head? = some l) :
    ((absBook OrderBook.default).run evs).bids l.price = l.amount ∧ l.amount ≠ 0 ∧
    ∀ q, ((absBook OrderBook.default).run evs).bids q ≠ 0 → q ≤ l.price := by
  have hr := abs_run (b := OrderBook.default) wfBook_default.toSortedBook evs
    (fun sn hs => (h sn hs).toSortedBook)
  rw [← hr]
  exact best_bid_is_max (inv_from_default evs h) l hl

/-- `best_ask_is_min` for histories (review C05 LOW): the first stored ask is the lowest-priced point
of the support of the abstract ask map after the same events, with the map's amount. -/
theorem best_ask_is_min_history (evs : List Event) (h : WFEvents evs) (l : Level)
    (hl : (OrderBook.default.run evs).asks.head? = some l) :
    ((absBook OrderBook.default).run evs).asks l.price = l.amount ∧ l.amount ≠ 0 ∧
    ∀ q, ((absBook OrderBook.default).run evs).asks q ≠ 0 → l.price ≤ q := by
  have hr := abs_run (b := OrderBook.default) wfBook_default.toSortedBook evs
    (fun sn hs => (h sn hs).toSortedBook)
  rw [← hr]
  exact best_ask_is_min (inv_from_default evs h) l hl

/-- `no_best_iff_empty` for histories: a side of the book has no best level exactly when the abstract
map of that side is empty after the same events. -/
theorem no_best_iff_empty_history (evs : List Event) (h : WFEvents evs) :
    ((OrderBook.default.run evs).bids.head? = none ↔
      ∀ q, ((absBook OrderBook.default).run evs).bids q = 0) ∧
    ((OrderBook.default.run evs).asks.head? = none ↔
      ∀ q, ((absBook OrderBook.default).run evs).asks q = 0) := by
  have hr := abs_run (b := OrderBook.default) wfBook_default.toSortedBook evs
    (fun sn hs => (h sn hs).toSortedBook)
  rw [← hr]
  exact no_best_iff_empty (inv_from_default evs h)

/-- `strictly_ordered` for histories (needs ordered snapshots only): after any such history bids are
strictly descending, asks strictly ascending, and no price appears twice on a side. -/
theorem strictly_ordered_history (evs : List Event) (h : SortedEvents evs) :
    let b := OrderBook.default.run evs
    (∀ i j (hi : i < j) (hj : j < b.bids.length), b.bids[j].price < b.bids[i].price) ∧
    (∀ i j (hi : i < j) (hj : j < b.asks.length), b.asks[i].price < b.asks[j].price) ∧
    (b.bids.map Level.price).Nodup ∧ (b.asks.map Level.price).Nodup :=
  strictly_ordered (sorted_inv wfBook_default.toSortedBook evs h)

/-- `snapshot_depth` for histories: after any history with well-formed snapshots, `snapshot(d)` is
the first `d` levels of each side with the same sequence, and is well-formed. -/
theorem snapshot_depth_history (evs : List Event) (h : WFEvents evs) (d : Nat) :
    let b := OrderBook.default.run evs
    b.snapshot d = ⟨b.sequence, b.bids.take d, b.asks.take d⟩ ∧ WFBook (b.snapshot d) :=
  snapshot_depth (inv_from_default evs h) d

/-! ### deleting an absent level, minimal hypothesis -/

/-- `delete_absent_noop` with NO hypothesis on the stored list (review C05 LOW): for every list —
unordered, with duplicate prices, with zero amounts — an upsert with amount zero of a price that no
stored level carries leaves the list unchanged (scenario 2a of `upsert_single`,
`books/mod.rs:238-245`: `binary_search_by` returns `Ok` only on an `Equal` comparison). Implies
`delete_absent_noop`, which additionally assumed `Sorted` and `NonZero`. -/
theorem delete_absent_noop' (s : Side) (ls : List Level) (new : Level)
    (hzero : new.amount = 0) (habsent : ∀ l ∈ ls, l.price ≠ new.price) :
    upsertSingle s new ls = ls := upsertSingle_delete_absent s ls new hzero habsent

/-- The same for a whole update list consisting of deletes of absent prices only. -/
theorem delete_absent_noop_list (s : Side) (ls us : List Level)
    (hzero : ∀ u ∈ us, u.amount = 0) (habsent : ∀ u ∈ us, ∀ l ∈ ls, l.price ≠ u.price) :
    upsert s ls us = ls := by
  unfold upsert
  induction us with
  | nil => rfl
  | cons u us ih =>
    simp only [List.foldl_cons]
    rw [upsertSingle_delete_absent s ls u (hzero u (by simp)) (habsent u (by simp))]
    exact ih (fun v hv => hzero v (by simp [hv])) (fun v hv => habsent v (by simp [hv]))

/-! ### the excluded snapshots, made visible -/

/-- **Witness: snapshot with a duplicate price** (review C05-F1). `WFEvents` — every `Snapshot`
payload strictly ordered and free of zero amounts — is a documented PRECONDITION, not something the
code establishes: the only producer of snapshots is the Binance HTTP depth snapshot, which goes
unvalidated into `OrderBook::new` (`exchange/binance/book/l2.rs:84`), and the constructor only sorts
(`sort_by` since fix 911b9f8, `books/mod.rs:148-157`): no dedup, no zero filter. For the history
`[Snapshot ⟨1, bids [100:1, 100:2], asks []⟩, Update ⟨2, bids [100:0], asks []⟩]` (the snapshot is
what `OrderBook::new` stores for these levels; it is outside `WFEvents`): after the snapshot the
price 100 appears twice; after the delete of 100 the model's bids are `[100:2]`, while the
price → amount map is empty at 100 (function spec and executable spec alike): "holds exactly the
levels of the map" is false here. (Which of two equal-priced levels a binary search hits is
unspecified in Rust, so code and model may also differ at this point.) -/
theorem dirty_snapshot_duplicate_price_witness :
    OrderBook.new 1 [⟨100, 1⟩, ⟨100, 2⟩] [] = ⟨1, [⟨100, 1⟩, ⟨100, 2⟩], []⟩ ∧
    ¬ WFEvents [.snapshot ⟨1, [⟨100, 1⟩, ⟨100, 2⟩], []⟩, .update ⟨2, [⟨100, 0⟩], []⟩] ∧
    ¬ ((OrderBook.default.run [.snapshot ⟨1, [⟨100, 1⟩, ⟨100, 2⟩], []⟩]).bids.map
        Level.price).Nodup ∧
    (OrderBook.default.run [.snapshot ⟨1, [⟨100, 1⟩, ⟨100, 2⟩], []⟩,
        .update ⟨2, [⟨100, 0⟩], []⟩]).bids = [⟨100, 2⟩] ∧
    ((absBook OrderBook.default).run [.snapshot ⟨1, [⟨100, 1⟩, ⟨100, 2⟩], []⟩,
        .update ⟨2, [⟨100, 0⟩], []⟩]).bids 100 = 0 ∧
    (Spec.init.run [.snapshot ⟨1, [⟨100, 1⟩, ⟨100, 2⟩], []⟩,
        .update ⟨2, [⟨100, 0⟩], []⟩]).book.bids = [] := by
  refine ⟨new_of_pairwise_le (by decide +kernel) (by decide +kernel), ?_, by decide +kernel,
    by decide +kernel, by decide +kernel, by decide +kernel⟩
  intro h
  have hw := h _ (List.mem_cons_self)
  have : ¬ Sorted .bids [⟨100, 1⟩, ⟨100, 2⟩] := by decide +kernel
  exact this hw.bids

/-- **Witness: snapshot with a zero amount** (review C05-F1; same precondition as
`dirty_snapshot_duplicate_price_witness`). For the history `[Snapshot ⟨1, bids [], asks [101:0]⟩]`
(outside `WFEvents`): the model's asks are `[101:0]` — a stored zero amount —, `mid_price` is
`some 101`, while the price → amount map has no level at 101 (amount 0 = absent), i.e. the ask map
is empty and the map's mid-price is `none`. The executable `Spec` keeps the zero entry on a snapshot
(`PMap.ofLevels levels = levels`), so it agrees with the model here: a model-vs-spec run cannot flag
this point; only the function spec `FBook` shows the deviation. -/
theorem dirty_snapshot_zero_amount_witness :
    OrderBook.new 1 [] [⟨101, 0⟩] = ⟨1, [], [⟨101, 0⟩]⟩ ∧
    ¬ WFEvents [.snapshot ⟨1, [], [⟨101, 0⟩]⟩] ∧
    (OrderBook.default.run [.snapshot ⟨1, [], [⟨101, 0⟩]⟩]).asks = [⟨101, 0⟩] ∧
    (OrderBook.default.run [.snapshot ⟨1, [], [⟨101, 0⟩]⟩]).midPrice = some 101 ∧
    (∀ q, ((absBook OrderBook.default).run [.snapshot ⟨1, [], [⟨101, 0⟩]⟩]).asks q = 0) ∧
    (Spec.init.run [.snapshot ⟨1, [], [⟨101, 0⟩]⟩]).book.asks = [⟨101, 0⟩] ∧
    (Spec.init.run [.snapshot ⟨1, [], [⟨101, 0⟩]⟩]).midPrice = some 101 := by
  refine ⟨new_of_pairwise_le (by decide +kernel) (by decide +kernel), ?_, by decide +kernel,
    by decide +kernel, ?_, by decide +kernel, by decide +kernel⟩
  · intro h
    have hw := h _ (List.mem_cons_self)
    exact hw.asksNonZero ⟨101, 0⟩ (List.mem_cons_self) rfl
  · intro q
    show abs [⟨101, 0⟩] q = 0
    simp only [abs]
    split <;> rfl

/-- Both excluded snapshot shapes at once (the name the review asked for): a duplicate price and a
zero amount in a `Snapshot` payload each make the book differ from the price → amount map; both
histories are outside `WFEvents`, the documented precondition of `inv`, `holds_exactly`,
`refines_spec`. Review C05-F1. -/
theorem dirty_snapshot_witness :
    ((OrderBook.default.run [.snapshot ⟨1, [⟨100, 1⟩, ⟨100, 2⟩], []⟩,
        .update ⟨2, [⟨100, 0⟩], []⟩]).bids = [⟨100, 2⟩] ∧
      ((absBook OrderBook.default).run [.snapshot ⟨1, [⟨100, 1⟩, ⟨100, 2⟩], []⟩,
        .update ⟨2, [⟨100, 0⟩], []⟩]).bids 100 = 0) ∧
    ((OrderBook.default.run [.snapshot ⟨1, [], [⟨101, 0⟩]⟩]).asks = [⟨101, 0⟩] ∧
      (OrderBook.default.run [.snapshot ⟨1, [], [⟨101, 0⟩]⟩]).midPrice = some 101 ∧
      ∀ q, ((absBook OrderBook.default).run [.snapshot ⟨1, [], [⟨101, 0⟩]⟩]).asks q = 0) :=
  ⟨⟨dirty_snapshot_duplicate_price_witness.2.2.2.1, dirty_snapshot_duplicate_price_witness.2.2.2.2.1⟩,
    dirty_snapshot_zero_amount_witness.2.2.1, dirty_snapshot_zero_amount_witness.2.2.2.1,
    dirty_snapshot_zero_amount_witness.2.2.2.2.1⟩

/-- `NonNegEvents` (and `WFEvents`) are satisfiable by the non-trivial history of the examples
above, whose update contains deletes (amount 0), and the conclusion of `vwmid_history` is the
concrete quotient there: best bid `100:1`, best ask `101.5:7`. -/
example : NonNegEvents [.snapshot exSnap, .update exUpd] := by
  intro ev h
  simp only [List.mem_cons, List.not_mem_nil, or_false] at h
  rcases h with rfl | rfl <;> constructor <;> decide +kernel
example : (OrderBook.default.run [.snapshot exSnap, .update exUpd]).volumeWeightedMidPrice
    = some ((100 * 7 + 203/2 * 1) / (1 + 7)) := by decide +kernel
/-- the hypothesis of `delete_absent_noop'` is satisfiable on a list that is neither ordered nor
free of duplicates / zero amounts -/
example : upsertSingle .asks ⟨5, 0⟩ [⟨2, 1⟩, ⟨1, 0⟩, ⟨2, 3⟩] = [⟨2, 1⟩, ⟨1, 0⟩, ⟨2, 3⟩] :=
  delete_absent_noop' _ _ _ rfl (by decide +kernel)

end BarterModel.Props.C05
