import BarterModel.Lemmas.Book
namespace BarterModel.Props.C05
open BarterModel.Book
theorem sequence_trivial (b : OrderBook) (u : OrderBook) : (b.update (.update u)).sequence = u.sequence := rfl
end BarterModel.Props.C05
