import BarterModel.Lemmas.L2Pipeline
import BarterModel.Lemmas.L2PipelinePartial
import BarterModel.Lemmas.L2Oracle
/-!
# C06E — the end-to-end Binance L2 pipeline: websocket frames → local order books
(sub-check of C06: the composition of the models of C12W, C06, C12 and C05)

Statements only; proofs go through `Lemmas/L2Pipeline.lean`, which uses every layer through that
layer's own theorems: `Props.C12W.outputs_complete` (ExchangeStream), `Props.C12.errors_to_handler` /
`run_handler_refines_spec` (reconnecting stream), `Props.C06.connection_book_is_truth` / `told_iff`
(sequencing), `Props.C05.manager_applies_per_instrument` and `Props.C05M.manager_cell_is_c05_run`
(manager).

`pipeline cfg fuel books conns` (Model/L2Pipeline.lean) is the composition of the existing models along
the wiring of `MarketStream::init` / `init_market_stream` / `init_multi_order_book_l2_manager`, on an
input that lists, per invocation of the `init` closure, the REST snapshots, the websocket messages
buffered during subscription validation, the frames the socket yields and whether the socket ends.
Everything is universally quantified: the rule set (spot / USD-futures), the deserialiser `cfg.de`, the
instrument map, the back-off policy, the manager's initial books, the number of connections, every
frame list (text / binary / ping / pong / raw frame / close / transport error). `fuel` is the number of
polls granted to each connection's `ExchangeStream`; `Enough cfg fuel conns` says it suffices to drain
them (`enough_fuel`: such a number exists and is computable), and nothing depends on which one is
taken (`fuel_irrelevant`).
-/
namespace BarterModel.Props.C06E
open BarterModel.Book BarterModel.BinanceL2 BarterModel.ExStream BarterModel.L2Pipeline

/-! ## 1. Factorisation: the composed pipeline is what each layer's theorem says, composed -/

/-- a sufficient number of polls exists (and is what the driver uses) -/
theorem enough_fuel (cfg : Config) (conns : List ConnInput) : Enough cfg (enoughFuel cfg conns) conns :=
  enoughFuel_spec cfg conns

theorem enough_mono (cfg : Config) (n m : Nat) (conns : List ConnInput) (h : Enough cfg n conns) (hnm : n ≤ m) :
    Enough cfg m conns := fun c hc => Nat.le_trans (h c hc) hnm

/-- **ExchangeStream layer** (by `Props.C12W.outputs_complete`): polled often enough, the stream that
`MarketStream::init` builds hands out exactly `connItems`: the outputs of the messages buffered during
subscription validation, then the snapshots, then every frame replaced by nothing (ping / pong / raw
frame), one `Socket` error (undeserialisable payload, close frame, transport error) or the
transformer's outputs, with the transformer state threaded in frame order; and it ends iff the socket
did. A failing `Transformer::init` yields no stream. -/
theorem connection_hands_out_its_items (cfg : Config) (fuel : Nat) (c : ConnInput) (hf : connFuel cfg c ≤ fuel) :
    connOut cfg fuel c =
      match connItems cfg c with
      | none => .fail
      | some items => .ok items (!c.ended) := connOut_eq cfg fuel c hf

/-- **Labelling is faithful**: reading the labels of C12's `segments` of the labelled script back
through the table gives, connection by connection, the delivered events (everything before the first
terminal error) followed by one `Reconnecting` per connection that is over, and the handler receives
the non-terminal errors among the delivered items. -/
theorem labels_read_back (outs : List ConnOut) :
    (Streams.okEvents (Streams.segments (script 0 outs))).filterMap (decodeEvent (table outs)) = outsStream outs ∧
    (Streams.errorIds (Streams.segments (script 0 outs))).filterMap (decodeHandled (table outs)) = outsHandled outs := by
  simpa using decode_segments [] outs

/-- **pipeline_refines_spec** — for every configuration, initial books and input: the composition of
the four models (`pipeline`) equals the specification written from the documentation of the pieces
(`specPipeline`): the events the manager receives, the errors the handler receives, the books, and the
status of the run. -/
theorem pipeline_refines_spec (cfg : Config) (fuel : Nat) (books : Books) (conns : List ConnInput)
    (hf : Enough cfg fuel conns) : pipeline cfg fuel books conns = specPipeline cfg books conns :=
  pipeline_eq_spec cfg fuel books conns hf

/-- the number of polls is irrelevant once it suffices -/
theorem fuel_irrelevant (cfg : Config) (n m : Nat) (books : Books) (conns : List ConnInput)
    (hn : Enough cfg n conns) (hm : Enough cfg m conns) :
    pipeline cfg n books conns = pipeline cfg m books conns := by
  rw [pipeline_eq_spec _ _ _ _ hn, pipeline_eq_spec _ _ _ _ hm]

/-- **Factorisation, spelled out.** Once the first `init` succeeded: the manager receives, connection
by connection, the market events among the items delivered before the connection's first terminal
error, then one `Reconnecting` if the connection is over, and only then anything of the next
connection (C12 on the per-connection outputs of C12W ∘ C06); the handler receives the non-terminal
errors; the books are the manager's run over that stream — i.e. every book is its initial value run
over exactly the events of its own key, in order (C05). -/
theorem pipeline_factorises (cfg : Config) (fuel : Nat) (books : Books) (conns : List ConnInput)
    (hf : Enough cfg fuel conns) (h1 : specFin cfg conns = .pending) :
    (pipeline cfg fuel books conns).events = specStream cfg conns ∧
    (pipeline cfg fuel books conns).handled = specHandled cfg conns ∧
    (pipeline cfg fuel books conns).books = managerRun books (specStream cfg conns) ∧
    (pipeline cfg fuel books conns).books =
      books.map (fun kb => (kb.1, kb.2.run (eventsFor kb.1 (specStream cfg conns)))) ∧
    (pipeline cfg fuel books conns).fin = .pending := by
  rw [pipeline_eq_spec _ _ _ _ hf]
  obtain ⟨hb, he, hh⟩ := spec_books_eq_managerRun cfg books conns h1
  refine ⟨he, hh, hb, ?_, ?_⟩
  · rw [hb, Props.C05.manager_applies_per_instrument]
  · simp [specPipeline, h1]

/-- Without input `init_reconnecting_stream` never resolves; if the very first `init` fails there is
no stream at all: nothing is delivered, no book changes, whatever else the input holds. -/
theorem no_stream_without_first_init (cfg : Config) (fuel : Nat) (books : Books) (conns : List ConnInput)
    (hf : Enough cfg fuel conns) (h1 : specFin cfg conns ≠ .pending) :
    (pipeline cfg fuel books conns).events = [] ∧ (pipeline cfg fuel books conns).handled = [] ∧
    (pipeline cfg fuel books conns).books = books ∧
    (pipeline cfg fuel books conns).fin = specFin cfg conns := by
  rw [pipeline_eq_spec _ _ _ _ hf]
  unfold specPipeline
  cases hfin : specFin cfg conns <;> simp_all

/-- A failed re-initialisation contributes nothing (C12: the back-off waits, the next attempt follows). -/
theorem failed_init_is_invisible (cfg : Config) (fuel : Nat) (books : Books) (p : ConnInput)
    (pre post : List ConnInput) (c : ConnInput)
    (hf1 : Enough cfg fuel (p :: pre ++ c :: post)) (hf2 : Enough cfg fuel (p :: pre ++ post))
    (hc : connItems cfg c = none) :
    pipeline cfg fuel books (p :: pre ++ c :: post) = pipeline cfg fuel books (p :: pre ++ post) := by
  rw [pipeline_eq_spec _ _ _ _ hf1, pipeline_eq_spec _ _ _ _ hf2]
  have hs := specStream_append cfg (p :: pre) (c :: post)
  have hs' := specStream_append cfg (p :: pre) post
  have e1 : specStream cfg (c :: post) = specStream cfg post := by simp [specStream, hc]
  have e2 : specHandled cfg (c :: post) = specHandled cfg post := by simp [specHandled, hc]
  unfold specPipeline
  rw [hs.1, hs.2, hs'.1, hs'.2, e1, e2]
  rfl

/-- **The stream only grows with the input** (what the correspondence relies on when it prints the
new events per frame): appending connections, or frames to the last, still open, connection, never
changes an event the manager has already received. -/
theorem events_only_grow (cfg : Config) (conns ext pre : List ConnInput) (c : ConnInput) (more : List Frame)
    (ended : Bool) (hc : c.ended = false) :
    specStream cfg conns <+: specStream cfg (conns ++ ext) ∧
    specStream cfg (pre ++ [c]) <+:
      specStream cfg (pre ++ [{ c with frames := c.frames ++ more, ended := ended }]) :=
  ⟨specStream_prefix_conns cfg conns ext, specStream_prefix_frames cfg pre c more ended hc⟩

/-! ## 2. The lifted C06 guarantee

`pipelineState cfg books conns : BinanceL2.Conn` is the state the input leaves behind: the transformer
of the last connection that came up, the manager's books, and whether that connection still delivers.
`ConnSynced venues st` (C06) says: distinct subscriptions feed distinct books, and for every
subscription the book of its key is strictly ordered, reports its sequencer's last id, and *denotes
the venue's book as of that id*. -/

/-- A freshly initialised connection on persisting books satisfies C06's invariant — whatever the
books held before (the snapshot events are the first items of the stream and replace them). -/
theorem fresh_connection_synced (cfg : Config) (venues : Nat → Venue) (books : Books) (snaps : List MarketEv)
    (t : Transformer) (alive : Bool)
    (hkeys : (cfg.instrumentMap.map (·.2)).Nodup) (hbooks : HasBooks cfg books)
    (hs : SnapshotsGenuine cfg venues snaps) (hi : Transformer.init cfg.instrumentMap snaps = .ok t) :
    ConnSynced venues ⟨t, applySnapshots books snaps, alive⟩ :=
  open_synced cfg venues books snaps t alive hkeys hbooks hs hi

/-- **pipeline_book_is_truth** — for ALL inputs under the venue contract (per connection: no message
buffered before the snapshots; one genuine REST snapshot per instrument; every deserialised depth
update of a subscribed instrument genuine for *some* id range of that instrument's venue — lost,
duplicated, reordered, replayed updates are all allowed; every other frame arbitrary), for every number
of connections and frames, hence after every prefix of the input:

* the books the real pipeline's model holds are those of the state machine `pipelineState`;
* **every subscribed instrument's book equals its venue's book as of the id its sequencer last
  admitted** (`ConnSynced`) — at every moment, also after a break: the breaking message is never
  applied;
* **or the consumer has been told**: when no connection is delivering any more (`alive = false`: a
  chain broke, or the socket ended), the last thing the manager's stream yielded is a `Reconnecting`
  notice (unless nothing was ever yielded). From then on the books are frozen — still the venue's
  books as of the ids they report, but no longer advancing — until the next connection's snapshots
  replace them (`reinit_replaces_books`). -/
theorem pipeline_book_is_truth (cfg : Config) (fuel : Nat) (books : Books) (venues : Nat → Venue)
    (conns : List ConnInput) (hf : Enough cfg fuel conns)
    (hkeys : (cfg.instrumentMap.map (·.2)).Nodup) (hbooks : HasBooks cfg books)
    (hc : ∀ c ∈ conns, Contract cfg venues c) :
    (pipeline cfg fuel books conns).books = (pipelineState cfg books conns).books ∧
    ConnSynced venues (pipelineState cfg books conns) ∧
    ((pipelineState cfg books conns).alive = false →
      (pipeline cfg fuel books conns).events = [] ∨
      (pipeline cfg fuel books conns).events.getLast? = some .reconnecting) := by
  have hnb : ∀ c ∈ conns, c.buffered = [] := fun c h => (hc c h).noBuffered
  rw [pipeline_eq_spec _ _ _ _ hf]
  have h0 : ConnSynced venues ⟨⟨[]⟩, books, false⟩ :=
    ⟨fun a a' im im' h => by simp at h, fun a im h => by simp at h⟩
  refine ⟨spec_books_state cfg books conns hnb, ?_, ?_⟩
  · by_cases h1 : specFin cfg conns = .pending
    · rw [pipelineState_eq_runConns cfg books conns h1]
      exact runConns_synced cfg venues _ conns hkeys hbooks h0 hc
    · cases conns with
      | nil => exact h0
      | cons c cs =>
        have hsome := openConn_isSome cfg books c
        cases hi : connItems cfg c with
        | some items => simp [specFin, hi] at h1
        | none =>
          cases ho : openConn cfg books c with
          | some st => simp [hi, ho] at hsome
          | none => simpa [pipelineState, ho] using h0
  · intro hdead
    by_cases h1 : specFin cfg conns = .pending
    · rw [(spec_books_eq_managerRun cfg books conns h1).2.1]
      rw [pipelineState_eq_runConns cfg books conns h1] at hdead
      exact runConns_told cfg _ conns hnb rfl hdead
    · left
      unfold specPipeline
      cases hfin : specFin cfg conns <;> simp_all

/-- … spelled out per instrument: whenever the state's transformer knows subscription `sub` (after the
first successful `init`: exactly the configured ones, `state_knows_subscriptions`), the manager holds a
book for its key that is strictly ordered, reports the sequencer's last id and maps every price to the
amount the venue's book has at that id. -/
theorem every_book_is_venue_truth (cfg : Config) (fuel : Nat) (books : Books) (venues : Nat → Venue)
    (conns : List ConnInput) (hf : Enough cfg fuel conns)
    (hkeys : (cfg.instrumentMap.map (·.2)).Nodup) (hbooks : HasBooks cfg books)
    (hc : ∀ c ∈ conns, Contract cfg venues c) (sub : Nat) (im : Meta)
    (hl : (pipelineState cfg books conns).transformer.instrumentMap.lookup sub = some im) :
    ∃ b, (pipeline cfg fuel books conns).books.lookup im.key = some b ∧ SortedBook b ∧
      b.sequence = im.sequencer.lastUpdateId ∧
      abs b.bids = bookAt (venues sub) b.sequence .bids ∧ abs b.asks = bookAt (venues sub) b.sequence .asks := by
  obtain ⟨hb, hs, _⟩ := pipeline_book_is_truth cfg fuel books venues conns hf hkeys hbooks hc
  obtain ⟨b, hbk, hsync⟩ := hs.synced sub im hl
  exact ⟨b, by rw [hb]; exact hbk, hsync.sorted, hsync.seq, hsync.bids, hsync.asks⟩

/-- … and **literally** the book the oracle computes from the venue's history (`specBook`, what
`drv_c06e spec` prints): if, in addition, no managed book and no REST snapshot stores a zero amount
(C05's `WFBook`; what `OrderBook::new` yields for a venue snapshot), then for every subscription the
state's transformer knows, the manager's book of its key equals `specBook venue last`, `last` being
the id its sequencer last admitted: same levels, same order, same sequence. -/
theorem every_book_is_spec_book (cfg : Config) (fuel : Nat) (books : Books) (venues : Nat → Venue)
    (conns : List ConnInput) (hf : Enough cfg fuel conns)
    (hkeys : (cfg.instrumentMap.map (·.2)).Nodup) (hbooks : HasBooks cfg books)
    (hc : ∀ c ∈ conns, Contract cfg venues c)
    (hz0 : BooksNonZero books)
    (hz : ∀ c ∈ conns, ∀ k b, (k, Event.snapshot b) ∈ c.snapshots → NonZero b.bids ∧ NonZero b.asks)
    (sub : Nat) (im : Meta)
    (hl : (pipelineState cfg books conns).transformer.instrumentMap.lookup sub = some im) :
    (pipeline cfg fuel books conns).books.lookup im.key =
      some (specBook (venues sub) im.sequencer.lastUpdateId) := by
  obtain ⟨hb, hs, _⟩ := pipeline_book_is_truth cfg fuel books venues conns hf hkeys hbooks hc
  obtain ⟨b, hbk, hsync⟩ := hs.synced sub im hl
  have hnz : BooksNonZero (pipeline cfg fuel books conns).books := by
    show BooksNonZero (managerRun books (pipeline cfg fuel books conns).events)
    apply managerRun_nonZero books _ hz0
    intro k sb hmem
    rw [pipeline_eq_spec _ _ _ _ hf] at hmem
    by_cases h1 : specFin cfg conns = .pending
    · rw [(spec_books_eq_managerRun cfg books conns h1).2.1] at hmem
      obtain ⟨c, hcm, hsm⟩ := specStream_snapshots cfg conns k sb hmem
      exact hz c hcm k sb hsm
    · unfold specPipeline at hmem
      cases hfin : specFin cfg conns <;> simp_all
  rw [hb]
  rw [← hb] at hbk
  have hbz := hnz (im.key, b) (mem_of_lookup _ _ _ hbk)
  have := synced_eq_specBook (l := ⟨im.sequencer, b⟩) hsync hbz.1 hbz.2
  simp only at this
  rw [← hb, hbk, this, hsync.seq]

/-- after the first successful `init` the state's transformer knows exactly the configured subscriptions -/
theorem state_knows_subscriptions (cfg : Config) (books : Books) (conns : List ConnInput)
    (h1 : specFin cfg conns = .pending) (sub : Nat) :
    ((pipelineState cfg books conns).transformer.instrumentMap.lookup sub).isSome =
      (cfg.instrumentMap.lookup sub).isSome := pipelineState_subscribed cfg books conns h1 sub

/-- a connection that is still delivering has processed every frame of its socket: its transformer is
the stream's transformer after all of them, none of them produced a terminal error, the socket is open -/
theorem live_connection_is_current (cfg : Config) (books : Books) (c : ConnInput) (st : Conn)
    (ho : openConn cfg books c = some st) (ha : st.alive = true) :
    ∃ t0, Transformer.init cfg.instrumentMap c.snapshots = .ok t0 ∧
      st.transformer = specState cfg.params t0 c.frames ∧
      hasTerminalItem (specOut cfg.params t0 c.frames) = false ∧ c.ended = false :=
  openConn_live cfg books c st ho ha

/-- **The stale window, precisely.** Let a connection be reached (`allOver pre`) and alive after the
frames `a`, and let the next frame `f` carry a depth update of a subscribed instrument that is neither
stale nor extends the instrument's chain (C06 `told_iff`: exactly the messages that break). Then, for
EVERY continuation `b` of the socket and whether or not it ends: compared with the input cut before
`f`, the manager has received exactly one more event, `Reconnecting`; no book and no handler call
differ — nothing after the break is ever read. The window closes with the next connection that comes
up (`reinit_replaces_books`). -/
theorem stale_window (cfg : Config) (fuel : Nat) (books : Books) (pre : List ConnInput) (c : ConnInput)
    (a : List Frame) (f : Frame) (b : List Frame) (t0 : Transformer) (m : Update) (im : Meta)
    (hf1 : Enough cfg fuel (pre ++ [c]))
    (hf2 : Enough cfg fuel (pre ++ [{ c with frames := a, ended := false }]))
    (hfirst : specFin cfg (pre ++ [c]) = .pending) (hpre : allOver cfg pre = true)
    (hframes : c.frames = a ++ f :: b)
    (hi : Transformer.init cfg.instrumentMap c.snapshots = .ok t0)
    (halive : hasTerminalItem (connHead cfg c t0 ++ specOut cfg.params (connT cfg c t0) a) = false)
    (hp : ExStream.parse cfg.de f = some (.ok m))
    (hl : (specState cfg.params (connT cfg c t0) a).instrumentMap.lookup m.sub = some im)
    (hs : ¬ Stale cfg.rules im.sequencer.lastUpdateId m)
    (he : ¬ Extends cfg.rules (im.sequencer.updatesProcessed == 0) im.sequencer.lastUpdateId m) :
    (pipeline cfg fuel books (pre ++ [c])).events =
      (pipeline cfg fuel books (pre ++ [{ c with frames := a, ended := false }])).events ++ [.reconnecting] ∧
    (pipeline cfg fuel books (pre ++ [c])).handled =
      (pipeline cfg fuel books (pre ++ [{ c with frames := a, ended := false }])).handled ∧
    (pipeline cfg fuel books (pre ++ [c])).books =
      (pipeline cfg fuel books (pre ++ [{ c with frames := a, ended := false }])).books := by
  rw [pipeline_eq_spec _ _ _ _ hf1, pipeline_eq_spec _ _ _ _ hf2]
  exact break_spec cfg books pre c a f b t0 m im hfirst hpre hframes hi halive hp hl hs he

/-! ## 3. Housekeeping frames never change any book -/

/-- **Ping / Pong / raw frames are invisible**: deleting one anywhere in any connection changes
nothing at all — events, handler calls, books, status. -/
theorem housekeeping_invisible (cfg : Config) (fuel : Nat) (books : Books) (pre post : List ConnInput)
    (c : ConnInput) (a : List Frame) (f : Frame) (b : List Frame)
    (hf1 : Enough cfg fuel (pre ++ { c with frames := a ++ f :: b } :: post))
    (hf2 : Enough cfg fuel (pre ++ { c with frames := a ++ b } :: post))
    (hk : disposition f = .housekeeping) :
    pipeline cfg fuel books (pre ++ { c with frames := a ++ f :: b } :: post) =
      pipeline cfg fuel books (pre ++ { c with frames := a ++ b } :: post) := by
  rw [pipeline_eq_spec _ _ _ _ hf1, pipeline_eq_spec _ _ _ _ hf2]
  apply specPipeline_congr
  have : connView cfg { c with frames := a ++ f :: b } = connView cfg { c with frames := a ++ b } := by
    unfold connView
    rw [connItems_eq, connItems_eq]
    cases Transformer.init cfg.instrumentMap c.snapshots with
    | error e => rfl
    | ok t0 =>
      have := (Props.C12W.housekeeping_invisible cfg.de PipeError.socket
        (fun t m => ((t.transform cfg.rules m).1, (t.transform cfg.rules m).2.map ofOut))
        (connT cfg { c with frames := a ++ b } t0) f hk a b).1
      simp only [connHead, connT] at this ⊢
      show Option.map _ (some (_ ++ specOut cfg.params _ (a ++ f :: b))) = Option.map _ (some (_ ++ specOut cfg.params _ (a ++ b)))
      rw [show specOut cfg.params _ (a ++ f :: b) = specOut cfg.params _ (a ++ b) from this]
  simp [this]

/-- **Frames that fail** (undeserialisable text / binary, close frame, transport error): one error goes
to the handler (if the connection is still delivering), and that is all — the events the manager
receives, every book and the status are those of the input without the frame. In particular neither a
close frame nor a transport error ends a connection: only a terminal error or the end of the socket
does. -/
theorem failed_frames_change_no_book (cfg : Config) (fuel : Nat) (books : Books) (pre post : List ConnInput)
    (c : ConnInput) (a : List Frame) (f : Frame) (b : List Frame) (e : SocketError)
    (hf1 : Enough cfg fuel (pre ++ { c with frames := a ++ f :: b } :: post))
    (hf2 : Enough cfg fuel (pre ++ { c with frames := a ++ b } :: post))
    (hp : ExStream.parse cfg.de f = some (.error e)) :
    (pipeline cfg fuel books (pre ++ { c with frames := a ++ f :: b } :: post)).events =
      (pipeline cfg fuel books (pre ++ { c with frames := a ++ b } :: post)).events ∧
    (pipeline cfg fuel books (pre ++ { c with frames := a ++ f :: b } :: post)).books =
      (pipeline cfg fuel books (pre ++ { c with frames := a ++ b } :: post)).books ∧
    (pipeline cfg fuel books (pre ++ { c with frames := a ++ f :: b } :: post)).fin =
      (pipeline cfg fuel books (pre ++ { c with frames := a ++ b } :: post)).fin := by
  rw [pipeline_eq_spec _ _ _ _ hf1, pipeline_eq_spec _ _ _ _ hf2]
  apply replace_conn
  apply connView'_of_items
  rw [connItems_eq, connItems_eq]
  cases Transformer.init cfg.instrumentMap c.snapshots with
  | error e => trivial
  | ok t0 =>
    have hcontr : ∀ t, contribution cfg.params t f = (t, [.error (.socket e)]) := by
      intro t
      simp [contribution, Config.params, hp]
    obtain ⟨h1, h2⟩ := specOut_error cfg (connT cfg { c with frames := a ++ b } t0) a f b (.socket e) (hcontr _)
    simp only [connHead, connT] at h1 h2 ⊢
    rw [h1, h2, ← List.append_assoc, ← List.append_assoc]
    have hv := view_insert_error
      ((specOut (quiet cfg.params) t0 (List.map Except.ok c.buffered) ++ List.map Except.ok c.snapshots) ++
        specOut cfg.params (specState (quiet cfg.params) t0 (List.map Except.ok c.buffered)) a)
      (specOut cfg.params (specState cfg.params (specState (quiet cfg.params) t0 (List.map Except.ok c.buffered)) a) b)
      (.socket e) rfl
    exact ⟨hv.1, by simp only [connOver, hv.2.1]⟩

/-- what the handler receives for such a frame, and where: directly after the errors of the frames
before it, provided no terminal error came earlier -/
theorem failed_frame_goes_to_handler (X Y : List Item) (e : SocketError) :
    itemErrors (deliveredItems (X ++ .error (.socket e) :: Y)) =
      itemErrors (deliveredItems X) ++
        (if hasTerminalItem X then [] else PipeError.socket e :: itemErrors (deliveredItems Y)) :=
  (view_insert_error X Y (.socket e) rfl).2.2.1

/-- the three kinds of failing frames and what they become -/
theorem failing_frames (de : De Update) (t : String) (bs : List Nat) (fr : Option CloseFrame) (w : WsError)
    (ht : de.text t = none) (hb : de.binary bs = none) :
    ExStream.parse de (.ok (.text t)) = some (.error (.deserialise t)) ∧
    ExStream.parse de (.ok (.binary bs)) = some (.error (.deserialise (binaryPayloadText bs))) ∧
    ExStream.parse de (.ok (.close fr)) = some (.error (.terminated (closeFrameDebug fr))) ∧
    ExStream.parse de (.error w) = some (.error (.webSocket w)) := by
  simp [ExStream.parse, processText, processBinary, processCloseFrame, ht, hb]

/-! ## 4. Frames for unsubscribed symbols -/

/-- at every moment of every connection the transformer knows exactly the configured subscriptions -/
theorem subscriptions_are_fixed (cfg : Config) (c : ConnInput) (t0 : Transformer) (a : List Frame) (sub : Nat)
    (hi : Transformer.init cfg.instrumentMap c.snapshots = .ok t0) :
    ((specState cfg.params (connT cfg c t0) a).instrumentMap.lookup sub).isSome =
      (cfg.instrumentMap.lookup sub).isSome := live_subscribed cfg c t0 a sub hi

/-- **A depth update for a symbol nobody subscribed to** yields exactly one non-terminal
`Unidentifiable` error for the handler and leaves the transformer alone … -/
theorem unsubscribed_symbol_contribution (cfg : Config) (c : ConnInput) (t0 : Transformer) (a : List Frame)
    (f : Frame) (m : Update)
    (hi : Transformer.init cfg.instrumentMap c.snapshots = .ok t0)
    (hp : ExStream.parse cfg.de f = some (.ok m)) (hn : cfg.instrumentMap.lookup m.sub = none) :
    contribution cfg.params (specState cfg.params (connT cfg c t0) a) f =
      (specState cfg.params (connT cfg c t0) a, [.error (.data (.unidentifiable m.sub))]) ∧
    PipeError.isTerminal (.data (.unidentifiable m.sub)) = false := by
  refine ⟨contribution_unsubscribed cfg _ f m hp ?_, rfl⟩
  have := live_subscribed cfg c t0 a m.sub hi
  rw [hn] at this
  cases h : (specState cfg.params (connT cfg c t0) a).instrumentMap.lookup m.sub with
  | none => rfl
  | some x => simp [h] at this

/-- … and changes no book: the events, the books and the status are those of the input without the
frame, wherever it occurs. -/
theorem unsubscribed_symbol_changes_no_book (cfg : Config) (fuel : Nat) (books : Books) (pre post : List ConnInput)
    (c : ConnInput) (a : List Frame) (f : Frame) (b : List Frame) (m : Update)
    (hf1 : Enough cfg fuel (pre ++ { c with frames := a ++ f :: b } :: post))
    (hf2 : Enough cfg fuel (pre ++ { c with frames := a ++ b } :: post))
    (hp : ExStream.parse cfg.de f = some (.ok m)) (hn : cfg.instrumentMap.lookup m.sub = none) :
    (pipeline cfg fuel books (pre ++ { c with frames := a ++ f :: b } :: post)).events =
      (pipeline cfg fuel books (pre ++ { c with frames := a ++ b } :: post)).events ∧
    (pipeline cfg fuel books (pre ++ { c with frames := a ++ f :: b } :: post)).books =
      (pipeline cfg fuel books (pre ++ { c with frames := a ++ b } :: post)).books ∧
    (pipeline cfg fuel books (pre ++ { c with frames := a ++ f :: b } :: post)).fin =
      (pipeline cfg fuel books (pre ++ { c with frames := a ++ b } :: post)).fin := by
  rw [pipeline_eq_spec _ _ _ _ hf1, pipeline_eq_spec _ _ _ _ hf2]
  apply replace_conn
  apply connView'_of_items
  rw [connItems_eq, connItems_eq]
  cases hi : Transformer.init cfg.instrumentMap c.snapshots with
  | error e => trivial
  | ok t0 =>
    have hcontr := (unsubscribed_symbol_contribution cfg { c with frames := a ++ b } t0 a f m hi hp hn).1
    obtain ⟨h1, h2⟩ := specOut_error cfg (connT cfg { c with frames := a ++ b } t0) a f b _ hcontr
    simp only [connHead, connT] at h1 h2 ⊢
    rw [h1, h2, ← List.append_assoc, ← List.append_assoc]
    have hv := view_insert_error
      ((specOut (quiet cfg.params) t0 (List.map Except.ok c.buffered) ++ List.map Except.ok c.snapshots) ++
        specOut cfg.params (specState (quiet cfg.params) t0 (List.map Except.ok c.buffered)) a)
      (specOut cfg.params (specState cfg.params (specState (quiet cfg.params) t0 (List.map Except.ok c.buffered)) a) b)
      (.data (.unidentifiable m.sub)) rfl
    exact ⟨hv.1, by simp only [connOver, hv.2.1]⟩

/-! ## 5. Re-initialisation -/

/-- **A snapshot of the next connection fully replaces whatever the previous ones left.** Right after
a connection came up (everything before it over, nothing buffered, no frame yet), the book of every
key it brought a snapshot for IS that snapshot — whatever any earlier connection delivered, genuine
or not. -/
theorem reinit_replaces_books (cfg : Config) (fuel : Nat) (books : Books) (pre : List ConnInput) (c : ConnInput)
    (k : Nat) (b : OrderBook) (hf : Enough cfg fuel (pre ++ [c]))
    (hfirst : specFin cfg (pre ++ [c]) = .pending) (hpre : allOver cfg pre = true)
    (hopen : (connItems cfg c).isSome) (hnb : c.buffered = []) (hfr : c.frames = [])
    (hn : (c.snapshots.map (·.1)).Nodup) (hm : (k, Event.snapshot b) ∈ c.snapshots)
    (hk : (books.lookup k).isSome) :
    (pipeline cfg fuel books (pre ++ [c])).books.lookup k = some b := by
  rw [pipeline_eq_spec _ _ _ _ hf]
  exact reinit_spec cfg books pre c k b hfirst hpre hopen hnb hfr hn hm hk

/-- **Truth after re-initialisation**: the guarantee of §2 needs the venue contract only from the last
connection that came up onwards. Whatever the earlier connections delivered (non-genuine messages,
corrupted snapshots — only "nothing buffered" is asked of them so that the state machine describes
them), once a connection comes up under the contract every book is again its venue's book at the id
it reports. -/
theorem truth_after_reinit (cfg : Config) (fuel : Nat) (books : Books) (venues : Nat → Venue)
    (pre : List ConnInput) (c : ConnInput) (post : List ConnInput)
    (hf : Enough cfg fuel (pre ++ c :: post))
    (hkeys : (cfg.instrumentMap.map (·.2)).Nodup) (hbooks : HasBooks cfg books)
    (hfirst : specFin cfg (pre ++ c :: post) = .pending)
    (hnb : ∀ x ∈ pre, x.buffered = []) (hpre : allOver cfg pre = true)
    (hopen : (connItems cfg c).isSome) (hc : ∀ x ∈ c :: post, Contract cfg venues x) :
    (pipeline cfg fuel books (pre ++ c :: post)).books = (pipelineState cfg books (pre ++ c :: post)).books ∧
    ConnSynced venues (pipelineState cfg books (pre ++ c :: post)) ∧
    ∀ sub, ((pipelineState cfg books (pre ++ c :: post)).transformer.instrumentMap.lookup sub).isSome =
      (cfg.instrumentMap.lookup sub).isSome := by
  obtain ⟨h1, h2⟩ := reinit_synced cfg venues books pre c post hkeys hbooks hfirst hnb hpre hopen hc
  refine ⟨?_, h1, h2⟩
  rw [pipeline_eq_spec _ _ _ _ hf]
  apply spec_books_state
  intro x hx
  simp only [List.mem_append] at hx
  rcases hx with hx | hx
  · exact hnb x hx
  · exact (hc x hx).noBuffered

/-! ## 6. The executable oracle's view of a frame is the parser's -/

/-- the classification the `spec` driver uses (protocol disposition + deserialiser) agrees with
`WebSocketParser::parse` on every frame -/
theorem frameKind_agrees (de : De Update) (f : Frame) :
    match frameKind de f with
    | .skip => ExStream.parse de f = none
    | .failure => ∃ e, ExStream.parse de f = some (.error e)
    | .update m => ExStream.parse de f = some (.ok m) := by
  cases f with
  | error e => simp [frameKind, disposition, ExStream.parse]
  | ok w =>
    cases w with
    | text t => cases h : de.text t <;> simp [frameKind, ExStream.parse, processText, h]
    | binary b => cases h : de.binary b <;> simp [frameKind, ExStream.parse, processBinary, h]
    | ping p => simp [frameKind, disposition, ExStream.parse, processPing]
    | pong p => simp [frameKind, disposition, ExStream.parse, processPong]
    | close c => simp [frameKind, disposition, ExStream.parse, processCloseFrame]
    | frame fr => simp [frameKind, disposition, ExStream.parse, processFrame]

/-- the verdict of the oracle's id-only rule is the fate of the connection: for a live connection and a
depth update of a subscribed instrument, the venue's rule says `told` exactly when C06's connection
step kills the connection (and then `stale_window` applies) -/
theorem oracle_verdict_agrees (r : Rules) (c : Conn) (m : Update) (im : Meta) (h : c.alive = true)
    (hl : c.transformer.instrumentMap.lookup m.sub = some im) :
    ((⟨im.sequencer.updatesProcessed, im.sequencer.lastUpdateId⟩ : SpecInstrument).step r m).2 = .told ↔
      (c.step r m).alive = false := by
  rw [Props.C06.told_iff r c m h]
  constructor
  · intro hv
    refine ⟨im, hl, ?_⟩
    simp only [SpecInstrument.step] at hv
    by_cases hs : Stale r im.sequencer.lastUpdateId m
    · simp [hs] at hv
    · by_cases he : Extends r (im.sequencer.updatesProcessed == 0) im.sequencer.lastUpdateId m
      · simp [hs, he] at hv
      · exact ⟨hs, he⟩
  · rintro ⟨im', hl', hs, he⟩
    rw [hl] at hl'
    injection hl' with hl'
    subst hl'
    simp [SpecInstrument.step, hs, he]

/-! ## 7. The manager of C05M (time stamps, shared `Arc<RwLock<_>>` cells) holds the same books -/

/-- `OrderBookL2Manager::run` as modelled in C05M — books with `time_engine`, an `OrderBookMap`
resolving keys to heap cells — fed the pipeline's events with ANY time stamps (`ts.map coreEvent` =
the pipeline's events) holds, in the cell of every key that does not share its cell, exactly the
pipeline's book of that key (by `Props.C05M.manager_cell_is_c05_run` and `manager_per_instrument`).
So every statement above about `(pipeline …).books` is a statement about the cells a reader of the
real `OrderBookMapMulti` sees. -/
theorem books_are_manager_cells (cfg : Config) (fuel : Nat) (books : Books) (conns : List ConnInput)
    (m : BookManager.BookMap) (heap : BookManager.Heap) (ts : List BookManager.TStreamEvent)
    (k c : Nat) (b0 : BookManager.TBook)
    (hts : ts.map coreEvent = (pipeline cfg fuel books conns).events)
    (hk : m.find k = some c) (hinj : ∀ k', m.find k' = some c → k' = k)
    (h0 : heap[c]? = some b0) (hb0 : books.lookup k = some b0.toCore) (hsorted : SortedBook b0.toCore)
    (hs : ∀ k' sn, BookManager.TStreamEvent.item k' (.snapshot sn) ∈ ts → SortedBook sn.toCore) :
    ∃ b, (BookManager.managerRun m heap ts)[c]? = some b ∧
      (pipeline cfg fuel books conns).books.lookup k = some b.toCore := by
  obtain ⟨b, hb, hcore⟩ := Props.C05M.manager_cell_is_c05_run m heap ts c b0 h0 hsorted hs
  refine ⟨b, hb, ?_⟩
  have hbooks : (pipeline cfg fuel books conns).books =
      managerRun books (pipeline cfg fuel books conns).events := rfl
  rw [hbooks, managerRun_lookup, hb0, ← hts, hcore,
    BookManager.eventsForCell_eq_eventsForKey hk ts (fun k' _ _ h => hinj k' h), eventsForKey_core]
  rfl

/-! ## Non-vacuity: a concrete configuration, venue and inputs (C06's example venue) -/

section examples
open BarterModel.Props.C06

/-- a deserialiser knowing two payloads -/
def exDe : De Update where
  text := fun s => if s = "m1" then some exM1 else if s = "m2" then some exM2 else none
  binary := fun _ => none

/-- spot rules, one subscription (id 0 ↦ key 10) -/
def exCfg : Config := ⟨.spot, exDe, [(0, 10)], ⟨125, 2, 60000⟩⟩

def exBooks : Books := [(10, OrderBook.default)]

/-- snapshot at id 1; `m1` = (0,2], a ping, junk text, `m2` = (2,3]; socket stays open -/
def exConn : ConnInput :=
  ⟨[(10, .snapshot exSnapshot)], [], [.ok (.text "m1"), .ok (.ping []), .ok (.text "junk"), .ok (.text "m2")], false⟩

/-- the same with `m1` lost: `m2` breaks the chain -/
def exBroken : ConnInput :=
  ⟨[(10, .snapshot exSnapshot)], [], [.ok (.text "m2"), .ok (.text "m1")], false⟩

/-- a second connection whose snapshot (at id 3) replaces what the first left -/
def exReconn : ConnInput := ⟨[(10, .snapshot ⟨3, [], [⟨101, 2⟩]⟩)], [], [], false⟩

example : (pipeline exCfg (enoughFuel exCfg [exConn]) exBooks [exConn]).books = [(10, ⟨3, [], [⟨101, 2⟩]⟩)] := by
  decide +kernel
example : (pipeline exCfg 9 exBooks [exConn]).handled = [.socket (.deserialise "junk")] := by decide +kernel
example : (pipeline exCfg 9 exBooks [exConn]).events.length = 3 := by decide +kernel
example : Enough exCfg 9 [exConn] := by intro c hc; simp at hc; subst hc; decide +kernel

/-- the break: snapshot delivered, then `Reconnecting`; `m1` after the break is never read; the book is
still the venue's book at id 1 -/
example : (pipeline exCfg 9 exBooks [exBroken]).books = [(10, exSnapshot)] ∧
    (match (pipeline exCfg 9 exBooks [exBroken]).events.getLast? with
      | some .reconnecting => true
      | _ => false) = true ∧
    (pipeline exCfg 9 exBooks [exBroken]).events.length = 2 := by decide +kernel

/-- … and the next connection's snapshot re-initialises the book -/
example : (pipeline exCfg 9 exBooks [exBroken, exReconn]).books = [(10, ⟨3, [], [⟨101, 2⟩]⟩)] := by decide +kernel

theorem exSnapshot_genuine : SortedBook exSnapshot ∧ GenuineSnapshot exVenue 1 exSnapshot := by
  refine ⟨⟨by decide, by decide⟩, rfl, ?_, ?_⟩ <;> funext p <;>
    simp [exSnapshot, exVenue, abs, bookAt, changesUpTo, applyLevels, setLevel] <;> grind

/-- the venue contract is satisfiable: the example connection satisfies it -/
example : Contract exCfg (fun _ => exVenue) exConn := by
  refine ⟨rfl, ⟨by decide, ?_⟩, ?_⟩
  · intro x hx b hb
    simp only [exCfg, List.mem_cons, List.not_mem_nil, or_false] at hx
    subst hx
    have : b = exSnapshot := by
      have : firstSnapshot exConn.snapshots 10 = some exSnapshot := by decide
      simp only [this, Option.some.injEq] at hb
      exact hb.symm
    subst this
    exact exSnapshot_genuine
  · intro f hf m hp _
    simp only [exConn, List.mem_cons, List.not_mem_nil, or_false] at hf
    rcases hf with hf | hf | hf | hf <;> subst hf <;>
      simp [ExStream.parse, processText, processPing, exCfg, exDe] at hp
    · subst hp; exact ⟨0, 2, by decide⟩
    · subst hp; exact ⟨2, 3, by decide⟩

example : (exCfg.instrumentMap.map (·.2)).Nodup ∧ HasBooks exCfg exBooks := by
  refine ⟨by decide, ?_⟩
  intro x hx
  simp only [exCfg, List.mem_cons, List.not_mem_nil, or_false] at hx
  subst hx
  decide

/-- **Why the contract asks for "nothing buffered" (latent hazard of `MarketStream::init`).**
`process_buffered_events` runs BEFORE the snapshots are appended to the stream's buffer
(`lib.rs:251-261`). If a depth update is buffered during subscription validation and the sequencer
admits it, the manager receives `Update(m1)` *before* `Snapshot`: the snapshot overwrites the update's
effect while the sequencer has already advanced past it, the next message `m2` chains on, and the book
ends at id 3 without the ask 101 ↦ 2 that the venue's book has at id 3 — snapshot and both messages
genuine, no `Reconnecting`, no error. Unreachable for Binance as wired today (its
`expected_responses` is 1, so the validator returns before anything can be buffered), which is why
`Contract.noBuffered` is a hypothesis and not a finding about Binance. -/
theorem buffered_update_before_snapshot_witness :
    let c : ConnInput := ⟨[(10, .snapshot exSnapshot)], [.text "m1"], [.ok (.text "m2")], false⟩
    (pipeline exCfg 9 exBooks [c]).books = [(10, ⟨3, [], []⟩)] ∧
    specBook exVenue 3 = ⟨3, [], [⟨101, 2⟩]⟩ ∧
    (pipeline exCfg 9 exBooks [c]).handled = [] ∧
    (pipeline exCfg 9 exBooks [c]).events.all (fun e => match e with | .reconnecting => false | _ => true) = true ∧
    Enough exCfg 9 [c] := by
  refine ⟨by decide +kernel, by decide +kernel, by decide +kernel, by decide +kernel, ?_⟩
  intro c hc; simp at hc; subst hc; decide +kernel

end examples

/-! ## 8. additions after the review of the sub-check theorems (`audit/sub/report_A.md`, C06E-1):
REST snapshots of LIMITED depth

`Contract` asks `SnapshotsGenuine`: every REST snapshot is its venue's FULL book. The code's fetchers
request `…&limit=100` (`binance/spot/l2.rs:54`, `futures/l2.rs:57`), so for an instrument whose book is
deeper than 100 levels on a side the hypothesis of `pipeline_book_is_truth`,
`every_book_is_venue_truth`, `every_book_is_spec_book`, `truth_after_reinit` is false in the real
wiring. `ContractOn cfg venues cover` asks of a snapshot `b` of subscription `sub` only equality with
the venue's book ON the prices `cover sub b` (for the real fetchers:
`fun _ b sd p => coveredBy 100 sd (sideOf b sd) p = true`, justified by
`Props.C06.truncated_snapshot_genuine_on`); everything else of `Contract` is kept. `Contract` is the
case `cover = everything` (`contract_is_on_everything`). -/

/-- the full-depth contract is the partial-depth one with every price covered -/
theorem contract_is_on_everything (cfg : Config) (venues : Nat → Venue) (c : ConnInput) :
    Contract cfg venues c ↔ ContractOn cfg venues (fun _ _ _ _ => True) c := contract_iff_on_all cfg venues c

/-- A freshly initialised connection on persisting books satisfies the partial-depth invariant with the
parameters of ITS OWN snapshots (`subSeq`: per subscription the snapshot id; `subCover`: the prices its
snapshot covers) — whatever the books held before. -/
theorem fresh_connection_synced_on (cfg : Config) (venues : Nat → Venue)
    (cover : Nat → OrderBook → Side → Rat → Prop) (books : Books) (snaps : List MarketEv)
    (t : Transformer) (alive : Bool)
    (hkeys : (cfg.instrumentMap.map (·.2)).Nodup) (hbooks : HasBooks cfg books)
    (hs : SnapshotsGenuineOn cfg venues cover snaps) (hi : Transformer.init cfg.instrumentMap snaps = .ok t) :
    ConnSyncedOn venues (subSeq cfg snaps) (subCover cfg cover snaps) ⟨t, applySnapshots books snaps, alive⟩ :=
  open_syncedOn cfg venues cover books snaps t alive hkeys hbooks hs hi

/-- **pipeline_book_is_truth_on** — `pipeline_book_is_truth` under the partial-depth contract, for ALL
inputs, every number of connections and frames, hence after every prefix of the input:

* the books the real pipeline's model holds are those of the state machine `pipelineState`;
* the state satisfies C06's invariant ON PRICE SETS (`ConnSyncedOn`, spelled out in
  `every_book_is_venue_truth_on`) with the parameters of the connection it belongs to —
  `currentSnapshots cfg books conns` are the REST snapshots of the last connection that came up
  (`current_snapshots_of_last_connection`): **every subscribed instrument's book holds, at every price
  its current snapshot covers or the venue changed since that snapshot's id, the amount of the venue's
  book as of the id its sequencer last admitted** — also after a break;
* **or the consumer has been told**, exactly as in `pipeline_book_is_truth`. -/
theorem pipeline_book_is_truth_on (cfg : Config) (fuel : Nat) (books : Books) (venues : Nat → Venue)
    (cover : Nat → OrderBook → Side → Rat → Prop)
    (conns : List ConnInput) (hf : Enough cfg fuel conns)
    (hkeys : (cfg.instrumentMap.map (·.2)).Nodup) (hbooks : HasBooks cfg books)
    (hc : ∀ c ∈ conns, ContractOn cfg venues cover c) :
    (pipeline cfg fuel books conns).books = (pipelineState cfg books conns).books ∧
    ConnSyncedOn venues (subSeq cfg (currentSnapshots cfg books conns))
      (subCover cfg cover (currentSnapshots cfg books conns)) (pipelineState cfg books conns) ∧
    ((pipelineState cfg books conns).alive = false →
      (pipeline cfg fuel books conns).events = [] ∨
      (pipeline cfg fuel books conns).events.getLast? = some .reconnecting) := by
  have hnb : ∀ c ∈ conns, c.buffered = [] := fun c h => (hc c h).noBuffered
  rw [pipeline_eq_spec _ _ _ _ hf]
  refine ⟨spec_books_state cfg books conns hnb,
    pipelineState_syncedOn cfg venues cover books conns hkeys hbooks hc, ?_⟩
  intro hdead
  by_cases h1 : specFin cfg conns = .pending
  · rw [(spec_books_eq_managerRun cfg books conns h1).2.1]
    rw [pipelineState_eq_runConns cfg books conns h1] at hdead
    exact runConns_told cfg _ conns hnb rfl hdead
  · left
    unfold specPipeline
    cases hfin : specFin cfg conns <;> simp_all

/-- … spelled out per instrument. Let the state's transformer know subscription `sub` (entry `im`),
configured with key `key`, and let `b0` be the snapshot the CURRENT connection brought for that key. Then
the manager holds a book for `im.key` that is strictly ordered, reports the sequencer's last id and —
**at every price `b0` covers, or that the venue changed in `(b0.sequence, sequence]`** — holds exactly
the amount the venue's book has as of the sequence it reports (0: no level). Nothing is claimed at the
other prices (`truncated_snapshot_pipeline_witness`). -/
theorem every_book_is_venue_truth_on (cfg : Config) (fuel : Nat) (books : Books) (venues : Nat → Venue)
    (cover : Nat → OrderBook → Side → Rat → Prop)
    (conns : List ConnInput) (hf : Enough cfg fuel conns)
    (hkeys : (cfg.instrumentMap.map (·.2)).Nodup) (hbooks : HasBooks cfg books)
    (hc : ∀ c ∈ conns, ContractOn cfg venues cover c) (sub key : Nat) (im : Meta) (b0 : OrderBook)
    (hl : (pipelineState cfg books conns).transformer.instrumentMap.lookup sub = some im)
    (hk : cfg.instrumentMap.lookup sub = some key)
    (h0 : firstSnapshot (currentSnapshots cfg books conns) key = some b0) :
    ∃ b, (pipeline cfg fuel books conns).books.lookup im.key = some b ∧ SortedBook b ∧
      b.sequence = im.sequencer.lastUpdateId ∧
      ∀ sd p, (cover sub b0 sd p ∨ Touched (venues sub) b0.sequence b.sequence sd p) →
        abs (sideOf b sd) p = bookAt (venues sub) b.sequence sd p := by
  obtain ⟨hb, hs, _⟩ := pipeline_book_is_truth_on cfg fuel books venues cover conns hf hkeys hbooks hc
  obtain ⟨b, hbk, hsync⟩ := hs.inv sub im hl
  refine ⟨b, by rw [hb]; exact hbk, hsync.sorted, hsync.seq, ?_⟩
  intro sd p hp
  apply hsync.known sd p
  simpa [subSeq, subCover, hk, h0, snapSeq] using hp

/-- what `currentSnapshots` is: when the last connection of the input comes up and everything before it
is over (so that it is reached), the current snapshots are that connection's -/
theorem current_snapshots_of_last_connection (cfg : Config) (books : Books) (pre : List ConnInput)
    (c : ConnInput) (hfirst : specFin cfg (pre ++ [c]) = .pending) (hnb : ∀ x ∈ pre, x.buffered = [])
    (hpre : allOver cfg pre = true) (hopen : (connItems cfg c).isSome) :
    currentSnapshots cfg books (pre ++ [c]) = c.snapshots :=
  currentSnapshots_last cfg books pre c hfirst hnb hpre hopen

section partialExamples
open BarterModel.Props.C06

/-- a deserialiser knowing the payload `d` = `exDel`, the genuine message of `exDeep` for `(2,3]` -/
def exDe2 : De Update where
  text := fun s => if s = "d" then some exDel else none
  binary := fun _ => none

def exCfg2 : Config := ⟨.spot, exDe2, [(0, 10)], ⟨125, 2, 60000⟩⟩

/-- the `limit = 1` snapshot of `exDeep` at id 2 (best bid only), then the venue deletes its best bid -/
def exTrunc : ConnInput := ⟨[(10, .snapshot ⟨2, [⟨100, 1⟩], []⟩)], [], [.ok (.text "d")], false⟩

/-- **truncated_snapshot_pipeline_witness** — `Props.C06.truncated_snapshot_witness` through the whole
pipeline: with a depth-limited (but otherwise genuine) REST snapshot the connection satisfies
`ContractOn` (cover = `coveredBy 1`) and NOT `Contract`; the genuine gap-free continuation is admitted,
no `Reconnecting`, no handler call — and the managed book ends with no bid at all while the venue's
book as of the reported id 3 has the bid `99 ↦ 1` (a price the snapshot does not cover and the venue has
not changed since): `pipeline_book_is_truth`'s conclusion fails, `pipeline_book_is_truth_on`'s holds. -/
theorem truncated_snapshot_pipeline_witness :
    ContractOn exCfg2 (fun _ => exDeep) (fun _ b sd p => coveredBy 1 sd (sideOf b sd) p = true) exTrunc ∧
    ¬ Contract exCfg2 (fun _ => exDeep) exTrunc ∧
    (pipeline exCfg2 9 [(10, OrderBook.default)] [exTrunc]).books = [(10, ⟨3, [], []⟩)] ∧
    (pipeline exCfg2 9 [(10, OrderBook.default)] [exTrunc]).handled = [] ∧
    (pipeline exCfg2 9 [(10, OrderBook.default)] [exTrunc]).events.all
      (fun e => match e with | .reconnecting => false | _ => true) = true ∧
    specBook exDeep 3 = ⟨3, [⟨99, 1⟩], []⟩ ∧ bookAt exDeep 3 .bids 99 = 1 ∧
    Enough exCfg2 9 [exTrunc] := by
  obtain ⟨hb, _, hsorted, hnot, hon, hg, _, _, _, hspec, _, h99, _⟩ := truncated_snapshot_witness
  have hfs : ∀ b, firstSnapshot exTrunc.snapshots 10 = some b → b = ⟨2, [⟨100, 1⟩], []⟩ := by
    intro b hb'
    have : firstSnapshot exTrunc.snapshots 10 = some ⟨2, [⟨100, 1⟩], []⟩ := by decide
    rw [this] at hb'
    exact (Option.some.inj hb').symm
  refine ⟨⟨rfl, ⟨by decide, ?_⟩, ?_⟩, ?_, by decide +kernel, by decide +kernel, by decide +kernel, hspec, h99, ?_⟩
  · intro x hx b hb'
    simp only [exCfg2, List.mem_cons, List.not_mem_nil, or_false] at hx
    subst hx
    rw [hfs b hb']
    rw [hb] at hsorted hon
    exact ⟨hsorted, hon⟩
  · intro f hf m hp _
    simp only [exTrunc, List.mem_cons, List.not_mem_nil, or_false] at hf
    subst hf
    simp [ExStream.parse, processText, exCfg2, exDe2] at hp
    subst hp
    exact ⟨2, 3, hg⟩
  · intro hcon
    have := (hcon.snapshots.genuine (0, 10) (by simp [exCfg2]) ⟨2, [⟨100, 1⟩], []⟩ (by decide)).2
    rw [hb] at hnot
    exact hnot this
  · intro c hc; simp at hc; subst hc; decide +kernel

end partialExamples

/-! ## 9. a REST snapshot listing a price twice (review of the sub-check theorems, C06E-3)

`pipeline_refines_spec` / `pipeline_factorises` are statements about the composed MODEL, whose book
component is C05's `OrderBook.update` (a scan for the level to change). The code searches with
`binary_search_by`; the two agree on sides whose prices are pairwise distinct, which `OrderBook::new`
does not establish for a REST snapshot (sort only). `Result.booksBS` is the manager's cells run with the
code's search (`BookManager.upsertBS`, C05M) — what `drv_c06e model` prints and the correspondence
compares with the real pipeline. -/

/-- **books_follow_the_code_search** — with strictly ordered initial books and strictly ordered
snapshot payloads in the stream (C05's documented `WFSnapshot` precondition: pairwise distinct prices per
side), the manager's run with the code's binary search IS `managerRun` (the book component of
`pipeline`, to which §1–§8 refer). -/
theorem books_follow_the_code_search (books : Books) (evs : List StreamEvent)
    (hb : ∀ kb ∈ books, SortedBook kb.2)
    (hs : ∀ k sn, StreamEvent.item k (.snapshot sn) ∈ evs → SortedBook sn) :
    managerRunBS books evs = managerRun books evs := managerRunBS_eq books evs hb hs

/-- … for the pipeline: if the manager's initial books and every REST snapshot of every connection are
strictly ordered, the cells of the real manager (`booksBS`) are the pipeline model's books -/
theorem pipeline_cells_follow_the_code_search (cfg : Config) (fuel : Nat) (books : Books)
    (conns : List ConnInput) (hf : Enough cfg fuel conns) (hb : ∀ kb ∈ books, SortedBook kb.2)
    (hs : ∀ c ∈ conns, ∀ k b, (k, Event.snapshot b) ∈ c.snapshots → SortedBook b) :
    (pipeline cfg fuel books conns).booksBS books = (pipeline cfg fuel books conns).books := by
  show managerRunBS books (pipeline cfg fuel books conns).events =
    managerRun books (pipeline cfg fuel books conns).events
  apply managerRunBS_eq books _ hb
  intro k sn hmem
  rw [pipeline_eq_spec _ _ _ _ hf] at hmem
  by_cases h1 : specFin cfg conns = .pending
  · rw [(spec_books_eq_managerRun cfg books conns h1).2.1] at hmem
    obtain ⟨c, hcm, hsm⟩ := specStream_snapshots cfg conns k sn hmem
    exact hs c hcm k sn hsm
  · unfold specPipeline at hmem
    cases hfin : specFin cfg conns <;> simp_all

section dirtyExamples
open BarterModel.Props.C06

/-- the REST snapshot `bids [100:1, 100:2]` at id 2 (what `OrderBook::new` stores for these levels),
then `m2` = delete bid 100 (`U = u = 3`) -/
def exDirty : ConnInput :=
  ⟨[(10, .snapshot ⟨2, [⟨100, 1⟩, ⟨100, 2⟩], []⟩)], [], [.ok (.text "m2")], false⟩

/-- **repeated_price_snapshot_witness** — the excluded point, kernel-checked: a REST snapshot listing the
price 100 twice, then a delete of 100 (admitted: no error, no notice). The pipeline MODEL's book (scan:
deletes the first of the two) is `100:2`; the manager's cell with the code's binary search — what the
real pipeline holds (`corpus/C06E`, case `dup_price_snapshot_min`) — is `100:1`; the price → amount map
has no level at 100. So `pipeline_factorises`' `books = managerRun …` describes the code only for
snapshots with pairwise distinct prices per side (`pipeline_cells_follow_the_code_search`); such a
snapshot is not genuine for any venue (`SnapshotsGenuine` asks `SortedBook`), so the truth theorems
are not affected. -/
theorem repeated_price_snapshot_witness :
    ¬ SortedBook ⟨2, [⟨100, 1⟩, ⟨100, 2⟩], []⟩ ∧
    (pipeline exCfg 9 exBooks [exDirty]).books = [(10, ⟨3, [⟨100, 2⟩], []⟩)] ∧
    (pipeline exCfg 9 exBooks [exDirty]).booksBS exBooks = [(10, ⟨3, [⟨100, 1⟩], []⟩)] ∧
    (pipeline exCfg 9 exBooks [exDirty]).handled = [] ∧
    (pipeline exCfg 9 exBooks [exDirty]).events.length = 2 ∧
    Enough exCfg 9 [exDirty] := by
  refine ⟨fun h => absurd h.bids (by decide), by decide +kernel, by decide +kernel, by decide +kernel,
    by decide +kernel, ?_⟩
  intro c hc; simp at hc; subst hc; decide +kernel

end dirtyExamples


/-! ## 10. the executable oracle's bookkeeping (review of the sub-check theorems, C06E-2)

`drv_c06e spec` runs `Oracle.openConn` / `Oracle.frame` / `Oracle.eos` (ids only) and prints `notices`
and `nerr`. `Oracle.conn` feeds it one connection's input in the order the ops arrive. -/

/-- **oracle_frames_refine_spec** — over the frames of one live connection whose transformer the oracle
tracks (`Tracks`: same subscriptions, the ids it holds are the sequencers'): the oracle is live
afterwards iff the connection's items hold no terminal error, it counted one notice iff they do, and as
many handler calls as there are errors among the delivered items — for ALL frame lists. -/
theorem oracle_frames_refine_spec (cfg : Config) (o : Oracle) (t : Transformer) (frames : List Frame)
    (hl : o.live = true) (hb : o.blocked = false) (hr : o.rules = cfg.rules) (ht : Tracks o.insts t) :
    (frames.foldl (fun o f => o.frame (frameKind cfg.de f)) o).live =
      !hasTerminalItem (specOut cfg.params t frames) ∧
    (frames.foldl (fun o f => o.frame (frameKind cfg.de f)) o).notices =
      o.notices + (if hasTerminalItem (specOut cfg.params t frames) then 1 else 0) ∧
    (frames.foldl (fun o f => o.frame (frameKind cfg.de f)) o).errors =
      o.errors + (itemErrors (deliveredItems (specOut cfg.params t frames))).length := by
  obtain ⟨_, _, _, h4, h5, h6⟩ := oracle_frames_sim cfg o t frames hl hb hr ht
  exact ⟨h4, h5, h6⟩

/-- **oracle_connection_refines_spec** — one connection that comes up (`connItems = some items`,
nothing buffered) on an oracle that is not live, not blocked, whose first `init` has not failed and
whose instruments are the configured subscriptions: afterwards the oracle is live iff the connection is
not over, its `notices` grew by one iff the connection is over, and its `errors` (`nerr`) by the number
of errors among the delivered items — exactly what `specStream` / `specHandled` (hence, by
`pipeline_refines_spec`, the pipeline) add for this connection: `itemEvents (deliveredItems items)`
then one `Reconnecting` iff `connOver`, and `itemErrors (deliveredItems items)`. -/
theorem oracle_connection_refines_spec (cfg : Config) (o : Oracle) (c : ConnInput) (items : List Item)
    (hl : o.live = false) (hb : o.blocked = false) (hf : o.fin ≠ .initError) (hr : o.rules = cfg.rules)
    (hm : cfg.instrumentMap = o.insts.map fun i => (i.sub, i.key))
    (hnb : c.buffered = []) (hi : connItems cfg c = some items) :
    (Oracle.conn cfg.de o c).fin = .pending ∧ (Oracle.conn cfg.de o c).blocked = false ∧
    (Oracle.conn cfg.de o c).live = !connOver items c.ended ∧
    (Oracle.conn cfg.de o c).notices = o.notices + (if connOver items c.ended then 1 else 0) ∧
    (Oracle.conn cfg.de o c).errors = o.errors + (itemErrors (deliveredItems items)).length := by
  rw [connItems_noBuffered cfg c hnb] at hi
  cases hinit : Transformer.init cfg.instrumentMap c.snapshots with
  | error e => simp [hinit] at hi
  | ok t =>
    simp only [hinit, Option.some.injEq] at hi
    subst hi
    exact oracle_conn_sim cfg o c t hl hb hf hr hm hnb hinit


section oracleExamples
open BarterModel.Props.C06

/-- the hypotheses of `oracle_connection_refines_spec` hold for the driver's initial oracle … -/
example : exCfg.instrumentMap = (Oracle.init .spot [(0, 10, exVenue)]).insts.map fun i => (i.sub, i.key) := rfl
/-- … and its conclusion, computed on the broken connection: one notice, no handler call, not live -/
example : (Oracle.conn exCfg.de (Oracle.init .spot [(0, 10, exVenue)]) exBroken).notices = 1 ∧
    (Oracle.conn exCfg.de (Oracle.init .spot [(0, 10, exVenue)]) exBroken).errors = 0 ∧
    (Oracle.conn exCfg.de (Oracle.init .spot [(0, 10, exVenue)]) exBroken).live = false ∧
    (Oracle.conn exCfg.de (Oracle.init .spot [(0, 10, exVenue)]) exConn).errors = 1 ∧
    (Oracle.conn exCfg.de (Oracle.init .spot [(0, 10, exVenue)]) exConn).live = true := by decide +kernel

end oracleExamples


end BarterModel.Props.C06E
