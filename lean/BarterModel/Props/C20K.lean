import BarterModel.Lemmas.Clock
import BarterModel.Lemmas.KernelsAgree.ClockSM
/-!
# C20K — engine clocks (sub-check of C20)

Statements about `barter/src/engine/clock.rs` as modelled in `Model/Clock.lean`. Times and durations
are integer nanoseconds; every wall-clock reading (`Utc::now()`) is an explicit argument `now`, so the
theorems quantify over all wall-clock behaviours, including a wall clock that steps backwards.

* accessors: the exchange time of an event is the most recent exchange timestamp it carries;
* `LiveClock` is the wall clock;
* `HistoricalClock`: the stored last exchange time is the running maximum of the history, older and
  timestamp-less events change nothing, `time()` = last exchange time + wall time elapsed since that
  event was processed, refinement to a history-only specification;
* monotonicity of the *reported* time: holds while no accepted event is older than the time the clock
  has already extrapolated to (`reported_time_monotone`), and fails otherwise (`overtaken_event_rewinds`,
  `equal_timestamp_rewinds`, `submillisecond_backstep` — theorems, not examples: they hold for every
  state).
-/
namespace BarterModel.Props.C20K
open BarterModel.Clock

/-! ## `time_exchange` accessors -/

/-- The exchange time extracted from an engine event is the spec: the most recent exchange timestamp
carried anywhere inside the event (`none` iff it carries none). -/
theorem time_exchange_is_latest_timestamp (ev : EngineEvent) :
    ev.timeExchange = specTimeExchange ev :=
  (timeExchange_isLatest ev).unique (latest_isLatest _)

theorem time_exchange_some_iff (ev : EngineEvent) (m : Int) :
    ev.timeExchange = some m ↔ m ∈ ev.timestamps ∧ ∀ x ∈ ev.timestamps, x ≤ m := by
  constructor
  · intro h; have := timeExchange_isLatest ev; rw [h] at this; exact this
  · intro h; exact (timeExchange_isLatest ev).unique (r' := some m) h

theorem time_exchange_none_iff (ev : EngineEvent) :
    ev.timeExchange = none ↔ ev.timestamps = [] := by
  constructor
  · intro h; have := timeExchange_isLatest ev; rw [h] at this; exact this
  · intro h; exact (timeExchange_isLatest ev).unique (r' := none) h

/-- `AccountSnapshot::time_most_recent` is the greatest of all balance and order timestamps, in
whatever order they are listed. -/
theorem snapshot_time_most_recent (s : AccountSnapshot) (m : Int) :
    s.timeMostRecent = some m ↔
      (m ∈ s.balances ∨ ∃ orders ∈ s.instruments, ∃ st ∈ orders, st.timeExchange = some m) ∧
      (∀ x ∈ s.balances, x ≤ m) ∧
      (∀ orders ∈ s.instruments, ∀ st ∈ orders, ∀ x, st.timeExchange = some x → x ≤ m) := by
  have h := time_exchange_some_iff (.accountItem (.snapshot s)) m
  simp only [EngineEvent.timeExchange] at h
  rw [h]
  simp only [EngineEvent.timestamps, List.mem_append, List.mem_flatMap, orderState_mem_timestamps]
  constructor
  · rintro ⟨h1, h2⟩
    refine ⟨h1, fun x hx => h2 x (Or.inl hx), ?_⟩
    intro orders ho st hst x hx
    exact h2 x (Or.inr ⟨orders, ho, st, hst, hx⟩)
  · rintro ⟨h1, h2, h3⟩
    refine ⟨h1, ?_⟩
    rintro x (hx | ⟨orders, ho, st, hst, hx⟩)
    · exact h2 x hx
    · exact h3 orders ho st hst x hx

/-- Events that are not stream items never move a clock. -/
theorem non_item_events_carry_no_time :
    EngineEvent.shutdown.timeExchange = none ∧ EngineEvent.command.timeExchange = none ∧
    EngineEvent.tradingStateUpdate.timeExchange = none ∧
    EngineEvent.accountReconnecting.timeExchange = none ∧
    EngineEvent.marketReconnecting.timeExchange = none :=
  ⟨rfl, rfl, rfl, rfl, rfl⟩

/-! ## `LiveClock` -/

theorem live_clock_is_wall (c : LiveClock) (now : Int) : c.time now = now := rfl

theorem live_clock_ignores_events {Event : Type} (c : LiveClock) (ev : Event) (now : Int) :
    (c.process ev).time now = c.time now := rfl

/-! ## `HistoricalClock`: single calls -/

/-- A new clock read at its construction instant reports the seed. -/
theorem new_reads_seed (seed now : Int) : (HistoricalClock.new seed now).time now = seed := by
  rw [time_of_ge _ _ (by simp [HistoricalClock.new])]; simp [HistoricalClock.new]

/-- An event at least as recent as the clock sets the clock to the event's exchange time, and the
clock read at that instant reports exactly that time. -/
theorem accepted_event_sets_clock (c : HistoricalClock) (t now : Int) (h : c.timeExchangeLast ≤ t) :
    (c.process (some t) now) = ({ timeExchangeLast := t, timeLiveLastEvent := now }, .updated) ∧
    (c.process (some t) now).1.time now = t := by
  have h1 : (c.process (some t) now) = ({ timeExchangeLast := t, timeLiveLastEvent := now }, .updated) := by
    simp [HistoricalClock.process, h]
  refine ⟨h1, ?_⟩
  rw [h1, time_of_ge _ _ (by simp)]; simp

/-- An older event never moves the clock: the state, hence every later reading, is unchanged. -/
theorem older_event_is_ignored (c : HistoricalClock) (t now : Int) (h : t < c.timeExchangeLast) :
    (c.process (some t) now).1 = c ∧ ∀ w, (c.process (some t) now).1.time w = c.time w := by
  have := process_older c t now h
  exact ⟨this, fun w => by rw [this]⟩

theorem no_timestamp_is_ignored (c : HistoricalClock) (now : Int) :
    c.process none now = (c, .noTimestamp) := rfl

/-- Which arm ran: `updated` iff the event is at least as recent as the clock. -/
theorem outcome_updated_iff (c : HistoricalClock) (te : Option Int) (now : Int) :
    (c.process te now).2 = .updated ↔ ∃ t, te = some t ∧ c.timeExchangeLast ≤ t := by
  cases te with
  | none => simp [HistoricalClock.process]
  | some t =>
    by_cases h : c.timeExchangeLast ≤ t <;> simp [HistoricalClock.process, h]

/-- Log severity of an out-of-order event: by how many *whole* seconds it is behind
(`debug` < 1 s, `warn` < 30 s, `error` otherwise). -/
theorem out_of_order_severity (t last : Int) (h : t < last) :
    outOfOrderSeverity t last =
      if last - t < 1000000000 then .debug
      else if last - t < 30000000000 then .warn else .error := by
  unfold outOfOrderSeverity numSeconds
  have hneg : t - last = -(last - t) := by omega
  have hpos : 0 ≤ last - t := by omega
  rw [hneg, Int.neg_tdiv, Int.tdiv_eq_ediv_of_nonneg hpos, Int.natAbs_neg]
  have hq : 0 ≤ (last - t) / 1000000000 := Int.ediv_nonneg hpos (by decide)
  have h1 : ((last - t) / 1000000000).natAbs < 1 ↔ last - t < 1000000000 := by omega
  have h2 : ((last - t) / 1000000000).natAbs < 30 ↔ last - t < 30000000000 := by omega
  simp only [h1, h2]

/-- The stored last exchange time after any call. -/
theorem last_after_process (c : HistoricalClock) (te : Option Int) (now : Int) :
    (c.process te now).1.timeExchangeLast =
      match te with
      | none => c.timeExchangeLast
      | some t => max t c.timeExchangeLast :=
  process_last c te now

/-- Processing an engine event moves the stored time to the most recent timestamp inside the event,
unless the clock is already past it. -/
theorem engine_event_advances_to_latest (c : HistoricalClock) (ev : EngineEvent) (now : Int) :
    (c.processEvent ev now).timeExchangeLast =
      match latest ev.timestamps with
      | none => c.timeExchangeLast
      | some m => max m c.timeExchangeLast := by
  unfold HistoricalClock.processEvent
  rw [process_last, time_exchange_is_latest_timestamp]; rfl

/-! ## `HistoricalClock::time` -/

/-- `time()` = last event time + wall time elapsed since that event was processed (wall clock not
behind the anchor). -/
theorem time_is_last_plus_elapsed (c : HistoricalClock) (now : Int) (h : c.timeLiveLastEvent ≤ now) :
    c.time now = c.timeExchangeLast + (now - c.timeLiveLastEvent) :=
  time_of_ge c now h

/-- Exactly when the elapsed time is added: iff it is more than −1 ms (the guard tests the
*truncated* millisecond count). -/
theorem time_adds_elapsed_iff (c : HistoricalClock) (now : Int) :
    c.time now =
      if now - c.timeLiveLastEvent > -1000000 then c.timeExchangeLast + (now - c.timeLiveLastEvent)
      else c.timeExchangeLast :=
  time_def c now

/-- Against the documented rule "only add the delta if it is positive"
(`last + max 0 (now − anchor)`): equal unless the wall clock is less than 1 ms behind the anchor,
and never further than 1 ms below it. -/
theorem time_matches_documented_rule (c : HistoricalClock) (now : Int)
    (h : c.timeLiveLastEvent ≤ now ∨ now ≤ c.timeLiveLastEvent - 1000000) :
    c.time now = c.timeExchangeLast + max 0 (now - c.timeLiveLastEvent) := by
  rw [time_def]; split <;> omega

theorem time_near_documented_rule (c : HistoricalClock) (now : Int) :
    c.timeExchangeLast + max 0 (now - c.timeLiveLastEvent) - 1000000 < c.time now ∧
    c.time now ≤ c.timeExchangeLast + max 0 (now - c.timeLiveLastEvent) := by
  rw [time_def]; split <;> omega

/-- DEVIATION from the code comment "only add TimeDelta if it's positive": a wall clock that is
behind the anchor by less than a millisecond makes `time()` report *less* than the last exchange
time (for every clock state). -/
theorem submillisecond_backstep (c : HistoricalClock) (now : Int)
    (h1 : c.timeLiveLastEvent - 1000000 < now) (h2 : now < c.timeLiveLastEvent) :
    c.time now < c.timeExchangeLast := by
  rw [time_def]; split <;> omega

/-- With a wall clock that is not behind the anchor the reported time is never before the last
exchange time. -/
theorem time_ge_last (c : HistoricalClock) (now : Int) (h : c.timeLiveLastEvent ≤ now) :
    c.timeExchangeLast ≤ c.time now := by
  rw [time_of_ge c now h]; omega

/-- Between events the reported time advances exactly with the wall clock: two readings differ by
the wall time elapsed between them. (This is the quantity the unit test
`test_historical_clock_time_delta_calculation` bounds by 95..=105 ms after a 100 ms sleep: the
assertion is about the scheduler, not about the clock.) -/
theorem time_advances_with_wall (c : HistoricalClock) (w1 w2 : Int)
    (h1 : c.timeLiveLastEvent ≤ w1) (h2 : w1 ≤ w2) :
    c.time w2 - c.time w1 = w2 - w1 := by
  rw [time_of_ge c w1 h1, time_of_ge c w2 (by omega)]; omega

/-! ## Histories -/

/-- The stored last exchange time never decreases, whatever is processed. -/
theorem last_never_decreases (c : HistoricalClock) (calls : List Call) :
    c.timeExchangeLast ≤ (c.run calls).timeExchangeLast :=
  run_last_le c calls

/-- … also between any two points of a history. -/
theorem last_monotone_along_history (c : HistoricalClock) (a b : List Call) :
    (c.run a).timeExchangeLast ≤ (c.run (a ++ b)).timeExchangeLast := by
  rw [run_append]; exact run_last_le _ b

/-- Refinement to the history-only specification: after any call sequence the stored time is the
greatest exchange time seen (seed included) and the anchor is the wall reading at which the last
not-older event was processed. -/
theorem refines_spec (seed w0 : Int) (calls : List Call) :
    let c := (HistoricalClock.new seed w0).run calls
    c.timeExchangeLast = specLast seed (historyOf calls) ∧
    c.timeLiveLastEvent = specAnchor seed w0 (historyOf calls) :=
  tied_run seed w0 calls

/-- The specification's last time really is the maximum: it is the seed or one of the processed
exchange times, and it bounds all of them. -/
theorem spec_last_is_max (seed : Int) (h : History) :
    (specLast seed h = seed ∨ ∃ w, (w, some (specLast seed h)) ∈ h) ∧
    seed ≤ specLast seed h ∧ ∀ w t, (w, some t) ∈ h → t ≤ specLast seed h := by
  induction h with
  | nil => simp [specLast]
  | cons e older ih =>
    obtain ⟨w, te⟩ := e
    obtain ⟨ih1, ih2, ih3⟩ := ih
    cases te with
    | none =>
      simp only [specLast]
      refine ⟨?_, ih2, ?_⟩
      · rcases ih1 with h | ⟨w', h⟩
        · exact Or.inl h
        · exact Or.inr ⟨w', by simp [h]⟩
      · intro w' t hm
        simp at hm
        exact ih3 w' t hm
    | some t =>
      simp only [specLast]
      refine ⟨?_, by omega, ?_⟩
      · by_cases hle : specLast seed older ≤ t
        · have : max t (specLast seed older) = t := by omega
          rw [this]; exact Or.inr ⟨w, by simp⟩
        · have : max t (specLast seed older) = specLast seed older := by omega
          rw [this]
          rcases ih1 with h | ⟨w', h⟩
          · exact Or.inl h
          · exact Or.inr ⟨w', by simp [h]⟩
      · intro w' t' hm
        simp at hm
        rcases hm with ⟨_, rfl⟩ | hm
        · omega
        · have := ih3 w' t' hm; omega

/-- Reading the clock after any history, at a wall reading not earlier than the construction and
every processed call: the concrete `time()` is the specification's time. -/
theorem time_after_history_eq_spec (seed w0 : Int) (calls : List Call) (now : Int)
    (h0 : w0 ≤ now) (hw : ∀ x ∈ calls, x.now ≤ now) :
    ((HistoricalClock.new seed w0).run calls).time now = specTime seed w0 (historyOf calls) now := by
  have ⟨h1, h2⟩ := tied_run seed w0 calls
  have ha : ((HistoricalClock.new seed w0).run calls).timeLiveLastEvent ≤ now := by
    rcases run_anchor (HistoricalClock.new seed w0) calls with h | ⟨x, hx, h⟩
    · rw [h]; simpa [HistoricalClock.new] using h0
    · rw [h]; exact hw x hx
  rw [time_of_ge _ _ ha, specTime, ← h1, ← h2]; omega

/-- A replay that takes no wall time at all (every call observes the construction instant) reports
exactly the running maximum of the exchange times: the extrapolation contributes nothing. -/
theorem instant_replay_reports_last (seed w0 : Int) (calls : List Call)
    (hw : ∀ x ∈ calls, x.now = w0) :
    ((HistoricalClock.new seed w0).run calls).time w0 = specLast seed (historyOf calls) := by
  have ⟨h1, h2⟩ := tied_run seed w0 calls
  have ha : ((HistoricalClock.new seed w0).run calls).timeLiveLastEvent = w0 := by
    rcases run_anchor (HistoricalClock.new seed w0) calls with h | ⟨x, hx, h⟩
    · rw [h]; rfl
    · rw [h]; exact hw x hx
  rw [time_of_ge _ _ (by omega), ha, h1]; omega

/-! ## Monotonicity of the reported time -/

/-- With a wall clock that never goes back, the values returned by successive `time()` calls never
go back either — across any interleaving of reads and processed events — **provided** no accepted
event is older than the time the clock has already extrapolated to at the instant it is processed
(`NotBehind`; e.g. a back-test replayed at least as fast as real time).

CAUTION — the proviso is strong and is never discharged from inputs: it fails for every feed with a
repeated exchange timestamp processed after any wall time (`repeated_timestamp_violates_not_behind`)
and for every feed slower than the wall clock (`slow_feed_violates_not_behind`). This theorem is a
statement about idealised replays; what holds for EVERY history is `last_never_decreases` (the stored
time) — not the reported time. -/
theorem reported_time_monotone (c : HistoricalClock) (calls : List Call)
    (hw : WallsFrom c.timeLiveLastEvent calls) (hb : NotBehind c calls) :
    (c.readings calls).Pairwise (· ≤ ·) :=
  (readings_ge c c.timeLiveLastEvent calls (Int.le_refl _) hw hb).2

/-- The proviso is necessary. An accepted event whose exchange time is *newer* than the clock's stored
time but older than what the clock already reports moves the reported time back, for every clock
state (reading immediately before and after, same wall instant). -/
theorem overtaken_event_rewinds (c : HistoricalClock) (t now : Int)
    (h1 : c.timeExchangeLast ≤ t) (h2 : t < c.time now) :
    (c.process (some t) now).1.time now < c.time now := by
  rw [(accepted_event_sets_clock c t now h1).2]; exact h2

/-- In particular an event with the *same* exchange timestamp as the previous one restarts the
extrapolation: the reported time falls back by the wall time elapsed since the previous event. -/
theorem equal_timestamp_rewinds (c : HistoricalClock) (now : Int) (h : c.timeLiveLastEvent < now) :
    (c.process (some c.timeExchangeLast) now).1.time now = c.timeExchangeLast ∧
    c.time now - (c.process (some c.timeExchangeLast) now).1.time now = now - c.timeLiveLastEvent := by
  have h1 := (accepted_event_sets_clock c c.timeExchangeLast now (Int.le_refl _)).2
  rw [h1, time_of_ge c now (by omega)]
  exact ⟨rfl, by omega⟩

/-- **`NotBehind` excludes every feed with a repeated exchange timestamp.** Whatever follows, a
history in which an event carries the SAME exchange timestamp as the clock's stored one and is processed
after ANY wall time has passed (`c.timeLiveLastEvent < now`) does not satisfy `NotBehind`: the hypothesis
of `reported_time_monotone` forces zero elapsed wall time between two events with equal timestamps.
Exchange feeds repeat timestamps routinely (several trades in one millisecond, a snapshot followed by
its first update), so `reported_time_monotone` applies to idealised replays only (strictly increasing
timestamps replayed at least as fast as real time, or a replay that takes no wall time:
`instant_replay_reports_last`); on realistic replays the reported time DOES step back
(`equal_timestamp_rewinds`, `overtaken_event_rewinds`) — the code has no guard against it. -/
theorem repeated_timestamp_violates_not_behind (c : HistoricalClock) (now : Int) (rest : List Call)
    (h : c.timeLiveLastEvent < now) :
    ¬ NotBehind c (.process (some c.timeExchangeLast) now :: rest) := by
  intro hb
  have h1 := hb.1 c.timeExchangeLast rfl (Int.le_refl _)
  rw [time_of_ge c now (by omega)] at h1
  omega

/-- … and so does any accepted event that is newer than the stored time by less than the wall time
elapsed since the anchor (an event stream slower than the replay's wall clock). -/
theorem slow_feed_violates_not_behind (c : HistoricalClock) (t now : Int) (rest : List Call)
    (h1 : c.timeExchangeLast ≤ t) (h2 : t - c.timeExchangeLast < now - c.timeLiveLastEvent)
    (h3 : c.timeLiveLastEvent ≤ now) :
    ¬ NotBehind c (.process (some t) now :: rest) := by
  intro hb
  have h := hb.1 t rfl h1
  rw [time_of_ge c now h3] at h
  omega

/-! ## Non-vacuity -/

-- an account snapshot with orders and balances listed out of order
example : (EngineEvent.accountItem (.snapshot
    { balances := [5, 3], instruments := [[.open 7, .openInFlight], [.cancelInFlight (some 9), .expired]] })).timeExchange
    = some 9 := by decide
example : (EngineEvent.accountItem (.snapshot { balances := [], instruments := [[.openInFlight]] })).timeExchange
    = none := by decide

-- a history satisfying `WallsFrom` and `NotBehind` with two accepted events, one older event, reads
example : WallsFrom 0 [.read 5, .process (some 100) 10, .read 20, .process (some 50) 25, .process (some 200) 30, .read 40] := by
  simp [WallsFrom, Call.now]
example : NotBehind (HistoricalClock.new 0 0)
    [.read 5, .process (some 100) 10, .read 20, .process (some 50) 25, .process (some 200) 30, .read 40] := by
  simp [NotBehind, HistoricalClock.new, HistoricalClock.process, HistoricalClock.time, numMilliseconds]
example : (HistoricalClock.new 0 0).readings
    [.read 5, .process (some 100) 10, .read 20, .process (some 50) 25, .process (some 200) 30, .read 40]
    = [5, 110, 210] := by decide

-- the rewinds are real: 10 s of wall time after the seed, an event 1 ms newer than the seed
example : (HistoricalClock.new 0 0).readings
    [.read 10000000000, .process (some 1000000) 10000000000, .read 10000000000]
    = [10000000000, 1000000] := by decide
-- hypotheses of `submillisecond_backstep` are satisfiable
example : (HistoricalClock.mk 1000000000 5000000).time 4500000 = 999500000 := by decide
-- refinement on a concrete history
example : (HistoricalClock.new 0 0).run [.process (some 100) 10, .process (some 50) 25, .process (some 100) 30]
    = { timeExchangeLast := 100, timeLiveLastEvent := 30 } := by decide

/-- **Tie to the source by translation.** `LiveClock::{time, process}` and `HistoricalClock::{new, time,
process}` (with both structs and the trait `TimeExchange`) are regenerated from the current
`barter/src/engine/clock.rs` by `tools/rust2lean_sm.py` on every run (`Generated/Machines2.lean`, group
`clock`): `Utc::now()` is the explicit parameter `utc_now` (the model's `now`), the `Arc<RwLock<_>>` is
transparent (one owner, as in the model), `event.time_exchange()` is a field of an arbitrary
`TimeExchange` record. The translator's times are whole milliseconds, the model's nanoseconds: through
the injective embedding `ClockSM.toClock` (`ns = 1 000 000 · ms`) the model's `new`, `time` and the state
component of `process` equal the generated functions, for all clock states, wall-clock readings, event
types and events; the logged severity (`Outcome`) and the model's statements about instants between two
milliseconds are outside this tie. The statement is that of `KernelsAgree.ClockSM.clock_sm_agree`
(Lemmas/KernelsAgree/ClockSM.lean). -/
theorem kernels_agree_with_source :
    type_of% BarterModel.KernelsAgree.ClockSM.clock_sm_agree :=
  BarterModel.KernelsAgree.ClockSM.clock_sm_agree

end BarterModel.Props.C20K
