import BarterModel.Lemmas.KeyedSummary
import BarterModel.Props.C16M
import BarterModel.Props.C09
/-!
# C16K (sub-check of C16) — the keyed trading summary, ALL fields

C16's clause "the trading summary reports, for every instrument and asset, the tear sheet of exactly
that instrument's or asset's history" is proved in `Props/C16.lean` for a projection of the tear sheets
(pnl, win rate, profit factor; `balance_end`). This file proves it for the complete tear sheets by
COMPOSING the existing models (`Model/KeyedSummary.lean`): per instrument the full
`TearSheetGenerator` of C16M (`Metrics.Gen`, all ten fields of `TearSheet<Interval>`), per asset the
full `TearSheetAssetGenerator` (`balance_now` + the three drawdown generators of C18) — on the engine
path behind the balance register of C09.

`f` is `Decimal::sqrt` and is arbitrary in every theorem (as in C16M). `n`, `m`, the engine start time
`t0`, the risk-free return, the requested interval and the event history are arbitrary; histories are
unbounded. Nothing is assumed about exit times or snapshot times (equal, decreasing, before `t0`).

Reading guide
* §1 engine path, instruments: entry `i` = C16M's `sheetOf` of exactly `i`'s exited positions in order
  (`summary_instrument_full`), unfolded to the ten fields in `summary_instrument_fields`.
* §2 engine path, assets: entry `a` = the C16/C18 sheet over exactly the NON-STALE subsequence of `a`'s
  snapshots (`summary_asset_full`); what that subsequence is (`non_stale_*`); the register is C09's.
* §3 direct path: same instrument entries; asset entries over ALL snapshots; where the two paths agree
  and a witness where they differ.
* §4 frame theorems.
* §5 `generate`: read-only on the engine path; on a long-lived direct generator every `generate` feeds
  the drawdown in progress to the mean / max generators of every entry — stated exactly
  (`interleaved_generate_exact`) with the witness (100, 90, generate, 110).
* §6 projections onto the C16 model commute.
* §7 where the code panics (unknown key, zero-cost exit): `summary_panics_iff`, `exec_panics_iff`, and
  what the summary is when the code reports one (`summary_checked_full`, `direct_summary_checked_full`) —
  §1–§6 are statements about the TOTAL model functions, which ignore such events.
* §8 asset curves whose first total is not positive (outside C18's documented domain).

What "engine path" means in the theorems: the events are `Ev.position i p` — an already computed
`PositionExited` of instrument `i` — and `Ev.balance a s`. The steps before that (fills → `Position` →
`PositionExited`, the routing inside `Engine::process` / `EngineState::update_from_account`) are NOT in these
theorems: the drivers' parser turns `rt` / `flip` ops into exits with the C02 position model
(`Driver/C16K.lean` `rtExits` / `flipExits`, shared by model and spec mode), and the real `Engine::process`
is on the harness side only. That part is tied by correspondence (the `closed …` lines are impl-vs-model
only), with C02 / C16 for the position arithmetic.
-/
namespace BarterModel.Props.C16K
open BarterModel BarterModel.KeyedSummary

/-! ## 1. Engine path, instruments -/

/-- **`summary_instrument_full`.** For every `n`, `m` and every event history: the summary returned by
`Engine::trading_summary_generator(rf).generate(iv)` has exactly `n` instrument entries, and entry
`i < n` is C16M's full sheet (`TearSheetGenerator::init(t0)`, one `update_from_position` per element,
then `generate(rf, iv)`) of exactly the closed positions of instrument `i`, in order: all ten fields.
(Of the total function `engineSummary`: events with `i ≥ n` are ignored by it and make the code panic —
`summary_panics_iff`; guarded form `summary_checked_full`, §7.) -/
theorem summary_instrument_full (f : Rat → Rat) (t0 : Int) (n m : Nat) (rf : Rat) (start now : Int)
    (iv : Interval) (evs : List Ev) :
    (engineSummary f t0 n m rf start now iv evs).instruments.length = n ∧
    ∀ i, i < n →
      (engineSummary f t0 n m rf start now iv evs).instruments[i]? =
        some (C16M.sheetOf f t0 (exitsOf i evs) rf iv) := by
  constructor
  · simp [engineSummary, (SummaryGen.generate_fixed f _ iv).2.2.2.2.2.1, SummaryGen.init,
      (EngState.run_lengths f evs _).1, EngState.init]
  · intro i hi
    have h0 : (EngState.init t0 n m).instruments[i]? = some (Metrics.Gen.init t0) := by
      simp [EngState.init, hi]
    have h := EngState.run_instrument f evs i _ _ h0
    rw [engineSummary, (SummaryGen.generate_instrument f _ iv i).1]
    simp only [SummaryGen.init, h, Option.map_some]
    rfl

/-- The ten fields of entry `i`, in terms of `i`'s own history only (C16M `sheet_refines` and
`sheet_win_rate_profit_factor`, C18 `first_generate_report`, C17 `run_eq_specSummary` behind them):
summed PnL; the four metrics = `calculate` (the documented quotient with its zero-risk conventions) of
the whole-history mean return, population standard deviation of all / of the losing returns, maximum
drawdown of the cumulative PnL curve, over the period `max(last exit − t0, 1 s)`, then `scale`d to the
requested interval; the three drawdown fields of C18 over the cumulative PnL curve; win rate and profit
factor of C16. -/
theorem summary_instrument_fields (f : Rat → Rat) (t0 : Int) (n m : Nat) (rf : Rat) (start now : Int)
    (iv : Interval) (evs : List Ev) (i : Nat) (hi : i < n) :
    ∃ sh, (engineSummary f t0 n m rf start now iv evs).instruments[i]? = some sh ∧
      let ps := exitsOf i evs
      let period := Metrics.specTradingPeriod t0 ps
      let mt := Metrics.specMetrics f rf ps (C16M.maxDrawdownOf ps)
      sh.pnl = TearSheet.specPnl (ps.map (·.closed)) ∧
      sh.pnlReturn = Metrics.RateOfReturn.scale ⟨mt.pnlReturn.toDecimal, period⟩ iv ∧
      sh.sharpeRatio = Metrics.SharpeRatio.scale f ⟨mt.sharpe.toDecimal, period⟩ iv ∧
      sh.sortinoRatio = Metrics.SortinoRatio.scale f ⟨mt.sortino.toDecimal, period⟩ iv ∧
      sh.calmarRatio = Metrics.CalmarRatio.scale f ⟨mt.calmar.toDecimal, period⟩ iv ∧
      sh.drawdowns.current = (Drawdown.decompose (Metrics.specCurve ps)).2 ∧
      sh.drawdowns.mean = Drawdown.specMean (Drawdown.reported (Metrics.specCurve ps)) ∧
      sh.drawdowns.max = Drawdown.specMax (Drawdown.reported (Metrics.specCurve ps)) ∧
      sh.winRate = TearSheet.specWinRate (ps.map (·.closed)) ∧
      sh.profitFactor = (TearSheet.specProfitFactor (ps.map (·.closed))).toOption := by
  refine ⟨_, (summary_instrument_full f t0 n m rf start now iv evs).2 i hi, ?_⟩
  obtain ⟨h1, h2, h3, h4, h5, h6⟩ := C16M.sheet_refines f t0 (exitsOf i evs) rf iv
  obtain ⟨w1, w2⟩ := C16M.sheet_win_rate_profit_factor f t0 (exitsOf i evs) rf iv
  exact ⟨h1, h2, h3, h4, h5, by rw [h6], by rw [h6], by rw [h6], w1, w2⟩

/-! ## 2. Engine path, assets -/

/-- **`summary_asset_full`.** The summary has exactly `m` asset entries, and entry `a < m` is the asset
tear sheet (`balance_end`; drawdown in progress, mean and maximum drawdown of C18) over exactly the
NON-STALE subsequence of `a`'s balance snapshots: those the C09 register applied when they arrived. -/
theorem summary_asset_full (f : Rat → Rat) (t0 : Int) (n m : Nat) (rf : Rat) (start now : Int)
    (iv : Interval) (evs : List Ev) :
    (engineSummary f t0 n m rf start now iv evs).assets.length = m ∧
    ∀ a, a < m →
      (engineSummary f t0 n m rf start now iv evs).assets[a]? =
        some (assetSheetOf (nonStale none (snapsOf a evs))) := by
  constructor
  · simp [engineSummary, (SummaryGen.generate_fixed f _ iv).2.2.2.2.2.2.1, SummaryGen.init,
      (EngState.run_lengths f evs _).2, EngState.init]
  · intro a ha
    have h0 : (EngState.init t0 n m).assets[a]? = some AssetState.default := by
      simp [EngState.init, ha]
    have h := EngState.run_asset f evs a _ _ h0
    rw [engineSummary, (SummaryGen.generate_asset f _ iv a).1]
    simp only [SummaryGen.init, List.getElem?_map, h, Option.map_some]
    rw [AssetState.run_eq]
    exact congrArg some (AssetGen.generate_run_default _)

/-- What `assetSheetOf` says (definitional; spelled out so that the statement above can be read without
the model file): the last balance of the list, and C18's peak-to-trough decomposition of the curve
`(time_exchange, balance.total)` of the list. -/
theorem asset_sheet_fields (snaps : List BalSnap) :
    (assetSheetOf snaps).balanceEnd = snaps.getLast?.map (·.balance) ∧
    (assetSheetOf snaps).drawdowns.current = (Drawdown.decompose (snaps.map pointOf)).2 ∧
    (assetSheetOf snaps).drawdowns.mean = Drawdown.specMean (Drawdown.reported (snaps.map pointOf)) ∧
    (assetSheetOf snaps).drawdowns.max = Drawdown.specMax (Drawdown.reported (snaps.map pointOf)) :=
  ⟨rfl, rfl, rfl, rfl⟩

/-- The engine-held register of asset `a` is the C09 register over `a`'s snapshots (so
`Props.C09.carries_max`, `nonstrict_keeps_last`, … speak about it). -/
theorem asset_register_is_C09 (f : Rat → Rat) (t0 : Int) (n m : Nat) (evs : List Ev) (a : Nat)
    (ha : a < m) :
    (((EngState.init t0 n m).run f evs).assets[a]?).map (·.balance) =
      some (Stale.deliver false none ((snapsOf a evs).map msgOf)) := by
  have h0 : (EngState.init t0 n m).assets[a]? = some AssetState.default := by
    simp [EngState.init, ha]
  rw [EngState.run_asset f evs a _ _ h0, AssetState.run_eq]
  rfl

/-- One step of the definition: a snapshot is applied iff the register holds nothing or holds a time
that is not later (`held.time <= snapshot.time`), and the register moves on by C09's `upd`. -/
theorem non_stale_step (h : Option (Stale.Msg Stale.Bal)) (s : BalSnap) (ss : List BalSnap) :
    nonStale h (s :: ss) =
      (if (∀ c, h = some c → c.1 ≤ s.time) then [s] else []) ++
        nonStale (Stale.upd false h (msgOf s)) ss := by
  cases h with
  | none => simp [nonStale, applies]
  | some c => simp [nonStale, applies, Stale.passes]

/-- Register-free reading: the non-stale subsequence keeps exactly the snapshots that are not older
than anything that arrived before them (kept or not). -/
theorem non_stale_is_running_max (snaps : List BalSnap) : nonStale none snaps = runningMax [] snaps :=
  nonStale_eq_runningMax snaps

/-- … as a recursion on the end of the history: the next snapshot `s` is kept iff every earlier
snapshot `x` has `x.time ≤ s.time`. -/
theorem non_stale_snoc (pre : List BalSnap) (s : BalSnap) :
    nonStale none (pre ++ [s]) =
      nonStale none pre ++ (if ∀ x ∈ pre, x.time ≤ s.time then [s] else []) := by
  rw [nonStale_eq_runningMax, nonStale_eq_runningMax, runningMax_snoc]
  simp

/-- In particular the first snapshot is always kept, and a history in time order (equal times allowed)
is kept entirely. -/
theorem non_stale_of_time_ordered (snaps : List BalSnap)
    (h : snaps.Pairwise (fun x y => x.time ≤ y.time)) : nonStale none snaps = snaps := by
  rw [nonStale_eq_runningMax]
  exact runningMax_of_sorted snaps [] (by simp) h

/-- What the engine-held generator ends with is C16's "most recent balance by exchange time". -/
theorem non_stale_last_is_latest (snaps : List BalSnap) :
    (nonStale none snaps).getLast?.map (·.balance) = (TearSheet.latest snaps).map (·.balance) :=
  nonStale_last_is_latest snaps

/-! ## 3. Direct path -/

/-- Direct path, instruments: a `TradingSummaryGenerator` updated with `update_from_position` and asked
to `generate` once reports under `i` the same full sheet of exactly `i`'s exited positions. -/
theorem direct_summary_instrument_full (f : Rat → Rat) (t0 : Int) (n m : Nat) (rf : Rat)
    (iv : Interval) (evs : List Ev) :
    (directSummary f t0 n m rf iv evs).instruments.length = n ∧
    ∀ i, i < n →
      (directSummary f t0 n m rf iv evs).instruments[i]? =
        some (C16M.sheetOf f t0 (exitsOf i evs) rf iv) := by
  constructor
  · simp [directSummary, directGen, (SummaryGen.generate_fixed f _ iv).2.2.2.2.2.1,
      (SummaryGen.run_fixed f evs _).1, SummaryGen.init, EngState.init]
  · intro i hi
    have h0 : (SummaryGen.init rf t0 t0 (EngState.init t0 n m)).instruments[i]? =
        some (Metrics.Gen.init t0) := by
      simp [SummaryGen.init, EngState.init, hi]
    have h := SummaryGen.run_instrument f evs i _ _ h0
    rw [directSummary, directGen, (SummaryGen.generate_instrument f _ iv i).1, h,
      (SummaryGen.run_fixed f evs _).2.2.1]
    rfl

/-- Direct path, assets: `TradingSummaryGenerator::update_from_balance` has no time test — entry `a` is
the sheet over ALL of `a`'s snapshots, in arrival order, stale ones included. -/
theorem direct_summary_asset_full (f : Rat → Rat) (t0 : Int) (n m : Nat) (rf : Rat)
    (iv : Interval) (evs : List Ev) :
    (directSummary f t0 n m rf iv evs).assets.length = m ∧
    ∀ a, a < m →
      (directSummary f t0 n m rf iv evs).assets[a]? = some (assetSheetOf (snapsOf a evs)) := by
  constructor
  · simp [directSummary, directGen, (SummaryGen.generate_fixed f _ iv).2.2.2.2.2.2.1,
      (SummaryGen.run_fixed f evs _).2.1, SummaryGen.init, EngState.init]
  · intro a ha
    have h0 : (SummaryGen.init rf t0 t0 (EngState.init t0 n m)).assets[a]? =
        some AssetGen.default := by
      simp [SummaryGen.init, EngState.init, ha, AssetState.default]
    have h := SummaryGen.run_asset f evs a _ _ h0
    rw [directSummary, directGen, (SummaryGen.generate_asset f _ iv a).1, h]
    exact congrArg some (AssetGen.generate_run_default _)

/-- The summary-level clock of the direct path: `time_engine_start` stays, `time_engine_end` is moved by
`if self.time_engine_now < t { self.time_engine_now = t }` over the exchange times of the events (exit
time / snapshot time), starting from `t0` … -/
theorem direct_summary_clock (f : Rat → Rat) (t0 : Int) (n m : Nat) (rf : Rat) (iv : Interval)
    (evs : List Ev) :
    (directSummary f t0 n m rf iv evs).timeEngineStart = t0 ∧
    (directSummary f t0 n m rf iv evs).timeEngineEnd = evs.foldl clockStep t0 := by
  obtain ⟨_, _, _, h4, h5⟩ := SummaryGen.run_fixed f evs (SummaryGen.init rf t0 t0 (EngState.init t0 n m))
  obtain ⟨_, _, _, _, _, _, _, g8, g9⟩ :=
    SummaryGen.generate_fixed f (directGen f t0 n m rf evs) iv
  constructor
  · rw [directSummary, g8, directGen, h4]; rfl
  · rw [directSummary, g9, directGen, h5]; rfl

/-- … which is the running maximum: never below the start, never below an event's time, and equal to
the start or to some event's time. -/
theorem clock_is_running_max (evs : List Ev) (t0 : Int) :
    t0 ≤ evs.foldl clockStep t0 ∧ (∀ ev ∈ evs, ev.time ≤ evs.foldl clockStep t0) ∧
    (evs.foldl clockStep t0 = t0 ∨ ∃ ev ∈ evs, evs.foldl clockStep t0 = ev.time) :=
  clock_fold evs t0

/-- Both paths report the same instrument entries. (Bookkeeping: a corollary of `summary_instrument_full`
and `direct_summary_instrument_full` — in the model the two paths run the same fold over the same
`PositionExited` events; the paths differ in the code BEFORE that point, which is correspondence only.) -/
theorem engine_direct_instruments_agree (f : Rat → Rat) (t0 : Int) (n m : Nat) (rf : Rat)
    (start now : Int) (iv : Interval) (evs : List Ev) :
    (engineSummary f t0 n m rf start now iv evs).instruments =
      (directSummary f t0 n m rf iv evs).instruments := by
  apply List.ext_getElem?
  intro i
  have he := summary_instrument_full f t0 n m rf start now iv evs
  have hd := direct_summary_instrument_full f t0 n m rf iv evs
  by_cases hi : i < n
  · rw [he.2 i hi, hd.2 i hi]
  · rw [List.getElem?_eq_none (by omega), List.getElem?_eq_none (by omega)]

/-- The asset entries agree wherever no snapshot of the asset is stale — in particular for every asset
whose snapshots arrive in time order. -/
theorem engine_direct_asset_agree_of_time_ordered (f : Rat → Rat) (t0 : Int) (n m : Nat) (rf : Rat)
    (start now : Int) (iv : Interval) (evs : List Ev) (a : Nat) (ha : a < m)
    (h : (snapsOf a evs).Pairwise (fun x y => x.time ≤ y.time)) :
    (engineSummary f t0 n m rf start now iv evs).assets[a]? =
      (directSummary f t0 n m rf iv evs).assets[a]? := by
  rw [(summary_asset_full f t0 n m rf start now iv evs).2 a ha,
    (direct_summary_asset_full f t0 n m rf iv evs).2 a ha, non_stale_of_time_ordered _ h]

/-- The engine path is the direct path fed the non-stale snapshots only. -/
theorem engine_asset_is_direct_on_non_stale (f : Rat → Rat) (t0 : Int) (n m : Nat) (rf : Rat)
    (start now : Int) (iv : Interval) (evs evs' : List Ev) (a : Nat) (ha : a < m)
    (h : snapsOf a evs' = nonStale none (snapsOf a evs)) :
    (engineSummary f t0 n m rf start now iv evs).assets[a]? =
      (directSummary f t0 n m rf iv evs').assets[a]? := by
  rw [(summary_asset_full f t0 n m rf start now iv evs).2 a ha,
    (direct_summary_asset_full f t0 n m rf iv evs').2 a ha, h]

/-- the witness history: total 100 at t = 5, a STALE total 90 stamped t = 3, total 110 at t = 6 -/
def staleHistory : List Ev :=
  [.balance 0 ⟨5, ⟨100, 100⟩⟩, .balance 0 ⟨3, ⟨90, 40⟩⟩, .balance 0 ⟨6, ⟨110, 110⟩⟩]

/-- **The two paths differ** as soon as a stale snapshot arrives: on `staleHistory` the engine never
shows the stale 90 to the drawdown generators (no drawdown at all), the direct generator does (a
completed 10 % drawdown from t = 5 to t = 6 — starting AFTER the time stamped on its trough). -/
theorem engine_direct_assets_differ_witness (f : Rat → Rat) (rf : Rat) (start now : Int)
    (iv : Interval) :
    (engineSummary f 0 0 1 rf start now iv staleHistory).assets =
      [⟨some ⟨110, 110⟩, ⟨none, none, none⟩⟩] ∧
    (directSummary f 0 0 1 rf iv staleHistory).assets =
      [⟨some ⟨110, 110⟩, ⟨none, some ⟨1 / 10, 1⟩, some ⟨1 / 10, 5, 6⟩⟩⟩] := by
  obtain ⟨e1, e2⟩ := summary_asset_full f 0 0 1 rf start now iv staleHistory
  obtain ⟨d1, d2⟩ := direct_summary_asset_full f 0 0 1 rf iv staleHistory
  constructor
  · refine singleton_of e1 ?_
    rw [e2 0 (by omega)]
    exact congrArg some (by decide +kernel)
  · refine singleton_of d1 ?_
    rw [d2 0 (by omega)]
    exact congrArg some (by decide +kernel)

/-! ## 4. Frame theorems: events of other keys change nothing -/

/-- Engine path: instrument entry `i` depends on `i`'s own exited positions only — histories that
agree on them (whatever else they contain, in whatever interleaving) give the same entry. -/
theorem frame_instrument (f : Rat → Rat) (t0 : Int) (n m : Nat) (rf : Rat) (start now : Int)
    (iv : Interval) (evs evs' : List Ev) (i : Nat) (h : exitsOf i evs = exitsOf i evs') :
    (engineSummary f t0 n m rf start now iv evs).instruments[i]? =
      (engineSummary f t0 n m rf start now iv evs').instruments[i]? := by
  have he := summary_instrument_full f t0 n m rf start now iv evs
  have he' := summary_instrument_full f t0 n m rf start now iv evs'
  by_cases hi : i < n
  · rw [he.2 i hi, he'.2 i hi, h]
  · rw [List.getElem?_eq_none (by omega), List.getElem?_eq_none (by omega)]

/-- Engine path: asset entry `a` depends on `a`'s own snapshots only. -/
theorem frame_asset (f : Rat → Rat) (t0 : Int) (n m : Nat) (rf : Rat) (start now : Int)
    (iv : Interval) (evs evs' : List Ev) (a : Nat) (h : snapsOf a evs = snapsOf a evs') :
    (engineSummary f t0 n m rf start now iv evs).assets[a]? =
      (engineSummary f t0 n m rf start now iv evs').assets[a]? := by
  have he := summary_asset_full f t0 n m rf start now iv evs
  have he' := summary_asset_full f t0 n m rf start now iv evs'
  by_cases ha : a < m
  · rw [he.2 a ha, he'.2 a ha, h]
  · rw [List.getElem?_eq_none (by omega), List.getElem?_eq_none (by omega)]

/-- Step form: one more event that is not an exit of instrument `i` (a balance, or an exit of another
instrument) leaves entry `i` as it was; one that is not a snapshot of asset `a` leaves entry `a`. -/
theorem frame_step (f : Rat → Rat) (t0 : Int) (n m : Nat) (rf : Rat) (start now : Int)
    (iv : Interval) (evs : List Ev) (e : Ev) :
    (∀ i, exitsOf i [e] = [] →
      (engineSummary f t0 n m rf start now iv (evs ++ [e])).instruments[i]? =
        (engineSummary f t0 n m rf start now iv evs).instruments[i]?) ∧
    (∀ a, snapsOf a [e] = [] →
      (engineSummary f t0 n m rf start now iv (evs ++ [e])).assets[a]? =
        (engineSummary f t0 n m rf start now iv evs).assets[a]?) := by
  constructor
  · intro i h
    exact frame_instrument f t0 n m rf start now iv _ _ i (by rw [exitsOf_append, h, List.append_nil])
  · intro a h
    exact frame_asset f t0 n m rf start now iv _ _ a (by rw [snapsOf_append, h, List.append_nil])

/-- Which single events are foreign to a key. -/
theorem foreign_events (i a j b : Nat) (p : Exit) (s : BalSnap) :
    exitsOf i [.balance b s] = [] ∧ snapsOf a [.position j p] = [] ∧
    (j ≠ i → exitsOf i [.position j p] = []) ∧ (b ≠ a → snapsOf a [.balance b s] = []) := by
  refine ⟨rfl, rfl, ?_, ?_⟩
  · intro h; simp [exitsOf, h]
  · intro h; simp [snapsOf, h]

/-- Direct path: the same two frame statements. -/
theorem direct_frame (f : Rat → Rat) (t0 : Int) (n m : Nat) (rf : Rat) (iv : Interval)
    (evs evs' : List Ev) :
    (∀ i, exitsOf i evs = exitsOf i evs' →
      (directSummary f t0 n m rf iv evs).instruments[i]? =
        (directSummary f t0 n m rf iv evs').instruments[i]?) ∧
    (∀ a, snapsOf a evs = snapsOf a evs' →
      (directSummary f t0 n m rf iv evs).assets[a]? =
        (directSummary f t0 n m rf iv evs').assets[a]?) := by
  constructor
  · intro i h
    have he := direct_summary_instrument_full f t0 n m rf iv evs
    have he' := direct_summary_instrument_full f t0 n m rf iv evs'
    by_cases hi : i < n
    · rw [he.2 i hi, he'.2 i hi, h]
    · rw [List.getElem?_eq_none (by omega), List.getElem?_eq_none (by omega)]
  · intro a h
    have he := direct_summary_asset_full f t0 n m rf iv evs
    have he' := direct_summary_asset_full f t0 n m rf iv evs'
    by_cases ha : a < m
    · rw [he.2 a ha, he'.2 a ha, h]
    · rw [List.getElem?_eq_none (by omega), List.getElem?_eq_none (by omega)]

/-! ## 5. `generate`: read-only on the engine path, not on a long-lived direct generator -/

/-- **Engine path: `generate` is read-only.** `Engine::trading_summary_generator(&self)` clones; whatever
summaries were requested in between, the engine state is the one reached by the events alone, and a
summary requested after `ops` is `engineSummary` of the events in `ops` — earlier requests are invisible.
(Bookkeeping: true by construction of `EngState.exec`, whose `.gen` case passes the state on unchanged —
the definition transcribes `trading_summary_generator(&self)`; that the real engine state is not touched is
what the correspondence checks, e.g. the fixed vector with the request between 90 and 110 on the engine path.) -/
theorem engine_generate_read_only (f : Rat → Rat) (t0 : Int) (n m : Nat) (rf : Rat) (start now : Int)
    (iv : Interval) (ops : List Op) :
    (EngState.exec f rf start now (EngState.init t0 n m) ops).1 =
      (EngState.init t0 n m).run f (eventsOf ops) ∧
    (EngState.exec f rf start now (EngState.init t0 n m) (ops ++ [.gen iv])).2.getLast? =
      some (engineSummary f t0 n m rf start now iv (eventsOf ops)) := by
  refine ⟨EngState.exec_state f rf start now ops _, ?_⟩
  rw [EngState.exec_append]
  simp [EngState.exec, EngState.exec_state, engineSummary]

/-- Direct path: the summary a `generate` returns after `ops` is computed from the generator as the
earlier calls — `generate` calls included — left it. -/
theorem direct_last_summary (f : Rat → Rat) (g : SummaryGen) (iv : Interval) (ops : List Op) :
    (SummaryGen.exec f g (ops ++ [.gen iv])).2.getLast? =
      some ((SummaryGen.exec f g ops).1.generate f iv).2 := by
  rw [SummaryGen.exec_append]
  simp [SummaryGen.exec]

/-- the long-lived direct generator after `ops` -/
def directAfter (f : Rat → Rat) (t0 : Int) (n m : Nat) (rf : Rat) (ops : List Op) : SummaryGen :=
  (SummaryGen.exec f (SummaryGen.init rf t0 t0 (EngState.init t0 n m)) ops).1

/-- Direct path, keyed, with interleaved `generate` calls: entry `i` of the long-lived generator has
seen exactly `i`'s exited positions and EVERY `generate` call (a `generate` touches every entry), entry
`a` exactly `a`'s snapshots and every `generate` call; events of other keys are still invisible. -/
theorem direct_after_entries (f : Rat → Rat) (t0 : Int) (n m : Nat) (rf : Rat) (ops : List Op) :
    (directAfter f t0 n m rf ops).instruments.length = n ∧
    (directAfter f t0 n m rf ops).assets.length = m ∧
    (∀ i, i < n → (directAfter f t0 n m rf ops).instruments[i]? =
      some (Metrics.Gen.exec f (Metrics.Gen.init t0) (stepsOf rf i ops))) ∧
    (∀ a, a < m → (directAfter f t0 n m rf ops).assets[a]? =
      some (AssetGen.default.exec (aopsOf a ops))) := by
  obtain ⟨x1, x2, x3⟩ := SummaryGen.exec_fixed f ops (SummaryGen.init rf t0 t0 (EngState.init t0 n m))
  refine ⟨?_, ?_, ?_, ?_⟩
  · rw [directAfter, x2]; simp [SummaryGen.init, EngState.init]
  · rw [directAfter, x3]; simp [SummaryGen.init, EngState.init]
  · intro i hi
    have h0 : (SummaryGen.init rf t0 t0 (EngState.init t0 n m)).instruments[i]? =
        some (Metrics.Gen.init t0) := by
      simp [SummaryGen.init, EngState.init, hi]
    exact SummaryGen.exec_instrument f i ops _ _ h0
  · intro a ha
    have h0 : (SummaryGen.init rf t0 t0 (EngState.init t0 n m)).assets[a]? = some AssetGen.default := by
      simp [SummaryGen.init, EngState.init, ha, AssetState.default]
    exact SummaryGen.exec_asset f a ops _ _ h0

/-- … and so has the summary a `generate` then returns. -/
theorem direct_exec_entries (f : Rat → Rat) (t0 : Int) (n m : Nat) (rf : Rat) (iv : Interval)
    (ops : List Op) :
    ((directAfter f t0 n m rf ops).generate f iv).2.instruments.length = n ∧
    ((directAfter f t0 n m rf ops).generate f iv).2.assets.length = m ∧
    (∀ i, i < n →
      ((directAfter f t0 n m rf ops).generate f iv).2.instruments[i]? =
        some ((Metrics.Gen.exec f (Metrics.Gen.init t0) (stepsOf rf i ops)).generate f rf iv).2) ∧
    (∀ a, a < m →
      ((directAfter f t0 n m rf ops).generate f iv).2.assets[a]? =
        some (AssetGen.default.exec (aopsOf a ops)).generate.2) := by
  obtain ⟨l1, l2, e1, e2⟩ := direct_after_entries f t0 n m rf ops
  obtain ⟨_, _, _, _, _, g6, g7, _, _⟩ := SummaryGen.generate_fixed f (directAfter f t0 n m rf ops) iv
  refine ⟨g6.trans l1, g7.trans l2, ?_, ?_⟩
  · intro i hi
    rw [(SummaryGen.generate_instrument f _ iv i).1, e1 i hi]
    have : (directAfter f t0 n m rf ops).riskFreeReturn = rf :=
      (SummaryGen.exec_fixed f ops _).1
    rw [this]; rfl
  · intro a ha
    rw [(SummaryGen.generate_asset f _ iv a).1, e2 a ha]; rfl

/-- **Exactly what interleaved `generate` calls do to one tear sheet** (`Lemmas/KeyedSummary.lean`,
`sheetExec_exact`): the `DrawdownGenerator` is untouched — it is the one reached after the points alone —,
while the mean and the max generator have been fed, in order, `emitted [] ops`: for every point the
drawdown it completes (C18), for every `generate` the drawdown in progress at that moment. Hence the
report of a `generate` after `ops`: the current drawdown is that of the points alone; mean and maximum
are taken over the emitted list (this `generate`'s own contribution included). -/
theorem interleaved_generate_exact (ops : List SOp) :
    (sheetExec Drawdown.Sheet.default ops).gen =
      (Drawdown.Sheet.run Drawdown.Sheet.default (ptsOf ops)).1.gen ∧
    (sheetExec Drawdown.Sheet.default ops).mean =
      ⟨(emitted [] ops).length, Drawdown.specMean (emitted [] ops)⟩ ∧
    (sheetExec Drawdown.Sheet.default ops).max.generate = Drawdown.specMax (emitted [] ops) ∧
    (sheetExec Drawdown.Sheet.default ops).generate.2 =
      ⟨(Drawdown.decompose (ptsOf ops)).2,
       Drawdown.specMean (emitted [] (ops ++ [.gen])),
       Drawdown.specMax (emitted [] (ops ++ [.gen]))⟩ := by
  obtain ⟨e1, e2, e3⟩ := sheetExec_exact ops [] Drawdown.Sheet.default rfl
  refine ⟨by rw [e1]; rfl, ?_, ?_, sheetExec_report ops⟩
  · rw [e2]; exact Drawdown.meanFold_eq_specMean _
  · rw [e3]; exact Drawdown.maxFold_eq_specMax _

/-- The emitted list, unfolded: a point contributes the completed drawdowns it adds to C18's
decomposition; a `generate` contributes the drawdown in progress (if any) once more. -/
theorem emitted_unfold (pts : List Drawdown.Pt) (q : Drawdown.Pt) (ops : List SOp) :
    emitted pts [] = [] ∧
    emitted pts (.pt q :: ops) =
      (Drawdown.decompose (pts ++ [q])).1.drop (Drawdown.decompose pts).1.length ++
        emitted (pts ++ [q]) ops ∧
    emitted pts (.gen :: ops) = (Drawdown.decompose pts).2.toList ++ emitted pts ops :=
  ⟨rfl, rfl, rfl⟩

/-- Without interleaved calls this is C18: the completed drawdowns, and for the final `generate` the
one in progress (`Drawdown.reported`). -/
theorem emitted_without_generate (qs : List Drawdown.Pt) :
    emitted [] (qs.map SOp.pt) = (Drawdown.decompose qs).1 ∧
    emitted [] (qs.map SOp.pt ++ [SOp.gen]) = Drawdown.reported qs := by
  refine ⟨?_, emitted_points_gen qs⟩
  rw [emitted_points]; simp [Drawdown.decompose]

/-- A `generate` at a moment when no drawdown is in progress changes NOTHING — neither the generator nor
any later report. (So on the direct path the reports are those of the histories alone as long as every
summary is requested at a running maximum of every curve.) -/
theorem generate_harmless_when_flat (s : Drawdown.Sheet) (h : s.gen.generate = none) :
    s.generate.1 = s := by
  simp [Drawdown.Sheet.generate, h]

/-- History form: if every interleaved `generate` happens at a moment without a drawdown in progress
(`FlatAtGens`: for each of them C18's decomposition of the points so far has no current drawdown), the
next report is C18's report of the points alone — exactly as if no summary had been requested before. -/
theorem generate_at_flat_moments_is_harmless (ops : List SOp) (h : FlatAtGens [] ops) :
    (sheetExec Drawdown.Sheet.default ops).generate.2 =
      ⟨(Drawdown.decompose (ptsOf ops)).2, Drawdown.specMean (Drawdown.reported (ptsOf ops)),
       Drawdown.specMax (Drawdown.reported (ptsOf ops))⟩ :=
  sheetExec_report_flat ops h

/-- Asset entry on the direct path after any interleaving, exactly: `balance_end` and the drawdown in
progress are those of ALL of `a`'s snapshots (never influenced by `generate` calls); mean and maximum
drawdown are taken over the emitted list of `a`'s curve with every `generate` call interleaved. -/
theorem direct_interleaved_asset_exact (f : Rat → Rat) (t0 : Int) (n m : Nat) (rf : Rat)
    (iv : Interval) (ops : List Op) (a : Nat) (ha : a < m) :
    ((directAfter f t0 n m rf ops).generate f iv).2.assets[a]? =
      some ⟨(snapsOf a (eventsOf ops)).getLast?.map (·.balance),
        ⟨(Drawdown.decompose (curveOf (snapsOf a (eventsOf ops)))).2,
         Drawdown.specMean (emitted [] (sopsOfA (aopsOf a ops) ++ [.gen])),
         Drawdown.specMax (emitted [] (sopsOfA (aopsOf a ops) ++ [.gen]))⟩⟩ := by
  rw [(direct_exec_entries f t0 n m rf iv ops).2.2.2 a ha, AssetGen.exec_eq]
  simp only [AssetGen.generate, AssetGen.default, Option.or_none, Option.some.injEq]
  rw [sheetExec_report, ptsOf_sopsOfA, snapsOfA_aopsOf]

/-- Instrument entry on the direct path after any interleaving, exactly. Six fields are those of `i`'s
positions alone (C16M `sheet_any_interleaving`); the three drawdown fields are as for assets, over the
cumulative-PnL curve; the Calmar ratio is `calculate`-then-`scale` with the maximum of the emitted list
as its risk. -/
theorem direct_interleaved_instrument_exact (f : Rat → Rat) (t0 : Int) (n m : Nat) (rf : Rat)
    (iv : Interval) (ops : List Op) (i : Nat) (hi : i < n) :
    ∃ sh, ((directAfter f t0 n m rf ops).generate f iv).2.instruments[i]? = some sh ∧
      let ps := exitsOf i (eventsOf ops)
      let sh' := C16M.sheetOf f t0 ps rf iv
      let E := emitted [] (sopsFrom 0 (stepsOf rf i ops) ++ [.gen])
      sh.pnl = sh'.pnl ∧ sh.pnlReturn = sh'.pnlReturn ∧ sh.sharpeRatio = sh'.sharpeRatio ∧
      sh.sortinoRatio = sh'.sortinoRatio ∧ sh.winRate = sh'.winRate ∧
      sh.profitFactor = sh'.profitFactor ∧
      sh.drawdowns = ⟨(Drawdown.decompose (Metrics.specCurve ps)).2, Drawdown.specMean E,
        Drawdown.specMax E⟩ ∧
      sh.calmarRatio = Metrics.CalmarRatio.scale f
        (Metrics.CalmarRatio.calculate rf (DataSet.specMean (Metrics.returns ps))
          (((Drawdown.specMax E).map (·.value)).getD 0) (Metrics.specTradingPeriod t0 ps)) iv := by
  refine ⟨_, (direct_exec_entries f t0 n m rf iv ops).2.2.1 i hi, ?_⟩
  have hany := C16M.sheet_any_interleaving f t0 (stepsOf rf i ops) rf iv
  simp only [positionsOf_stepsOf] at hany
  obtain ⟨a1, a2, a3, a4, a5, a6⟩ := hany
  obtain ⟨_, _, _, _, g5, g6⟩ :=
    Metrics.generate_fields f (Metrics.Gen.exec f (Metrics.Gen.init t0) (stepsOf rf i ops)) rf iv
  have hsheet : (Metrics.Gen.exec f (Metrics.Gen.init t0) (stepsOf rf i ops)).sheet =
      sheetExec Drawdown.Sheet.default (sopsFrom 0 (stepsOf rf i ops)) :=
    genExec_sheet f _ (Metrics.Gen.init t0)
  have hrep := sheetExec_report (sopsFrom 0 (stepsOf rf i ops))
  rw [ptsOf_sopsFrom, positionsOf_stepsOf] at hrep
  have hcore := Metrics.core_exec f (stepsOf rf i ops) (Metrics.Gen.init t0) (Metrics.Gen.init t0) rfl
  rw [positionsOf_stepsOf] at hcore
  obtain ⟨_, r2, r3, _, _, _⟩ := Metrics.run_init f t0 (exitsOf i (eventsOf ops))
  have hmean : (Metrics.Gen.exec f (Metrics.Gen.init t0) (stepsOf rf i ops)).total.mean =
      DataSet.specMean (Metrics.returns (exitsOf i (eventsOf ops))) := by
    have : (Metrics.Gen.exec f (Metrics.Gen.init t0) (stepsOf rf i ops)).total =
        (Metrics.Gen.run f (Metrics.Gen.init t0) (exitsOf i (eventsOf ops))).total :=
      congrArg Metrics.Core.total hcore
    rw [this, r3]; rfl
  have hperiod : (Metrics.Gen.exec f (Metrics.Gen.init t0) (stepsOf rf i ops)).tradingPeriod =
      Metrics.specTradingPeriod t0 (exitsOf i (eventsOf ops)) := by
    rw [← r2]
    have e1 := congrArg Metrics.Core.timeEngineStart hcore
    have e2 := congrArg Metrics.Core.timeEngineNow hcore
    simp only [Metrics.Gen.core] at e1 e2
    simp only [Metrics.Gen.tradingPeriod, e1, e2]
  refine ⟨a1, a2, a3, a4, a5, a6, ?_, ?_⟩
  · rw [g6, hsheet, hrep]; rfl
  · rw [g5, hsheet, hrep, hmean, hperiod]

/-- the witness histories: totals 100 at t = 0, 90 at t = 10, [a summary request,] 110 at t = 30 -/
def witnessOps (withRequest : Bool) : List Op :=
  [.ev (.balance 0 ⟨0, ⟨100, 100⟩⟩), .ev (.balance 0 ⟨10, ⟨90, 90⟩⟩)] ++
    (if withRequest then [.gen .daily] else []) ++ [.ev (.balance 0 ⟨30, ⟨110, 110⟩⟩)]

/-- **The witness (100, 90, generate, 110).** One asset. Without the intermediate request the final
report shows one drawdown of 10 % lasting from 0 to 30 (mean duration 30 ms, maximum ending at 30). With
it, the intermediate `generate` (whose own report is the second conjunct) has fed the drawdown in progress
(10 %, 0 → 10) to the mean / max generators, and the point 110 feeds the completed one (10 %, 0 → 30) as
well: the later report counts TWO drawdowns (mean duration 20 ms) and its maximum drawdown ends at
t = 10 — while the engine path, asked the same two questions, answers the second as if the first had never
been asked. -/
theorem interleaved_generate_witness (f : Rat → Rat) (rf : Rat) (start now : Int) :
    -- direct path, no intermediate request
    ((directAfter f 0 0 1 rf (witnessOps false)).generate f .daily).2.assets =
      [⟨some ⟨110, 110⟩, ⟨none, some ⟨1 / 10, 30⟩, some ⟨1 / 10, 0, 30⟩⟩⟩] ∧
    -- direct path: what the intermediate request itself reports
    ((directAfter f 0 0 1 rf ((witnessOps true).take 2)).generate f .daily).2.assets =
      [⟨some ⟨90, 90⟩, ⟨some ⟨1 / 10, 0, 10⟩, some ⟨1 / 10, 10⟩, some ⟨1 / 10, 0, 10⟩⟩⟩] ∧
    -- … and the later report after it
    ((directAfter f 0 0 1 rf (witnessOps true)).generate f .daily).2.assets =
      [⟨some ⟨110, 110⟩, ⟨none, some ⟨1 / 10, 20⟩, some ⟨1 / 10, 0, 10⟩⟩⟩] ∧
    (directAfter f 0 0 1 rf (witnessOps true)).assets.map (·.sheet.mean.count) = [2] ∧
    (directAfter f 0 0 1 rf (witnessOps false)).assets.map (·.sheet.mean.count) = [1] ∧
    -- engine path: the same later answer with and without the intermediate request
    (EngState.exec f rf start now (EngState.init 0 0 1) (witnessOps true ++ [.gen .daily])).2.getLast?.map
        (·.assets) = some [⟨some ⟨110, 110⟩, ⟨none, some ⟨1 / 10, 30⟩, some ⟨1 / 10, 0, 30⟩⟩⟩] ∧
    (EngState.exec f rf start now (EngState.init 0 0 1) (witnessOps false ++ [.gen .daily])).2.getLast?.map
        (·.assets) = some [⟨some ⟨110, 110⟩, ⟨none, some ⟨1 / 10, 30⟩, some ⟨1 / 10, 0, 30⟩⟩⟩] := by
  have direct : ∀ (ops : List Op) (x : AssetSheet),
      (AssetGen.default.exec (aopsOf 0 ops)).generate.2 = x →
      ((directAfter f 0 0 1 rf ops).generate f .daily).2.assets = [x] := by
    intro ops x hx
    obtain ⟨_, l2, _, e2⟩ := direct_exec_entries f 0 0 1 rf .daily ops
    exact singleton_of l2 (by rw [e2 0 (by omega), hx])
  have count : ∀ (ops : List Op) (k : Nat),
      (AssetGen.default.exec (aopsOf 0 ops)).sheet.mean.count = k →
      (directAfter f 0 0 1 rf ops).assets.map (·.sheet.mean.count) = [k] := by
    intro ops k hk
    obtain ⟨_, l2, _, e2⟩ := direct_after_entries f 0 0 1 rf ops
    have := singleton_of l2 (e2 0 (by omega))
    rw [this]; simp [hk]
  have engine : ∀ (ops : List Op) (x : AssetSheet),
      assetSheetOf (nonStale none (snapsOf 0 (eventsOf ops))) = x →
      (EngState.exec f rf start now (EngState.init 0 0 1) (ops ++ [.gen .daily])).2.getLast?.map
        (·.assets) = some [x] := by
    intro ops x hx
    rw [(engine_generate_read_only f 0 0 1 rf start now .daily ops).2]
    obtain ⟨e1, e2⟩ := summary_asset_full f 0 0 1 rf start now .daily (eventsOf ops)
    simp only [Option.map_some, Option.some.injEq]
    exact singleton_of e1 (by rw [e2 0 (by omega), hx])
  exact ⟨direct _ _ (by decide +kernel), direct _ _ (by decide +kernel), direct _ _ (by decide +kernel),
    count _ _ (by decide +kernel), count _ _ (by decide +kernel),
    engine _ _ (by decide +kernel), engine _ _ (by decide +kernel)⟩

/-- Two requests in a row are enough (C18's examined boundary, at the keyed level): after the second
request a direct generator has counted the single drawdown in progress twice. -/
theorem repeated_generate_witness (f : Rat → Rat) (rf : Rat) :
    (directAfter f 0 0 1 rf
      [.ev (.balance 0 ⟨0, ⟨100, 100⟩⟩), .ev (.balance 0 ⟨10, ⟨90, 90⟩⟩), .gen .daily, .gen .daily]).assets.map
        (·.sheet.mean.count) = [2] := by
  obtain ⟨_, l2, _, e2⟩ := direct_after_entries f 0 0 1 rf
    [.ev (.balance 0 ⟨0, ⟨100, 100⟩⟩), .ev (.balance 0 ⟨10, ⟨90, 90⟩⟩), .gen .daily, .gen .daily]
  have := singleton_of l2 (e2 0 (by omega))
  rw [this]
  decide +kernel

/-! ## 6. Projections onto the C16 model commute -/

/-- The full sheet of a history projects onto C16's specified sheet of the same history. -/
theorem projSheet_sheetOf (f : Rat → Rat) (t0 : Int) (ps : List Exit) (rf : Rat) (iv : Interval) :
    projSheet (C16M.sheetOf f t0 ps rf iv) = TearSheet.specTearSheet (ps.map (·.closed)) := by
  obtain ⟨h1, _⟩ := C16M.sheet_refines f t0 ps rf iv
  obtain ⟨w1, w2⟩ := C16M.sheet_win_rate_profit_factor f t0 ps rf iv
  simp only [projSheet, TearSheet.specTearSheet, h1, w1, w2]

/-- **Engine path: projecting the full summary = C16's summary of the projected history** — the
instrument half is `Props.C16.engine_summary_instrument`, the asset half `engine_summary_asset`, read
through `summary_instrument_full` / `summary_asset_full`. -/
theorem projection_commutes_engine (f : Rat → Rat) (t0 : Int) (n m : Nat) (rf : Rat) (start now : Int)
    (iv : Interval) (evs : List Ev) :
    (engineSummary f t0 n m rf start now iv evs).instruments.map projSheet =
      (TearSheet.engineSummary n m (evs.map projEv)).instruments ∧
    (engineSummary f t0 n m rf start now iv evs).assets.map projAsset =
      (TearSheet.engineSummary n m (evs.map projEv)).assets := by
  constructor
  · apply List.ext_getElem?
    intro i
    have h1 := summary_instrument_full f t0 n m rf start now iv evs
    have h2 := C16.engine_summary_instrument n m (evs.map projEv)
    by_cases hi : i < n
    · rw [List.getElem?_map, h1.2 i hi, h2.2 i hi, historyOf_projEv]
      exact congrArg some (projSheet_sheetOf f t0 _ rf iv)
    · rw [List.getElem?_eq_none (by simp; omega), List.getElem?_eq_none (by omega)]
  · apply List.ext_getElem?
    intro a
    have h1 := summary_asset_full f t0 n m rf start now iv evs
    have h2 := C16.engine_summary_asset n m (evs.map projEv)
    by_cases ha : a < m
    · rw [List.getElem?_map, h1.2 a ha, h2.2 a ha, balancesOf_projEv]
      simp only [Option.map_some, projAsset, assetSheetOf, TearSheet.specAssetEngine,
        non_stale_last_is_latest]
    · rw [List.getElem?_eq_none (by simp; omega), List.getElem?_eq_none (by omega)]

/-- Direct path likewise (`Props.C16.direct_summary_instrument` / `direct_summary_asset`). -/
theorem projection_commutes_direct (f : Rat → Rat) (t0 : Int) (n m : Nat) (rf : Rat) (iv : Interval)
    (evs : List Ev) :
    (directSummary f t0 n m rf iv evs).instruments.map projSheet =
      (TearSheet.directSummary n m (evs.map projEv)).instruments ∧
    (directSummary f t0 n m rf iv evs).assets.map projAsset =
      (TearSheet.directSummary n m (evs.map projEv)).assets := by
  constructor
  · apply List.ext_getElem?
    intro i
    have h1 := direct_summary_instrument_full f t0 n m rf iv evs
    have h2 := C16.direct_summary_instrument n m (evs.map projEv)
    by_cases hi : i < n
    · rw [List.getElem?_map, h1.2 i hi, h2.2 i hi, historyOf_projEv]
      exact congrArg some (projSheet_sheetOf f t0 _ rf iv)
    · rw [List.getElem?_eq_none (by simp; omega), List.getElem?_eq_none (by omega)]
  · apply List.ext_getElem?
    intro a
    have h1 := direct_summary_asset_full f t0 n m rf iv evs
    have h2 := C16.direct_summary_asset n m (evs.map projEv)
    by_cases ha : a < m
    · rw [List.getElem?_map, h1.2 a ha, h2.2 a ha, balancesOf_projEv]
      rfl
    · rw [List.getElem?_eq_none (by simp; omega), List.getElem?_eq_none (by omega)]

/-! ## 7. Where the code panics: the checked summaries

`engineSummary` / `directSummary` / the `exec` functions (§1–§5) are total: an event whose key is outside
the maps is ignored (`modifyAt`), a zero-cost exit goes on with `pnl / 0 = 0`. The code panics on both
(`instrument_index_mut` / `asset_index_mut`, `instrument_mut` / `asset_mut`: "Panics if … does not exist";
`calculate_pnl_return`). The theorems above are true of the total functions for every history, but on
such a history they do not describe anything the code reports. `engineSummaryChecked`,
`directSummaryChecked`, `EngState.execChecked`, `SummaryGen.execChecked` (`Model/KeyedSummary.lean`) carry
the panic as an explicit outcome (`none`) and are what the drivers run. -/

/-- **When a single event makes the code panic**: a position for an instrument index ≥ n, or with a
zero cost of investment; a balance for an asset index ≥ m. -/
theorem ev_panics_iff (n m : Nat) (ev : Ev) :
    ev.panics n m = true ↔
      match ev with
      | .position i p => n ≤ i ∨ C16M.costOf p = 0
      | .balance a _ => m ≤ a :=
  Ev.panics_iff n m ev

/-- The checked summaries are the unchecked ones guarded by "no event of the history panics". -/
theorem summary_checked_eq (f : Rat → Rat) (t0 : Int) (n m : Nat) (rf : Rat) (start now : Int)
    (iv : Interval) (evs : List Ev) :
    engineSummaryChecked f t0 n m rf start now iv evs =
      (if evs.any (Ev.panics n m) then none else some (engineSummary f t0 n m rf start now iv evs)) ∧
    directSummaryChecked f t0 n m rf iv evs =
      (if evs.any (Ev.panics n m) then none else some (directSummary f t0 n m rf iv evs)) := by
  constructor
  · rw [engineSummaryChecked, EngState.runChecked_eq]
    simp only [EngState.init, List.length_replicate]
    split <;> rfl
  · rw [directSummaryChecked, SummaryGen.runChecked_eq]
    simp only [SummaryGen.init, EngState.init, List.length_replicate, List.length_map]
    split <;> rfl

/-- **Exactly when the code panics** (either path): some event of the history names an instrument /
asset the engine was not built with, or closes a position with a zero cost of investment. -/
theorem summary_panics_iff (f : Rat → Rat) (t0 : Int) (n m : Nat) (rf : Rat) (start now : Int)
    (iv : Interval) (evs : List Ev) :
    (engineSummaryChecked f t0 n m rf start now iv evs = none ↔ ∃ ev ∈ evs, ev.panics n m = true) ∧
    (directSummaryChecked f t0 n m rf iv evs = none ↔ ∃ ev ∈ evs, ev.panics n m = true) := by
  obtain ⟨e1, e2⟩ := summary_checked_eq f t0 n m rf start now iv evs
  rw [e1, e2]
  by_cases h : evs.any (Ev.panics n m) = true
  · rw [if_pos h, if_pos h]
    have := List.any_eq_true.mp h
    exact ⟨⟨fun _ => this, fun _ => rfl⟩, ⟨fun _ => this, fun _ => rfl⟩⟩
  · rw [if_neg h, if_neg h]
    have hn : ¬ ∃ ev ∈ evs, ev.panics n m = true := fun hx => h (List.any_eq_true.mpr hx)
    exact ⟨⟨fun h' => (by cases h'), fun hx => absurd hx hn⟩,
      ⟨fun h' => (by cases h'), fun hx => absurd hx hn⟩⟩

/-- The same with interleaved summary requests (what the model driver folds): a request never panics;
without a panicking event the checked functions are the unchecked ones. -/
theorem exec_panics_iff (f : Rat → Rat) (t0 : Int) (n m : Nat) (rf : Rat) (start now : Int)
    (ops : List Op) :
    (EngState.execChecked f rf start now (EngState.init t0 n m) ops = none ↔
      ∃ ev ∈ eventsOf ops, ev.panics n m = true) ∧
    (SummaryGen.execChecked f (SummaryGen.init rf t0 t0 (EngState.init t0 n m)) ops = none ↔
      ∃ ev ∈ eventsOf ops, ev.panics n m = true) ∧
    (∀ r, EngState.execChecked f rf start now (EngState.init t0 n m) ops = some r →
      r = EngState.exec f rf start now (EngState.init t0 n m) ops) ∧
    (∀ r, SummaryGen.execChecked f (SummaryGen.init rf t0 t0 (EngState.init t0 n m)) ops = some r →
      r = SummaryGen.exec f (SummaryGen.init rf t0 t0 (EngState.init t0 n m)) ops) := by
  have e1 := EngState.execChecked_eq f rf start now ops (EngState.init t0 n m)
  have e2 := SummaryGen.execChecked_eq f ops (SummaryGen.init rf t0 t0 (EngState.init t0 n m))
  simp only [SummaryGen.init, EngState.init, List.length_replicate, List.length_map] at e1 e2
  simp only [SummaryGen.init, EngState.init]
  rw [e1, e2]
  by_cases h : (eventsOf ops).any (Ev.panics n m) = true
  · rw [if_pos h, if_pos h]
    have := List.any_eq_true.mp h
    exact ⟨⟨fun _ => this, fun _ => rfl⟩, ⟨fun _ => this, fun _ => rfl⟩,
      fun r hr => (by cases hr), fun r hr => (by cases hr)⟩
  · rw [if_neg h, if_neg h]
    have hn : ¬ ∃ ev ∈ eventsOf ops, ev.panics n m = true := fun hx => h (List.any_eq_true.mpr hx)
    exact ⟨⟨fun h' => (by cases h'), fun hx => absurd hx hn⟩,
      ⟨fun h' => (by cases h'), fun hx => absurd hx hn⟩,
      fun r hr => (by cases hr; rfl), fun r hr => (by cases hr; rfl)⟩

/-- **What the code reports, when it reports (engine path).** If the checked function returns a summary
then (a) every event of the history named a key in range and every exit had a non-zero cost, so every
event of the history has reached exactly the entry of its key (no event is dropped: each position of
instrument `i` is in `exitsOf i`, each snapshot of asset `a` in `snapsOf a`); (b) the summary is the one §1
and §2 speak about: exactly `n` instrument entries, entry `i` the CHECKED C16M sheet of `i`'s exits (which
did not panic), exactly `m` asset entries, entry `a` the asset sheet over the non-stale subsequence. -/
theorem summary_checked_full (f : Rat → Rat) (t0 : Int) (n m : Nat) (rf : Rat) (start now : Int)
    (iv : Interval) (evs : List Ev) (s : Summary)
    (h : engineSummaryChecked f t0 n m rf start now iv evs = some s) :
    (∀ i p, Ev.position i p ∈ evs → i < n ∧ C16M.costOf p ≠ 0 ∧ p ∈ exitsOf i evs) ∧
    (∀ a b, Ev.balance a b ∈ evs → a < m ∧ b ∈ snapsOf a evs) ∧
    s = engineSummary f t0 n m rf start now iv evs ∧
    s.instruments.length = n ∧
    (∀ i, i < n → (s.instruments[i]?).join = C16M.sheetChecked f t0 (exitsOf i evs) rf iv ∧
      (s.instruments[i]?).isSome) ∧
    s.assets.length = m ∧
    (∀ a, a < m → s.assets[a]? = some (assetSheetOf (nonStale none (snapsOf a evs)))) := by
  have hnone : ¬ engineSummaryChecked f t0 n m rf start now iv evs = none := by rw [h]; simp
  rw [(summary_panics_iff f t0 n m rf start now iv evs).1] at hnone
  have hev : ∀ ev ∈ evs, ¬ ev.panics n m = true := fun ev hev hp => hnone ⟨ev, hev, hp⟩
  have hany : ¬ evs.any (Ev.panics n m) = true := fun hx => hnone (List.any_eq_true.mp hx)
  rw [(summary_checked_eq f t0 n m rf start now iv evs).1, if_neg hany] at h
  simp only [Option.some.injEq] at h
  subst h
  obtain ⟨i1, i2⟩ := summary_instrument_full f t0 n m rf start now iv evs
  obtain ⟨a1, a2⟩ := summary_asset_full f t0 n m rf start now iv evs
  have hpos : ∀ i p, Ev.position i p ∈ evs → i < n ∧ C16M.costOf p ≠ 0 ∧ p ∈ exitsOf i evs := by
    intro i p hp
    have := hev _ hp
    rw [ev_panics_iff] at this
    simp only [not_or, Nat.not_le] at this
    exact ⟨this.1, this.2, mem_exitsOf i p evs hp⟩
  refine ⟨hpos, ?_, rfl, i1, ?_, a1, a2⟩
  · intro a b hb
    have := hev _ hb
    rw [ev_panics_iff] at this
    simp only [Nat.not_le] at this
    exact ⟨this, mem_snapsOf a b evs hb⟩
  · intro i hi
    rw [i2 i hi]
    refine ⟨?_, rfl⟩
    have hno : ¬ (exitsOf i evs).any Metrics.Exit.panics = true := by
      intro hx
      obtain ⟨p, hp, hh⟩ := List.any_eq_true.mp hx
      exact (hpos i p (exitsOf_mem i p evs hp)).2.1 ((Metrics.Exit.panics_iff p).mp hh)
    rw [C16M.sheetChecked_eq, if_neg hno]; rfl

/-- Direct path likewise (asset entries over ALL snapshots). -/
theorem direct_summary_checked_full (f : Rat → Rat) (t0 : Int) (n m : Nat) (rf : Rat)
    (iv : Interval) (evs : List Ev) (s : Summary)
    (h : directSummaryChecked f t0 n m rf iv evs = some s) :
    (∀ i p, Ev.position i p ∈ evs → i < n ∧ C16M.costOf p ≠ 0 ∧ p ∈ exitsOf i evs) ∧
    (∀ a b, Ev.balance a b ∈ evs → a < m ∧ b ∈ snapsOf a evs) ∧
    s = directSummary f t0 n m rf iv evs ∧
    s.instruments.length = n ∧
    (∀ i, i < n → (s.instruments[i]?).join = C16M.sheetChecked f t0 (exitsOf i evs) rf iv ∧
      (s.instruments[i]?).isSome) ∧
    s.assets.length = m ∧
    (∀ a, a < m → s.assets[a]? = some (assetSheetOf (snapsOf a evs))) := by
  have hnone : ¬ directSummaryChecked f t0 n m rf iv evs = none := by rw [h]; simp
  rw [(summary_panics_iff f t0 n m rf 0 0 iv evs).2] at hnone
  have hev : ∀ ev ∈ evs, ¬ ev.panics n m = true := fun ev hev hp => hnone ⟨ev, hev, hp⟩
  have hany : ¬ evs.any (Ev.panics n m) = true := fun hx => hnone (List.any_eq_true.mp hx)
  rw [(summary_checked_eq f t0 n m rf 0 0 iv evs).2, if_neg hany] at h
  simp only [Option.some.injEq] at h
  subst h
  obtain ⟨i1, i2⟩ := direct_summary_instrument_full f t0 n m rf iv evs
  obtain ⟨a1, a2⟩ := direct_summary_asset_full f t0 n m rf iv evs
  have hpos : ∀ i p, Ev.position i p ∈ evs → i < n ∧ C16M.costOf p ≠ 0 ∧ p ∈ exitsOf i evs := by
    intro i p hp
    have := hev _ hp
    rw [ev_panics_iff] at this
    simp only [not_or, Nat.not_le] at this
    exact ⟨this.1, this.2, mem_exitsOf i p evs hp⟩
  refine ⟨hpos, ?_, rfl, i1, ?_, a1, a2⟩
  · intro a b hb
    have := hev _ hb
    rw [ev_panics_iff] at this
    simp only [Nat.not_le] at this
    exact ⟨this, mem_snapsOf a b evs hb⟩
  · intro i hi
    rw [i2 i hi]
    refine ⟨?_, rfl⟩
    have hno : ¬ (exitsOf i evs).any Metrics.Exit.panics = true := by
      intro hx
      obtain ⟨p, hp, hh⟩ := List.any_eq_true.mp hx
      exact (hpos i p (exitsOf_mem i p evs hp)).2.1 ((Metrics.Exit.panics_iff p).mp hh)
    rw [C16M.sheetChecked_eq, if_neg hno]; rfl

/-- **Witness at the excluded points: unknown keys.** One instrument, one asset; a balance for asset 7
and an exit for instrument 3. The total model ignores both events (the summary is that of the empty
history) where the code panics (`init 1 2 engine 0; bal 2 10 5 5` and direct `pos 1 …`: the harness
prints `panic`, `…-does-not-contain-…index`); the checked functions say so. -/
theorem out_of_range_key_model_ignores (f : Rat → Rat) (rf : Rat) (start now : Int) (iv : Interval) :
    let evs : List Ev := [.balance 7 ⟨5, ⟨100, 100⟩⟩, .position 3 ⟨1000, ⟨5, 100, 1⟩⟩]
    engineSummary f 0 1 1 rf start now iv evs = engineSummary f 0 1 1 rf start now iv [] ∧
    directSummary f 0 1 1 rf iv evs =
      { directSummary f 0 1 1 rf iv [] with timeEngineEnd := 1000 } ∧
    engineSummaryChecked f 0 1 1 rf start now iv evs = none ∧
    directSummaryChecked f 0 1 1 rf iv evs = none := by
  refine ⟨rfl, rfl, ?_, ?_⟩
  · rw [(summary_panics_iff f 0 1 1 rf start now iv _).1]
    exact ⟨Ev.balance 7 ⟨5, ⟨100, 100⟩⟩, by simp, by decide⟩
  · rw [(summary_panics_iff f 0 1 1 rf start now iv _).2]
    exact ⟨Ev.balance 7 ⟨5, ⟨100, 100⟩⟩, by simp, by decide⟩

/-- **Witness at the excluded points: zero cost.** The keyed total model reports a win rate of 1 for an
instrument whose only exit has an average entry price of 0 — the code panics (division by zero). -/
theorem zero_cost_exit_keyed_model_continues (f : Rat → Rat) (rf : Rat) (start now : Int)
    (iv : Interval) :
    (engineSummary f 0 1 1 rf start now iv [.position 0 C16M.zeroCostExit]).instruments.map (·.winRate) =
      [some 1] ∧
    engineSummaryChecked f 0 1 1 rf start now iv [.position 0 C16M.zeroCostExit] = none ∧
    directSummaryChecked f 0 1 1 rf iv [.position 0 C16M.zeroCostExit] = none := by
  obtain ⟨l, e⟩ := summary_instrument_full f 0 1 1 rf start now iv [.position 0 C16M.zeroCostExit]
  refine ⟨?_, ?_, ?_⟩
  · have h0 := e 0 (by omega)
    have hx : exitsOf 0 [Ev.position 0 C16M.zeroCostExit] = [C16M.zeroCostExit] := by decide
    rw [hx] at h0
    rw [singleton_of l h0]
    simp [(C16M.zero_cost_exit_model_continues f 0 rf iv).2.1]
  · rw [(summary_panics_iff f 0 1 1 rf start now iv _).1]
    exact ⟨Ev.position 0 C16M.zeroCostExit, by simp, by decide +kernel⟩
  · rw [(summary_panics_iff f 0 1 1 rf start now iv _).2]
    exact ⟨Ev.position 0 C16M.zeroCostExit, by simp, by decide +kernel⟩

/-! ## 8. Asset curves whose first total is not positive

C18 documents drawdowns for curves with positive peaks (`Drawdown.PositivePeaks`: the first value is
positive). Nothing guarantees that for an asset: a balance can start at 0 (or be negative on a margin
account). The oracle (spec driver) is SILENT on the drawdown fields of such an asset; the model mirrors
the code and is compared on them; what both report is stated here. -/

/-- A first total that is not positive is never the start of a drawdown: the drawdown fields of the asset
sheet are those of the history from the first snapshot whose total exceeds it. -/
theorem asset_nonpositive_first_total (s : BalSnap) (ss : List BalSnap) (h : s.balance.total ≤ 0) :
    Drawdown.decompose (curveOf (s :: ss)) =
      Drawdown.decompose ((curveOf ss).dropWhile (fun q => decide (q.v ≤ s.balance.total))) :=
  decompose_skip_nonpos_peak (pointOf s) (curveOf ss) h

/-- the reviewer's history: totals 0, −5, 10, 5 at t = 0, 10, 20, 30 -/
def zeroPeakHistory : List Ev :=
  [.balance 0 ⟨0, ⟨0, 0⟩⟩, .balance 0 ⟨10, ⟨-5, -5⟩⟩, .balance 0 ⟨20, ⟨10, 10⟩⟩, .balance 0 ⟨30, ⟨5, 5⟩⟩]

/-- **Witness** (corpus/C16K `k-zero-peak-engine` / `-direct`; generator class `zero-peak`): the curve is
outside C18's precondition, the spec driver prints `a0.bal` only, model and code report a 50 % drawdown
in progress since t = 20 — measured from the first POSITIVE peak (10), the non-positive start contributes
nothing. Both paths. -/
theorem asset_zero_peak_witness (f : Rat → Rat) (rf : Rat) (start now : Int) (iv : Interval) :
    ¬ Drawdown.PositivePeaks (curveOf (snapsOf 0 zeroPeakHistory)) ∧
    (engineSummary f 0 0 1 rf start now iv zeroPeakHistory).assets =
      [⟨some ⟨5, 5⟩, ⟨some ⟨1 / 2, 20, 30⟩, some ⟨1 / 2, 10⟩, some ⟨1 / 2, 20, 30⟩⟩⟩] ∧
    (directSummary f 0 0 1 rf iv zeroPeakHistory).assets =
      [⟨some ⟨5, 5⟩, ⟨some ⟨1 / 2, 20, 30⟩, some ⟨1 / 2, 10⟩, some ⟨1 / 2, 20, 30⟩⟩⟩] := by
  obtain ⟨e1, e2⟩ := summary_asset_full f 0 0 1 rf start now iv zeroPeakHistory
  obtain ⟨d1, d2⟩ := direct_summary_asset_full f 0 0 1 rf iv zeroPeakHistory
  refine ⟨by decide +kernel, ?_, ?_⟩
  · refine singleton_of e1 ?_
    rw [e2 0 (by omega)]
    exact congrArg some (by decide +kernel)
  · refine singleton_of d1 ?_
    rw [d2 0 (by omega)]
    exact congrArg some (by decide +kernel)

/-! ## Non-vacuity -/

section NonVacuity
abbrev root : Rat → Rat := DataSet.sqrtApprox

/-- two instruments, three assets; exits out of time order across instruments, a stale snapshot -/
def sampleHistory : List Ev :=
  [.position 0 ⟨86400000, ⟨10, 100, 1⟩⟩, .balance 2 ⟨5, ⟨100, 100⟩⟩, .position 1 ⟨3600000, ⟨-20, 100, 1⟩⟩,
   .balance 2 ⟨3, ⟨90, 40⟩⟩, .position 0 ⟨172800000, ⟨-5, 100, 1⟩⟩, .balance 2 ⟨6, ⟨80, 80⟩⟩,
   .balance 1 ⟨6, ⟨7, 7⟩⟩]

example : exitsOf 0 sampleHistory = [⟨86400000, ⟨10, 100, 1⟩⟩, ⟨172800000, ⟨-5, 100, 1⟩⟩] := by decide
example : snapsOf 2 sampleHistory = [⟨5, ⟨100, 100⟩⟩, ⟨3, ⟨90, 40⟩⟩, ⟨6, ⟨80, 80⟩⟩] := by decide
example : nonStale none (snapsOf 2 sampleHistory) = [⟨5, ⟨100, 100⟩⟩, ⟨6, ⟨80, 80⟩⟩] := by decide +kernel
example : (engineSummary root 0 2 3 0 0 0 .daily sampleHistory).assets.map (·.drawdowns.current) =
    [none, none, some ⟨1 / 5, 5, 6⟩] := by decide +kernel
example : (directSummary root 0 2 3 0 .daily sampleHistory).assets.map (·.drawdowns.current) =
    [none, none, some ⟨1 / 5, 5, 6⟩] := by decide +kernel
example : (engineSummary root 0 2 3 0 0 0 .daily sampleHistory).instruments.map (·.pnl) = [5, -20] := by
  decide +kernel
example : (engineSummary root 0 2 3 0 0 0 .daily sampleHistory).instruments.map (·.drawdowns.current) =
    [some ⟨1 / 2, 86400000, 172800000⟩, none] := by decide +kernel
/-- the hypothesis of `engine_direct_asset_agree_of_time_ordered` on a non-trivial history -/
example : (snapsOf 1 sampleHistory).Pairwise (fun x y => x.time ≤ y.time) ∧ snapsOf 1 sampleHistory ≠ [] := by
  decide
example : (directSummary root 0 2 3 0 .daily sampleHistory).timeEngineEnd = 172800000 := by decide +kernel
/-- the hypothesis of `generate_harmless_when_flat` is satisfiable after a non-trivial curve -/
example : (Drawdown.Sheet.run Drawdown.Sheet.default [⟨0, 100⟩, ⟨1, 90⟩, ⟨2, 110⟩]).1.gen.generate = none := by
  decide +kernel
end NonVacuity

end BarterModel.Props.C16K
