import BarterModel.Lemmas.ExecMap
/-!
# C04 — Engine indices and exchange names translate both ways without mix-ups

Statements only (proofs go through `Lemmas/ExecMap.lean`). Everywhere: `c` is an arbitrary indexed
collection (any number of exchanges, assets, instruments; names shared across exchanges at will),
`ex` an arbitrary exchange id, `m` the execution map `generate_execution_instrument_map` builds for
`ex` (`genMap c ex = .ok m`; by `link_exists_iff` this exists exactly for the exchanges of `c`).
"Instrument `i` belongs to `ex`" is `c.instruments[i]? = some k ∧ k.exchange = ex`.

Hypotheses: `Indexed c` (every key is its position — what `IndexedInstrumentsBuilder::build`
produces, property C11) for the index → name direction; `WF c ex` (additionally: exchange ids
distinct, and on `ex` no two assets / no two instruments share a `name_exchange`) wherever a name is
translated back. Without the last part a name denotes two indices and the code's
`FnvHashMap<Name, Index>` keeps the later one (excluded point; run by the correspondence, where the
spec driver is silent).
-/
namespace BarterModel.Props.C04
open BarterModel.ExecMap

variable {c : Coll} {ex : Nat} {m : EMap}

/-- A link exists exactly for the exchanges of the collection. -/
theorem link_exists_iff (c : Coll) (ex : Nat) :
    (∃ m, genMap c ex = .ok m) ↔ ∃ k ∈ c.exchanges, k.id = ex := by
  have h := genMap_error_iff c ex
  cases hg : genMap c ex with
  | ok m =>
    have : specHasLink c ex ≠ false := fun e => by
      obtain ⟨_, he⟩ := h.mpr e; rw [hg] at he; cases he
    simp only [specHasLink, ne_eq, Bool.not_eq_false, List.any_eq_true, beq_iff_eq] at this
    exact ⟨fun _ => this, fun _ => ⟨m, rfl⟩⟩
  | error e =>
    have : specHasLink c ex = false := h.mp ⟨e, hg⟩
    simp only [specHasLink, List.any_eq_false, beq_iff_eq] at this
    constructor
    · rintro ⟨m, hm⟩; cases hm
    · rintro ⟨k, hk, hid⟩; exact absurd hid (this k hk)

/-! ## (1) index → name → index -/

/-- (1) `index_name_index`, instruments: an instrument index of `ex` translates to that
instrument's exchange name, and that name translates back to the same index. -/
theorem instrument_index_name_index (hW : WF c ex) (hm : genMap c ex = .ok m) {i : Nat}
    {k : KInstrument} (hk : c.instruments[i]? = some k) (hex : k.exchange = ex) :
    m.findInstrumentName i = .ok k.nameExchange ∧
    m.findInstrumentIndex k.nameExchange = .ok i := by
  have A := agreesRev_of_wf hW hm
  constructor
  · rw [findInstrumentName_eq A.toAgrees,
      (specInstrumentName_some c ex i _).mpr ⟨k, hk, hex, rfl⟩]
  · rw [findInstrumentIndex_eq A, (specInstrumentIndex_some hW _ i).mpr ⟨k, hk, hex, rfl⟩]

/-- (1) `index_name_index`, assets. -/
theorem asset_index_name_index (hW : WF c ex) (hm : genMap c ex = .ok m) {a : Nat}
    {k : KAsset} (hk : c.assets[a]? = some k) (hex : k.exchange = ex) :
    m.findAssetName a = .ok k.nameExchange ∧
    m.findAssetIndex k.nameExchange = .ok a := by
  have A := agreesRev_of_wf hW hm
  constructor
  · rw [findAssetName_eq A.toAgrees, (specAssetName_some c ex a _).mpr ⟨k, hk, hex, rfl⟩]
  · rw [findAssetIndex_eq A, (specAssetIndex_some hW _ a).mpr ⟨k, hk, hex, rfl⟩]

/-! ## (2) only indices of that exchange translate -/

/-- (2) `foreign_rejected`, instruments: an index that is out of range or belongs to another
exchange does not translate. -/
theorem instrument_foreign_rejected (hI : Indexed c) (hm : genMap c ex = .ok m) {i : Nat}
    (hf : ∀ k, c.instruments[i]? = some k → k.exchange ≠ ex) :
    m.findInstrumentName i = .error .instrumentKey := by
  have A := agrees_of_indexed hI hm
  rw [findInstrumentName_eq A]
  cases hs : specInstrumentName c ex i with
  | none => rfl
  | some n =>
    obtain ⟨k, hk, he, _⟩ := (specInstrumentName_some c ex i n).mp hs
    exact absurd he (hf k hk)

/-- (2) `foreign_rejected`, assets. -/
theorem asset_foreign_rejected (hI : Indexed c) (hm : genMap c ex = .ok m) {a : Nat}
    (hf : ∀ k, c.assets[a]? = some k → k.exchange ≠ ex) :
    m.findAssetName a = .error .assetKey := by
  have A := agrees_of_indexed hI hm
  rw [findAssetName_eq A]
  cases hs : specAssetName c ex a with
  | none => rfl
  | some n =>
    obtain ⟨k, hk, he, _⟩ := (specAssetName_some c ex a n).mp hs
    exact absurd he (hf k hk)

/-- (2) converse: whatever index translates belongs to `ex` and gets its own name. -/
theorem instrument_name_sound (hI : Indexed c) (hm : genMap c ex = .ok m) {i n : Nat}
    (h : m.findInstrumentName i = .ok n) :
    ∃ k, c.instruments[i]? = some k ∧ k.exchange = ex ∧ k.nameExchange = n := by
  have A := agrees_of_indexed hI hm
  rw [findInstrumentName_eq A] at h
  apply (specInstrumentName_some c ex i n).mp
  cases hs : specInstrumentName c ex i with
  | none => rw [hs] at h; cases h
  | some n' => rw [hs] at h; injection h with h; rw [h]

theorem asset_name_sound (hI : Indexed c) (hm : genMap c ex = .ok m) {a n : Nat}
    (h : m.findAssetName a = .ok n) :
    ∃ k, c.assets[a]? = some k ∧ k.exchange = ex ∧ k.nameExchange = n := by
  have A := agrees_of_indexed hI hm
  rw [findAssetName_eq A] at h
  apply (specAssetName_some c ex a n).mp
  cases hs : specAssetName c ex a with
  | none => rw [hs] at h; cases h
  | some n' => rw [hs] at h; injection h with h; rw [h]

/-! ## (3) name → index → name; unknown names rejected -/

/-- (3) `name_index_name`, instruments: a name that translates yields the index of an instrument of
`ex` carrying exactly this name, and that index translates back to the name. -/
theorem instrument_name_index_name (hW : WF c ex) (hm : genMap c ex = .ok m) {n i : Nat}
    (h : m.findInstrumentIndex n = .ok i) :
    (∃ k, c.instruments[i]? = some k ∧ k.exchange = ex ∧ k.nameExchange = n) ∧
    m.findInstrumentName i = .ok n := by
  have A := agreesRev_of_wf hW hm
  rw [findInstrumentIndex_eq A] at h
  have hs : specInstrumentIndex c ex n = some i := by
    cases hs : specInstrumentIndex c ex n with
    | none => rw [hs] at h; cases h
    | some i' => rw [hs] at h; injection h with h; rw [h]
  have hk := (specInstrumentIndex_some hW n i).mp hs
  refine ⟨hk, ?_⟩
  rw [findInstrumentName_eq A.toAgrees, (specInstrumentName_some c ex i n).mpr hk]

/-- (3) `name_index_name`, assets. -/
theorem asset_name_index_name (hW : WF c ex) (hm : genMap c ex = .ok m) {n a : Nat}
    (h : m.findAssetIndex n = .ok a) :
    (∃ k, c.assets[a]? = some k ∧ k.exchange = ex ∧ k.nameExchange = n) ∧
    m.findAssetName a = .ok n := by
  have A := agreesRev_of_wf hW hm
  rw [findAssetIndex_eq A] at h
  have hs : specAssetIndex c ex n = some a := by
    cases hs : specAssetIndex c ex n with
    | none => rw [hs] at h; cases h
    | some a' => rw [hs] at h; injection h with h; rw [h]
  have hk := (specAssetIndex_some hW n a).mp hs
  refine ⟨hk, ?_⟩
  rw [findAssetName_eq A.toAgrees, (specAssetName_some c ex a n).mpr hk]

/-- (3) a name no instrument of `ex` carries (e.g. a name of another exchange only) is rejected. -/
theorem instrument_unknown_name_rejected (hW : WF c ex) (hm : genMap c ex = .ok m) {n : Nat}
    (hu : ∀ k ∈ c.instruments, k.exchange = ex → k.nameExchange ≠ n) :
    m.findInstrumentIndex n = .error .instrumentIndex := by
  have A := agreesRev_of_wf hW hm
  rw [findInstrumentIndex_eq A]
  have : specInstrumentIndex c ex n = none :=
    (findIdx?_names_none KInstrument.exchange KInstrument.nameExchange c.instruments ex n).mpr hu
  rw [this]

theorem asset_unknown_name_rejected (hW : WF c ex) (hm : genMap c ex = .ok m) {n : Nat}
    (hu : ∀ k ∈ c.assets, k.exchange = ex → k.nameExchange ≠ n) :
    m.findAssetIndex n = .error .assetIndex := by
  have A := agreesRev_of_wf hW hm
  rw [findAssetIndex_eq A]
  have : specAssetIndex c ex n = none :=
    (findIdx?_names_none KAsset.exchange KAsset.nameExchange c.assets ex n).mpr hu
  rw [this]

/-- Exchange keys: only the link's own exchange index / id translate, to each other. -/
theorem exchange_translation (hW : WF c ex) (hm : genMap c ex = .ok m) (x id : Nat) :
    (m.findExchangeId x = .ok id ↔ id = ex ∧ ∃ k, c.exchanges[x]? = some k ∧ k.id = ex) ∧
    (m.findExchangeIndex id = .ok x ↔ id = ex ∧ ∃ k, c.exchanges[x]? = some k ∧ k.id = ex) := by
  have A := agreesRev_of_wf hW hm
  constructor
  · rw [findExchangeId_eq A.toAgrees hW.2.1, ← specExchangeId_some]
    cases specExchangeId c ex x <;> simp
  · rw [findExchangeIndex_eq A.toAgrees, ← specExchangeIndex_some hW]
    cases specExchangeIndex c ex id <;> simp

/-- All six `find_*` refine the specification functions the oracle evaluates. -/
theorem finds_refine_spec (hW : WF c ex) (hm : genMap c ex = .ok m) :
    (∀ x, (m.findExchangeId x).toOption = specExchangeId c ex x) ∧
    (∀ id, (m.findExchangeIndex id).toOption = specExchangeIndex c ex id) ∧
    (∀ a, (m.findAssetName a).toOption = specAssetName c ex a) ∧
    (∀ n, (m.findAssetIndex n).toOption = specAssetIndex c ex n) ∧
    (∀ i, (m.findInstrumentName i).toOption = specInstrumentName c ex i) ∧
    (∀ n, (m.findInstrumentIndex n).toOption = specInstrumentIndex c ex n) := by
  have A := agreesRev_of_wf hW hm
  refine ⟨fun x => ?_, fun x => ?_, fun x => ?_, fun x => ?_, fun x => ?_, fun x => ?_⟩
  · rw [findExchangeId_eq A.toAgrees hW.2.1]; cases specExchangeId c ex x <;> rfl
  · rw [findExchangeIndex_eq A.toAgrees]; cases specExchangeIndex c ex x <;> rfl
  · rw [findAssetName_eq A.toAgrees]; cases specAssetName c ex x <;> rfl
  · rw [findAssetIndex_eq A]; cases specAssetIndex c ex x <;> rfl
  · rw [findInstrumentName_eq A.toAgrees]; cases specInstrumentName c ex x <;> rfl
  · rw [findInstrumentIndex_eq A]; cases specInstrumentIndex c ex x <;> rfl

/-! ## (4) outbound requests and inbound account events -/

/-- (4) `request_addressed`: whatever `order_request` hands to the client is addressed to the
exchange id `ex`, which is the exchange at the request's exchange index, and to the
`name_exchange` of exactly the requested instrument, which belongs to `ex`; client order id and
request state are untouched. -/
theorem request_addressed (hW : WF c ex) (hm : genMap c ex = .ok m) {o r : OEvent Nat Nat}
    (h : orderRequest m o = .ok r) :
    r.key.exchange = ex ∧
    (∃ kx, c.exchanges[o.key.exchange]? = some kx ∧ kx.id = ex) ∧
    (∃ k, c.instruments[o.key.instrument]? = some k ∧ k.exchange = ex ∧
      k.nameExchange = r.key.instrument) ∧
    r.key.cid = o.key.cid ∧ r.state = o.state := by
  unfold orderRequest at h
  split at h
  · cases h
  · rename_i id hid
    split at h
    · cases h
    · rename_i name hname
      injection h with h; subst h
      have hx := ((exchange_translation hW hm o.key.exchange id).1.mp hid)
      exact ⟨hx.1, hx.2, instrument_name_sound hW.1 hm hname, rfl, rfl⟩

/-- (4) the request reaches the client exactly when the specification says so, and is then the
specified one; otherwise `ExecutionManager::run` panics instead of sending anything. -/
theorem request_refines_spec (hW : WF c ex) (hm : genMap c ex = .ok m) (o : OEvent Nat Nat) :
    (orderRequest m o).toOption = specOrderRequest c ex o ∧
    managerClientRequest m o = specOrderRequest c ex o := by
  have A := agreesRev_of_wf hW hm
  have key : (orderRequest m o).toOption = specOrderRequest c ex o := by
    unfold orderRequest specOrderRequest
    rw [findExchangeId_eq A.toAgrees hW.2.1, findInstrumentName_eq A.toAgrees]
    cases specExchangeId c ex o.key.exchange <;> cases specInstrumentName c ex o.key.instrument <;> rfl
  refine ⟨key, ?_⟩
  rw [← key]; unfold managerClientRequest
  cases orderRequest m o <;> rfl

/-- (4) `accountEvent`: every account event (snapshot, balance, order, cancel response, trade) is
applied to the exchange / asset / instrument indices its names denote on `ex`, or rejected as a
whole when some name denotes nothing on `ex`. -/
theorem account_event_refines_spec (hW : WF c ex) (hm : genMap c ex = .ok m)
    (ev : AccEvent Nat Nat Nat) :
    (accountEvent m ev).toOption = specAccountEvent c ex ev := by
  obtain ⟨_, he, _, ha, _, hi⟩ := finds_refine_spec hW hm
  exact accountEvent_toOption he ha hi ev

/-- Readable corollary: an indexed trade is attributed to an instrument of `ex` carrying the
trade's exchange name, with the payload untouched. -/
theorem trade_applied (hW : WF c ex) (hm : genMap c ex = .ok m) {t t' : Trade Nat}
    (h : trade m t = .ok t') :
    t'.payload = t.payload ∧
    ∃ k, c.instruments[t'.instrument]? = some k ∧ k.exchange = ex ∧ k.nameExchange = t.instrument := by
  unfold trade at h
  split at h
  · cases h
  · rename_i i hi
    injection h with h; subst h
    exact ⟨rfl, (instrument_name_index_name hW hm hi).1⟩

/-- Readable corollary: an indexed balance is attributed to an asset of `ex` carrying the
balance's exchange asset name. -/
theorem balance_applied (hW : WF c ex) (hm : genMap c ex = .ok m) {b b' : Bal Nat}
    (h : assetBalance m b = .ok b') :
    b'.payload = b.payload ∧
    ∃ k, c.assets[b'.asset]? = some k ∧ k.exchange = ex ∧ k.nameExchange = b.asset := by
  unfold assetBalance at h
  split at h
  · cases h
  · rename_i a ha
    injection h with h; subst h
    exact ⟨rfl, (asset_name_index_name hW hm ha).1⟩

/-- Readable corollary: an indexed order key names the exchange index of `ex` and an instrument of
`ex` carrying the key's exchange name. -/
theorem order_key_applied (hW : WF c ex) (hm : genMap c ex = .ok m) {k k' : OKey Nat Nat}
    (h : orderKey m k = .ok k') :
    k.exchange = ex ∧ (∃ kx, c.exchanges[k'.exchange]? = some kx ∧ kx.id = ex) ∧
    (∃ ki, c.instruments[k'.instrument]? = some ki ∧ ki.exchange = ex ∧
      ki.nameExchange = k.instrument) ∧ k'.cid = k.cid := by
  unfold orderKey at h
  split at h
  · cases h
  · rename_i x hx
    split at h
    · cases h
    · rename_i i hi
      injection h with h; subst h
      have := (exchange_translation hW hm x k.exchange).2.mp hx
      exact ⟨this.1, this.2, (instrument_name_index_name hW hm hi).1, rfl⟩

/-- End to end through the manager: if the client answers with the key it was handed, the answer
is attributed to exactly the engine indices of the original request. -/
theorem manager_round_trip (hW : WF c ex) (hm : genMap c ex = .ok m) {o r : OEvent Nat Nat}
    (h : managerClientRequest m o = some r) :
    managerResponseKey m r.key = some o.key := by
  have hr : orderRequest m o = .ok r := by
    unfold managerClientRequest at h
    cases ho : orderRequest m o with
    | ok r' => rw [ho] at h; injection h with h; rw [h]
    | error e => rw [ho] at h; cases h
  obtain ⟨h1, ⟨kx, hkx, hkid⟩, ⟨k, hk, hke, hkn⟩, hcid, _⟩ := request_addressed hW hm hr
  have hx : m.findExchangeIndex r.key.exchange = .ok o.key.exchange :=
    (exchange_translation hW hm o.key.exchange r.key.exchange).2.mpr ⟨h1, kx, hkx, hkid⟩
  have hi : m.findInstrumentIndex r.key.instrument = .ok o.key.instrument := by
    rw [← hkn]; exact (instrument_index_name_index hW hm hk hke).2
  unfold managerResponseKey orderKey
  rw [hx, hi]
  simp only [hcid]

/-! ## Non-vacuity: a concrete collection with two exchanges of unequal size whose asset and
instrument names collide across exchanges (indices 0..2 / 0..4), well-formed for both. -/

def exampleColl : Coll :=
  { exchanges := [⟨0, 10⟩, ⟨1, 20⟩]
    assets := [⟨0, 10, 1⟩, ⟨1, 20, 1⟩, ⟨2, 10, 2⟩, ⟨3, 20, 2⟩, ⟨4, 20, 3⟩]
    instruments := [⟨0, 20, 7⟩, ⟨1, 10, 7⟩, ⟨2, 20, 8⟩] }

example : WF exampleColl 10 ∧ WF exampleColl 20 := by decide
example : ∃ m, genMap exampleColl 20 = .ok m ∧
    m.findInstrumentName 2 = .ok 8 ∧ m.findInstrumentIndex 8 = .ok 2 ∧
    m.findInstrumentName 1 = .error .instrumentKey ∧ m.findInstrumentIndex 7 = .ok 0 ∧
    m.findAssetIndex 1 = .ok 1 :=
  ⟨_, rfl, rfl, rfl, rfl, rfl, rfl⟩
example : ∃ m, genMap exampleColl 10 = .ok m ∧
    orderRequest m ⟨⟨0, 1, 5⟩, 9⟩ = .ok ⟨⟨10, 7, 5⟩, 9⟩ ∧
    (accountEvent m ⟨10, .trade ⟨7, 3⟩⟩).toOption.map (·.exchange) = some 0 ∧
    managerClientRequest m ⟨⟨0, 0, 5⟩, 9⟩ = none :=
  ⟨_, rfl, rfl, rfl, rfl⟩
/-- the hypothesis is needed: with two instruments of one exchange sharing a name the round trip
fails in the model exactly as in the code (the later index wins). -/
example : ∃ m, genMap ⟨[⟨0, 10⟩], [], [⟨0, 10, 7⟩, ⟨1, 10, 7⟩]⟩ 10 = .ok m ∧
    m.findInstrumentName 0 = .ok 7 ∧ m.findInstrumentIndex 7 = .ok 1 :=
  ⟨_, rfl, rfl, rfl⟩

end BarterModel.Props.C04
