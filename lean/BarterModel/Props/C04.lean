import BarterModel.Lemmas.ExecMap
import BarterModel.Lemmas.Review2_C04
import BarterModel.Lemmas.KernelsAgree.ExecMapSM
/-!
# C04 — Engine indices and exchange names translate both ways without mix-ups

Statements only (proofs go through `Lemmas/ExecMap.lean`). Everywhere: `c` is an arbitrary indexed
collection (any number of exchanges, assets, instruments; names shared across exchanges at will),
`ex` an arbitrary exchange id, `m` the execution map `generate_execution_instrument_map` builds for
`ex` (`genMap c ex = .ok m`; by `link_exists_iff` this exists exactly for the exchanges of `c`).
"Instrument `i` belongs to `ex`" is `c.instruments[i]? = some k ∧ k.exchange = ex`.

Hypotheses: `Indexed c` (every key is its position — what `IndexedInstrumentsBuilder::build`
produces, property C11) for the index → name direction; `WF c ex` (additionally: exchange ids
distinct, and on `ex` no two assets / no two instruments share a `name_exchange`) wherever a name is
translated back. Without the last part a name denotes two indices and the code's
`FnvHashMap<Name, Index>` keeps the later one (excluded point; run by the correspondence, where the
spec driver is silent).
-/
namespace BarterModel.Props.C04
open BarterModel.ExecMap

variable {c : Coll} {ex : Nat} {m : EMap}

/-- A link exists exactly for the exchanges of the collection. -/
theorem link_exists_iff (c : Coll) (ex : Nat) :
    (∃ m, genMap c ex = .ok m) ↔ ∃ k ∈ c.exchanges, k.id = ex := by
  have h := genMap_error_iff c ex
  cases hg : genMap c ex with
  | ok m =>
    have : specHasLink c ex ≠ false := fun e => by
      obtain ⟨_, he⟩ := h.mpr e; rw [hg] at he; cases he
    simp only [specHasLink, ne_eq, Bool.not_eq_false, List.any_eq_true, beq_iff_eq] at this
    exact ⟨fun _ => this, fun _ => ⟨m, rfl⟩⟩
  | error e =>
    have : specHasLink c ex = false := h.mp ⟨e, hg⟩
    simp only [specHasLink, List.any_eq_false, beq_iff_eq] at this
    constructor
    · rintro ⟨m, hm⟩; cases hm
    · rintro ⟨k, hk, hid⟩; exact absurd hid (this k hk)

/-! ## (1) index → name → index -/

/-- (1) `index_name_index`, instruments: an instrument index of `ex` translates to that
instrument's exchange name, and that name translates back to the same index. -/
theorem instrument_index_name_index (hW : WF c ex) (hm : genMap c ex = .ok m) {i : Nat}
    {k : KInstrument} (hk : c.instruments[i]? = some k) (hex : k.exchange = ex) :
    m.findInstrumentName i = .ok k.nameExchange ∧
    m.findInstrumentIndex k.nameExchange = .ok i := by
  have A := agreesRev_of_wf hW hm
  constructor
  · rw [findInstrumentName_eq A.toAgrees,
      (specInstrumentName_some c ex i _).mpr ⟨k, hk, hex, rfl⟩]
  · rw [findInstrumentIndex_eq A, (specInstrumentIndex_some hW _ i).mpr ⟨k, hk, hex, rfl⟩]

/-- (1) `index_name_index`, assets. -/
theorem asset_index_name_index (hW : WF c ex) (hm : genMap c ex = .ok m) {a : Nat}
    {k : KAsset} (hk : c.assets[a]? = some k) (hex : k.exchange = ex) :
    m.findAssetName a = .ok k.nameExchange ∧
    m.findAssetIndex k.nameExchange = .ok a := by
  have A := agreesRev_of_wf hW hm
  constructor
  · rw [findAssetName_eq A.toAgrees, (specAssetName_some c ex a _).mpr ⟨k, hk, hex, rfl⟩]
  · rw [findAssetIndex_eq A, (specAssetIndex_some hW _ a).mpr ⟨k, hk, hex, rfl⟩]

/-! ## (2) only indices of that exchange translate -/

/-- (2) `foreign_rejected`, instruments: an index that is out of range or belongs to another
exchange does not translate. -/
theorem instrument_foreign_rejected (hI : Indexed c) (hm : genMap c ex = .ok m) {i : Nat}
    (hf : ∀ k, c.instruments[i]? = some k → k.exchange ≠ ex) :
    m.findInstrumentName i = .error .instrumentKey := by
  have A := agrees_of_indexed hI hm
  rw [findInstrumentName_eq A]
  cases hs : specInstrumentName c ex i with
  | none => rfl
  | some n =>
    obtain ⟨k, hk, he, _⟩ := (specInstrumentName_some c ex i n).mp hs
    exact absurd he (hf k hk)

/-- (2) `foreign_rejected`, assets. -/
theorem asset_foreign_rejected (hI : Indexed c) (hm : genMap c ex = .ok m) {a : Nat}
    (hf : ∀ k, c.assets[a]? = some k → k.exchange ≠ ex) :
    m.findAssetName a = .error .assetKey := by
  have A := agrees_of_indexed hI hm
  rw [findAssetName_eq A]
  cases hs : specAssetName c ex a with
  | none => rfl
  | some n =>
    obtain ⟨k, hk, he, _⟩ := (specAssetName_some c ex a n).mp hs
    exact absurd he (hf k hk)

/-- (2) converse: whatever index translates belongs to `ex` and gets its own name. -/
theorem instrument_name_sound (hI : Indexed c) (hm : genMap c ex = .ok m) {i n : Nat}
    (h : m.findInstrumentName i = .ok n) :
    ∃ k, c.instruments[i]? = some k ∧ k.exchange = ex ∧ k.nameExchange = n := by
  have A := agrees_of_indexed hI hm
  rw [findInstrumentName_eq A] at h
  apply (specInstrumentName_some c ex i n).mp
  cases hs : specInstrumentName c ex i with
  | none => rw [hs] at h; cases h
  | some n' => rw [hs] at h; injection h with h; rw [h]

theorem asset_name_sound (hI : Indexed c) (hm : genMap c ex = .ok m) {a n : Nat}
    (h : m.findAssetName a = .ok n) :
    ∃ k, c.assets[a]? = some k ∧ k.exchange = ex ∧ k.nameExchange = n := by
  have A := agrees_of_indexed hI hm
  rw [findAssetName_eq A] at h
  apply (specAssetName_some c ex a n).mp
  cases hs : specAssetName c ex a with
  | none => rw [hs] at h; cases h
  | some n' => rw [hs] at h; injection h with h; rw [h]

/-! ## (3) name → index → name; unknown names rejected -/

/-- (3) `name_index_name`, instruments: a name that translates yields the index of an instrument of
`ex` carrying exactly this name, and that index translates back to the name. -/
theorem instrument_name_index_name (hW : WF c ex) (hm : genMap c ex = .ok m) {n i : Nat}
    (h : m.findInstrumentIndex n = .ok i) :
    (∃ k, c.instruments[i]? = some k ∧ k.exchange = ex ∧ k.nameExchange = n) ∧
    m.findInstrumentName i = .ok n := by
  have A := agreesRev_of_wf hW hm
  rw [findInstrumentIndex_eq A] at h
  have hs : specInstrumentIndex c ex n = some i := by
    cases hs : specInstrumentIndex c ex n with
    | none => rw [hs] at h; cases h
    | some i' => rw [hs] at h; injection h with h; rw [h]
  have hk := (specInstrumentIndex_some hW n i).mp hs
  refine ⟨hk, ?_⟩
  rw [findInstrumentName_eq A.toAgrees, (specInstrumentName_some c ex i n).mpr hk]

/-- (3) `name_index_name`, assets. -/
theorem asset_name_index_name (hW : WF c ex) (hm : genMap c ex = .ok m) {n a : Nat}
    (h : m.findAssetIndex n = .ok a) :
    (∃ k, c.assets[a]? = some k ∧ k.exchange = ex ∧ k.nameExchange = n) ∧
    m.findAssetName a = .ok n := by
  have A := agreesRev_of_wf hW hm
  rw [findAssetIndex_eq A] at h
  have hs : specAssetIndex c ex n = some a := by
    cases hs : specAssetIndex c ex n with
    | none => rw [hs] at h; cases h
    | some a' => rw [hs] at h; injection h with h; rw [h]
  have hk := (specAssetIndex_some hW n a).mp hs
  refine ⟨hk, ?_⟩
  rw [findAssetName_eq A.toAgrees, (specAssetName_some c ex a n).mpr hk]

/-- (3) a name no instrument of `ex` carries (e.g. a name of another exchange only) is rejected. -/
theorem instrument_unknown_name_rejected (hW : WF c ex) (hm : genMap c ex = .ok m) {n : Nat}
    (hu : ∀ k ∈ c.instruments, k.exchange = ex → k.nameExchange ≠ n) :
    m.findInstrumentIndex n = .error .instrumentIndex := by
  have A := agreesRev_of_wf hW hm
  rw [findInstrumentIndex_eq A]
  have : specInstrumentIndex c ex n = none :=
    (findIdx?_names_none KInstrument.exchange KInstrument.nameExchange c.instruments ex n).mpr hu
  rw [this]

theorem asset_unknown_name_rejected (hW : WF c ex) (hm : genMap c ex = .ok m) {n : Nat}
    (hu : ∀ k ∈ c.assets, k.exchange = ex → k.nameExchange ≠ n) :
    m.findAssetIndex n = .error .assetIndex := by
  have A := agreesRev_of_wf hW hm
  rw [findAssetIndex_eq A]
  have : specAssetIndex c ex n = none :=
    (findIdx?_names_none KAsset.exchange KAsset.nameExchange c.assets ex n).mpr hu
  rw [this]

/-- Exchange keys: only the link's own exchange index / id translate, to each other. -/
theorem exchange_translation (hW : WF c ex) (hm : genMap c ex = .ok m) (x id : Nat) :
    (m.findExchangeId x = .ok id ↔ id = ex ∧ ∃ k, c.exchanges[x]? = some k ∧ k.id = ex) ∧
    (m.findExchangeIndex id = .ok x ↔ id = ex ∧ ∃ k, c.exchanges[x]? = some k ∧ k.id = ex) := by
  have A := agreesRev_of_wf hW hm
  constructor
  · rw [findExchangeId_eq A.toAgrees hW.2.1, ← specExchangeId_some]
    cases specExchangeId c ex x <;> simp
  · rw [findExchangeIndex_eq A.toAgrees, ← specExchangeIndex_some hW]
    cases specExchangeIndex c ex id <;> simp

/-- All six `find_*` refine the specification functions the oracle evaluates. -/
theorem finds_refine_spec (hW : WF c ex) (hm : genMap c ex = .ok m) :
    (∀ x, (m.findExchangeId x).toOption = specExchangeId c ex x) ∧
    (∀ id, (m.findExchangeIndex id).toOption = specExchangeIndex c ex id) ∧
    (∀ a, (m.findAssetName a).toOption = specAssetName c ex a) ∧
    (∀ n, (m.findAssetIndex n).toOption = specAssetIndex c ex n) ∧
    (∀ i, (m.findInstrumentName i).toOption = specInstrumentName c ex i) ∧
    (∀ n, (m.findInstrumentIndex n).toOption = specInstrumentIndex c ex n) := by
  have A := agreesRev_of_wf hW hm
  refine ⟨fun x => ?_, fun x => ?_, fun x => ?_, fun x => ?_, fun x => ?_, fun x => ?_⟩
  · rw [findExchangeId_eq A.toAgrees hW.2.1]; cases specExchangeId c ex x <;> rfl
  · rw [findExchangeIndex_eq A.toAgrees]; cases specExchangeIndex c ex x <;> rfl
  · rw [findAssetName_eq A.toAgrees]; cases specAssetName c ex x <;> rfl
  · rw [findAssetIndex_eq A]; cases specAssetIndex c ex x <;> rfl
  · rw [findInstrumentName_eq A.toAgrees]; cases specInstrumentName c ex x <;> rfl
  · rw [findInstrumentIndex_eq A]; cases specInstrumentIndex c ex x <;> rfl

/-! ## (4) outbound requests and inbound account events -/

/-- (4) `request_addressed`: whatever `order_request` hands to the client is addressed to the
exchange id `ex`, which is the exchange at the request's exchange index, and to the
`name_exchange` of exactly the requested instrument, which belongs to `ex`; client order id and
request state are untouched. -/
theorem request_addressed (hW : WF c ex) (hm : genMap c ex = .ok m) {o r : OEvent Nat Nat}
    (h : orderRequest m o = .ok r) :
    r.key.exchange = ex ∧
    (∃ kx, c.exchanges[o.key.exchange]? = some kx ∧ kx.id = ex) ∧
    (∃ k, c.instruments[o.key.instrument]? = some k ∧ k.exchange = ex ∧
      k.nameExchange = r.key.instrument) ∧
    r.key.cid = o.key.cid ∧ r.state = o.state := by
  unfold orderRequest at h
  split at h
  · cases h
  · rename_i id hid
    split at h
    · cases h
    · rename_i name hname
      injection h with h; subst h
      have hx := ((exchange_translation hW hm o.key.exchange id).1.mp hid)
      exact ⟨hx.1, hx.2, instrument_name_sound hW.1 hm hname, rfl, rfl⟩

/-- (4) the request reaches the client exactly when the specification says so, and is then the
specified one; otherwise `ExecutionManager::run` panics instead of sending anything. -/
theorem request_refines_spec (hW : WF c ex) (hm : genMap c ex = .ok m) (o : OEvent Nat Nat) :
    (orderRequest m o).toOption = specOrderRequest c ex o ∧
    managerClientRequest m o = specOrderRequest c ex o := by
  have A := agreesRev_of_wf hW hm
  have key : (orderRequest m o).toOption = specOrderRequest c ex o := by
    unfold orderRequest specOrderRequest
    rw [findExchangeId_eq A.toAgrees hW.2.1, findInstrumentName_eq A.toAgrees]
    cases specExchangeId c ex o.key.exchange <;> cases specInstrumentName c ex o.key.instrument <;> rfl
  refine ⟨key, ?_⟩
  rw [← key]; unfold managerClientRequest
  cases orderRequest m o <;> rfl

/-- (4) `accountEvent`: every account event (snapshot, balance, order, cancel response, trade) is
applied to the exchange / asset / instrument indices its names denote on `ex`, or rejected as a
whole when some name denotes nothing on `ex`. -/
theorem account_event_refines_spec (hW : WF c ex) (hm : genMap c ex = .ok m)
    (ev : AccEvent Nat Nat Nat) :
    (accountEvent m ev).toOption = specAccountEvent c ex ev := by
  obtain ⟨_, he, _, ha, _, hi⟩ := finds_refine_spec hW hm
  exact accountEvent_toOption he ha hi ev

/-- Readable corollary: an indexed trade is attributed to an instrument of `ex` carrying the
trade's exchange name, with the payload untouched. -/
theorem trade_applied (hW : WF c ex) (hm : genMap c ex = .ok m) {t t' : Trade Nat}
    (h : trade m t = .ok t') :
    t'.payload = t.payload ∧
    ∃ k, c.instruments[t'.instrument]? = some k ∧ k.exchange = ex ∧ k.nameExchange = t.instrument := by
  unfold trade at h
  split at h
  · cases h
  · rename_i i hi
    injection h with h; subst h
    exact ⟨rfl, (instrument_name_index_name hW hm hi).1⟩

/-- Readable corollary: an indexed balance is attributed to an asset of `ex` carrying the
balance's exchange asset name. -/
theorem balance_applied (hW : WF c ex) (hm : genMap c ex = .ok m) {b b' : Bal Nat}
    (h : assetBalance m b = .ok b') :
    b'.payload = b.payload ∧
    ∃ k, c.assets[b'.asset]? = some k ∧ k.exchange = ex ∧ k.nameExchange = b.asset := by
  unfold assetBalance at h
  split at h
  · cases h
  · rename_i a ha
    injection h with h; subst h
    exact ⟨rfl, (asset_name_index_name hW hm ha).1⟩

/-- Readable corollary: an indexed order key names the exchange index of `ex` and an instrument of
`ex` carrying the key's exchange name. -/
theorem order_key_applied (hW : WF c ex) (hm : genMap c ex = .ok m) {k k' : OKey Nat Nat}
    (h : orderKey m k = .ok k') :
    k.exchange = ex ∧ (∃ kx, c.exchanges[k'.exchange]? = some kx ∧ kx.id = ex) ∧
    (∃ ki, c.instruments[k'.instrument]? = some ki ∧ ki.exchange = ex ∧
      ki.nameExchange = k.instrument) ∧ k'.cid = k.cid := by
  unfold orderKey at h
  split at h
  · cases h
  · rename_i x hx
    split at h
    · cases h
    · rename_i i hi
      injection h with h; subst h
      have := (exchange_translation hW hm x k.exchange).2.mp hx
      exact ⟨this.1, this.2, (instrument_name_index_name hW hm hi).1, rfl⟩

/-- End to end through the manager: if the client answers with the key it was handed, the answer
is attributed to exactly the engine indices of the original request. -/
theorem manager_round_trip (hW : WF c ex) (hm : genMap c ex = .ok m) {o r : OEvent Nat Nat}
    (h : managerClientRequest m o = some r) :
    managerResponseKey m r.key = some o.key := by
  have hr : orderRequest m o = .ok r := by
    unfold managerClientRequest at h
    cases ho : orderRequest m o with
    | ok r' => rw [ho] at h; injection h with h; rw [h]
    | error e => rw [ho] at h; cases h
  obtain ⟨h1, ⟨kx, hkx, hkid⟩, ⟨k, hk, hke, hkn⟩, hcid, _⟩ := request_addressed hW hm hr
  have hx : m.findExchangeIndex r.key.exchange = .ok o.key.exchange :=
    (exchange_translation hW hm o.key.exchange r.key.exchange).2.mpr ⟨h1, kx, hkx, hkid⟩
  have hi : m.findInstrumentIndex r.key.instrument = .ok o.key.instrument := by
    rw [← hkn]; exact (instrument_index_name_index hW hm hk hke).2
  unfold managerResponseKey orderKey
  rw [hx, hi]
  simp only [hcid]

/-! ## (5) end to end: `ExecutionBuilder` → `MultiExchangeTxMap::find` → manager → client

`adds` is the sequence of exchanges `add_mock` / `add_live` was called for, in call order (any
order, any subset of the collection's exchanges — other sequences make the builder return `Err`,
see `build_succeeds`); `t` the transmitter table `build()` returns. Hypothesis `WFX c`: keys are
positions and exchange ids are distinct (no condition on names). -/

variable {adds : List Nat} {t : TxMap}

/-- The builder succeeds (no `Err`, no `assert_eq!` panic) for every duplicate-free sequence of
exchanges of the collection, in any order; so the hypotheses `buildExecution c adds = .ok (some t)`
below are satisfiable for every subset. -/
theorem build_succeeds (hW : WFX c) (hn : adds.Nodup)
    (hm : ∀ e ∈ adds, ∃ k ∈ c.exchanges, k.id = e) :
    ∃ t, buildExecution c adds = .ok (some t) := by
  obtain ⟨a, ha⟩ := addExecutions_succeeds hn hm [] (fun _ _ => rfl)
  refine ⟨c.exchanges.map fun k => (k.id, if k.id ∈ adds then mkLink c k.id else none), ?_⟩
  unfold buildExecution
  rw [ha]
  simp only [buildTxMap_eq hW ha]

/-- The `assert_eq!` of `build()` never fires on a well-formed collection. -/
theorem build_never_panics (hW : WFX c) : buildExecution c adds ≠ .ok none := by
  intro h; cases buildExecution_ok hW h

/-- The table has one slot per exchange of the collection, in exchange-index order (whatever the
order of the `add_*` calls), and the positional lookup `find x` yields a transmitter exactly when
the exchange *at index `x`* had an execution added — then the one of that exchange's own manager,
whose map is the one generated for that exchange. -/
theorem tx_table (hW : WFX c) (hb : buildExecution c adds = .ok (some t)) :
    t.map (·.1) = c.exchanges.map (·.id) ∧
    ∀ x l, t.find x = .ok l ↔
      ∃ k m, c.exchanges[x]? = some k ∧ k.id ∈ adds ∧ genMap c k.id = .ok m ∧
        l = { client := k.id, index := x, map := m } := by
  have ht := buildExecution_ok hW hb
  injection ht with ht; subst ht
  refine ⟨by rw [List.map_map]; rfl, fun x l => ?_⟩
  rw [find_built]
  cases hx : c.exchanges[x]? with
  | none => simp
  | some k =>
    have hmem := List.mem_of_getElem? hx
    obtain ⟨m, hg⟩ := genMap_of_mem hmem
    have hkey : m.exchange.key = x := by
      rw [genMap_key hW.2 hmem hg]; exact key_of_getElem? KExchange.key hW.1.1 hx
    have hl : mkLink c k.id = some { client := k.id, index := x, map := m } := by
      unfold mkLink; rw [hg]; simp only [hkey]
    by_cases hk : k.id ∈ adds
    · simp only [if_pos hk, hl, Except.ok.injEq, Option.some.injEq]
      constructor
      · rintro rfl; exact ⟨k, m, rfl, hk, hg, rfl⟩
      · rintro ⟨k', m', hk', _, hg', rfl⟩
        cases hk'; rw [hg] at hg'; cases hg'; rfl
    · simp only [if_neg hk]
      constructor
      · intro h; cases h
      · rintro ⟨k', _, hk', hin, _⟩; cases hk'; exact absurd hin hk

/-- Routing refines the specification the oracle evaluates, for every request. -/
theorem route_refines_spec (hW : WFX c) (hb : buildExecution c adds = .ok (some t))
    (o : OEvent Nat Nat) : route t o = specRoute c adds o :=
  route_eq_spec hW hb o

/-- (5) `route_reaches_own_client`: a request for instrument `i` of exchange index `x`, where the
exchange at `x` had an execution added and `i` belongs to it, is handed to exactly that exchange's
client, addressed with that exchange's id and the `name_exchange` of exactly instrument `i`; client
order id and request state untouched. Holds wherever the exchange sorts in the collection and
whichever other exchanges (before or after it) have no execution link. -/
theorem route_reaches_own_client (hW : WFX c) (hb : buildExecution c adds = .ok (some t))
    {o : OEvent Nat Nat} {kx : KExchange} (hx : c.exchanges[o.key.exchange]? = some kx)
    (hl : kx.id ∈ adds) {ki : KInstrument} (hi : c.instruments[o.key.instrument]? = some ki)
    (hown : ki.exchange = kx.id) :
    route t o = .delivered kx.id
      { key := { exchange := kx.id, instrument := ki.nameExchange, cid := o.key.cid },
        state := o.state } := by
  rw [route_eq_spec hW hb]
  unfold specRoute
  rw [hx]
  simp only [if_pos hl]
  rw [(specInstrumentName_some c kx.id _ ki.nameExchange).mpr ⟨ki, hi, hown, rfl⟩]

/-- (5) `route_no_link_fails`: if the exchange at index `x` had no execution added, or `x` is out
of range, the lookup reports an error and nothing is delivered to any client (in particular not to
the client of a later exchange). -/
theorem route_no_link_fails (hW : WFX c) (hb : buildExecution c adds = .ok (some t))
    {o : OEvent Nat Nat} (hx : ∀ kx, c.exchanges[o.key.exchange]? = some kx → kx.id ∉ adds) :
    route t o = .noTx ∧ t.find o.key.exchange = .error .exchangeIndex := by
  constructor
  · rw [route_eq_spec hW hb]
    unfold specRoute
    cases h : c.exchanges[o.key.exchange]? with
    | none => rfl
    | some k => simp only [if_neg (hx k h)]
  · cases hf : t.find o.key.exchange with
    | error e => cases e <;> first | rfl | (exfalso; revert hf; unfold TxMap.find; split <;> simp)
    | ok l =>
      obtain ⟨k, _, hk, hin, _⟩ := ((tx_table hW hb).2 _ l).mp hf
      exact absurd hin (hx k hk)

/-- (5) `route_foreign_instrument_rejected`: if instrument `i` is out of range or belongs to
another exchange than the one at index `x`, the request reaches that exchange's own manager, which
refuses it; no client is called (so none is addressed with a name of another exchange). -/
theorem route_foreign_instrument_rejected (hW : WFX c) (hb : buildExecution c adds = .ok (some t))
    {o : OEvent Nat Nat} {kx : KExchange} (hx : c.exchanges[o.key.exchange]? = some kx)
    (hl : kx.id ∈ adds)
    (hf : ∀ ki, c.instruments[o.key.instrument]? = some ki → ki.exchange ≠ kx.id) :
    route t o = .managerPanic kx.id := by
  rw [route_eq_spec hW hb]
  unfold specRoute
  rw [hx]
  simp only [if_pos hl]
  cases hs : specInstrumentName c kx.id o.key.instrument with
  | none => rfl
  | some n =>
    obtain ⟨ki, hki, he, _⟩ := (specInstrumentName_some c kx.id _ n).mp hs
    exact absurd he (hf ki hki)

/-- (5) converse: whatever any client receives was addressed to it — the receiving client is the
one of the exchange at the request's exchange index, that exchange has an execution link, the
request carries that exchange's id and the `name_exchange` of the requested instrument, which
belongs to that exchange. -/
theorem route_delivered_sound (hW : WFX c) (hb : buildExecution c adds = .ok (some t))
    {o r : OEvent Nat Nat} {cl : Nat} (h : route t o = .delivered cl r) :
    ∃ kx ki, c.exchanges[o.key.exchange]? = some kx ∧ kx.id = cl ∧ cl ∈ adds ∧
      c.instruments[o.key.instrument]? = some ki ∧ ki.exchange = cl ∧
      r = { key := { exchange := cl, instrument := ki.nameExchange, cid := o.key.cid },
            state := o.state } := by
  rw [route_eq_spec hW hb] at h
  unfold specRoute at h
  cases hx : c.exchanges[o.key.exchange]? with
  | none => rw [hx] at h; cases h
  | some kx =>
    rw [hx] at h
    simp only at h
    by_cases hl : kx.id ∈ adds
    · rw [if_pos hl] at h
      cases hs : specInstrumentName c kx.id o.key.instrument with
      | none => rw [hs] at h; cases h
      | some n =>
        rw [hs] at h
        obtain ⟨ki, hki, he, hn⟩ := (specInstrumentName_some c kx.id _ n).mp hs
        injection h with h1 h2
        subst h1
        exact ⟨kx, ki, rfl, rfl, hl, hki, he, by rw [← h2, hn]⟩
    · rw [if_neg hl] at h; cases h

/-- (5) and back: when the called client answers with the key it was handed, the same manager
attributes the answer to exactly the engine indices of the original request (needs the name →
index direction, hence `WF` for that exchange). -/
theorem route_round_trip (hW : WFX c) (hb : buildExecution c adds = .ok (some t))
    {o : OEvent Nat Nat} {kx : KExchange} (hx : c.exchanges[o.key.exchange]? = some kx)
    (hl : kx.id ∈ adds) (hWF : WF c kx.id) {ki : KInstrument}
    (hi : c.instruments[o.key.instrument]? = some ki) (hown : ki.exchange = kx.id) :
    routeResponse t o = some o.key := by
  obtain ⟨m, hg⟩ := genMap_of_mem (List.mem_of_getElem? hx)
  have hf : t.find o.key.exchange = .ok { client := kx.id, index := o.key.exchange, map := m } :=
    ((tx_table hW hb).2 _ _).mpr ⟨kx, m, hx, hl, hg, rfl⟩
  have hr := route_reaches_own_client hW hb hx hl hi hown
  unfold route at hr
  unfold routeResponse
  rw [hf] at hr ⊢
  simp only at hr ⊢
  cases hreq : managerClientRequest m o with
  | none => rw [hreq] at hr; cases hr
  | some r => exact manager_round_trip hWF hg hreq

/-! ## Non-vacuity: a concrete collection with two exchanges of unequal size whose asset and
instrument names collide across exchanges (indices 0..2 / 0..4), well-formed for both. -/

def exampleColl : Coll :=
  { exchanges := [⟨0, 10⟩, ⟨1, 20⟩]
    assets := [⟨0, 10, 1⟩, ⟨1, 20, 1⟩, ⟨2, 10, 2⟩, ⟨3, 20, 2⟩, ⟨4, 20, 3⟩]
    instruments := [⟨0, 20, 7⟩, ⟨1, 10, 7⟩, ⟨2, 20, 8⟩] }

example : WF exampleColl 10 ∧ WF exampleColl 20 := by decide
example : ∃ m, genMap exampleColl 20 = .ok m ∧
    m.findInstrumentName 2 = .ok 8 ∧ m.findInstrumentIndex 8 = .ok 2 ∧
    m.findInstrumentName 1 = .error .instrumentKey ∧ m.findInstrumentIndex 7 = .ok 0 ∧
    m.findAssetIndex 1 = .ok 1 :=
  ⟨_, rfl, rfl, rfl, rfl, rfl, rfl⟩
example : ∃ m, genMap exampleColl 10 = .ok m ∧
    orderRequest m ⟨⟨0, 1, 5⟩, 9⟩ = .ok ⟨⟨10, 7, 5⟩, 9⟩ ∧
    (accountEvent m ⟨10, .trade ⟨7, 3⟩⟩).toOption.map (·.exchange) = some 0 ∧
    managerClientRequest m ⟨⟨0, 0, 5⟩, 9⟩ = none :=
  ⟨_, rfl, rfl, rfl, rfl⟩
/-- the hypothesis is needed: with two instruments of one exchange sharing a name the round trip
fails in the model exactly as in the code (the later index wins). -/
example : ∃ m, genMap ⟨[⟨0, 10⟩], [], [⟨0, 10, 7⟩, ⟨1, 10, 7⟩]⟩ 10 = .ok m ∧
    m.findInstrumentName 0 = .ok 7 ∧ m.findInstrumentIndex 7 = .ok 1 :=
  ⟨_, rfl, rfl, rfl⟩

/-- routing non-vacuity: three exchanges in index order 10, 20, 30; executions added for 30 and 20
(in this order) but *not* for 10, which sorts first. Requests for exchange index 1 / 2 reach the
clients of 20 / 30, index 0 and 3 fail, a foreign instrument is refused by the own manager. -/
def exampleColl3 : Coll :=
  { exchanges := [⟨0, 10⟩, ⟨1, 20⟩, ⟨2, 30⟩]
    assets := []
    instruments := [⟨0, 20, 7⟩, ⟨1, 10, 7⟩, ⟨2, 30, 8⟩, ⟨3, 20, 9⟩] }

example : WFX exampleColl3 := by decide
example : ∃ t, buildExecution exampleColl3 [30, 20] = .ok (some t) ∧
    t.map (fun s => (s.1, s.2.isSome)) = [(10, false), (20, true), (30, true)] ∧
    route t ⟨⟨1, 3, 5⟩, 9⟩ = .delivered 20 ⟨⟨20, 9, 5⟩, 9⟩ ∧
    route t ⟨⟨2, 2, 5⟩, 9⟩ = .delivered 30 ⟨⟨30, 8, 5⟩, 9⟩ ∧
    route t ⟨⟨0, 1, 5⟩, 9⟩ = .noTx ∧ route t ⟨⟨3, 1, 5⟩, 9⟩ = .noTx ∧
    route t ⟨⟨1, 2, 5⟩, 9⟩ = .managerPanic 20 ∧
    routeResponse t ⟨⟨1, 3, 5⟩, 9⟩ = some ⟨1, 3, 5⟩ :=
  ⟨_, rfl, by decide, by decide, by decide, by decide, by decide, by decide, by decide⟩
example : buildExecution exampleColl3 [20, 20] = .error .duplicate ∧
    buildExecution exampleColl3 [40] = .error .index := ⟨rfl, rfl⟩

/-! ## Review 2 (audit/report_C01-C05.md, section C04): the same clauses under their minimal
hypotheses, the exact behaviour at the point `WF` excludes, and a witness of that point

`WF c ex` = `Indexed c` ∧ distinct exchange ids ∧ *per-exchange injective `name_exchange`*. The last
part is a documented precondition that `IndexedInstrumentsBuilder::build` does not enforce (it
dedups by whole-struct equality, barter-instrument/src/index/builder.rs:66-69). The theorems below
show which clauses do not depend on it at all (everything outbound, and the soundness half of
everything inbound), characterise what the code does without it (`*_name_last_index_wins`), and
exhibit the deviation (`name_collision_misroutes_witness`). The theorems above are kept unchanged;
each is implied by its `_wfx` / `_indexed` / `_nohyp` twin here. -/

/-- Exchange keys under `WFX` alone (keys are positions, exchange ids distinct; NO condition on
asset / instrument names): only the link's own exchange index / id translate, to each other. Same
conclusion as `exchange_translation`, which assumed `WF`. Review C04-M2. -/
theorem exchange_translation_wfx (hW : WFX c) (hm : genMap c ex = .ok m) (x id : Nat) :
    (m.findExchangeId x = .ok id ↔ id = ex ∧ ∃ k, c.exchanges[x]? = some k ∧ k.id = ex) ∧
    (m.findExchangeIndex id = .ok x ↔ id = ex ∧ ∃ k, c.exchanges[x]? = some k ∧ k.id = ex) := by
  have A := agrees_of_indexed hW.1 hm
  have hW' : WF ⟨c.exchanges, [], []⟩ ex :=
    ⟨⟨hW.1.1, rfl, rfl⟩, hW.2, List.Pairwise.nil, List.Pairwise.nil⟩
  constructor
  · rw [findExchangeId_eq A hW.2, ← specExchangeId_some]
    cases specExchangeId c ex x <;> simp
  · rw [findExchangeIndex_eq A]
    have := specExchangeIndex_some hW' id x
    rw [show specExchangeIndex c ex id = specExchangeIndex ⟨c.exchanges, [], []⟩ ex id from rfl, ← this]
    cases specExchangeIndex ⟨c.exchanges, [], []⟩ ex id <;> simp

/-- Soundness of the exchange id → index direction under `Indexed` alone (exchange ids need not even
be distinct): whatever id translates is the link's own id `ex`, and the index it yields holds an
exchange with id `ex`. Review C04-M2. -/
theorem exchange_index_sound_indexed (hI : Indexed c) (hm : genMap c ex = .ok m) {id x : Nat}
    (h : m.findExchangeIndex id = .ok x) :
    id = ex ∧ ∃ k, c.exchanges[x]? = some k ∧ k.id = ex := by
  have A := agrees_of_indexed hI hm
  unfold EMap.findExchangeIndex at h
  split at h
  · rename_i e
    injection h with h
    rw [← h]
    exact ⟨by rw [← e, A.id_eq], exchange_at_key A⟩
  · cases h

/-- (4) `request_addressed` under `WFX` alone — no name injectivity: whatever `order_request` hands
to the client is addressed to the exchange id `ex`, which is the exchange at the request's exchange
index, and to the `name_exchange` of exactly the requested instrument, which belongs to `ex`; client
order id and request state are untouched. So the outbound clause holds also for collections in which
two instruments of `ex` share a name. Strengthens `request_addressed` (which assumed `WF`).
Review C04-M2. -/
theorem request_addressed_wfx (hW : WFX c) (hm : genMap c ex = .ok m) {o r : OEvent Nat Nat}
    (h : orderRequest m o = .ok r) :
    r.key.exchange = ex ∧
    (∃ kx, c.exchanges[o.key.exchange]? = some kx ∧ kx.id = ex) ∧
    (∃ k, c.instruments[o.key.instrument]? = some k ∧ k.exchange = ex ∧
      k.nameExchange = r.key.instrument) ∧
    r.key.cid = o.key.cid ∧ r.state = o.state := by
  unfold orderRequest at h
  split at h
  · cases h
  · rename_i id hid
    split at h
    · cases h
    · rename_i name hname
      injection h with h; subst h
      have hx := ((exchange_translation_wfx hW hm o.key.exchange id).1.mp hid)
      exact ⟨hx.1, hx.2, instrument_name_sound hW.1 hm hname, rfl, rfl⟩

/-- (3) `name_index_name`, instruments, under `Indexed` alone (keys are positions; NO name
injectivity, exchange ids need not be distinct): a name that translates yields the index of an
instrument of `ex` carrying exactly this name, and that index translates back to the name. Both
conjuncts of `instrument_name_index_name` (which assumed `WF`). Consequence: also at the excluded
point an inbound name is never attributed to an instrument of another exchange or of another name —
what can go wrong there is only *which* of the equally named instruments of `ex` is chosen
(`instrument_name_last_index_wins`). Review C04-M2. -/
theorem instrument_name_index_name_indexed (hI : Indexed c) (hm : genMap c ex = .ok m) {n i : Nat}
    (h : m.findInstrumentIndex n = .ok i) :
    (∃ k, c.instruments[i]? = some k ∧ k.exchange = ex ∧ k.nameExchange = n) ∧
    m.findInstrumentName i = .ok n := by
  rw [findInstrumentIndex_ok_iff, genMap_instrumentNames hm] at h
  have hk := reverse_hit_indexed KInstrument.key KInstrument.exchange KInstrument.nameExchange
    hI.2.2 ex n i h
  refine ⟨hk, ?_⟩
  rw [findInstrumentName_eq (agrees_of_indexed hI hm), (specInstrumentName_some c ex i n).mpr hk]

/-- (3) `name_index_name`, assets, under `Indexed` alone: the asset twin holds as well.
Review C04-M2. -/
theorem asset_name_index_name_indexed (hI : Indexed c) (hm : genMap c ex = .ok m) {n a : Nat}
    (h : m.findAssetIndex n = .ok a) :
    (∃ k, c.assets[a]? = some k ∧ k.exchange = ex ∧ k.nameExchange = n) ∧
    m.findAssetName a = .ok n := by
  rw [findAssetIndex_ok_iff, genMap_assetNames hm] at h
  have hk := reverse_hit_indexed KAsset.key KAsset.exchange KAsset.nameExchange hI.2.1 ex n a h
  refine ⟨hk, ?_⟩
  rw [findAssetName_eq (agrees_of_indexed hI hm), (specAssetName_some c ex a n).mpr hk]

/-- Name → index soundness with NO hypothesis on the collection at all (keys need not be positions):
the index a name translates to is the *key* of an instrument entry of `ex` carrying that name.
Review C04-M2. -/
theorem instrument_name_sound_nohyp (hm : genMap c ex = .ok m) {n i : Nat}
    (h : m.findInstrumentIndex n = .ok i) :
    ∃ k ∈ c.instruments, k.key = i ∧ k.exchange = ex ∧ k.nameExchange = n := by
  rw [findInstrumentIndex_ok_iff, genMap_instrumentNames hm] at h
  exact reverse_hit_sound _ _ _ _ ex n i h

/-- Asset twin of `instrument_name_sound_nohyp`. -/
theorem asset_name_sound_nohyp (hm : genMap c ex = .ok m) {n a : Nat}
    (h : m.findAssetIndex n = .ok a) :
    ∃ k ∈ c.assets, k.key = a ∧ k.exchange = ex ∧ k.nameExchange = n := by
  rw [findAssetIndex_ok_iff, genMap_assetNames hm] at h
  exact reverse_hit_sound _ _ _ _ ex n a h

/-- (3) unknown instrument names are rejected for EVERY collection — no hypothesis besides "the map
was generated for `ex`": a name no instrument of `ex` carries (e.g. a name of another exchange only)
does not translate. Strengthens `instrument_unknown_name_rejected` (which assumed `WF`).
Review C04-M2. -/
theorem instrument_unknown_name_rejected_nohyp (hm : genMap c ex = .ok m) {n : Nat}
    (hu : ∀ k ∈ c.instruments, k.exchange = ex → k.nameExchange ≠ n) :
    m.findInstrumentIndex n = .error .instrumentIndex := by
  unfold EMap.findInstrumentIndex
  rw [genMap_instrumentNames hm, reverse_miss _ _ _ _ ex n hu]

/-- (3) unknown asset names are rejected for EVERY collection (no hypothesis). Review C04-M2. -/
theorem asset_unknown_name_rejected_nohyp (hm : genMap c ex = .ok m) {n : Nat}
    (hu : ∀ k ∈ c.assets, k.exchange = ex → k.nameExchange ≠ n) :
    m.findAssetIndex n = .error .assetIndex := by
  unfold EMap.findAssetIndex
  rw [genMap_assetNames hm, reverse_miss _ _ _ _ ex n hu]

/-- What the code does when names are NOT injective, exactly, under `Indexed` alone: an instrument
name translates to index `i` iff `i` is the LAST position holding an instrument of `ex` with this
name (`FnvHashMap` insertion in index order, map.rs:43-50: the later index wins). With `WF` the last
such position is the only one, which is `instrument_name_index_name` / `instrument_index_name_index`;
without it every earlier equally named instrument is unreachable from the name. The review asked for
this general "last index wins" statement (C04-M1, last sentence). -/
theorem instrument_name_last_index_wins (hI : Indexed c) (hm : genMap c ex = .ok m) (n i : Nat) :
    m.findInstrumentIndex n = .ok i ↔
      (∃ k, c.instruments[i]? = some k ∧ k.exchange = ex ∧ k.nameExchange = n) ∧
      ∀ j k', c.instruments[j]? = some k' → k'.exchange = ex → k'.nameExchange = n → j ≤ i := by
  rw [findInstrumentIndex_ok_iff, genMap_instrumentNames hm]
  exact reverse_last_wins KInstrument.key KInstrument.exchange KInstrument.nameExchange hI.2.2 ex n i

/-- Asset twin of `instrument_name_last_index_wins`. -/
theorem asset_name_last_index_wins (hI : Indexed c) (hm : genMap c ex = .ok m) (n a : Nat) :
    m.findAssetIndex n = .ok a ↔
      (∃ k, c.assets[a]? = some k ∧ k.exchange = ex ∧ k.nameExchange = n) ∧
      ∀ j k', c.assets[j]? = some k' → k'.exchange = ex → k'.nameExchange = n → j ≤ a := by
  rw [findAssetIndex_ok_iff, genMap_assetNames hm]
  exact reverse_last_wins KAsset.key KAsset.exchange KAsset.nameExchange hI.2.1 ex n a

/-- `trade_applied` under `Indexed` alone: an indexed trade is attributed to an instrument of `ex`
carrying the trade's exchange name (payload untouched), and that instrument's index translates back
to the trade's name. No injectivity needed. Review C04-M2. -/
theorem trade_applied_indexed (hI : Indexed c) (hm : genMap c ex = .ok m) {t t' : Trade Nat}
    (h : trade m t = .ok t') :
    t'.payload = t.payload ∧
    (∃ k, c.instruments[t'.instrument]? = some k ∧ k.exchange = ex ∧
      k.nameExchange = t.instrument) ∧
    m.findInstrumentName t'.instrument = .ok t.instrument := by
  unfold trade at h
  split at h
  · cases h
  · rename_i i hi
    injection h with h; subst h
    exact ⟨rfl, instrument_name_index_name_indexed hI hm hi⟩

/-- `balance_applied` under `Indexed` alone: an indexed balance is attributed to an asset of `ex`
carrying the balance's exchange asset name. Review C04-M2. -/
theorem balance_applied_indexed (hI : Indexed c) (hm : genMap c ex = .ok m) {b b' : Bal Nat}
    (h : assetBalance m b = .ok b') :
    b'.payload = b.payload ∧
    (∃ k, c.assets[b'.asset]? = some k ∧ k.exchange = ex ∧ k.nameExchange = b.asset) ∧
    m.findAssetName b'.asset = .ok b.asset := by
  unfold assetBalance at h
  split at h
  · cases h
  · rename_i a ha
    injection h with h; subst h
    exact ⟨rfl, asset_name_index_name_indexed hI hm ha⟩

/-- `order_key_applied` under `Indexed` alone (the exchange part needs no distinct ids for the
soundness direction either): an indexed order key names the link's own exchange, the exchange index
of `ex`, and an instrument of `ex` carrying the key's exchange name. Review C04-M2. -/
theorem order_key_applied_indexed (hI : Indexed c) (hm : genMap c ex = .ok m) {k k' : OKey Nat Nat}
    (h : orderKey m k = .ok k') :
    k.exchange = ex ∧ (∃ kx, c.exchanges[k'.exchange]? = some kx ∧ kx.id = ex) ∧
    (∃ ki, c.instruments[k'.instrument]? = some ki ∧ ki.exchange = ex ∧
      ki.nameExchange = k.instrument) ∧ k'.cid = k.cid := by
  unfold orderKey at h
  split at h
  · cases h
  · rename_i x hx
    split at h
    · cases h
    · rename_i i hi
      injection h with h; subst h
      have := exchange_index_sound_indexed hI hm hx
      exact ⟨this.1, this.2, (instrument_name_index_name_indexed hI hm hi).1, rfl⟩

/-- Readable whole-event corollary (the review's `C04_c.lean`, here under `Indexed` alone instead of
`WF`): an order-snapshot account event whose state is
`OpenFailed(Rejected(BalanceInsufficient(asset name)))` — the most deeply nested keys an account
event carries — is accepted only if both exchange ids are `ex`, and then the indexed event is the
same event with: the exchange index of `ex` (twice), the index of an instrument of `ex` carrying the
order key's instrument name, the index of an asset of `ex` carrying the asset name; client order
id and payload untouched. (The generic statement for all event shapes is
`account_event_refines_spec`.) Review C04 LOW. -/
theorem order_snapshot_event_applied (hI : Indexed c) (hm : genMap c ex = .ok m)
    {x p a : Nat} {k : OKey Nat Nat} {ev' : AccEvent Nat Nat Nat}
    (h : accountEvent m ⟨x, .orderSnapshot ⟨k, p, .openFailed (.rejected (.balanceInsufficient a))⟩⟩
      = .ok ev') :
    x = ex ∧ k.exchange = ex ∧
    ∃ xi i a',
      ev' = ⟨xi, .orderSnapshot ⟨⟨xi, i, k.cid⟩, p, .openFailed (.rejected (.balanceInsufficient a'))⟩⟩ ∧
      (∃ kx, c.exchanges[xi]? = some kx ∧ kx.id = ex) ∧
      (∃ ki, c.instruments[i]? = some ki ∧ ki.exchange = ex ∧ ki.nameExchange = k.instrument) ∧
      (∃ ka, c.assets[a']? = some ka ∧ ka.exchange = ex ∧ ka.nameExchange = a) := by
  simp only [accountEvent, orderSnapshot, orderKey, apiError] at h
  cases h1 : m.findExchangeIndex x with
  | error e => rw [h1] at h; cases h
  | ok xi =>
    cases h2 : m.findExchangeIndex k.exchange with
    | error e => simp [h1, h2] at h
    | ok xi2 =>
      cases h3 : m.findInstrumentIndex k.instrument with
      | error e => simp [h1, h2, h3] at h
      | ok i =>
        cases h4 : m.findAssetIndex a with
        | error e => simp [h1, h2, h3, h4] at h
        | ok a' =>
          simp [h1, h2, h3, h4] at h
          have e1 := exchange_index_sound_indexed hI hm h1
          have e2 := exchange_index_sound_indexed hI hm h2
          have hxi : xi2 = xi := by
            unfold EMap.findExchangeIndex at h1 h2
            split at h1 <;> split at h2 <;> simp_all
          subst hxi
          exact ⟨e1.1, e2.1, xi2, i, a', h.symm, e1.2,
            (instrument_name_index_name_indexed hI hm h3).1,
            (asset_name_index_name_indexed hI hm h4).1⟩

/-- The names the manager hands to `client.account_snapshot` / `client.account_stream`
(`exchange_assets` / `exchange_instruments`, map.rs:52-58, used at manager.rs:102-107) are exactly
the `name_exchange`s of the instruments / assets of `ex`, in index order — under `Indexed` alone.
These two functions had no theorem. Review C04 LOW (`C04_d.lean`). -/
theorem exchange_names_handed_to_client (hI : Indexed c) (hm : genMap c ex = .ok m) :
    m.exchangeInstruments = (c.instruments.filter fun k => k.exchange == ex).map (·.nameExchange) ∧
    m.exchangeAssets = (c.assets.filter fun k => k.exchange == ex).map (·.nameExchange) := by
  obtain ⟨ke, hke, rfl⟩ := genMap_ok hm
  constructor
  · show List.map (·.2) (collect _) = _
    rw [collect_of_nodup _ (tbl_keys_nodup KInstrument.key KInstrument.exchange
        KInstrument.nameExchange hI.2.2 ex), tbl_eq, List.map_map]; rfl
  · show List.map (·.2) (collect _) = _
    rw [collect_of_nodup _ (tbl_keys_nodup KAsset.key KAsset.exchange KAsset.nameExchange
        hI.2.1 ex), tbl_eq, List.map_map]; rfl

/-! ### The excluded point, made visible -/

/-- one exchange (id 10), two instruments (indices 0 and 1) of that exchange with the same
`name_exchange` 7: what `IndexedInstrumentsBuilder::build` produces for two definitions of one
market that differ in any other field (`name_internal`, `kind`, `spec`, …). -/
def collidingColl : Coll := ⟨[⟨0, 10⟩], [], [⟨0, 10, 7⟩, ⟨1, 10, 7⟩]⟩

/-- **Witness of the documented excluded point** (review C04-M1). Per-exchange injectivity of
`name_exchange` is a PRECONDITION of the round-trip clauses (`WF`, `props/C04.py` ASSUMPTIONS), not
something the code establishes: `IndexedInstrumentsBuilder::build` dedups by whole-struct equality
only (barter-instrument/src/index/builder.rs:66-67), so two instruments of one exchange sharing a
`name_exchange` survive. For such a collection (`collidingColl`: `WFX` holds, `WF … 10` does not):
the request for instrument 0 is delivered to the right client under name 7 (outbound is fine,
`request_addressed_wfx`), but the client's answer echoing that key is attributed to instrument **1**
(`routeResponse`), both indices translate to the name 7, the name 7 translates to index 1 only, a
trade (fill) named 7 is booked on index 1, and NO name translates to index 0: fills of instrument 0
are booked on instrument 1. Model and code agree here (the correspondence runs it); the
specification is silent. -/
theorem name_collision_misroutes_witness :
    WFX collidingColl ∧ ¬ WF collidingColl 10 ∧
    ∃ t m, buildExecution collidingColl [10] = .ok (some t) ∧ genMap collidingColl 10 = .ok m ∧
      route t ⟨⟨0, 0, 5⟩, 9⟩ = .delivered 10 ⟨⟨10, 7, 5⟩, 9⟩ ∧
      routeResponse t ⟨⟨0, 0, 5⟩, 9⟩ = some ⟨0, 1, 5⟩ ∧
      m.findInstrumentName 0 = .ok 7 ∧ m.findInstrumentName 1 = .ok 7 ∧
      m.findInstrumentIndex 7 = .ok 1 ∧
      trade m ⟨7, 3⟩ = .ok ⟨1, 3⟩ ∧
      (∀ n i, m.findInstrumentIndex n = .ok i → i ≠ 0) :=
  ⟨by decide, by decide, _, _, rfl, rfl, by decide, by decide, rfl, rfl, rfl, rfl, by
    intro n i h
    have h' : List.lookup n [(7, 1)] = some i := (findInstrumentIndex_ok_iff _ n i).mp h
    simp only [List.lookup] at h'
    clear h
    split at h'
    · injection h' with h'; omega
    · cases h'⟩

/-- the same at asset level: two assets of exchange 10 named 1 -/
def collidingAssets : Coll := ⟨[⟨0, 10⟩], [⟨0, 10, 1⟩, ⟨1, 10, 1⟩], []⟩

/-- Asset twin of the excluded point: with two assets of one exchange sharing a `name_exchange`
(`assets.dedup()`, builder.rs:68-69, is whole-struct too) asset index 0 translates to name 1, name 1
translates to index 1, and a balance for asset name 1 is booked on asset index 1. Review C04-M1. -/
theorem asset_name_collision_witness :
    WFX collidingAssets ∧ ¬ WF collidingAssets 10 ∧
    ∃ m, genMap collidingAssets 10 = .ok m ∧
      m.findAssetName 0 = .ok 1 ∧ m.findAssetIndex 1 = .ok 1 ∧
      assetBalance m ⟨1, 3⟩ = .ok ⟨1, 3⟩ :=
  ⟨by decide, by decide, _, rfl, rfl, rfl, rfl⟩

/-- the minimal hypotheses are satisfied by the colliding collection, on which `WF` fails: the
`_indexed` / `_wfx` theorems above do say something there -/
example : Indexed collidingColl ∧ WFX collidingColl ∧ ¬ WF collidingColl 10 := by decide
/-- `instrument_name_last_index_wins` at the colliding collection: name 7 ↦ index 1, the last one -/
example : ∃ m, genMap collidingColl 10 = .ok m ∧ m.findInstrumentIndex 7 = .ok 1 ∧
    m.exchangeInstruments = [7, 7] := ⟨_, rfl, rfl, rfl⟩
/-- `order_snapshot_event_applied`: its hypothesis is satisfiable (exchange 10 of `exampleColl`,
instrument name 7 = index 1, asset name 2 = index 2) -/
example : ∃ m, genMap exampleColl 10 = .ok m ∧
    (accountEvent m ⟨10, .orderSnapshot ⟨⟨10, 7, 5⟩, 9,
        .openFailed (.rejected (.balanceInsufficient 2))⟩⟩).toOption.map (·.exchange) = some 0 :=
  ⟨_, rfl, rfl⟩

/-- **Tie to the source by translation: the execution instrument map.** `ExecutionInstrumentMap::{new, exchange_assets,
exchange_instruments, find_exchange_id, find_exchange_index, find_asset_name_exchange, find_asset_index,
find_instrument_name_exchange, find_instrument_index}`, `generate_execution_instrument_map` (barter-execution/src/map.rs),
`IndexedInstruments` with its `exchanges()` / `assets()` / `instruments()` accessors, `Keyed`, the index newtypes, `Asset`,
`ExchangeAsset`, the full `Instrument`, `IndexError`, `KeyError`, and of barter-execution/src/indexer.rs the four leaf
translations `AccountEventIndexer::{order_key, order_request, asset_balance, trade}` are regenerated from the current
source by `tools/rust2lean_sm.py` on every run (`Generated/Machines4.lean`, group `exec_map`); their iterator chains
(`iter().map(..).collect()`, `find_map`, `filter_map(.. then_some ..).collect()`) are read through the translator's
iterator vocabulary: an iterator is the list of its items, `collect` into an `IndexMap` inserts in order (value replaced
in place, position of the first occurrence, last value wins: indexmap's documented `FromIterator`), `collect` into a
`FnvHashMap` is the same finite map (Lemmas/KernelsAgree/IterVocab.lean). For ALL collections, maps, keys and names, with
NO hypothesis: read through `ofColl` (per entry: key number, exchange id, `name_exchange`) and the relation `Rel` —
EQUALITY of the exchange pair and of the two forward `IndexMap`s position by position, equality AS FINITE MAPS of the two
reverse `FnvHashMap`s (`get` = the model's `lookup`, for every name) — the generated constructor establishes `Rel` with
the model's `EMap.new`, `generate_execution_instrument_map` fails exactly when `genMap` fails (same error kind) and
otherwise yields `Rel`ated maps, under `Rel` each `find_*` returns the model's answer (error messages are not modelled),
the four indexer functions are the model's `orderKey` / `orderRequest` / `assetBalance` / `trade` for EVERY coding of the
fields the model lumps into a payload, and every model map is `Rel`ated to a generated one. `genMap`, `EMap.find*`,
`orderRequest`, `orderKey` are the definitions every theorem of this file is about. The statement is that of
`KernelsAgree.ExecMapSM.exec_map_agrees` (Lemmas/KernelsAgree/ExecMapSM.lean). -/
theorem execution_map_agrees_with_source :
    type_of% BarterModel.KernelsAgree.ExecMapSM.exec_map_agrees :=
  BarterModel.KernelsAgree.ExecMapSM.exec_map_agrees

end BarterModel.Props.C04
