import BarterModel.Lemmas.ExecManager
import BarterModel.Lemmas.Review2
/-!
# C07 — Every execution request is answered exactly once (response or timeout)   [PARTIAL]

Statements about the labelled transition system `ExecManager.step` (the executable model the driver
runs; `Model/ExecManager.lean`). A *schedule* `as : List Action` is any finite sequence of
`intake q` / `tick dt` / `poll rid` / `shutdown`; `s = run c init as` is the state it reaches. All
theorems hold for **every** schedule: any number of requests outstanding, any interleaving of
intakes, time steps and polls, any order in which the in-flight futures are polled, early, prompt
or late polls, polls of requests that are not ready or do not exist.

Hypothesis `EchoesKey c as` (only where stated): every request handed to the manager is answered
by the client *about that order* (same key and static fields; error names — instrument or asset —
the manager knows).

The client's answer ranges over the WHOLE of `UnindexedOrderError` (review C07-4): `Ok`, every
`Rejected(ApiError::_)` (instrument-carrying, asset-carrying — indexed through `find_asset_index`,
filtered when the asset is not configured — and nameless) and `Connectivity(_)` as the client's own
answer. One consequence is visible in `attribution`: the error VALUE `Connectivity(Timeout)` is
carried by an event when the future timed out *or* when the client itself answered
`Err(Connectivity(Timeout))` — the code builds the same `OrderError` in both cases
(`client_timeout_is_not_manager_timeout`, `client_timeout_event_is_the_managers_timeout_event`).
Without it the code skips the answer (`continue`, manager.rs:282-289 / 308-315) or attributes it to
whatever key the client wrote — see the `example`s at the end.

What is **not** modelled, hence not proved (the reason for PARTIAL): `FuturesUnordered`,
`tokio::select!` fairness (that a ready arm is eventually taken), timer-wheel granularity and
wake-ups. Liveness is therefore conditional on the schedule: *if* the futures are polled after
their deadlines, nothing stays in flight. Inside the model this is proved for **every** such
schedule (`fair_liveness`, `eventually_resolved_request`, `eventually_resolved` at the end of the
file, added after the independent review, item C07-1); `eventually_resolved_partial` is the older
one-schedule instance. That the runtime *does* poll (the fairness hypothesis `PolledAfterDeadline`)
is what stays outside the model.
-/
namespace BarterModel.Props.C07
open BarterModel.ExecManager

/-- Every request handed to the manager along the schedule has a faithful client. -/
def EchoesKey (c : Cfg) (as : List Action) : Prop :=
  ∀ q, Action.intake q ∈ as → echoes c q = true

theorem echoes_accepted {c : Cfg} {as : List Action} (he : EchoesKey c as) :
    ∀ r ∈ (run c init as).accepted, c.configured r.spec.key = true ∧ echoes c r.spec = true := by
  intro r hr
  refine ⟨((inv_reach c as).conf r hr).1, ?_⟩
  rcases accepted_run c as init r hr with h | h
  · simp [init] at h
  · exact he _ h

/-- (1a) `partition` — never both, never neither, bookkeeping form. In every reachable state each
accepted request is in exactly one of: resolved (its future completed), still in flight, dropped
at shutdown/panic; accepted requests have pairwise distinct ids; while the manager is running
nothing has been dropped. No hypotheses. -/
theorem partition (c : Cfg) (as : List Action) :
    let s := run c init as
    (s.resolved.map (·.req) ++ s.pending ++ s.dropped).Perm s.accepted ∧
      (s.accepted.map (·.rid)).Nodup ∧ (s.status = .running → s.dropped = []) :=
  let h := inv_reach c as
  ⟨h.part, accepted_nodup h, h.running⟩

/-- (1b) `one_event_per_resolution` — the response channel carries, in order, exactly one event
per completed request future: the prescribed event for its fate. -/
theorem one_event_per_resolution (c : Cfg) (as : List Action) (he : EchoesKey c as) :
    let s := run c init as
    s.out = s.resolved.map Resolution.event := by
  intro s
  have h := inv_reach c as
  rw [h.out]
  apply filterMap_eq_map
  intro x hx
  have ⟨hc, hq⟩ := echoes_accepted he x.req (resolved_accepted h x hx)
  exact eventOf_echo c x.req x.fate hc hq

/-- (1c) `exactly_once` — DESIGN §7 C07(1): the (kind, exchange, instrument, strategy, cid) tuples
of the events sent, together with those of the requests still in flight (and of those dropped at
shutdown), are exactly those of the accepted requests, with multiplicity. -/
theorem exactly_once (c : Cfg) (as : List Action) (he : EchoesKey c as) :
    let s := run c init as
    (s.out.map Event.ident ++ s.pending.map Req.ident ++ s.dropped.map Req.ident).Perm
      (s.accepted.map Req.ident) := by
  intro s
  have h := inv_reach c as
  have h1 := h.part.map Req.ident
  have h2 : s.out.map Event.ident = (s.resolved.map (·.req)).map Req.ident := by
    rw [one_event_per_resolution c as he]
    simp only [List.map_map]
    apply List.map_congr_left
    intro x _
    simp [Resolution.event, specEvent_ident, Req.ident]
  rw [h2]
  simpa [List.map_append] using h1

/-- (1d) while the manager is running: events ⊎ in flight = accepted. -/
theorem exactly_once_running (c : Cfg) (as : List Action) (he : EchoesKey c as)
    (hrun : (run c init as).status = .running) :
    let s := run c init as
    (s.out.map Event.ident ++ s.pending.map Req.ident).Perm (s.accepted.map Req.ident) := by
  intro s
  have := exactly_once c as he
  have hd := (inv_reach c as).running hrun
  simp only [hd, List.map_nil, List.append_nil] at this
  exact this

/-- (1e) `quiescent` — when nothing is in flight any more (and the manager is still running) the
resolutions are a permutation of the accepted requests and the channel carries exactly one event
for each of them: as many events as accepted requests, the same identities with multiplicity. -/
theorem quiescent_exactly_one (c : Cfg) (as : List Action) (he : EchoesKey c as)
    (hrun : (run c init as).status = .running) (hq : (run c init as).pending = []) :
    let s := run c init as
    (s.resolved.map (·.req)).Perm s.accepted ∧ s.out = s.resolved.map Resolution.event ∧
      s.out.length = s.accepted.length ∧ (s.out.map Event.ident).Perm (s.accepted.map Req.ident) := by
  intro s
  have h := inv_reach c as
  have hp := h.part
  rw [h.running hrun, hq] at hp
  simp only [List.append_nil] at hp
  have ho := one_event_per_resolution c as he
  have he1 := exactly_once_running c as he hrun
  simp only [hq, List.map_nil, List.append_nil] at he1
  refine ⟨hp, ho, ?_, by simpa using he1⟩
  have := hp.length_eq
  simp only [List.length_map] at this
  rw [ho, List.length_map]; exact this

/-- (1f) `no_duplicates` — if the engine never reuses a (kind, key) for two requests, no two
events carry the same (kind, key): never both a response and a timeout for one request. -/
theorem no_duplicates (c : Cfg) (as : List Action) (he : EchoesKey c as)
    (hn : ((run c init as).accepted.map Req.ident).Nodup) :
    ((run c init as).out.map Event.ident).Nodup := by
  have h := (exactly_once c as he).nodup_iff.mpr hn
  rw [List.append_assoc] at h
  exact (List.nodup_append.mp h).1

/-- (2) `fate` — every completed future's fate is what one `Timeout` poll yields at the time it was
polled: it is the client's response exactly when the response had arrived by then (the inner future
is polled first), a timeout only when the deadline had passed, never before the first instant it
could complete. No hypotheses. -/
theorem fate (c : Cfg) (as : List Action) :
    ∀ x ∈ (run c init as).resolved,
      (x.fate = .response ↔ ∃ d, x.req.spec.script.delay = some d ∧ x.req.t0 + d ≤ x.time) ∧
      (x.fate = .timeout → x.req.t0 + c.timeout ≤ x.time) ∧
      c.readyAt x.req ≤ x.time ∧ x.time ≤ (run c init as).now := by
  intro x hx
  have ⟨h1, h2⟩ := (inv_reach c as).fate x hx
  have := pollReq_response_iff c x.req x.time x.fate h1
  exact ⟨this.1, this.2.1, this.2.2, h2⟩

/-- (2a) a response that arrives within the request timeout is delivered as the response, whatever
the schedule. -/
theorem fate_within_timeout (c : Cfg) (as : List Action) :
    ∀ x ∈ (run c init as).resolved, ∀ d, x.req.spec.script.delay = some d → d ≤ c.timeout →
      x.fate = .response := by
  intro x hx d hd hle
  have ⟨h1, _⟩ := (inv_reach c as).fate x hx
  rcases pollReq_spec_or_late c x.req x.time x.fate h1 with h | h
  · rw [h]; simp [specFate, hd, hle]
  · exact h.1

/-- (2b) a client that never answers yields the timeout failure, whatever the schedule. -/
theorem fate_never (c : Cfg) (as : List Action) :
    ∀ x ∈ (run c init as).resolved, x.req.spec.script.delay = none → x.fate = .timeout := by
  intro x hx hd
  have ⟨h1, _⟩ := (inv_reach c as).fate x hx
  rcases pollReq_spec_or_late c x.req x.time x.fate h1 with h | h
  · rw [h]; simp [specFate, hd]
  · obtain ⟨_, d, hd', _⟩ := h; rw [hd] at hd'; cases hd'

/-- (2c) the fate is the one the property text prescribes (`specFate`: response iff it arrives
within the timeout) unless the future was polled late: after the deadline *and* after a response
that arrived after the deadline. Then the response wins. This is the only schedule dependence. -/
theorem fate_spec_or_late (c : Cfg) (as : List Action) :
    ∀ x ∈ (run c init as).resolved,
      x.fate = specFate c.timeout x.req.spec ∨
      (x.fate = .response ∧ ∃ d, x.req.spec.script.delay = some d ∧ c.timeout < d ∧
        x.req.t0 + d ≤ x.time) := by
  intro x hx
  exact pollReq_spec_or_late c x.req x.time x.fate ((inv_reach c as).fate x hx).1

/-- (2d) polled before a late response arrives, a request times out (prompt polls realise the
property text exactly). -/
theorem fate_prompt (c : Cfg) (as : List Action) :
    ∀ x ∈ (run c init as).resolved,
      (∀ d, x.req.spec.script.delay = some d → c.timeout < d → x.time < x.req.t0 + d) →
      x.fate = specFate c.timeout x.req.spec := by
  intro x hx hp
  rcases fate_spec_or_late c as x hx with h | ⟨_, d, hd, hlt, hle⟩
  · exact h
  · have := hp d hd hlt; omega

/-- (3) `attribution` — every event on the channel belongs to an accepted request: same kind, same
exchange / instrument / strategy / client order id as the request, the manager's own exchange, a
configured instrument; a timeout event carries the request's own static fields and the timeout
error, a response event the client's verdict. Over the full reply alphabet the last conjunct reads:
the event carries `Connectivity(Timeout)` exactly when the future timed out or the client's own
answer was `Err(Connectivity(Timeout))` (for every other answer — all of the former alphabet — it is
the former `fate = timeout ↔ outcome = timeout`: `attribution_timeout_iff`). -/
theorem attribution (c : Cfg) (as : List Action) (he : EchoesKey c as) :
    ∀ e ∈ (run c init as).out, ∃ x ∈ (run c init as).resolved,
      x.req ∈ (run c init as).accepted ∧ e = x.event ∧
      e.kind = x.req.spec.kind ∧ e.key = x.req.spec.key ∧ e.exchange = c.exchange ∧
      e.key.instrument < c.nInstr ∧
      (e.outcome = .timeout ↔
        x.fate = .timeout ∨ x.req.spec.script.reply = .connectivity .timeout) := by
  intro e hm
  rw [one_event_per_resolution c as he] at hm
  obtain ⟨x, hx, rfl⟩ := List.mem_map.mp hm
  have h := inv_reach c as
  have hacc := resolved_accepted h x hx
  have hconf := (h.conf x.req hacc).1
  simp only [Cfg.configured, Bool.and_eq_true, beq_iff_eq, decide_eq_true_eq] at hconf
  refine ⟨x, hx, hacc, rfl, ?_, ?_, ?_, ?_, ?_⟩
  · cases hf : x.fate <;> simp [Resolution.event, specEvent, specResponseEvent, specTimeoutEvent, hf]
  · cases hf : x.fate <;> simp [Resolution.event, specEvent, specResponseEvent, specTimeoutEvent, hf]
  · cases hf : x.fate <;>
      simp [Resolution.event, specEvent, specResponseEvent, specTimeoutEvent, hf, hconf.1]
  · cases hf : x.fate <;>
      simp [Resolution.event, specEvent, specResponseEvent, specTimeoutEvent, hf, hconf.2]
  · cases hf : x.fate
    · simp only [Resolution.event, specEvent, specResponseEvent, hf, reduceCtorEq, false_or]
      rcases x.req.spec.script.reply with _ | _ | i | (_ | _ | _) | a | a | k <;> simp
      split <;> simp
    · simp [Resolution.event, specEvent, specTimeoutEvent, hf]

/-- Refinement to the abstract spec the `spec` driver runs: the channel is the list of prescribed
events of the resolutions, and each resolution's fate is the prescribed one unless polled late. -/
theorem refines_spec (c : Cfg) (as : List Action) (he : EchoesKey c as) :
    let s := run c init as
    s.out = s.resolved.map (fun x => specEvent x.req.spec x.fate) ∧
      ∀ x ∈ s.resolved, x.fate = specFate c.timeout x.req.spec ∨
        (x.fate = .response ∧ ∃ d, x.req.spec.script.delay = some d ∧ c.timeout < d ∧
          x.req.t0 + d ≤ x.time) :=
  ⟨one_event_per_resolution c as he, fate_spec_or_late c as⟩

/-- (4a) progress: in a reachable running state a request whose deadline has passed can always be
completed — the poll removes exactly it from flight and sends exactly one event, whatever the
client does (even if it never answers). -/
theorem resolved_when_polled (c : Cfg) (as : List Action) (he : EchoesKey c as) (r : Req)
    (hrun : (run c init as).status = .running) (hr : r ∈ (run c init as).pending)
    (hd : c.deadline r ≤ (run c init as).now) :
    let s := run c init as
    let s' := step c s (.poll r.rid)
    ∃ f, s'.pending = s.pending.erase r ∧ r ∉ s'.pending ∧
      s'.resolved = s.resolved ++ [⟨r, f, s.now⟩] ∧ s'.out = s.out ++ [specEvent r.spec f] := by
  intro s s'
  have h := inv_reach c as
  obtain ⟨f, _, hstep⟩ := poll_resolves h hrun hr (Nat.le_trans (deadline_ready c r) hd)
  have ⟨hc, hq⟩ := echoes_accepted he r (pending_accepted h r hr)
  refine ⟨f, ?_, ?_, ?_, ?_⟩
  · show (step c s (.poll r.rid)).pending = _; rw [hstep]
  · show r ∉ (step c s (.poll r.rid)).pending; rw [hstep]; exact not_mem_erase_self h r
  · show (step c s (.poll r.rid)).resolved = _; rw [hstep]
  · show (step c s (.poll r.rid)).out = _; rw [hstep]; simp only [eventOf_echo c r f hc hq]; rfl

/-- (4b) `eventually_resolved_partial` — "an order the engine shows as in flight is always
eventually resolved", as far as the model can say it: from any reachable running state, once time
has passed every outstanding deadline and the ready futures have been polled (in any order: here
the driver's `settleSched`), nothing is in flight and the channel carries exactly one event per
accepted request. **Missing for full strength**: that the runtime does poll them (`select!`
fairness, `FuturesUnordered` wake-ups, timer firing) is not modelled.
**Superseded inside the model** by `eventually_resolved` / `eventually_resolved_request` /
`fair_liveness` below, which hold for EVERY schedule that polls each request at least once after
its deadline and keeps the manager running (this schedule is one of them:
`settle_schedule_is_fair`). What stays partial is only what the model does not contain: that
tokio's `select!` / `FuturesUnordered` / timer wake-ups produce such a schedule. -/
theorem eventually_resolved_partial (c : Cfg) (as : List Action) (he : EchoesKey c as) (dt : Nat)
    (hrun : (run c init as).status = .running)
    (hd : ∀ r ∈ (run c init as).pending, c.deadline r ≤ (run c init as).now + dt) :
    let s1 := run c init (as ++ [.tick dt])
    let s2 := run c init (as ++ [.tick dt] ++ settleSched c s1)
    s2.status = .running ∧ s2.pending = [] ∧ s2.accepted = (run c init as).accepted ∧
      s2.out.length = s2.accepted.length ∧
      (s2.out.map Event.ident).Perm (s2.accepted.map Req.ident) := by
  intro s1 s2
  have hs1 : s1 = step c (run c init as) (.tick dt) := by
    simp [s1, run, List.foldl_append]
  have h1 : Inv c s1 := inv_reach c _
  have hrun1 : s1.status = .running := by rw [hs1]; exact hrun
  have hs2 : s2 = run c s1 (settleSched c s1) := by
    simp [s2, s1, run, List.foldl_append]
  have hall : ∀ r ∈ s1.pending, c.readyAt r ≤ s1.now := by
    intro r hr
    rw [hs1] at hr ⊢
    exact Nat.le_trans (deadline_ready c r) (hd r hr)
  have hp := run_polls c (s1.pending.filter fun r => decide (c.readyAt r ≤ s1.now)) s1 h1 hrun1
    (fun r _ hr => hall r hr)
  have hs2' : s2 = run c s1 ((s1.pending.filter fun r => decide (c.readyAt r ≤ s1.now)).map
      fun r => .poll r.rid) := by rw [hs2]; rfl
  rw [← hs2'] at hp
  have hempty : s2.pending = [] := by
    apply List.eq_nil_iff_forall_not_mem.mpr
    intro r hr
    have := hp.2.2.2 r hr
    exact this.2 (List.mem_filter.mpr ⟨this.1, by simpa using hall r this.1⟩)
  have he2 : EchoesKey c (as ++ [.tick dt] ++ settleSched c s1) := by
    intro q hq
    simp only [List.mem_append, List.mem_singleton, reduceCtorEq, or_false] at hq
    rcases hq with hq | hq
    · exact he q hq
    · simp [settleSched] at hq
  have hq := quiescent_exactly_one c _ he2 hp.1 hempty
  refine ⟨hp.1, hempty, ?_, hq.2.2.1, hq.2.2.2⟩
  rw [hp.2.2.1, hs1]; rfl

/-! ## Non-vacuity and witnesses -/

/-- configuration used below: exchange 0, two instruments, request timeout 2 -/
def c0 : Cfg := { exchange := 0, nInstr := 2, timeout := 2 }
/-- a faithful open request on instrument 1 answered `ok` after `d` ticks (`none`: never) -/
def q0 (d : Option Nat) : ReqSpec := ⟨.open, ⟨0, 1, 5, 7⟩, 3, ⟨d, .ok, false, ⟨0, 1, 5, 7⟩, 3⟩⟩
/-- a faithful cancel for the same client order id, rejected after 1 tick -/
def q1 : ReqSpec := ⟨.cancel, ⟨0, 1, 5, 7⟩, 0, ⟨some 1, .rejected, false, ⟨0, 1, 5, 7⟩, 0⟩⟩

/-- a schedule with three requests outstanding at once, answered out of order, one timing out -/
def sched0 : List Action :=
  [.intake (q0 (some 3)), .intake q1, .intake (q0 none), .tick 1, .poll 1, .tick 1, .poll 2, .poll 0]

example : EchoesKey c0 sched0 := by
  intro q hq
  simp only [sched0, List.mem_cons, Action.intake.injEq, reduceCtorEq, List.not_mem_nil,
    or_false] at hq
  rcases hq with rfl | rfl | rfl <;> decide

example : (run c0 init sched0).status = .running ∧ (run c0 init sched0).pending = [] ∧
    (run c0 init sched0).out =
      [⟨.cancel, 0, ⟨0, 1, 5, 7⟩, 0, .rejected⟩, ⟨.open, 0, ⟨0, 1, 5, 7⟩, 3, .timeout⟩,
       ⟨.open, 0, ⟨0, 1, 5, 7⟩, 3, .timeout⟩] := by decide

/-- the hypotheses of `eventually_resolved_partial` and `resolved_when_polled` are satisfiable by a
state with requests in flight -/
example : let s := run c0 init [.intake (q0 (some 3)), .intake q1, .intake (q0 none)]
    s.status = .running ∧ s.pending.length = 3 ∧ ∀ r ∈ s.pending, c0.deadline r ≤ s.now + 2 := by
  decide

/-- Late poll: the same request (answer after 3 ticks, timeout 2) times out when polled promptly
and is delivered as the client's response when first polled after the answer arrived. Only
"exactly one of the two" is schedule independent. -/
example : (run c0 init [.intake (q0 (some 3)), .tick 2, .poll 0]).out.map (·.outcome) = [.timeout] ∧
    (run c0 init [.intake (q0 (some 3)), .tick 3, .poll 0]).out.map (·.outcome) = [.ok] := by decide

/-- `EchoesKey` is needed: a client that answers about an instrument the manager does not know has
its answer skipped — the request leaves flight with no event at all ("neither"). -/
example : let q : ReqSpec := ⟨.open, ⟨0, 1, 5, 7⟩, 3, ⟨some 1, .ok, false, ⟨0, 9, 5, 7⟩, 3⟩⟩
    let s := run c0 init [.intake q, .tick 1, .poll 0]
    s.status = .running ∧ s.pending = [] ∧ s.accepted.length = 1 ∧ s.out = [] := by decide

/-- … and one that echoes another configured instrument gets the event attributed to that one. -/
example : let q : ReqSpec := ⟨.open, ⟨0, 1, 5, 7⟩, 3, ⟨some 1, .ok, false, ⟨0, 0, 5, 7⟩, 3⟩⟩
    (run c0 init [.intake q, .tick 1, .poll 0]).out.map (·.key.instrument) = [0] := by decide

/-! ## Added after the independent review (`audit/REVIEW-notes.md`, C07)

### C07-1 — liveness for EVERY fair schedule (was: one schedule only)

"An order the engine shows as in flight is always eventually resolved." The model has no scheduler,
so the statement is conditional on the schedule — but it now quantifies over **all** schedules that
meet the condition, not over the single schedule `tick dt ++ settleSched`. The condition is the
weakest one that makes sense for a `Timeout` future: the request is polled **at least once at or
after its deadline** (this is what tokio's timer wake-up provides) and the manager is still running
at the end (no shutdown, no panic on an unconfigured request). Everything else in the schedule is
arbitrary: other intakes, polls of other or non-existent requests, early polls, time steps, in any
order and number. -/

/-- (4c) `fair_liveness` — from ANY state satisfying the invariant (in particular any reachable
one): a request that is in flight and whose deadline has passed is resolved, and no longer in
flight, after EVERY continuation `bs` that contains a poll of it and leaves the manager running.
No hypothesis on the client (it may never answer), none on the rest of `bs`. -/
theorem fair_liveness (c : Cfg) (s : State) (r : Req) (bs : List Action) (hi : Inv c s)
    (hr : r ∈ s.pending) (hd : c.deadline r ≤ s.now) (hp : Action.poll r.rid ∈ bs)
    (hrun : (run c s bs).status = .running) :
    (∃ x ∈ (run c s bs).resolved, x.req = r) ∧ r ∉ (run c s bs).pending :=
  have h := overdue_poll_resolves c bs s r hi hr hd hp hrun
  ⟨h, resolved_not_pending (inv_run c bs s hi) h⟩

/-- The fairness condition for one request: somewhere in the schedule `as` the request has been
accepted, the clock has reached its deadline, and a poll of it follows (anywhere later). -/
def PolledAfterDeadline (c : Cfg) (as : List Action) (r : Req) : Prop :=
  ∃ as1 bs, as = as1 ++ bs ∧ r ∈ (run c init as1).accepted ∧
    c.deadline r ≤ (run c init as1).now ∧ Action.poll r.rid ∈ bs

/-- A schedule is fair when every request it makes the manager accept is polled at least once
after its deadline. -/
def FairSchedule (c : Cfg) (as : List Action) : Prop :=
  ∀ r ∈ (run c init as).accepted, PolledAfterDeadline c as r

/-- (4d) `eventually_resolved_request` — per request, no hypothesis about the others and none
about the client: in every schedule from the initial state that keeps the manager running, a
request that is polled at least once after its deadline has been accepted, is resolved, and is not
in flight at the end. (It may have been resolved long before that poll — by its response — or by
that poll, or by any poll in between.) -/
theorem eventually_resolved_request (c : Cfg) (as : List Action) (r : Req)
    (hrun : (run c init as).status = .running) (hp : PolledAfterDeadline c as r) :
    r ∈ (run c init as).accepted ∧ (∃ x ∈ (run c init as).resolved, x.req = r) ∧
      r ∉ (run c init as).pending := by
  obtain ⟨as1, bs, rfl, hacc, hd, hpoll⟩ := hp
  rw [run_append] at hrun ⊢
  have hi1 := inv_reach c as1
  have hrun1 := run_running_back c bs _ hrun
  have hres : Resolved (run c (run c init as1) bs) r := by
    rcases accepted_resolved_or_pending hi1 hrun1 hacc with h | h
    · exact resolved_mono_run c bs _ r h
    · exact overdue_poll_resolves c bs _ r hi1 h hd hpoll hrun
  exact ⟨accepted_mono_run c bs _ r hacc, hres, resolved_not_pending (inv_run c bs _ hi1) hres⟩

/-- (4e) `eventually_nothing_in_flight` — every fair schedule that keeps the manager running ends
with nothing in flight and every accepted request resolved (the resolutions are a permutation of
the accepted requests). No hypothesis on the clients (`EchoesKey` not needed). -/
theorem eventually_nothing_in_flight (c : Cfg) (as : List Action)
    (hrun : (run c init as).status = .running) (hfair : FairSchedule c as) :
    let s := run c init as
    s.pending = [] ∧ (∀ r ∈ s.accepted, ∃ x ∈ s.resolved, x.req = r) ∧
      (s.resolved.map (·.req)).Perm s.accepted := by
  intro s
  have hempty : s.pending = [] := by
    apply List.eq_nil_iff_forall_not_mem.mpr
    intro r hr
    have hacc := pending_accepted (inv_reach c as) r hr
    exact (eventually_resolved_request c as r hrun (hfair r hacc)).2.2 hr
  refine ⟨hempty, fun r hr => (eventually_resolved_request c as r hrun (hfair r hr)).2.1, ?_⟩
  have hp := (inv_reach c as).part
  rw [(inv_reach c as).running hrun] at hp
  show ((run c init as).resolved.map (·.req)).Perm _
  have : (run c init as).pending = [] := hempty
  simpa [this] using hp

/-- (4f) `eventually_resolved` — the property-level liveness statement: **every** schedule that
keeps the manager running and polls each accepted request at least once after its deadline
resolves every accepted request: nothing is in flight, each accepted request has its resolution
and the prescribed event for it is on the channel, and the channel carries exactly one event per
accepted request (as many events as requests, the same identities with multiplicity).
Hypotheses: `EchoesKey` (faithful clients; needed only for the event clauses, see
`eventually_nothing_in_flight`), the manager is running at the end, `FairSchedule`.
Not modelled, hence the remaining partiality of C07: that `tokio::select!`, `FuturesUnordered` and
the timer wheel produce a fair schedule. -/
theorem eventually_resolved (c : Cfg) (as : List Action) (he : EchoesKey c as)
    (hrun : (run c init as).status = .running) (hfair : FairSchedule c as) :
    let s := run c init as
    s.pending = [] ∧ (∀ r ∈ s.accepted, ∃ x ∈ s.resolved, x.req = r ∧ x.event ∈ s.out) ∧
      s.out = s.resolved.map Resolution.event ∧ s.out.length = s.accepted.length ∧
      (s.out.map Event.ident).Perm (s.accepted.map Req.ident) := by
  intro s
  have h0 := eventually_nothing_in_flight c as hrun hfair
  have hq := quiescent_exactly_one c as he hrun h0.1
  refine ⟨h0.1, ?_, hq.2.1, hq.2.2.1, hq.2.2.2⟩
  intro r hr
  obtain ⟨x, hx, hxr⟩ := h0.2.1 r hr
  refine ⟨x, hx, hxr, ?_⟩
  show x.event ∈ (run c init as).out
  rw [hq.2.1]
  exact List.mem_map.mpr ⟨x, hx, rfl⟩

/-- The schedule of `eventually_resolved_partial` is an instance: under that theorem's hypothesis
every request in flight after `as` is `PolledAfterDeadline` in `as ++ [tick dt] ++ settleSched`. -/
theorem settle_schedule_is_fair (c : Cfg) (as : List Action) (dt : Nat)
    (hd : ∀ r ∈ (run c init as).pending, c.deadline r ≤ (run c init as).now + dt) :
    ∀ r ∈ (run c init as).pending,
      PolledAfterDeadline c (as ++ [.tick dt] ++ settleSched c (run c init (as ++ [.tick dt]))) r := by
  intro r hr
  have hs1 : run c init (as ++ [.tick dt]) = step c (run c init as) (.tick dt) := by
    simp [run, List.foldl_append]
  refine ⟨as ++ [.tick dt], _, rfl, ?_, ?_, ?_⟩
  · rw [hs1]; exact pending_accepted (inv_reach c as) r hr
  · rw [hs1]; exact hd r hr
  · rw [hs1]
    simp only [settleSched, List.mem_map, List.mem_filter, decide_eq_true_eq]
    exact ⟨r, ⟨hr, Nat.le_trans (deadline_ready c r) (hd r hr)⟩, rfl⟩

/-! ### C07-3 / C07-4 — attribution for every reply payload of the model

`attribution` assumes `EchoesKey`, whose third conjunct restricts the client's *payload* (an
`InstrumentInvalid` error must name a configured instrument). The attribution clause itself does
not depend on the payload: the two theorems below state it for an **arbitrary** `Reply` and an
arbitrary echoed body — the payload only decides whether an event is emitted at all
(`unanswered_iff`).

**The model type `Reply`** covers the whole of `UnindexedOrderError` since the extension that
followed review item C07-4 (`Model/ExecManager.lean`): (a) `connectivity e` — a client that
*answers* with `Err(UnindexedOrderError::Connectivity(_))` (indexer.rs:253-258 passes it through
unchanged): for `e = timeout` the code builds the SAME `OrderError` value as the manager's own
timeout, so the last conjunct of the attribution theorems is now an `↔` with a disjunction
(`outcome = timeout ↔ fate = timeout ∨ reply = connectivity timeout`), no longer true "by
construction"; (b) `assetInvalid a` / `balanceInsufficient a`, which go through `find_asset_index`
(indexer.rs:203-220) and are filtered when the asset is not configured (`Cfg.nAssets`,
`unanswered_iff`); (c) `nameless k` — `RateLimit`, `OrderAlreadyCancelled`,
`OrderAlreadyFullyFilled`, which carry no name and are never filtered. -/

/-- The client echoes the request's own key; nothing is assumed about the payload (reply, error
names, echoed static fields). -/
def EchoesKeyOnly (as : List Action) : Prop :=
  ∀ q, Action.intake q ∈ as → q.script.echo = q.key

/-- (3a) `attribution_unconditional` — no hypothesis at all, any reply payload: every event on the
channel comes from exactly the resolution of an accepted request, has that request's kind, carries
the key the client echoed (if it is the client's response) or the request's own key (if it is the
timeout), names the manager's own exchange and a configured instrument, and carries `Connectivity(Timeout)`
exactly when the request's future timed out or the client's own answer was that error. -/
theorem attribution_unconditional (c : Cfg) (as : List Action) :
    ∀ e ∈ (run c init as).out, ∃ x ∈ (run c init as).resolved,
      x.req ∈ (run c init as).accepted ∧ eventOf c x.req x.fate = some e ∧
      e.kind = x.req.spec.kind ∧
      (x.fate = .response → e.key = x.req.spec.script.echo) ∧
      (x.fate = .timeout → e.key = x.req.spec.key) ∧
      e.exchange = c.exchange ∧ e.key.instrument < c.nInstr ∧
      (e.outcome = .timeout ↔
        x.fate = .timeout ∨ x.req.spec.script.reply = .connectivity .timeout) := by
  intro e hm
  have h := inv_reach c as
  rw [h.out] at hm
  obtain ⟨x, hx, hev⟩ := List.mem_filterMap.mp hm
  have hacc := resolved_accepted h x hx
  have ⟨h1, h2, h2', h3, h4, h5⟩ := eventOf_some c x.req x.fate e hev
  have hconf : c.configured e.key = true := by
    cases hf : x.fate with
    | response => exact h4 hf
    | timeout => rw [h2' hf]; exact (h.conf x.req hacc).1
  simp only [Cfg.configured, Bool.and_eq_true, beq_iff_eq, decide_eq_true_eq] at hconf
  exact ⟨x, hx, hacc, hev, h1, h2, h2', by rw [h3]; exact hconf.1, hconf.2, h5⟩

/-- (3b) `attribution_any_reply` — `attribution` for an arbitrary reply payload: if the clients
echo the request's key (`EchoesKeyOnly`; nothing about reply, error names or static fields), every
event on the channel belongs to an accepted request: same kind, same exchange / instrument /
strategy / client order id, the manager's own exchange, a configured instrument;
`Connectivity(Timeout)` exactly for timed-out futures and for clients answering that error. -/
theorem attribution_any_reply (c : Cfg) (as : List Action) (hk : EchoesKeyOnly as) :
    ∀ e ∈ (run c init as).out, ∃ x ∈ (run c init as).resolved,
      x.req ∈ (run c init as).accepted ∧ eventOf c x.req x.fate = some e ∧
      e.kind = x.req.spec.kind ∧ e.key = x.req.spec.key ∧ e.exchange = c.exchange ∧
      e.key.instrument < c.nInstr ∧
      (e.outcome = .timeout ↔
        x.fate = .timeout ∨ x.req.spec.script.reply = .connectivity .timeout) := by
  intro e hm
  obtain ⟨x, hx, hacc, hev, h1, h2, h2', h3, h4, h5⟩ := attribution_unconditional c as e hm
  refine ⟨x, hx, hacc, hev, h1, ?_, h3, h4, h5⟩
  rcases accepted_run c as init x.req hacc with h | h
  · simp [init] at h
  · cases hf : x.fate
    · rw [h2 hf]; exact hk _ h
    · exact h2' hf

/-- (3c) `unanswered_iff` — exactly when "neither" happens (a request leaves flight with no event,
the `continue` of manager.rs:282-289 / 308-315), for any payload and without hypotheses: the future
completed with the client's response and the indexer does not know the echoed key, or the
instrument named in the error (`InstrumentInvalid`), or the ASSET named in the error
(`AssetInvalid`, `BalanceInsufficient`: `find_asset_index` fails). A timed-out future always yields
its event; so do connectivity errors and nameless API errors as the client's answer. -/
theorem unanswered_iff (c : Cfg) (as : List Action) :
    ∀ x ∈ (run c init as).resolved,
      (eventOf c x.req x.fate = none ↔ x.fate = .response ∧
        (c.configured x.req.spec.script.echo = false ∨
          (∃ i, x.req.spec.script.reply = .invalidIns i ∧ c.nInstr ≤ i) ∨
          (∃ a, (x.req.spec.script.reply = .assetInvalid a ∨
                 x.req.spec.script.reply = .balanceInsufficient a) ∧ c.nAssets ≤ a))) := by
  intro x _
  rw [eventOf_none_iff c x.req x.fate]
  have : x.req.spec.script.reply.unindexable c ↔
      ((∃ i, x.req.spec.script.reply = .invalidIns i ∧ c.nInstr ≤ i) ∨
       (∃ a, (x.req.spec.script.reply = .assetInvalid a ∨
              x.req.spec.script.reply = .balanceInsufficient a) ∧ c.nAssets ≤ a)) := by
    rcases x.req.spec.script.reply with _ | _ | i | (_ | _ | _) | a | a | k <;>
      simp [Reply.unindexable]
  rw [this]


/-! ### C07-4 — the full reply alphabet: connectivity errors as the client's answer, asset-carrying
and nameless API errors -/

/-- No client of the schedule answers `Err(Connectivity(Timeout))` itself (true of every reply of
the former alphabet `ok | rejected | invalidIns`). -/
def NoClientTimeout (as : List Action) : Prop :=
  ∀ q, Action.intake q ∈ as → q.script.reply ≠ .connectivity .timeout

/-- (3d) `attribution_timeout_iff` — the former last conjunct of `attribution`, as an instance:
when no client answers `Connectivity(Timeout)` itself, an event says `timeout` exactly when the
request's future timed out. -/
theorem attribution_timeout_iff (c : Cfg) (as : List Action) (hn : NoClientTimeout as) :
    ∀ e ∈ (run c init as).out, ∃ x ∈ (run c init as).resolved,
      eventOf c x.req x.fate = some e ∧ (x.fate = .timeout ↔ e.outcome = .timeout) := by
  intro e hm
  obtain ⟨x, hx, hacc, hev, _, _, _, _, _, h5⟩ := attribution_unconditional c as e hm
  refine ⟨x, hx, hev, ?_⟩
  have hne : x.req.spec.script.reply ≠ .connectivity .timeout := by
    rcases accepted_run c as init x.req hacc with h | h
    · simp [init] at h
    · exact hn _ h
  rw [h5]; simp [hne]

/-- (5a) `client_timeout_is_not_manager_timeout` — a client that ANSWERS
`Err(UnindexedOrderError::Connectivity(ConnectivityError::Timeout))` within the request timeout:
whatever the schedule, the request's future completes with fate `response`, never `timeout`; the
event is the RESPONSE event — built by `process_*_response` from the client's answer: it carries
the key and the static fields the client echoed (not the request's), it went through the indexer
(an unconfigured echoed key filters it, which never happens to the manager's own timeout event),
it is on the channel, and it carries the client's error. What is **not** true in the code — and
therefore not in the model — is that the error VALUE differs from the manager's timeout: both are
`OrderError::Connectivity(ConnectivityError::Timeout)`
(`client_timeout_event_is_the_managers_timeout_event`). -/
theorem client_timeout_is_not_manager_timeout (c : Cfg) (as : List Action) :
    ∀ x ∈ (run c init as).resolved, ∀ d,
      x.req.spec.script.reply = .connectivity .timeout →
      x.req.spec.script.delay = some d → d ≤ c.timeout →
      x.fate = .response ∧
      (c.configured x.req.spec.script.echo = false → eventOf c x.req x.fate = none) ∧
      (c.configured x.req.spec.script.echo = true →
        ∃ e ∈ (run c init as).out, eventOf c x.req x.fate = some e ∧
          e.kind = x.req.spec.kind ∧ e.key = x.req.spec.script.echo ∧
          e.body = (if x.req.spec.kind = .open then x.req.spec.script.echoBody else 0) ∧
          e.outcome = .timeout) := by
  intro x hx d hr hd hle
  have hf := fate_within_timeout c as x hx d hd hle
  have h := inv_reach c as
  refine ⟨hf, ?_, ?_⟩
  · intro hc
    rw [eventOf_none_iff]; exact ⟨hf, Or.inl hc⟩
  · intro hc
    have hev : eventOf c x.req x.fate = some
        ⟨x.req.spec.kind, x.req.spec.script.echo.exchange, x.req.spec.script.echo,
         if x.req.spec.kind = .open then x.req.spec.script.echoBody else 0, .timeout⟩ := by
      rw [hf]
      cases hk : x.req.spec.kind <;>
        simp [eventOf, hk, processOpenResponse, processCancelResponse, indexKey, hc, openOutcome,
          hr, indexReply]
    refine ⟨_, ?_, hev, rfl, rfl, rfl, rfl⟩
    rw [h.out]
    exact List.mem_filterMap.mpr ⟨x, hx, hev⟩

/-- (5b) the finding behind (5a): for a faithful client the RESPONSE event for the answer
`Err(Connectivity(Timeout))` and the manager's own TIMEOUT event for the same request are the SAME
value — an observer of the response channel cannot tell a client-side timeout answered in time from
the manager's timeout (only the arrival time differs: `fate` (2), a timeout fate never resolves
before the deadline). For `ExchangeOffline` / `Socket` the events differ. -/
theorem client_timeout_event_is_the_managers_timeout_event (q : ReqSpec) :
    (q.script.reply = .connectivity .timeout → specEvent q .response = specEvent q .timeout) ∧
    (q.script.reply = .connectivity .offline →
      (specEvent q .response).outcome = .offline ∧ specEvent q .response ≠ specEvent q .timeout) ∧
    (q.script.reply = .connectivity .socket →
      (specEvent q .response).outcome = .socket ∧ specEvent q .response ≠ specEvent q .timeout) := by
  refine ⟨?_, ?_, ?_⟩ <;> intro h <;>
    simp [specEvent, specResponseEvent, specTimeoutEvent, h]

/-- (5c) `connectivity_and_nameless_never_filtered` — a connectivity error or a nameless API error
(`OrderRejected`, `RateLimit`, `OrderAlreadyCancelled`, `OrderAlreadyFullyFilled`) as the client's
answer is never the reason for "neither": if the echoed key is configured the completed future
yields its event, carrying exactly that error. -/
theorem connectivity_and_nameless_never_filtered (c : Cfg) (as : List Action) :
    ∀ x ∈ (run c init as).resolved, x.fate = .response →
      c.configured x.req.spec.script.echo = true →
      (match x.req.spec.script.reply with
        | .connectivity _ | .nameless _ | .rejected => True
        | _ => False) →
      ∃ e ∈ (run c init as).out, eventOf c x.req x.fate = some e ∧
        e.outcome = (specResponseEvent x.req.spec).outcome := by
  intro x hx hf hc hr
  have h := inv_reach c as
  have hsome : ∃ e, eventOf c x.req x.fate = some e := by
    cases hev : eventOf c x.req x.fate with
    | some e => exact ⟨e, rfl⟩
    | none =>
      have := (eventOf_none_iff c x.req x.fate).mp hev
      rcases this.2 with h1 | h1
      · rw [hc] at h1; cases h1
      · rcases hrp : x.req.spec.script.reply with _ | _ | i | (_ | _ | _) | a | a | k <;>
          simp_all [Reply.unindexable]
  obtain ⟨e, hev⟩ := hsome
  refine ⟨e, by rw [h.out]; exact List.mem_filterMap.mpr ⟨x, hx, hev⟩, hev, ?_⟩
  rw [hf] at hev
  cases hk : x.req.spec.kind <;>
    rcases hrp : x.req.spec.script.reply with _ | _ | i | (_ | _ | _) | a | a | k <;>
    simp_all [eventOf, processOpenResponse, processCancelResponse, indexKey, openOutcome,
      indexReply, specResponseEvent] <;> (subst hev; rfl)

/-- (5d) `balance_insufficient_is_answered` — `Rejected(ApiError::BalanceInsufficient(asset, _))`,
the answer the mock exchange gives for an order the balance cannot cover (C08 `accept_iff_funds`;
exchange/mock/mod.rs:295-301, 329-335), and `AssetInvalid(asset, _)` likewise: when the client
echoes a configured key, the response is indexable — the request is ANSWERED with an event carrying
the indexed asset — exactly when the manager's `ExecutionInstrumentMap` knows the asset
(`find_asset_index`); otherwise the response is filtered: the request leaves flight with NO event
("neither"). For systems produced by the builder the asset IS configured: the mock names the
instrument's own quote asset (buy) or base asset (sell), which `generate_execution_instrument_map`
puts into the manager's map — sub-check C04M `same_assets_for_every_order` /
`same_instrument_same_assets` (`m.findAssetIndex e.quote = .ok x.value.quote`); C04M
`manager_names_known` is the instrument-name analogue (the mock never answers `InstrumentInvalid`
to a request that came through its own manager). -/
theorem balance_insufficient_is_answered (c : Cfg) (as : List Action) :
    ∀ x ∈ (run c init as).resolved, ∀ a,
      (x.req.spec.script.reply = .balanceInsufficient a ∨
        x.req.spec.script.reply = .assetInvalid a) →
      x.fate = .response → c.configured x.req.spec.script.echo = true →
      (a < c.nAssets →
        ∃ e ∈ (run c init as).out, eventOf c x.req x.fate = some e ∧
          e.key = x.req.spec.script.echo ∧ e.outcome = (specResponseEvent x.req.spec).outcome ∧
          (e.outcome = .balanceInsufficient a ∨ e.outcome = .assetInvalid a)) ∧
      (c.nAssets ≤ a → eventOf c x.req x.fate = none) := by
  intro x hx a hr hf hc
  have h := inv_reach c as
  refine ⟨?_, ?_⟩
  · intro ha
    have hev : ∃ e, eventOf c x.req x.fate = some e ∧ e.key = x.req.spec.script.echo ∧
        e.outcome = (specResponseEvent x.req.spec).outcome ∧
        (e.outcome = .balanceInsufficient a ∨ e.outcome = .assetInvalid a) := by
      rw [hf]
      cases hk : x.req.spec.kind <;> rcases hr with hr | hr <;>
        simp [eventOf, hk, processOpenResponse, processCancelResponse, indexKey, hc, openOutcome,
          hr, indexReply, findAssetIndex, ha, specResponseEvent]
    obtain ⟨e, hev, h1, h2, h3⟩ := hev
    exact ⟨e, by rw [h.out]; exact List.mem_filterMap.mpr ⟨x, hx, hev⟩, hev, h1, h2, h3⟩
  · intro ha
    rw [eventOf_none_iff]
    refine ⟨hf, Or.inr ?_⟩
    rcases hr with hr | hr <;> simp [hr, Reply.unindexable, ha]

/-- (5e) the faithful-client form: under `EchoesKey` (which demands that error names are
configured) a `BalanceInsufficient` / `AssetInvalid` / connectivity / nameless answer is the event
on the channel, attributed to the request's own key (`one_event_per_resolution` + `specEvent`). -/
theorem error_answers_are_delivered (c : Cfg) (as : List Action) (he : EchoesKey c as) :
    ∀ x ∈ (run c init as).resolved, x.fate = .response →
      specResponseEvent x.req.spec ∈ (run c init as).out ∧
      (specResponseEvent x.req.spec).key = x.req.spec.key := by
  intro x hx hf
  refine ⟨?_, rfl⟩
  rw [one_event_per_resolution c as he]
  exact List.mem_map.mpr ⟨x, hx, by simp [Resolution.event, specEvent, hf]⟩

/-! #### Non-vacuity and witnesses for the extended alphabet -/

/-- `c0` with two configured assets -/
def c1 : Cfg := { c0 with nAssets := 2 }
/-- a faithful open request whose client answers `rp` after `d` ticks -/
def qr (d : Nat) (rp : Reply) : ReqSpec := ⟨.open, ⟨0, 1, 5, 7⟩, 3, ⟨some d, rp, false, ⟨0, 1, 5, 7⟩, 3⟩⟩

/-- a client answering `Connectivity(Timeout)` after 1 tick (timeout 2), polled at once: fate
`response`, resolved at time 1 — before the deadline, which a timeout fate never is — and the event
equals the one the manager's own timeout produces for a silent client at time 2 -/
example :
    (run c0 init [.intake (qr 1 (.connectivity .timeout)), .tick 1, .poll 0]).resolved.map
        (fun x => (x.fate, x.time)) = [(.response, 1)] ∧
    (run c0 init [.intake (qr 1 (.connectivity .timeout)), .tick 1, .poll 0]).out =
      (run c0 init [.intake (q0 none), .tick 2, .poll 0]).out ∧
    (run c0 init [.intake (qr 1 (.connectivity .offline)), .tick 1, .poll 0]).out.map (·.outcome)
      = [.offline] := by decide

/-- `BalanceInsufficient(asset 1)`: answered when the asset is configured (`c1`), filtered — the
request leaves flight with no event — when it is not (`c0` has no assets; asset 2 is unknown to
`c1`); `RateLimit` is always delivered -/
example :
    (run c1 init [.intake (qr 1 (.balanceInsufficient 1)), .tick 1, .poll 0]).out.map (·.outcome)
      = [.balanceInsufficient 1] ∧
    (let s := run c0 init [.intake (qr 1 (.balanceInsufficient 1)), .tick 1, .poll 0]
     s.out = [] ∧ s.pending = [] ∧ s.resolved.length = 1) ∧
    (run c1 init [.intake (qr 1 (.assetInvalid 2)), .tick 1, .poll 0]).out = [] ∧
    (run c0 init [.intake (qr 1 (.nameless .rateLimit)), .tick 1, .poll 0]).out.map (·.outcome)
      = [.nameless .rateLimit] := by decide

/-- `EchoesKey` is satisfiable with the new answers (configured asset), and excludes the unknown one -/
example : echoes c1 (qr 1 (.balanceInsufficient 1)) = true ∧ echoes c1 (qr 1 (.connectivity .timeout)) = true ∧
    echoes c1 (qr 1 (.nameless .orderAlreadyCancelled)) = true ∧ echoes c0 (qr 1 (.balanceInsufficient 1)) = false := by
  decide

/-! ### Non-vacuity of the fairness hypothesis, and its necessity -/

/-- a fair schedule that is not of the `tick ++ settle` shape: requests accepted at different
times, early polls, polls of ids that do not exist, a request resolved by its response before the
deadline and polled again later, intakes between polls -/
def sched1 : List Action :=
  [.intake (q0 (some 3)), .intake q1, .tick 1, .poll 1, .intake (q0 none), .tick 2,
   .poll 2, .intake q1, .poll 0, .poll 1, .poll 9, .tick 2, .poll 3]

example : FairSchedule c0 sched1 ∧ (run c0 init sched1).status = .running ∧
    (run c0 init sched1).accepted.length = 4 := by
  refine ⟨?_, by decide, by decide⟩
  intro r hr
  have hacc : (run c0 init sched1).accepted =
      [⟨0, 0, q0 (some 3)⟩, ⟨1, 0, q1⟩, ⟨2, 1, q0 none⟩, ⟨3, 3, q1⟩] := by decide
  rw [hacc] at hr
  simp only [List.mem_cons, List.not_mem_nil, or_false] at hr
  rcases hr with rfl | rfl | rfl | rfl
  · exact ⟨sched1.take 6, sched1.drop 6, by decide, by decide, by decide, by decide⟩
  · exact ⟨sched1.take 6, sched1.drop 6, by decide, by decide, by decide, by decide⟩
  · exact ⟨sched1.take 6, sched1.drop 6, by decide, by decide, by decide, by decide⟩
  · exact ⟨sched1.take 12, sched1.drop 12, by decide, by decide, by decide, by decide⟩

example : EchoesKey c0 sched1 := by
  intro q hq
  simp only [sched1, List.mem_cons, Action.intake.injEq, reduceCtorEq, List.not_mem_nil,
    or_false, false_or] at hq
  rcases hq with rfl | rfl | rfl | rfl <;> decide

/-- the poll after the deadline is needed: a request whose client never answers, polled only before
its deadline (and a poll of another id afterwards), stays in flight for ever -/
example : let s := run c0 init [.intake (q0 none), .tick 1, .poll 0, .tick 5, .poll 4]
    s.status = .running ∧ s.pending.length = 1 ∧ s.resolved = [] := by decide

/-- "keeps the manager running" is needed: a shutdown drops what is in flight; later polls do
nothing -/
example : let s := run c0 init [.intake (q0 none), .tick 2, .shutdown, .poll 0]
    s.status = .stopped ∧ s.pending = [] ∧ s.resolved = [] ∧ s.dropped.length = 1 := by decide

/-- `attribution_any_reply` covers payloads outside `EchoesKey`: a client that echoes the key but
names an instrument the manager does not know is `EchoesKeyOnly`, not `EchoesKey`; its answer is
skipped (`unanswered_iff`), so no event is mis-attributed. -/
example : let q : ReqSpec := ⟨.open, ⟨0, 1, 5, 7⟩, 3, ⟨some 1, .invalidIns 9, false, ⟨0, 1, 5, 7⟩, 8⟩⟩
    EchoesKeyOnly [.intake q, .tick 1, .poll 0] ∧ echoes c0 q = false ∧
      (run c0 init [.intake q, .tick 1, .poll 0]).out = [] := by
  refine ⟨?_, by decide, by decide⟩
  intro q' hq
  simp only [List.mem_cons, Action.intake.injEq, reduceCtorEq, List.not_mem_nil, or_false] at hq
  subst hq; rfl


/-! ## The request handed to the client and the payload of its answer (oracle audit C07-H1 / H2)

`forwardOf` is the C04 model of the call site `indexer.order_request(&request)` evaluated on this
manager's own map; `specForward` is the property's reading ("the right exchange, instrument and
order id" starts with asking the client about exactly that order). -/

theorem lookup_range_id (n i : Nat) :
    ((List.range n).map fun i => (i, i)).lookup i = if i < n then some i else none := by
  induction n with
  | zero => simp
  | succ n ih =>
    rw [List.range_succ, List.map_append, List.lookup_append, ih]
    by_cases h : i < n
    · simp [h, Nat.lt_succ_of_lt h]
    · by_cases h2 : i = n
      · subst h2; simp
      · have : ¬ i < n + 1 := by omega
        have h3 : (i == n) = false := by simp [h2]
        simp [h, this, h3]

/-- The client is asked about exactly the order the request names: the manager's own exchange, the
exchange name of the request's instrument, the same strategy, client order id and request state —
for every request with a configured key. -/
theorem forward_refines_spec (c : Cfg) (q : ReqSpec) (h : c.configured q.key = true) :
    forwardOf c q = some (specForward c q) := by
  simp only [Cfg.configured, Bool.and_eq_true, beq_iff_eq, decide_eq_true_eq] at h
  simp [forwardOf, specForward, ExecMap.managerClientRequest, ExecMap.orderRequest,
    ExecMap.EMap.findExchangeId, ExecMap.EMap.findInstrumentName, Cfg.emap, ExecMap.EMap.new,
    lookup_range_id, h.1, h.2]

/-- … and nothing is handed to the client for any other key (`order_request` fails, the manager
panics): the C04 call-site model and this model's `configured` agree. -/
theorem forward_none_iff (c : Cfg) (q : ReqSpec) :
    forwardOf c q = none ↔ c.configured q.key = false := by
  by_cases h : c.configured q.key = true
  · simp [forward_refines_spec c q h, h]
  · have h' : c.configured q.key = false := by simpa using h
    simp only [h', iff_true]
    simp only [Cfg.configured, Bool.and_eq_false_iff, beq_eq_false_iff_ne, decide_eq_false_iff_not] at h'
    rcases h' with hx | hi
    · simp [forwardOf, ExecMap.managerClientRequest, ExecMap.orderRequest,
        ExecMap.EMap.findExchangeId, Cfg.emap, ExecMap.EMap.new, Ne.symm hx]
    · by_cases hx : c.exchange = q.key.exchange
      · simp [forwardOf, ExecMap.managerClientRequest, ExecMap.orderRequest,
          ExecMap.EMap.findExchangeId, ExecMap.EMap.findInstrumentName, Cfg.emap, ExecMap.EMap.new,
          lookup_range_id, hx, hi]
      · simp [forwardOf, ExecMap.managerClientRequest, ExecMap.orderRequest,
          ExecMap.EMap.findExchangeId, Cfg.emap, ExecMap.EMap.new, hx]

/-- A request is handed to the client exactly when it is accepted (pushed in flight): one client
call per accepted request, none for anything else — on every action, from every state. -/
theorem forwarded_iff_accepted (c : Cfg) (s : State) (a : Action) :
    (step c s a).accepted.length = s.accepted.length + (forwarded c s a).length := by
  cases a with
  | tick dt => simp [step, forwarded]
  | shutdown => simp only [step, forwarded]; split <;> simp
  | poll rid =>
    simp only [step, forwarded]
    split
    · simp
    · split
      · simp
      · split <;> simp
  | intake q =>
    simp only [step, forwarded]
    by_cases hs : s.status ≠ .running
    · simp [hs]
    · simp only [hs, if_false]
      by_cases hc : c.configured q.key = true
      · simp [hc, forward_refines_spec c q hc]
      · have hc' : c.configured q.key = false := by simpa using hc
        simp [hc', (forward_none_iff c q).mpr hc']

/-- What the accepted request is asked with, along any schedule: the forwarded requests of a run
are the spec's for the accepted requests, in intake order. -/
theorem forwarded_run (c : Cfg) (as : List Action) (s : State) :
    (as.foldl (fun (acc : State × List Forwarded) a => (step c acc.1 a, acc.2 ++ forwarded c acc.1 a))
        (s, [])).2
      = ((run c s as).accepted.drop s.accepted.length).map (fun r => specForward c r.spec) := by
  suffices h : ∀ (as : List Action) (s : State) (pre : List Forwarded) (k : Nat), k ≤ s.accepted.length →
      pre = (s.accepted.drop k).map (fun r => specForward c r.spec) →
      (as.foldl (fun (acc : State × List Forwarded) a => (step c acc.1 a, acc.2 ++ forwarded c acc.1 a))
        (s, pre)).2 = ((run c s as).accepted.drop k).map (fun r => specForward c r.spec) by
    exact h as s [] s.accepted.length (Nat.le_refl _) (by simp)
  intro as
  induction as with
  | nil => intro s pre k _ hp; simpa [run] using hp
  | cons a as ih =>
    intro s pre k hk hp
    simp only [List.foldl_cons, run]
    refine ih (step c s a) _ k ?_ ?_
    · have := forwarded_iff_accepted c s a; omega
    · -- one step: accepted grows by exactly the forwarded request
      cases a with
      | tick dt => simpa [step, forwarded] using hp
      | shutdown => simp only [step, forwarded]; split <;> simpa using hp
      | poll rid =>
        simp only [step, forwarded]
        split
        · simpa using hp
        · split
          · simpa using hp
          · split <;> simpa using hp
      | intake q =>
        simp only [step, forwarded]
        by_cases hs : s.status ≠ .running
        · simpa [hs] using hp
        · simp only [hs, if_false]
          by_cases hc : c.configured q.key = true
          · simp [hc, forward_refines_spec c q hc, hp, List.drop_append_of_le_length hk]
          · have hc' : c.configured q.key = false := by simpa using hc
            simpa [hc', (forward_none_iff c q).mpr hc'] using hp

/-- "The exchange client's own response": the payload an event carries is the payload of the
client's answer, for every request, payload and fate (no hypothesis on the echo). -/
theorem detail_refines_spec (q : ReqSpec) (p : Payload) (f : Fate) :
    detailOf q p f = specDetail q p f := by
  cases f with
  | timeout => rfl
  | response =>
    simp only [detailOf, specDetail]
    cases hr : q.script.reply with
    | connectivity e => cases e <;> cases q.kind <;> rfl
    | _ => cases q.kind <;> rfl

/-- An accepted open that is not fully filled carries the client's order id, exchange time and
filled quantity unchanged; a confirmed cancel its order id and exchange time. -/
theorem accepted_answer_payload_unchanged (q : ReqSpec) (p : Payload) (h : q.script.reply = .ok) :
    detailOf q p .response =
      match q.kind with
      | .open => if q.script.fills then .none else .opened p.id p.time p.filled
      | .cancel => .cancelled p.id p.time := by
  simp only [detailOf, h]; cases q.kind <;> rfl

/-- The manager's own timeout failure carries nothing of the client's. -/
theorem timeout_carries_nothing (q : ReqSpec) (p : Payload) : detailOf q p .timeout = .none := rfl

/-- the hypotheses are satisfiable / the statements are not vacuous -/
example : forwardOf ⟨0, 2, 2, 0⟩ ⟨.open, ⟨0, 1, 5, 7⟩, 3, ⟨some 1, .ok, false, ⟨0, 1, 5, 7⟩, 3⟩⟩
    = some ⟨.open, 0, 1, 5, 7, 3⟩ := by decide
example : forwardOf ⟨0, 2, 2, 0⟩ ⟨.cancel, ⟨0, 2, 5, 7⟩, 0, ⟨some 1, .ok, false, ⟨0, 2, 5, 7⟩, 0⟩⟩ = none := by decide
example : forwardOf ⟨0, 2, 2, 0⟩ ⟨.cancel, ⟨1, 1, 5, 7⟩, 0, ⟨some 1, .ok, false, ⟨1, 1, 5, 7⟩, 0⟩⟩ = none := by decide
example : detailOf ⟨.open, ⟨0, 1, 5, 7⟩, 3, ⟨some 1, .ok, false, ⟨0, 1, 5, 7⟩, 3⟩⟩ ⟨4, 6, 2, 0⟩ .response
    = .opened 4 6 2 := by decide

end BarterModel.Props.C07
