import BarterModel.Lemmas.ExecManager
import BarterModel.Lemmas.Review2
/-!
# C07 — Every execution request is answered exactly once (response or timeout)   [PARTIAL]

Statements about the labelled transition system `ExecManager.step` (the executable model the driver
runs; `Model/ExecManager.lean`). A *schedule* `as : List Action` is any finite sequence of
`intake q` / `tick dt` / `poll rid` / `shutdown`; `s = run c init as` is the state it reaches. All
theorems hold for **every** schedule: any number of requests outstanding, any interleaving of
intakes, time steps and polls, any order in which the in-flight futures are polled, early, prompt
or late polls, polls of requests that are not ready or do not exist.

Hypothesis `EchoesKey c as` (only where stated): every request handed to the manager is answered
by the client *about that order* (same key and static fields; error names the manager knows).
Without it the code skips the answer (`continue`, manager.rs:282-289 / 308-315) or attributes it to
whatever key the client wrote — see the `example`s at the end.

What is **not** modelled, hence not proved (the reason for PARTIAL): `FuturesUnordered`,
`tokio::select!` fairness (that a ready arm is eventually taken), timer-wheel granularity and
wake-ups. Liveness is therefore conditional on the schedule: *if* the futures are polled after
their deadlines, nothing stays in flight. Inside the model this is proved for **every** such
schedule (`fair_liveness`, `eventually_resolved_request`, `eventually_resolved` at the end of the
file, added after the independent review, item C07-1); `eventually_resolved_partial` is the older
one-schedule instance. That the runtime *does* poll (the fairness hypothesis `PolledAfterDeadline`)
is what stays outside the model.
-/
namespace BarterModel.Props.C07
open BarterModel.ExecManager

/-- Every request handed to the manager along the schedule has a faithful client. -/
def EchoesKey (c : Cfg) (as : List Action) : Prop :=
  ∀ q, Action.intake q ∈ as → echoes c q = true

theorem echoes_accepted {c : Cfg} {as : List Action} (he : EchoesKey c as) :
    ∀ r ∈ (run c init as).accepted, c.configured r.spec.key = true ∧ echoes c r.spec = true := by
  intro r hr
  refine ⟨((inv_reach c as).conf r hr).1, ?_⟩
  rcases accepted_run c as init r hr with h | h
  · simp [init] at h
  · exact he _ h

/-- (1a) `partition` — never both, never neither, bookkeeping form. In every reachable state each
accepted request is in exactly one of: resolved (its future completed), still in flight, dropped
at shutdown/panic; accepted requests have pairwise distinct ids; while the manager is running
nothing has been dropped. No hypotheses. -/
theorem partition (c : Cfg) (as : List Action) :
    let s := run c init as
    (s.resolved.map (·.req) ++ s.pending ++ s.dropped).Perm s.accepted ∧
      (s.accepted.map (·.rid)).Nodup ∧ (s.status = .running → s.dropped = []) :=
  let h := inv_reach c as
  ⟨h.part, accepted_nodup h, h.running⟩

/-- (1b) `one_event_per_resolution` — the response channel carries, in order, exactly one event
per completed request future: the prescribed event for its fate. -/
theorem one_event_per_resolution (c : Cfg) (as : List Action) (he : EchoesKey c as) :
    let s := run c init as
    s.out = s.resolved.map Resolution.event := by
  intro s
  have h := inv_reach c as
  rw [h.out]
  apply filterMap_eq_map
  intro x hx
  have ⟨hc, hq⟩ := echoes_accepted he x.req (resolved_accepted h x hx)
  exact eventOf_echo c x.req x.fate hc hq

/-- (1c) `exactly_once` — DESIGN §7 C07(1): the (kind, exchange, instrument, strategy, cid) tuples
of the events sent, together with those of the requests still in flight (and of those dropped at
shutdown), are exactly those of the accepted requests, with multiplicity. -/
theorem exactly_once (c : Cfg) (as : List Action) (he : EchoesKey c as) :
    let s := run c init as
    (s.out.map Event.ident ++ s.pending.map Req.ident ++ s.dropped.map Req.ident).Perm
      (s.accepted.map Req.ident) := by
  intro s
  have h := inv_reach c as
  have h1 := h.part.map Req.ident
  have h2 : s.out.map Event.ident = (s.resolved.map (·.req)).map Req.ident := by
    rw [one_event_per_resolution c as he]
    simp only [List.map_map]
    apply List.map_congr_left
    intro x _
    simp [Resolution.event, specEvent_ident, Req.ident]
  rw [h2]
  simpa [List.map_append] using h1

/-- (1d) while the manager is running: events ⊎ in flight = accepted. -/
theorem exactly_once_running (c : Cfg) (as : List Action) (he : EchoesKey c as)
    (hrun : (run c init as).status = .running) :
    let s := run c init as
    (s.out.map Event.ident ++ s.pending.map Req.ident).Perm (s.accepted.map Req.ident) := by
  intro s
  have := exactly_once c as he
  have hd := (inv_reach c as).running hrun
  simp only [hd, List.map_nil, List.append_nil] at this
  exact this

/-- (1e) `quiescent` — when nothing is in flight any more (and the manager is still running) the
resolutions are a permutation of the accepted requests and the channel carries exactly one event
for each of them: as many events as accepted requests, the same identities with multiplicity. -/
theorem quiescent_exactly_one (c : Cfg) (as : List Action) (he : EchoesKey c as)
    (hrun : (run c init as).status = .running) (hq : (run c init as).pending = []) :
    let s := run c init as
    (s.resolved.map (·.req)).Perm s.accepted ∧ s.out = s.resolved.map Resolution.event ∧
      s.out.length = s.accepted.length ∧ (s.out.map Event.ident).Perm (s.accepted.map Req.ident) := by
  intro s
  have h := inv_reach c as
  have hp := h.part
  rw [h.running hrun, hq] at hp
  simp only [List.append_nil] at hp
  have ho := one_event_per_resolution c as he
  have he1 := exactly_once_running c as he hrun
  simp only [hq, List.map_nil, List.append_nil] at he1
  refine ⟨hp, ho, ?_, by simpa using he1⟩
  have := hp.length_eq
  simp only [List.length_map] at this
  rw [ho, List.length_map]; exact this

/-- (1f) `no_duplicates` — if the engine never reuses a (kind, key) for two requests, no two
events carry the same (kind, key): never both a response and a timeout for one request. -/
theorem no_duplicates (c : Cfg) (as : List Action) (he : EchoesKey c as)
    (hn : ((run c init as).accepted.map Req.ident).Nodup) :
    ((run c init as).out.map Event.ident).Nodup := by
  have h := (exactly_once c as he).nodup_iff.mpr hn
  rw [List.append_assoc] at h
  exact (List.nodup_append.mp h).1

/-- (2) `fate` — every completed future's fate is what one `Timeout` poll yields at the time it was
polled: it is the client's response exactly when the response had arrived by then (the inner future
is polled first), a timeout only when the deadline had passed, never before the first instant it
could complete. No hypotheses. -/
theorem fate (c : Cfg) (as : List Action) :
    ∀ x ∈ (run c init as).resolved,
      (x.fate = .response ↔ ∃ d, x.req.spec.script.delay = some d ∧ x.req.t0 + d ≤ x.time) ∧
      (x.fate = .timeout → x.req.t0 + c.timeout ≤ x.time) ∧
      c.readyAt x.req ≤ x.time ∧ x.time ≤ (run c init as).now := by
  intro x hx
  have ⟨h1, h2⟩ := (inv_reach c as).fate x hx
  have := pollReq_response_iff c x.req x.time x.fate h1
  exact ⟨this.1, this.2.1, this.2.2, h2⟩

/-- (2a) a response that arrives within the request timeout is delivered as the response, whatever
the schedule. -/
theorem fate_within_timeout (c : Cfg) (as : List Action) :
    ∀ x ∈ (run c init as).resolved, ∀ d, x.req.spec.script.delay = some d → d ≤ c.timeout →
      x.fate = .response := by
  intro x hx d hd hle
  have ⟨h1, _⟩ := (inv_reach c as).fate x hx
  rcases pollReq_spec_or_late c x.req x.time x.fate h1 with h | h
  · rw [h]; simp [specFate, hd, hle]
  · exact h.1

/-- (2b) a client that never answers yields the timeout failure, whatever the schedule. -/
theorem fate_never (c : Cfg) (as : List Action) :
    ∀ x ∈ (run c init as).resolved, x.req.spec.script.delay = none → x.fate = .timeout := by
  intro x hx hd
  have ⟨h1, _⟩ := (inv_reach c as).fate x hx
  rcases pollReq_spec_or_late c x.req x.time x.fate h1 with h | h
  · rw [h]; simp [specFate, hd]
  · obtain ⟨_, d, hd', _⟩ := h; rw [hd] at hd'; cases hd'

/-- (2c) the fate is the one the property text prescribes (`specFate`: response iff it arrives
within the timeout) unless the future was polled late: after the deadline *and* after a response
that arrived after the deadline. Then the response wins. This is the only schedule dependence. -/
theorem fate_spec_or_late (c : Cfg) (as : List Action) :
    ∀ x ∈ (run c init as).resolved,
      x.fate = specFate c.timeout x.req.spec ∨
      (x.fate = .response ∧ ∃ d, x.req.spec.script.delay = some d ∧ c.timeout < d ∧
        x.req.t0 + d ≤ x.time) := by
  intro x hx
  exact pollReq_spec_or_late c x.req x.time x.fate ((inv_reach c as).fate x hx).1

/-- (2d) polled before a late response arrives, a request times out (prompt polls realise the
property text exactly). -/
theorem fate_prompt (c : Cfg) (as : List Action) :
    ∀ x ∈ (run c init as).resolved,
      (∀ d, x.req.spec.script.delay = some d → c.timeout < d → x.time < x.req.t0 + d) →
      x.fate = specFate c.timeout x.req.spec := by
  intro x hx hp
  rcases fate_spec_or_late c as x hx with h | ⟨_, d, hd, hlt, hle⟩
  · exact h
  · have := hp d hd hlt; omega

/-- (3) `attribution` — every event on the channel belongs to an accepted request: same kind, same
exchange / instrument / strategy / client order id as the request, the manager's own exchange, a
configured instrument; a timeout event carries the request's own static fields and the timeout
error, a response event the client's verdict. -/
theorem attribution (c : Cfg) (as : List Action) (he : EchoesKey c as) :
    ∀ e ∈ (run c init as).out, ∃ x ∈ (run c init as).resolved,
      x.req ∈ (run c init as).accepted ∧ e = x.event ∧
      e.kind = x.req.spec.kind ∧ e.key = x.req.spec.key ∧ e.exchange = c.exchange ∧
      e.key.instrument < c.nInstr ∧ (x.fate = .timeout ↔ e.outcome = .timeout) := by
  intro e hm
  rw [one_event_per_resolution c as he] at hm
  obtain ⟨x, hx, rfl⟩ := List.mem_map.mp hm
  have h := inv_reach c as
  have hacc := resolved_accepted h x hx
  have hconf := (h.conf x.req hacc).1
  simp only [Cfg.configured, Bool.and_eq_true, beq_iff_eq, decide_eq_true_eq] at hconf
  refine ⟨x, hx, hacc, rfl, ?_, ?_, ?_, ?_, ?_⟩
  · cases hf : x.fate <;> simp [Resolution.event, specEvent, specResponseEvent, specTimeoutEvent, hf]
  · cases hf : x.fate <;> simp [Resolution.event, specEvent, specResponseEvent, specTimeoutEvent, hf]
  · cases hf : x.fate <;>
      simp [Resolution.event, specEvent, specResponseEvent, specTimeoutEvent, hf, hconf.1]
  · cases hf : x.fate <;>
      simp [Resolution.event, specEvent, specResponseEvent, specTimeoutEvent, hf, hconf.2]
  · cases hf : x.fate
    · simp only [Resolution.event, specEvent, specResponseEvent, hf, reduceCtorEq, false_iff]
      cases x.req.spec.script.reply <;> simp
      split <;> simp
    · simp [Resolution.event, specEvent, specTimeoutEvent, hf]

/-- Refinement to the abstract spec the `spec` driver runs: the channel is the list of prescribed
events of the resolutions, and each resolution's fate is the prescribed one unless polled late. -/
theorem refines_spec (c : Cfg) (as : List Action) (he : EchoesKey c as) :
    let s := run c init as
    s.out = s.resolved.map (fun x => specEvent x.req.spec x.fate) ∧
      ∀ x ∈ s.resolved, x.fate = specFate c.timeout x.req.spec ∨
        (x.fate = .response ∧ ∃ d, x.req.spec.script.delay = some d ∧ c.timeout < d ∧
          x.req.t0 + d ≤ x.time) :=
  ⟨one_event_per_resolution c as he, fate_spec_or_late c as⟩

/-- (4a) progress: in a reachable running state a request whose deadline has passed can always be
completed — the poll removes exactly it from flight and sends exactly one event, whatever the
client does (even if it never answers). -/
theorem resolved_when_polled (c : Cfg) (as : List Action) (he : EchoesKey c as) (r : Req)
    (hrun : (run c init as).status = .running) (hr : r ∈ (run c init as).pending)
    (hd : c.deadline r ≤ (run c init as).now) :
    let s := run c init as
    let s' := step c s (.poll r.rid)
    ∃ f, s'.pending = s.pending.erase r ∧ r ∉ s'.pending ∧
      s'.resolved = s.resolved ++ [⟨r, f, s.now⟩] ∧ s'.out = s.out ++ [specEvent r.spec f] := by
  intro s s'
  have h := inv_reach c as
  obtain ⟨f, _, hstep⟩ := poll_resolves h hrun hr (Nat.le_trans (deadline_ready c r) hd)
  have ⟨hc, hq⟩ := echoes_accepted he r (pending_accepted h r hr)
  refine ⟨f, ?_, ?_, ?_, ?_⟩
  · show (step c s (.poll r.rid)).pending = _; rw [hstep]
  · show r ∉ (step c s (.poll r.rid)).pending; rw [hstep]; exact not_mem_erase_self h r
  · show (step c s (.poll r.rid)).resolved = _; rw [hstep]
  · show (step c s (.poll r.rid)).out = _; rw [hstep]; simp only [eventOf_echo c r f hc hq]; rfl

/-- (4b) `eventually_resolved_partial` — "an order the engine shows as in flight is always
eventually resolved", as far as the model can say it: from any reachable running state, once time
has passed every outstanding deadline and the ready futures have been polled (in any order: here
the driver's `settleSched`), nothing is in flight and the channel carries exactly one event per
accepted request. **Missing for full strength**: that the runtime does poll them (`select!`
fairness, `FuturesUnordered` wake-ups, timer firing) is not modelled.
**Superseded inside the model** by `eventually_resolved` / `eventually_resolved_request` /
`fair_liveness` below, which hold for EVERY schedule that polls each request at least once after
its deadline and keeps the manager running (this schedule is one of them:
`settle_schedule_is_fair`). What stays partial is only what the model does not contain: that
tokio's `select!` / `FuturesUnordered` / timer wake-ups produce such a schedule. -/
theorem eventually_resolved_partial (c : Cfg) (as : List Action) (he : EchoesKey c as) (dt : Nat)
    (hrun : (run c init as).status = .running)
    (hd : ∀ r ∈ (run c init as).pending, c.deadline r ≤ (run c init as).now + dt) :
    let s1 := run c init (as ++ [.tick dt])
    let s2 := run c init (as ++ [.tick dt] ++ settleSched c s1)
    s2.status = .running ∧ s2.pending = [] ∧ s2.accepted = (run c init as).accepted ∧
      s2.out.length = s2.accepted.length ∧
      (s2.out.map Event.ident).Perm (s2.accepted.map Req.ident) := by
  intro s1 s2
  have hs1 : s1 = step c (run c init as) (.tick dt) := by
    simp [s1, run, List.foldl_append]
  have h1 : Inv c s1 := inv_reach c _
  have hrun1 : s1.status = .running := by rw [hs1]; exact hrun
  have hs2 : s2 = run c s1 (settleSched c s1) := by
    simp [s2, s1, run, List.foldl_append]
  have hall : ∀ r ∈ s1.pending, c.readyAt r ≤ s1.now := by
    intro r hr
    rw [hs1] at hr ⊢
    exact Nat.le_trans (deadline_ready c r) (hd r hr)
  have hp := run_polls c (s1.pending.filter fun r => decide (c.readyAt r ≤ s1.now)) s1 h1 hrun1
    (fun r _ hr => hall r hr)
  have hs2' : s2 = run c s1 ((s1.pending.filter fun r => decide (c.readyAt r ≤ s1.now)).map
      fun r => .poll r.rid) := by rw [hs2]; rfl
  rw [← hs2'] at hp
  have hempty : s2.pending = [] := by
    apply List.eq_nil_iff_forall_not_mem.mpr
    intro r hr
    have := hp.2.2.2 r hr
    exact this.2 (List.mem_filter.mpr ⟨this.1, by simpa using hall r this.1⟩)
  have he2 : EchoesKey c (as ++ [.tick dt] ++ settleSched c s1) := by
    intro q hq
    simp only [List.mem_append, List.mem_singleton, reduceCtorEq, or_false] at hq
    rcases hq with hq | hq
    · exact he q hq
    · simp [settleSched] at hq
  have hq := quiescent_exactly_one c _ he2 hp.1 hempty
  refine ⟨hp.1, hempty, ?_, hq.2.2.1, hq.2.2.2⟩
  rw [hp.2.2.1, hs1]; rfl

/-! ## Non-vacuity and witnesses -/

/-- configuration used below: exchange 0, two instruments, request timeout 2 -/
def c0 : Cfg := ⟨0, 2, 2⟩
/-- a faithful open request on instrument 1 answered `ok` after `d` ticks (`none`: never) -/
def q0 (d : Option Nat) : ReqSpec := ⟨.open, ⟨0, 1, 5, 7⟩, 3, ⟨d, .ok, false, ⟨0, 1, 5, 7⟩, 3⟩⟩
/-- a faithful cancel for the same client order id, rejected after 1 tick -/
def q1 : ReqSpec := ⟨.cancel, ⟨0, 1, 5, 7⟩, 0, ⟨some 1, .rejected, false, ⟨0, 1, 5, 7⟩, 0⟩⟩

/-- a schedule with three requests outstanding at once, answered out of order, one timing out -/
def sched0 : List Action :=
  [.intake (q0 (some 3)), .intake q1, .intake (q0 none), .tick 1, .poll 1, .tick 1, .poll 2, .poll 0]

example : EchoesKey c0 sched0 := by
  intro q hq
  simp only [sched0, List.mem_cons, Action.intake.injEq, reduceCtorEq, List.not_mem_nil,
    or_false] at hq
  rcases hq with rfl | rfl | rfl <;> decide

example : (run c0 init sched0).status = .running ∧ (run c0 init sched0).pending = [] ∧
    (run c0 init sched0).out =
      [⟨.cancel, 0, ⟨0, 1, 5, 7⟩, 0, .rejected⟩, ⟨.open, 0, ⟨0, 1, 5, 7⟩, 3, .timeout⟩,
       ⟨.open, 0, ⟨0, 1, 5, 7⟩, 3, .timeout⟩] := by decide

/-- the hypotheses of `eventually_resolved_partial` and `resolved_when_polled` are satisfiable by a
state with requests in flight -/
example : let s := run c0 init [.intake (q0 (some 3)), .intake q1, .intake (q0 none)]
    s.status = .running ∧ s.pending.length = 3 ∧ ∀ r ∈ s.pending, c0.deadline r ≤ s.now + 2 := by
  decide

/-- Late poll: the same request (answer after 3 ticks, timeout 2) times out when polled promptly
and is delivered as the client's response when first polled after the answer arrived. Only
"exactly one of the two" is schedule independent. -/
example : (run c0 init [.intake (q0 (some 3)), .tick 2, .poll 0]).out.map (·.outcome) = [.timeout] ∧
    (run c0 init [.intake (q0 (some 3)), .tick 3, .poll 0]).out.map (·.outcome) = [.ok] := by decide

/-- `EchoesKey` is needed: a client that answers about an instrument the manager does not know has
its answer skipped — the request leaves flight with no event at all ("neither"). -/
example : let q : ReqSpec := ⟨.open, ⟨0, 1, 5, 7⟩, 3, ⟨some 1, .ok, false, ⟨0, 9, 5, 7⟩, 3⟩⟩
    let s := run c0 init [.intake q, .tick 1, .poll 0]
    s.status = .running ∧ s.pending = [] ∧ s.accepted.length = 1 ∧ s.out = [] := by decide

/-- … and one that echoes another configured instrument gets the event attributed to that one. -/
example : let q : ReqSpec := ⟨.open, ⟨0, 1, 5, 7⟩, 3, ⟨some 1, .ok, false, ⟨0, 0, 5, 7⟩, 3⟩⟩
    (run c0 init [.intake q, .tick 1, .poll 0]).out.map (·.key.instrument) = [0] := by decide

/-! ## Added after the independent review (`audit/REVIEW-notes.md`, C07)

### C07-1 — liveness for EVERY fair schedule (was: one schedule only)

"An order the engine shows as in flight is always eventually resolved." The model has no scheduler,
so the statement is conditional on the schedule — but it now quantifies over **all** schedules that
meet the condition, not over the single schedule `tick dt ++ settleSched`. The condition is the
weakest one that makes sense for a `Timeout` future: the request is polled **at least once at or
after its deadline** (this is what tokio's timer wake-up provides) and the manager is still running
at the end (no shutdown, no panic on an unconfigured request). Everything else in the schedule is
arbitrary: other intakes, polls of other or non-existent requests, early polls, time steps, in any
order and number. -/

/-- (4c) `fair_liveness` — from ANY state satisfying the invariant (in particular any reachable
one): a request that is in flight and whose deadline has passed is resolved, and no longer in
flight, after EVERY continuation `bs` that contains a poll of it and leaves the manager running.
No hypothesis on the client (it may never answer), none on the rest of `bs`. -/
theorem fair_liveness (c : Cfg) (s : State) (r : Req) (bs : List Action) (hi : Inv c s)
    (hr : r ∈ s.pending) (hd : c.deadline r ≤ s.now) (hp : Action.poll r.rid ∈ bs)
    (hrun : (run c s bs).status = .running) :
    (∃ x ∈ (run c s bs).resolved, x.req = r) ∧ r ∉ (run c s bs).pending :=
  have h := overdue_poll_resolves c bs s r hi hr hd hp hrun
  ⟨h, resolved_not_pending (inv_run c bs s hi) h⟩

/-- The fairness condition for one request: somewhere in the schedule `as` the request has been
accepted, the clock has reached its deadline, and a poll of it follows (anywhere later). -/
def PolledAfterDeadline (c : Cfg) (as : List Action) (r : Req) : Prop :=
  ∃ as1 bs, as = as1 ++ bs ∧ r ∈ (run c init as1).accepted ∧
    c.deadline r ≤ (run c init as1).now ∧ Action.poll r.rid ∈ bs

/-- A schedule is fair when every request it makes the manager accept is polled at least once
after its deadline. -/
def FairSchedule (c : Cfg) (as : List Action) : Prop :=
  ∀ r ∈ (run c init as).accepted, PolledAfterDeadline c as r

/-- (4d) `eventually_resolved_request` — per request, no hypothesis about the others and none
about the client: in every schedule from the initial state that keeps the manager running, a
request that is polled at least once after its deadline has been accepted, is resolved, and is not
in flight at the end. (It may have been resolved long before that poll — by its response — or by
that poll, or by any poll in between.) -/
theorem eventually_resolved_request (c : Cfg) (as : List Action) (r : Req)
    (hrun : (run c init as).status = .running) (hp : PolledAfterDeadline c as r) :
    r ∈ (run c init as).accepted ∧ (∃ x ∈ (run c init as).resolved, x.req = r) ∧
      r ∉ (run c init as).pending := by
  obtain ⟨as1, bs, rfl, hacc, hd, hpoll⟩ := hp
  rw [run_append] at hrun ⊢
  have hi1 := inv_reach c as1
  have hrun1 := run_running_back c bs _ hrun
  have hres : Resolved (run c (run c init as1) bs) r := by
    rcases accepted_resolved_or_pending hi1 hrun1 hacc with h | h
    · exact resolved_mono_run c bs _ r h
    · exact overdue_poll_resolves c bs _ r hi1 h hd hpoll hrun
  exact ⟨accepted_mono_run c bs _ r hacc, hres, resolved_not_pending (inv_run c bs _ hi1) hres⟩

/-- (4e) `eventually_nothing_in_flight` — every fair schedule that keeps the manager running ends
with nothing in flight and every accepted request resolved (the resolutions are a permutation of
the accepted requests). No hypothesis on the clients (`EchoesKey` not needed). -/
theorem eventually_nothing_in_flight (c : Cfg) (as : List Action)
    (hrun : (run c init as).status = .running) (hfair : FairSchedule c as) :
    let s := run c init as
    s.pending = [] ∧ (∀ r ∈ s.accepted, ∃ x ∈ s.resolved, x.req = r) ∧
      (s.resolved.map (·.req)).Perm s.accepted := by
  intro s
  have hempty : s.pending = [] := by
    apply List.eq_nil_iff_forall_not_mem.mpr
    intro r hr
    have hacc := pending_accepted (inv_reach c as) r hr
    exact (eventually_resolved_request c as r hrun (hfair r hacc)).2.2 hr
  refine ⟨hempty, fun r hr => (eventually_resolved_request c as r hrun (hfair r hr)).2.1, ?_⟩
  have hp := (inv_reach c as).part
  rw [(inv_reach c as).running hrun] at hp
  show ((run c init as).resolved.map (·.req)).Perm _
  have : (run c init as).pending = [] := hempty
  simpa [this] using hp

/-- (4f) `eventually_resolved` — the property-level liveness statement: **every** schedule that
keeps the manager running and polls each accepted request at least once after its deadline
resolves every accepted request: nothing is in flight, each accepted request has its resolution
and the prescribed event for it is on the channel, and the channel carries exactly one event per
accepted request (as many events as requests, the same identities with multiplicity).
Hypotheses: `EchoesKey` (faithful clients; needed only for the event clauses, see
`eventually_nothing_in_flight`), the manager is running at the end, `FairSchedule`.
Not modelled, hence the remaining partiality of C07: that `tokio::select!`, `FuturesUnordered` and
the timer wheel produce a fair schedule. -/
theorem eventually_resolved (c : Cfg) (as : List Action) (he : EchoesKey c as)
    (hrun : (run c init as).status = .running) (hfair : FairSchedule c as) :
    let s := run c init as
    s.pending = [] ∧ (∀ r ∈ s.accepted, ∃ x ∈ s.resolved, x.req = r ∧ x.event ∈ s.out) ∧
      s.out = s.resolved.map Resolution.event ∧ s.out.length = s.accepted.length ∧
      (s.out.map Event.ident).Perm (s.accepted.map Req.ident) := by
  intro s
  have h0 := eventually_nothing_in_flight c as hrun hfair
  have hq := quiescent_exactly_one c as he hrun h0.1
  refine ⟨h0.1, ?_, hq.2.1, hq.2.2.1, hq.2.2.2⟩
  intro r hr
  obtain ⟨x, hx, hxr⟩ := h0.2.1 r hr
  refine ⟨x, hx, hxr, ?_⟩
  show x.event ∈ (run c init as).out
  rw [hq.2.1]
  exact List.mem_map.mpr ⟨x, hx, rfl⟩

/-- The schedule of `eventually_resolved_partial` is an instance: under that theorem's hypothesis
every request in flight after `as` is `PolledAfterDeadline` in `as ++ [tick dt] ++ settleSched`. -/
theorem settle_schedule_is_fair (c : Cfg) (as : List Action) (dt : Nat)
    (hd : ∀ r ∈ (run c init as).pending, c.deadline r ≤ (run c init as).now + dt) :
    ∀ r ∈ (run c init as).pending,
      PolledAfterDeadline c (as ++ [.tick dt] ++ settleSched c (run c init (as ++ [.tick dt]))) r := by
  intro r hr
  have hs1 : run c init (as ++ [.tick dt]) = step c (run c init as) (.tick dt) := by
    simp [run, List.foldl_append]
  refine ⟨as ++ [.tick dt], _, rfl, ?_, ?_, ?_⟩
  · rw [hs1]; exact pending_accepted (inv_reach c as) r hr
  · rw [hs1]; exact hd r hr
  · rw [hs1]
    simp only [settleSched, List.mem_map, List.mem_filter, decide_eq_true_eq]
    exact ⟨r, ⟨hr, Nat.le_trans (deadline_ready c r) (hd r hr)⟩, rfl⟩

/-! ### C07-3 / C07-4 — attribution for every reply payload of the model

`attribution` assumes `EchoesKey`, whose third conjunct restricts the client's *payload* (an
`InstrumentInvalid` error must name a configured instrument). The attribution clause itself does
not depend on the payload: the two theorems below state it for an **arbitrary** `Reply` and an
arbitrary echoed body — the payload only decides whether an event is emitted at all
(`unanswered_iff`).

**Limits of the model type `Reply`** (`Model/ExecManager.lean`, not edited): it has three
constructors (`ok`, `rejected`, `invalidIns i`). It cannot express (a) a client that *answers* with
`Err(UnindexedOrderError::Connectivity(_))` (indexer.rs:253-258 passes it through unchanged): in
the code such a response yields an event that is indistinguishable from the manager's own timeout
event, so the last conjunct below (`fate = timeout ↔ outcome = timeout`) holds in the model by
construction and is NOT a statement about such clients; (b) the asset-carrying errors
`ApiError::AssetInvalid / BalanceInsufficient(asset, _)`, which go through `find_asset_index`
(indexer.rs:203-220) and are filtered exactly like `invalidIns` with an unknown name — the model
has no asset table; `invalidIns i` with `i ≥ nInstr` is the representative of every "name the
indexer does not know" case; (c) `RateLimit`, `OrderAlreadyCancelled`, `OrderAlreadyFullyFilled`,
which carry no name and behave like `rejected`. Extending `Reply` needs a model (and driver /
harness) change and is left as recorded. -/

/-- The client echoes the request's own key; nothing is assumed about the payload (reply, error
names, echoed static fields). -/
def EchoesKeyOnly (as : List Action) : Prop :=
  ∀ q, Action.intake q ∈ as → q.script.echo = q.key

/-- (3a) `attribution_unconditional` — no hypothesis at all, any reply payload: every event on the
channel comes from exactly the resolution of an accepted request, has that request's kind, carries
the key the client echoed (if it is the client's response) or the request's own key (if it is the
timeout), names the manager's own exchange and a configured instrument, and says `timeout` exactly
when the request's future timed out. -/
theorem attribution_unconditional (c : Cfg) (as : List Action) :
    ∀ e ∈ (run c init as).out, ∃ x ∈ (run c init as).resolved,
      x.req ∈ (run c init as).accepted ∧ eventOf c x.req x.fate = some e ∧
      e.kind = x.req.spec.kind ∧
      (x.fate = .response → e.key = x.req.spec.script.echo) ∧
      (x.fate = .timeout → e.key = x.req.spec.key) ∧
      e.exchange = c.exchange ∧ e.key.instrument < c.nInstr ∧
      (x.fate = .timeout ↔ e.outcome = .timeout) := by
  intro e hm
  have h := inv_reach c as
  rw [h.out] at hm
  obtain ⟨x, hx, hev⟩ := List.mem_filterMap.mp hm
  have hacc := resolved_accepted h x hx
  have ⟨h1, h2, h2', h3, h4, h5⟩ := eventOf_some c x.req x.fate e hev
  have hconf : c.configured e.key = true := by
    cases hf : x.fate with
    | response => exact h4 hf
    | timeout => rw [h2' hf]; exact (h.conf x.req hacc).1
  simp only [Cfg.configured, Bool.and_eq_true, beq_iff_eq, decide_eq_true_eq] at hconf
  exact ⟨x, hx, hacc, hev, h1, h2, h2', by rw [h3]; exact hconf.1, hconf.2, h5⟩

/-- (3b) `attribution_any_reply` — `attribution` for an arbitrary reply payload: if the clients
echo the request's key (`EchoesKeyOnly`; nothing about reply, error names or static fields), every
event on the channel belongs to an accepted request: same kind, same exchange / instrument /
strategy / client order id, the manager's own exchange, a configured instrument; `timeout` exactly
for timed-out futures. -/
theorem attribution_any_reply (c : Cfg) (as : List Action) (hk : EchoesKeyOnly as) :
    ∀ e ∈ (run c init as).out, ∃ x ∈ (run c init as).resolved,
      x.req ∈ (run c init as).accepted ∧ eventOf c x.req x.fate = some e ∧
      e.kind = x.req.spec.kind ∧ e.key = x.req.spec.key ∧ e.exchange = c.exchange ∧
      e.key.instrument < c.nInstr ∧ (x.fate = .timeout ↔ e.outcome = .timeout) := by
  intro e hm
  obtain ⟨x, hx, hacc, hev, h1, h2, h2', h3, h4, h5⟩ := attribution_unconditional c as e hm
  refine ⟨x, hx, hacc, hev, h1, ?_, h3, h4, h5⟩
  rcases accepted_run c as init x.req hacc with h | h
  · simp [init] at h
  · cases hf : x.fate
    · rw [h2 hf]; exact hk _ h
    · exact h2' hf

/-- (3c) `unanswered_iff` — exactly when "neither" happens (a request leaves flight with no event,
the `continue` of manager.rs:282-289 / 308-315), for any payload and without hypotheses: the future
completed with the client's response and the indexer does not know the echoed key or the instrument
named in the error. A timed-out future always yields its event. -/
theorem unanswered_iff (c : Cfg) (as : List Action) :
    ∀ x ∈ (run c init as).resolved,
      (eventOf c x.req x.fate = none ↔ x.fate = .response ∧
        (c.configured x.req.spec.script.echo = false ∨
          ∃ i, x.req.spec.script.reply = .invalidIns i ∧ c.nInstr ≤ i)) :=
  fun x _ => eventOf_none_iff c x.req x.fate

/-! ### Non-vacuity of the fairness hypothesis, and its necessity -/

/-- a fair schedule that is not of the `tick ++ settle` shape: requests accepted at different
times, early polls, polls of ids that do not exist, a request resolved by its response before the
deadline and polled again later, intakes between polls -/
def sched1 : List Action :=
  [.intake (q0 (some 3)), .intake q1, .tick 1, .poll 1, .intake (q0 none), .tick 2,
   .poll 2, .intake q1, .poll 0, .poll 1, .poll 9, .tick 2, .poll 3]

example : FairSchedule c0 sched1 ∧ (run c0 init sched1).status = .running ∧
    (run c0 init sched1).accepted.length = 4 := by
  refine ⟨?_, by decide, by decide⟩
  intro r hr
  have hacc : (run c0 init sched1).accepted =
      [⟨0, 0, q0 (some 3)⟩, ⟨1, 0, q1⟩, ⟨2, 1, q0 none⟩, ⟨3, 3, q1⟩] := by decide
  rw [hacc] at hr
  simp only [List.mem_cons, List.not_mem_nil, or_false] at hr
  rcases hr with rfl | rfl | rfl | rfl
  · exact ⟨sched1.take 6, sched1.drop 6, by decide, by decide, by decide, by decide⟩
  · exact ⟨sched1.take 6, sched1.drop 6, by decide, by decide, by decide, by decide⟩
  · exact ⟨sched1.take 6, sched1.drop 6, by decide, by decide, by decide, by decide⟩
  · exact ⟨sched1.take 12, sched1.drop 12, by decide, by decide, by decide, by decide⟩

example : EchoesKey c0 sched1 := by
  intro q hq
  simp only [sched1, List.mem_cons, Action.intake.injEq, reduceCtorEq, List.not_mem_nil,
    or_false, false_or] at hq
  rcases hq with rfl | rfl | rfl | rfl <;> decide

/-- the poll after the deadline is needed: a request whose client never answers, polled only before
its deadline (and a poll of another id afterwards), stays in flight for ever -/
example : let s := run c0 init [.intake (q0 none), .tick 1, .poll 0, .tick 5, .poll 4]
    s.status = .running ∧ s.pending.length = 1 ∧ s.resolved = [] := by decide

/-- "keeps the manager running" is needed: a shutdown drops what is in flight; later polls do
nothing -/
example : let s := run c0 init [.intake (q0 none), .tick 2, .shutdown, .poll 0]
    s.status = .stopped ∧ s.pending = [] ∧ s.resolved = [] ∧ s.dropped.length = 1 := by decide

/-- `attribution_any_reply` covers payloads outside `EchoesKey`: a client that echoes the key but
names an instrument the manager does not know is `EchoesKeyOnly`, not `EchoesKey`; its answer is
skipped (`unanswered_iff`), so no event is mis-attributed. -/
example : let q : ReqSpec := ⟨.open, ⟨0, 1, 5, 7⟩, 3, ⟨some 1, .invalidIns 9, false, ⟨0, 1, 5, 7⟩, 8⟩⟩
    EchoesKeyOnly [.intake q, .tick 1, .poll 0] ∧ echoes c0 q = false ∧
      (run c0 init [.intake q, .tick 1, .poll 0]).out = [] := by
  refine ⟨?_, by decide, by decide⟩
  intro q' hq
  simp only [List.mem_cons, Action.intake.injEq, reduceCtorEq, List.not_mem_nil, or_false] at hq
  subst hq; rfl

end BarterModel.Props.C07
