import BarterModel.Lemmas.ExecManager
/-!
# C07 — Every execution request is answered exactly once (response or timeout)   [PARTIAL]

Statements about the labelled transition system `ExecManager.step` (the executable model the driver
runs; `Model/ExecManager.lean`). A *schedule* `as : List Action` is any finite sequence of
`intake q` / `tick dt` / `poll rid` / `shutdown`; `s = run c init as` is the state it reaches. All
theorems hold for **every** schedule: any number of requests outstanding, any interleaving of
intakes, time steps and polls, any order in which the in-flight futures are polled, early, prompt
or late polls, polls of requests that are not ready or do not exist.

Hypothesis `EchoesKey c as` (only where stated): every request handed to the manager is answered
by the client *about that order* (same key and static fields; error names the manager knows).
Without it the code skips the answer (`continue`, manager.rs:282-289 / 308-315) or attributes it to
whatever key the client wrote — see the `example`s at the end.

What is **not** modelled, hence not proved (the reason for PARTIAL): `FuturesUnordered`,
`tokio::select!` fairness (that a ready arm is eventually taken), timer-wheel granularity and
wake-ups. Liveness is therefore only `eventually_resolved_partial`: *if* the ready futures are
polled after their deadlines, nothing stays in flight.
-/
namespace BarterModel.Props.C07
open BarterModel.ExecManager

/-- Every request handed to the manager along the schedule has a faithful client. -/
def EchoesKey (c : Cfg) (as : List Action) : Prop :=
  ∀ q, Action.intake q ∈ as → echoes c q = true

theorem echoes_accepted {c : Cfg} {as : List Action} (he : EchoesKey c as) :
    ∀ r ∈ (run c init as).accepted, c.configured r.spec.key = true ∧ echoes c r.spec = true := by
  intro r hr
  refine ⟨((inv_reach c as).conf r hr).1, ?_⟩
  rcases accepted_run c as init r hr with h | h
  · simp [init] at h
  · exact he _ h

/-- (1a) `partition` — never both, never neither, bookkeeping form. In every reachable state each
accepted request is in exactly one of: resolved (its future completed), still in flight, dropped
at shutdown/panic; accepted requests have pairwise distinct ids; while the manager is running
nothing has been dropped. No hypotheses. -/
theorem partition (c : Cfg) (as : List Action) :
    let s := run c init as
    (s.resolved.map (·.req) ++ s.pending ++ s.dropped).Perm s.accepted ∧
      (s.accepted.map (·.rid)).Nodup ∧ (s.status = .running → s.dropped = []) :=
  let h := inv_reach c as
  ⟨h.part, accepted_nodup h, h.running⟩

/-- (1b) `one_event_per_resolution` — the response channel carries, in order, exactly one event
per completed request future: the prescribed event for its fate. -/
theorem one_event_per_resolution (c : Cfg) (as : List Action) (he : EchoesKey c as) :
    let s := run c init as
    s.out = s.resolved.map Resolution.event := by
  intro s
  have h := inv_reach c as
  rw [h.out]
  apply filterMap_eq_map
  intro x hx
  have ⟨hc, hq⟩ := echoes_accepted he x.req (resolved_accepted h x hx)
  exact eventOf_echo c x.req x.fate hc hq

/-- (1c) `exactly_once` — DESIGN §7 C07(1): the (kind, exchange, instrument, strategy, cid) tuples
of the events sent, together with those of the requests still in flight (and of those dropped at
shutdown), are exactly those of the accepted requests, with multiplicity. -/
theorem exactly_once (c : Cfg) (as : List Action) (he : EchoesKey c as) :
    let s := run c init as
    (s.out.map Event.ident ++ s.pending.map Req.ident ++ s.dropped.map Req.ident).Perm
      (s.accepted.map Req.ident) := by
  intro s
  have h := inv_reach c as
  have h1 := h.part.map Req.ident
  have h2 : s.out.map Event.ident = (s.resolved.map (·.req)).map Req.ident := by
    rw [one_event_per_resolution c as he]
    simp only [List.map_map]
    apply List.map_congr_left
    intro x _
    simp [Resolution.event, specEvent_ident, Req.ident]
  rw [h2]
  simpa [List.map_append] using h1

/-- (1d) while the manager is running: events ⊎ in flight = accepted. -/
theorem exactly_once_running (c : Cfg) (as : List Action) (he : EchoesKey c as)
    (hrun : (run c init as).status = .running) :
    let s := run c init as
    (s.out.map Event.ident ++ s.pending.map Req.ident).Perm (s.accepted.map Req.ident) := by
  intro s
  have := exactly_once c as he
  have hd := (inv_reach c as).running hrun
  simp only [hd, List.map_nil, List.append_nil] at this
  exact this

/-- (1e) `quiescent` — when nothing is in flight any more (and the manager is still running) the
resolutions are a permutation of the accepted requests and the channel carries exactly one event
for each of them: as many events as accepted requests, the same identities with multiplicity. -/
theorem quiescent_exactly_one (c : Cfg) (as : List Action) (he : EchoesKey c as)
    (hrun : (run c init as).status = .running) (hq : (run c init as).pending = []) :
    let s := run c init as
    (s.resolved.map (·.req)).Perm s.accepted ∧ s.out = s.resolved.map Resolution.event ∧
      s.out.length = s.accepted.length ∧ (s.out.map Event.ident).Perm (s.accepted.map Req.ident) := by
  intro s
  have h := inv_reach c as
  have hp := h.part
  rw [h.running hrun, hq] at hp
  simp only [List.append_nil] at hp
  have ho := one_event_per_resolution c as he
  have he1 := exactly_once_running c as he hrun
  simp only [hq, List.map_nil, List.append_nil] at he1
  refine ⟨hp, ho, ?_, by simpa using he1⟩
  have := hp.length_eq
  simp only [List.length_map] at this
  rw [ho, List.length_map]; exact this

/-- (1f) `no_duplicates` — if the engine never reuses a (kind, key) for two requests, no two
events carry the same (kind, key): never both a response and a timeout for one request. -/
theorem no_duplicates (c : Cfg) (as : List Action) (he : EchoesKey c as)
    (hn : ((run c init as).accepted.map Req.ident).Nodup) :
    ((run c init as).out.map Event.ident).Nodup := by
  have h := (exactly_once c as he).nodup_iff.mpr hn
  rw [List.append_assoc] at h
  exact (List.nodup_append.mp h).1

/-- (2) `fate` — every completed future's fate is what one `Timeout` poll yields at the time it was
polled: it is the client's response exactly when the response had arrived by then (the inner future
is polled first), a timeout only when the deadline had passed, never before the first instant it
could complete. No hypotheses. -/
theorem fate (c : Cfg) (as : List Action) :
    ∀ x ∈ (run c init as).resolved,
      (x.fate = .response ↔ ∃ d, x.req.spec.script.delay = some d ∧ x.req.t0 + d ≤ x.time) ∧
      (x.fate = .timeout → x.req.t0 + c.timeout ≤ x.time) ∧
      c.readyAt x.req ≤ x.time ∧ x.time ≤ (run c init as).now := by
  intro x hx
  have ⟨h1, h2⟩ := (inv_reach c as).fate x hx
  have := pollReq_response_iff c x.req x.time x.fate h1
  exact ⟨this.1, this.2.1, this.2.2, h2⟩

/-- (2a) a response that arrives within the request timeout is delivered as the response, whatever
the schedule. -/
theorem fate_within_timeout (c : Cfg) (as : List Action) :
    ∀ x ∈ (run c init as).resolved, ∀ d, x.req.spec.script.delay = some d → d ≤ c.timeout →
      x.fate = .response := by
  intro x hx d hd hle
  have ⟨h1, _⟩ := (inv_reach c as).fate x hx
  rcases pollReq_spec_or_late c x.req x.time x.fate h1 with h | h
  · rw [h]; simp [specFate, hd, hle]
  · exact h.1

/-- (2b) a client that never answers yields the timeout failure, whatever the schedule. -/
theorem fate_never (c : Cfg) (as : List Action) :
    ∀ x ∈ (run c init as).resolved, x.req.spec.script.delay = none → x.fate = .timeout := by
  intro x hx hd
  have ⟨h1, _⟩ := (inv_reach c as).fate x hx
  rcases pollReq_spec_or_late c x.req x.time x.fate h1 with h | h
  · rw [h]; simp [specFate, hd]
  · obtain ⟨_, d, hd', _⟩ := h; rw [hd] at hd'; cases hd'

/-- (2c) the fate is the one the property text prescribes (`specFate`: response iff it arrives
within the timeout) unless the future was polled late: after the deadline *and* after a response
that arrived after the deadline. Then the response wins. This is the only schedule dependence. -/
theorem fate_spec_or_late (c : Cfg) (as : List Action) :
    ∀ x ∈ (run c init as).resolved,
      x.fate = specFate c.timeout x.req.spec ∨
      (x.fate = .response ∧ ∃ d, x.req.spec.script.delay = some d ∧ c.timeout < d ∧
        x.req.t0 + d ≤ x.time) := by
  intro x hx
  exact pollReq_spec_or_late c x.req x.time x.fate ((inv_reach c as).fate x hx).1

/-- (2d) polled before a late response arrives, a request times out (prompt polls realise the
property text exactly). -/
theorem fate_prompt (c : Cfg) (as : List Action) :
    ∀ x ∈ (run c init as).resolved,
      (∀ d, x.req.spec.script.delay = some d → c.timeout < d → x.time < x.req.t0 + d) →
      x.fate = specFate c.timeout x.req.spec := by
  intro x hx hp
  rcases fate_spec_or_late c as x hx with h | ⟨_, d, hd, hlt, hle⟩
  · exact h
  · have := hp d hd hlt; omega

/-- (3) `attribution` — every event on the channel belongs to an accepted request: same kind, same
exchange / instrument / strategy / client order id as the request, the manager's own exchange, a
configured instrument; a timeout event carries the request's own static fields and the timeout
error, a response event the client's verdict. -/
theorem attribution (c : Cfg) (as : List Action) (he : EchoesKey c as) :
    ∀ e ∈ (run c init as).out, ∃ x ∈ (run c init as).resolved,
      x.req ∈ (run c init as).accepted ∧ e = x.event ∧
      e.kind = x.req.spec.kind ∧ e.key = x.req.spec.key ∧ e.exchange = c.exchange ∧
      e.key.instrument < c.nInstr ∧ (x.fate = .timeout ↔ e.outcome = .timeout) := by
  intro e hm
  rw [one_event_per_resolution c as he] at hm
  obtain ⟨x, hx, rfl⟩ := List.mem_map.mp hm
  have h := inv_reach c as
  have hacc := resolved_accepted h x hx
  have hconf := (h.conf x.req hacc).1
  simp only [Cfg.configured, Bool.and_eq_true, beq_iff_eq, decide_eq_true_eq] at hconf
  refine ⟨x, hx, hacc, rfl, ?_, ?_, ?_, ?_, ?_⟩
  · cases hf : x.fate <;> simp [Resolution.event, specEvent, specResponseEvent, specTimeoutEvent, hf]
  · cases hf : x.fate <;> simp [Resolution.event, specEvent, specResponseEvent, specTimeoutEvent, hf]
  · cases hf : x.fate <;>
      simp [Resolution.event, specEvent, specResponseEvent, specTimeoutEvent, hf, hconf.1]
  · cases hf : x.fate <;>
      simp [Resolution.event, specEvent, specResponseEvent, specTimeoutEvent, hf, hconf.2]
  · cases hf : x.fate
    · simp only [Resolution.event, specEvent, specResponseEvent, hf, reduceCtorEq, false_iff]
      cases x.req.spec.script.reply <;> simp
      split <;> simp
    · simp [Resolution.event, specEvent, specTimeoutEvent, hf]

/-- Refinement to the abstract spec the `spec` driver runs: the channel is the list of prescribed
events of the resolutions, and each resolution's fate is the prescribed one unless polled late. -/
theorem refines_spec (c : Cfg) (as : List Action) (he : EchoesKey c as) :
    let s := run c init as
    s.out = s.resolved.map (fun x => specEvent x.req.spec x.fate) ∧
      ∀ x ∈ s.resolved, x.fate = specFate c.timeout x.req.spec ∨
        (x.fate = .response ∧ ∃ d, x.req.spec.script.delay = some d ∧ c.timeout < d ∧
          x.req.t0 + d ≤ x.time) :=
  ⟨one_event_per_resolution c as he, fate_spec_or_late c as⟩

/-- (4a) progress: in a reachable running state a request whose deadline has passed can always be
completed — the poll removes exactly it from flight and sends exactly one event, whatever the
client does (even if it never answers). -/
theorem resolved_when_polled (c : Cfg) (as : List Action) (he : EchoesKey c as) (r : Req)
    (hrun : (run c init as).status = .running) (hr : r ∈ (run c init as).pending)
    (hd : c.deadline r ≤ (run c init as).now) :
    let s := run c init as
    let s' := step c s (.poll r.rid)
    ∃ f, s'.pending = s.pending.erase r ∧ r ∉ s'.pending ∧
      s'.resolved = s.resolved ++ [⟨r, f, s.now⟩] ∧ s'.out = s.out ++ [specEvent r.spec f] := by
  intro s s'
  have h := inv_reach c as
  obtain ⟨f, _, hstep⟩ := poll_resolves h hrun hr (Nat.le_trans (deadline_ready c r) hd)
  have ⟨hc, hq⟩ := echoes_accepted he r (pending_accepted h r hr)
  refine ⟨f, ?_, ?_, ?_, ?_⟩
  · show (step c s (.poll r.rid)).pending = _; rw [hstep]
  · show r ∉ (step c s (.poll r.rid)).pending; rw [hstep]; exact not_mem_erase_self h r
  · show (step c s (.poll r.rid)).resolved = _; rw [hstep]
  · show (step c s (.poll r.rid)).out = _; rw [hstep]; simp only [eventOf_echo c r f hc hq]; rfl

/-- (4b) `eventually_resolved_partial` — "an order the engine shows as in flight is always
eventually resolved", as far as the model can say it: from any reachable running state, once time
has passed every outstanding deadline and the ready futures have been polled (in any order: here
the driver's `settleSched`), nothing is in flight and the channel carries exactly one event per
accepted request. **Missing for full strength**: that the runtime does poll them (`select!`
fairness, `FuturesUnordered` wake-ups, timer firing) is not modelled. -/
theorem eventually_resolved_partial (c : Cfg) (as : List Action) (he : EchoesKey c as) (dt : Nat)
    (hrun : (run c init as).status = .running)
    (hd : ∀ r ∈ (run c init as).pending, c.deadline r ≤ (run c init as).now + dt) :
    let s1 := run c init (as ++ [.tick dt])
    let s2 := run c init (as ++ [.tick dt] ++ settleSched c s1)
    s2.status = .running ∧ s2.pending = [] ∧ s2.accepted = (run c init as).accepted ∧
      s2.out.length = s2.accepted.length ∧
      (s2.out.map Event.ident).Perm (s2.accepted.map Req.ident) := by
  intro s1 s2
  have hs1 : s1 = step c (run c init as) (.tick dt) := by
    simp [s1, run, List.foldl_append]
  have h1 : Inv c s1 := inv_reach c _
  have hrun1 : s1.status = .running := by rw [hs1]; exact hrun
  have hs2 : s2 = run c s1 (settleSched c s1) := by
    simp [s2, s1, run, List.foldl_append]
  have hall : ∀ r ∈ s1.pending, c.readyAt r ≤ s1.now := by
    intro r hr
    rw [hs1] at hr ⊢
    exact Nat.le_trans (deadline_ready c r) (hd r hr)
  have hp := run_polls c (s1.pending.filter fun r => decide (c.readyAt r ≤ s1.now)) s1 h1 hrun1
    (fun r _ hr => hall r hr)
  have hs2' : s2 = run c s1 ((s1.pending.filter fun r => decide (c.readyAt r ≤ s1.now)).map
      fun r => .poll r.rid) := by rw [hs2]; rfl
  rw [← hs2'] at hp
  have hempty : s2.pending = [] := by
    apply List.eq_nil_iff_forall_not_mem.mpr
    intro r hr
    have := hp.2.2.2 r hr
    exact this.2 (List.mem_filter.mpr ⟨this.1, by simpa using hall r this.1⟩)
  have he2 : EchoesKey c (as ++ [.tick dt] ++ settleSched c s1) := by
    intro q hq
    simp only [List.mem_append, List.mem_singleton, reduceCtorEq, or_false] at hq
    rcases hq with hq | hq
    · exact he q hq
    · simp [settleSched] at hq
  have hq := quiescent_exactly_one c _ he2 hp.1 hempty
  refine ⟨hp.1, hempty, ?_, hq.2.2.1, hq.2.2.2⟩
  rw [hp.2.2.1, hs1]; rfl

/-! ## Non-vacuity and witnesses -/

/-- configuration used below: exchange 0, two instruments, request timeout 2 -/
def c0 : Cfg := ⟨0, 2, 2⟩
/-- a faithful open request on instrument 1 answered `ok` after `d` ticks (`none`: never) -/
def q0 (d : Option Nat) : ReqSpec := ⟨.open, ⟨0, 1, 5, 7⟩, 3, ⟨d, .ok, false, ⟨0, 1, 5, 7⟩, 3⟩⟩
/-- a faithful cancel for the same client order id, rejected after 1 tick -/
def q1 : ReqSpec := ⟨.cancel, ⟨0, 1, 5, 7⟩, 0, ⟨some 1, .rejected, false, ⟨0, 1, 5, 7⟩, 0⟩⟩

/-- a schedule with three requests outstanding at once, answered out of order, one timing out -/
def sched0 : List Action :=
  [.intake (q0 (some 3)), .intake q1, .intake (q0 none), .tick 1, .poll 1, .tick 1, .poll 2, .poll 0]

example : EchoesKey c0 sched0 := by
  intro q hq
  simp only [sched0, List.mem_cons, Action.intake.injEq, reduceCtorEq, List.not_mem_nil,
    or_false] at hq
  rcases hq with rfl | rfl | rfl <;> decide

example : (run c0 init sched0).status = .running ∧ (run c0 init sched0).pending = [] ∧
    (run c0 init sched0).out =
      [⟨.cancel, 0, ⟨0, 1, 5, 7⟩, 0, .rejected⟩, ⟨.open, 0, ⟨0, 1, 5, 7⟩, 3, .timeout⟩,
       ⟨.open, 0, ⟨0, 1, 5, 7⟩, 3, .timeout⟩] := by decide

/-- the hypotheses of `eventually_resolved_partial` and `resolved_when_polled` are satisfiable by a
state with requests in flight -/
example : let s := run c0 init [.intake (q0 (some 3)), .intake q1, .intake (q0 none)]
    s.status = .running ∧ s.pending.length = 3 ∧ ∀ r ∈ s.pending, c0.deadline r ≤ s.now + 2 := by
  decide

/-- Late poll: the same request (answer after 3 ticks, timeout 2) times out when polled promptly
and is delivered as the client's response when first polled after the answer arrived. Only
"exactly one of the two" is schedule independent. -/
example : (run c0 init [.intake (q0 (some 3)), .tick 2, .poll 0]).out.map (·.outcome) = [.timeout] ∧
    (run c0 init [.intake (q0 (some 3)), .tick 3, .poll 0]).out.map (·.outcome) = [.ok] := by decide

/-- `EchoesKey` is needed: a client that answers about an instrument the manager does not know has
its answer skipped — the request leaves flight with no event at all ("neither"). -/
example : let q : ReqSpec := ⟨.open, ⟨0, 1, 5, 7⟩, 3, ⟨some 1, .ok, false, ⟨0, 9, 5, 7⟩, 3⟩⟩
    let s := run c0 init [.intake q, .tick 1, .poll 0]
    s.status = .running ∧ s.pending = [] ∧ s.accepted.length = 1 ∧ s.out = [] := by decide

/-- … and one that echoes another configured instrument gets the event attributed to that one. -/
example : let q : ReqSpec := ⟨.open, ⟨0, 1, 5, 7⟩, 3, ⟨some 1, .ok, false, ⟨0, 0, 5, 7⟩, 3⟩⟩
    (run c0 init [.intake q, .tick 1, .poll 0]).out.map (·.key.instrument) = [0] := by decide

end BarterModel.Props.C07
