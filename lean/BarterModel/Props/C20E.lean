import BarterModel.Lemmas.TradingLoop
import BarterModel.Lemmas.TradingLoopOps
/-!
# C20E — the end-to-end trading loop: engine, execution manager and simulated exchange composed
(sub-check registered under C20)

Model: `Model/TradingLoop.lean`. The running `System` of C20S (`Model/SysHandle.lean`: handle, market
forwarder, account forwarder, engine runner, one FIFO feed; every scheduling decision an explicit
`Act`) with its abstract engine instantiated by `lEngine` (C03 / C19 engine core + C01 order tables +
C02 position managers + C09 balance registers + the harness's strategy) and its abstract execution
side by `lExchange clk` (C08 exchange ledger addressed by engine indices — the engine view of
C04 / C04M — behind an execution manager and a client that answer every request exactly once,
C07 / C08C). Unless said otherwise a theorem holds for EVERY action list `acts` (every schedule of
tokio, every sequence of handle calls, every market input) from `lInit`; nothing is bounded.

Hypotheses, stated where used:
* `StrictClock clk` — the client's clock strictly increases from one request to the next (each
  request is stamped `clk n`; the exchange time of its notifications is `clk n + latency/2`). Needed
  for the BALANCE half of (3) only (`positions_agree_at_quiescence_any_clock` does without): with equal
  stamps and out-of-order delivery the `<=` guard of `AssetState::update_from_balance` would let the
  older of two equal-time balances win.
* `Fresh e nA k` — the engine the builder built starts with empty position managers for `k`
  instruments, empty balance registers for `nA` assets and an empty delivery log
  (`EngineStateBuilder` without seeded balances; `lMkEngine` is such an engine).
* `PosReq r` for the requests sent — open requests carry positive quantities (C02's hypothesis). It is
  DERIVED FROM THE INPUTS in §7: under the input-level guard `PosOps acts` (every open request sent
  through the handle and every market item pushed has a positive price, every quantity asked for is
  positive) every request of every run — the strategy's reactions and the closing orders of
  `close_positions` included — is positive (`posOps_requests_positive`), and no tick of the engine hits
  a vanishing divisor (`posOps_no_panic`). Outside the guard the REAL engine panics where the model
  continues: `tickPanics`, `price_zero_exit_panics_witness`, `zero_quantity_position_panics_witness`.
* fresh client order ids (C10's hypothesis) appear as "no open request for the same key is sent"
  in (2); the exchange configuration needs no well-formedness for (1)–(5) (an ill-formed one makes
  the exchange panic = reject here), `c.wf` is only used to discharge C08 / C08C hypotheses in §6.
* names injective (C04): the exchange is addressed by engine indices; that the name-level exchange
  behind the `ExecutionInstrumentMap` IS this index-level exchange is `Props.C04M.engine_view_refinement`
  (§6 instantiates the configuration with `MockInstruments.specCfg`).

What a user relies on, and where it is proved:
1. responses are answers to requests (system level, over `lreach`) — `responses_processed_at_most_once`,
   `responses_never_exceed_requests`, `every_request_answered_once_at_quiescence`,
   `responses_are_requests_at_quiescence`: what the ENGINE has processed is, at every moment, part of
   what the execution side produced, never twice, and all of it at quiescence. That the execution
   side produces exactly one response per request holds BY CONSTRUCTION of the one-step `respond`
   (bookkeeping: `one_response_per_request`, `response_is_exchange_answer`, `engine_log_is_requests`,
   `exchange_is_C08_run`, `requests_are_what_ticks_report_sent`); what justifies that one step are C07
   and C08C, re-exported here over THEIR OWN transition systems, which are not tied to `lreach` by a
   simulation: `mock_client_echoes` (C07's `EchoesKey` discharged), `response_is_managers_event`,
   `manager_answers_exactly_once`, `client_protocol_hypothesis`, `client_returns_exchange_verdict`;
2. the order life cycle closes — `exchange_response_is_final`, `produced_orders_are_final`,
   `processed_orders_never_reopen`, `response_closes_order`, `response_step_is_lifecycle` (C01),
   `closed_until_next_request`, `order_gone_after_response`, `tracked_order_has_response_outstanding`,
   `no_order_tracked_at_quiescence`;
3. accounting agreement at quiescence, WHILE THE ENGINE RUNS (`Quiescent` includes `stopped = none`:
   nothing here applies to the engine `shutdown()` / `abort()` hand back, for which (5) and F11 are
   the statements) — `exchange_invariant`, `produced_fills_are_trade_log`, `exchange_fills_positive`,
   `positions_agree_at_quiescence` (+ `…_any_clock`), `balances_agree_at_quiescence`,
   `accounting_agreement_at_quiescence`, `engine_view_refines_exchange_spec`; through the index / name
   translation, for OPEN requests (same balance snapshot and fill — both absent for a rejected order —
   and the same verdict when ACCEPTED; cancels and the rejection outcome are C04M's, not restated):
   `name_level_exchange_shows_this_exchange` (C04 / C04M);
4. rejected orders change nothing — `rejected_changes_no_ledger`;
5. before quiescence the engine shows the accounting of what it has HEARD — `engine_view_is_heard`,
   `heard_balance_is_latest_heard`, `heard_is_part_of_exchange_log`, and the C20 finding F11 kept as a
   witness: `shutdown_overtakes_fill_witness`;
7. the input-level guard — `posOps_requests_positive`, `posOps_no_panic`,
   `accounting_agreement_at_quiescence_of_posOps`, and the witnesses of what it excludes;
8. the OPS-LEVEL specification (`TradingLoop.OpsSpec`, review B C20E-1: the `spec` driver's oracle,
   a function of the op script and of the C08 / C02 / C01 specifications, not of the model's run) is
   refined by the model: `requests_refine_ops_spec` (every schedule, every moment: the requests the
   engine has sent are those the specification derives from the script) and `model_refines_ops_spec`
   (at quiescence: exchange ledger and trade log, engine positions and balances, processed responses,
   order tables are what the specifications compute from the script alone).
Definitional / bookkeeping (kept, not results): `order_response_changes_no_accounting` (four `rfl`),
`command_reads_accounted_position` (reconciles a duplicate field of the model), `lMkEngine_*`,
`lreach_eq_run`, `stopped_engine_hears_nothing_more` (C20S `nothing_after_stop` restated).
-/
namespace BarterModel.Props.C20E
open BarterModel.SysHandle BarterModel.TradingLoop
open BarterModel.Engine (Req OpenReq CancelReq Command Key)

/-- `acts` from `SystemBuild::init`, composed concrete engine and execution side. -/
abbrev lreach (clk : Nat → Int) (b : SystemBuild LEng) (c : MockExchange.Cfg)
    (acts : List (Act MktEv Command)) : LSys :=
  Props.C20S.reach lEngine (lExchange clk) b (exchInit clk c).1 (exchInit clk c).2 acts

/-- … which is the state the driver runs (`lInit`). -/
theorem lreach_eq_run (clk : Nat → Int) (b : SystemBuild LEng) (c : MockExchange.Cfg)
    (acts : List (Act MktEv Command)) :
    lreach clk b c acts = run lEngine (lExchange clk) (lInit clk b c) acts := rfl

/-- The engine as `EngineStateBuilder` builds it: `k` empty position managers, `nA` empty balance
registers, nothing delivered yet. -/
structure Fresh (e : LEng) (nA k : Nat) : Prop where
  pos : e.pos = Position.Instruments.init k
  bal : e.bal = Stale.Eng.init nA k
  log : e.core.log = []

theorem lMkEngine_fresh (k : Nat) (trading : Bool) : Fresh (lMkEngine k trading) (k + 1) k :=
  ⟨rfl, rfl, rfl⟩

/-- … and it tracks no order. -/
theorem lMkEngine_no_orders (k : Nat) (trading : Bool) (i cid : Nat) :
    Engine.orderState (lMkEngine k trading).core i cid = none := by
  unfold Engine.orderState
  cases h : (lMkEngine k trading).core.instruments[i]? with
  | none => rfl
  | some st =>
    have hm : st ∈ (lMkEngine k trading).core.instruments := List.mem_of_getElem? h
    simp only [lMkEngine, List.mem_map] at hm
    obtain ⟨j, _, rfl⟩ := hm
    rfl

/-! ## 1. Request conservation -/

/-- (engine → link, one tick) The requests a tick hands to the execution link are exactly the
requests its audit reports as `sent` (command output first, then the strategy's; C03
`process_delivers_exactly_sent`), and the delivery log grows by exactly them. -/
theorem requests_are_what_ticks_report_sent (s : LEng) (ev : LEv) :
    (lProcess s ev).2 = Props.C03.Audit.sentReqs (lStep s ev).2 ∧
    (lProcess s ev).1.core.log = s.core.log ++ (lProcess s ev).2 :=
  ⟨lProcess_requests s ev, lProcess_log s ev⟩

/-- (engine → exchange, every schedule) What the execution side has received is, at every moment,
exactly the engine's delivery log — every request the engine reported `sent`, once, in send order —
and the exchange's state is the result of answering exactly those requests in that order. -/
theorem engine_log_is_requests (clk : Nat → Int) (b : SystemBuild LEng) (c : MockExchange.Cfg)
    (acts : List (Act MktEv Command)) (hlog : b.engine.core.log = []) :
    let s := lreach clk b c acts
    s.eng.state.core.log = s.requests ∧
    s.exch = (respondAll (lExchange clk) (exchInit clk c).1 s.requests).1 ∧
    s.produced = (exchInit clk c).2 ++ (respondAll (lExchange clk) (exchInit clk c).1 s.requests).2 := by
  intro s
  have h := Props.C20S.requests_reach_exchange_in_order lEngine (lExchange clk) b
    (exchInit clk c).1 (exchInit clk c).2 acts
  have hown := (inv_reach lEngine (lExchange clk) b (exchInit clk c).1 (exchInit clk c).2 acts).own.own
  refine ⟨?_, h.2.1, h.2.2⟩
  have : s.eng = engAfter lEngine (eng0 b.engine b.auditMode) s.processed := hown
  have h1 : s.requests = requestsOf lEngine (eng0 b.engine b.auditMode) s.processed := h.1
  rw [this, engAfter_log, ← h1]
  simp [eng0, hlog]

/-- (exchange → feed) Whatever the exchange decides, every request produces exactly one response —
an order snapshot for an open request, a cancel response for a cancel request — carrying the
request's own instrument and client order id; so the responses produced so far are, in order,
exactly the requests received so far. -/
theorem one_response_per_request (clk : Nat → Int) (b : SystemBuild LEng) (c : MockExchange.Cfg)
    (acts : List (Act MktEv Command)) :
    let s := lreach clk b c acts
    (∀ x r, (respond clk x r).2.filterMap responseIdent = [reqIdent r]) ∧
    s.produced.filterMap responseIdent = s.requests.map reqIdent := by
  intro s
  refine ⟨respond_idents clk, ?_⟩
  have h := (Props.C20S.requests_reach_exchange_in_order lEngine (lExchange clk) b
    (exchInit clk c).1 (exchInit clk c).2 acts).2.2
  have h : s.produced = _ := h
  have h0 : (exchInit clk c).2.filterMap responseIdent = [] := rfl
  rw [h, List.filterMap_append, respondAll_idents, h0, List.nil_append]

/-- (feed → engine, every schedule) The responses the engine has processed are responses to requests
it sent, none processed twice: together with some not yet processed ones they are exactly the
requests sent. -/
theorem responses_processed_at_most_once (clk : Nat → Int) (b : SystemBuild LEng) (c : MockExchange.Cfg)
    (acts : List (Act MktEv Command)) :
    let s := lreach clk b c acts
    ∃ rest, (((accountOf s.processed).filterMap responseIdent) ++ rest).Perm (s.requests.map reqIdent) := by
  intro s
  obtain ⟨rest, hr⟩ := (Props.C20S.streams_in_order lEngine (lExchange clk) b
    (exchInit clk c).1 (exchInit clk c).2 acts).1.2
  refine ⟨rest.filterMap responseIdent, ?_⟩
  have := hr.filterMap responseIdent
  rw [List.filterMap_append] at this
  rw [← (one_response_per_request clk b c acts).2]
  exact this

/-- (1, the whole chain) When nothing is in flight any more, every open / cancel request the engine
reported `sent` has reached the exchange exactly once and exactly one response for it has been
processed by the engine: the processed responses are, as a multiset, exactly the requests sent. -/
theorem every_request_answered_once_at_quiescence (clk : Nat → Int) (b : SystemBuild LEng)
    (c : MockExchange.Cfg) (acts : List (Act MktEv Command)) (hlog : b.engine.core.log = [])
    (hq : Quiescent (lreach clk b c acts)) :
    let s := lreach clk b c acts
    ((accountOf s.processed).filterMap responseIdent).Perm (s.eng.state.core.log.map reqIdent) := by
  intro s
  have h1 := (Props.C20S.quiescent_everything_processed lEngine (lExchange clk) b
    (exchInit clk c).1 (exchInit clk c).2 acts hq).2.2
  have h2 := (one_response_per_request clk b c acts).2
  rw [(engine_log_is_requests clk b c acts hlog).1, ← h2]
  exact h1.filterMap responseIdent

/-- (spec key `resp`, oracle review C20E-H1) The same, stated on the request log the `spec` driver
reads (`Sys.requests`, the requests the engine sent) and without any hypothesis on the built engine:
at quiescence the identities (kind, instrument, client order id) of the responses the engine has
processed are, as a multiset, exactly the identities of the requests it sent — one response per
request, none twice, none missing. The driver prints both sides as sorted lists. -/
theorem responses_are_requests_at_quiescence (clk : Nat → Int) (b : SystemBuild LEng)
    (c : MockExchange.Cfg) (acts : List (Act MktEv Command))
    (hq : Quiescent (lreach clk b c acts)) :
    let s := lreach clk b c acts
    ((accountOf s.processed).filterMap responseIdent).Perm (s.requests.map reqIdent) := by
  intro s
  have h1 := (Props.C20S.quiescent_everything_processed lEngine (lExchange clk) b
    (exchInit clk c).1 (exchInit clk c).2 acts hq).2.2
  have h2 := (one_response_per_request clk b c acts).2
  rw [← h2]
  exact h1.filterMap responseIdent

/-- … and before quiescence (every schedule, every moment) no identity is answered more often than
it was requested: the count of processed responses with a given identity never exceeds the count of
requests with that identity. -/
theorem responses_never_exceed_requests (clk : Nat → Int) (b : SystemBuild LEng)
    (c : MockExchange.Cfg) (acts : List (Act MktEv Command)) (id : ExecManager.Kind × Nat × Nat) :
    let s := lreach clk b c acts
    ((accountOf s.processed).filterMap responseIdent).count id ≤ (s.requests.map reqIdent).count id := by
  show ((accountOf (lreach clk b c acts).processed).filterMap responseIdent).count id ≤
    ((lreach clk b c acts).requests.map reqIdent).count id
  obtain ⟨rest, hr⟩ := responses_processed_at_most_once clk b c acts
  have := hr.count_eq id
  rw [List.count_append] at this
  omega

/-- (content of a response) The order snapshot answering an open request is the exchange's verdict
on THAT request in the state the earlier requests left (C08C `response_is_answer_to_own_request`),
echoes the request's client order id, quantity, price and exchange, and is followed by the
exchange's notifications for that request and nothing else. -/
theorem response_is_exchange_answer (clk : Nat → Int) (x : LExch) (r : OpenReq) :
    ∃ res, (MockExchange.step x.x (clk x.n) (.openOrder (toXReq r))).2.1 = .order res ∧
      (respond clk x (.opn r)).2 =
        .order r.key.instrument ⟨r.key.cid, r.quantity, r.price, responseState r res, r.key.exchange⟩ ::
          (MockExchange.step x.x (clk x.n) (.openOrder (toXReq r))).2.2.map notif := by
  refine ⟨_, MockExchange.step_open_resp _ _ _, ?_⟩
  show orderResponse r (resultOf _) :: _ = _
  rw [MockExchange.step_open_resp]; rfl

/-! ## 2. The order life cycle closes -/

/-- Every answer of the exchange to an open request is FINAL: fully filled when the order was
accepted (a market order is filled completely: `filled_quantity = quantity`), failed otherwise. No
answer leaves the order open. -/
theorem exchange_response_is_final (clk : Nat → Int) (x : LExch) (r : OpenReq) :
    ∃ res, (MockExchange.step x.x (clk x.n) (.openOrder (toXReq r))).2.1 = .order res ∧
      ((∃ f, res = .accepted f) → responseState r res = .inactive .fullyFilled) ∧
      ((∀ f, res ≠ .accepted f) → responseState r res = .inactive .openFailed) := by
  refine ⟨_, MockExchange.step_open_resp _ _ _, ?_, ?_⟩
  · rintro ⟨f, hf⟩
    rcases step_open_facts x.x (clk x.n) (toXReq r) with ⟨f', h1, _, _, _, _, _, h7, _⟩ | ⟨hna, _⟩
    · rw [MockExchange.step_open_resp] at h1
      injection h1 with h1
      rw [h1]
      have : r.quantity - f'.filled = 0 := by
        rw [h7]; show r.quantity - r.quantity = 0; grind
      simp [responseState, this]
    · exact absurd (by rw [MockExchange.step_open_resp, hf]) (hna f)
  · intro hna
    cases hres : (MockExchange.openOrder (MockExchange.updateTime x.x (clk x.n)) (toXReq r)).2 with
    | accepted f => exact absurd hres (hna f)
    | rejected e => rfl
    | panic => rfl

/-- (one tick) Processing a final order snapshot for `(i, cid)` leaves `(i, cid)` untracked — from
every prior state: in flight, open, cancel in flight or unknown — provided the strategy does not
send a new open request for the very same key during that same tick. -/
theorem response_closes_order (s : LEng) (i : Nat) (sn : Orders.Snap) (kd : Orders.Inactive)
    (hfin : sn.state = .inactive kd)
    (hfresh : ∀ o, Req.opn o ∈ (lProcess s (.account (.order i sn))).2 →
      ¬ (o.key.instrument = i ∧ o.key.cid = sn.cid)) :
    Engine.orderState (lProcess s (.account (.order i sn))).1.core i sn.cid = none := by
  rw [lProcess_requests] at hfresh
  show Engine.orderState (Engine.process s.core _ [] _ _).1 i sn.cid = none
  apply process_keeps_none _ _ _ _ _ _ _ hfresh
  show Engine.orderState (Engine.applyUpdate s.core (.order i (.snapshot sn))) i sn.cid = none
  rw [orderState_applyUpdate_order]
  simp only [↓reduceIte]
  cases hst : s.core.instruments[i]? with
  | none => rfl
  | some st =>
    simp only [Option.bind_some]
    rw [stateOf_none_iff]
    have hsn : sn = ⟨sn.cid, sn.quantity, sn.price, .inactive kd, sn.exchange⟩ := by
      cases sn; simp_all
    rw [hsn]
    exact Props.C01.untracked_on_inactive st.orders _ _ _ kd _

/-- … and that step IS the documented life cycle (C01 `refines_lifecycle`): the state update the
response causes maps the tracked state of every client order id of the instrument through the
lifecycle automaton; for the answered id the input is `reportFinished`, whose result is "untracked". -/
theorem response_step_is_lifecycle (m : Orders.Orders) (sn : Orders.Snap) (kd : Orders.Inactive)
    (hfin : sn.state = .inactive kd) (c : Nat) :
    Orders.stateOf (Orders.step m (.snapshot sn)) c =
      Orders.Lifecycle.stepOp c (Orders.stateOf m c) (.snapshot sn) ∧
    Orders.Lifecycle.stepOp sn.cid (Orders.stateOf m sn.cid) (.snapshot sn) = none := by
  have hx : (Orders.Op.snapshot sn).exchangeStatesOnly = true := by
    simp [Orders.Op.exchangeStatesOnly, hfin]
  refine ⟨Props.C01.refines_lifecycle_step m _ c hx, ?_⟩
  simp [Orders.Lifecycle.stepOp, Orders.Op.input, hfin, Orders.Lifecycle.step]

/-- (stays closed) An untracked `(i, cid)` stays untracked over every tick that neither sends an
open request for `(i, cid)` nor delivers an order snapshot that reports `(i, cid)` active again —
whatever else the tick does (other orders, cancels, fills, commands, trading-state changes). -/
theorem closed_until_next_request (s : LEng) (ev : LEv) (i cid : Nat)
    (h0 : Engine.orderState s.core i cid = none) (hre : NoReopen i cid ev)
    (hsent : ∀ o, Req.opn o ∈ (lProcess s ev).2 → ¬ (o.key.instrument = i ∧ o.key.cid = cid)) :
    Engine.orderState (lProcess s ev).1.core i cid = none :=
  lStep_keeps_none s ev i cid h0 hre hsent

/-- Every order snapshot the execution side ever produces is final. -/
theorem produced_orders_are_final (clk : Nat → Int) (b : SystemBuild LEng) (c : MockExchange.Cfg)
    (acts : List (Act MktEv Command)) : AllFinal (lreach clk b c acts).produced := by
  have hall : ∀ (rs : List Req) (x : LExch), AllFinal (respondAll (lExchange clk) x rs).2 := by
    intro rs
    induction rs with
    | nil => intro x i sn h; simp [respondAll] at h
    | cons r rs ih =>
      intro x i sn h
      simp only [respondAll, List.mem_append] at h
      rcases h with h | h
      · cases r with
        | cnl r => simp [lExchange, respond] at h
        | opn r =>
          obtain ⟨res, hres, hacc, hrej⟩ := exchange_response_is_final clk x r
          obtain ⟨res', hres', hout⟩ := response_is_exchange_answer clk x r
          have : res' = res := by rw [hres] at hres'; injection hres' with h; exact h.symm
          subst this
          have h : AccEv.order i sn ∈ (respond clk x (.opn r)).2 := h
          rw [hout] at h
          rcases List.mem_cons.mp h with h | h
          · injection h with h1 h2
            subst h2
            by_cases ha : ∃ f, res' = .accepted f
            · exact ⟨_, hacc ha⟩
            · exact ⟨_, hrej (fun f hf => ha ⟨f, hf⟩)⟩
          · obtain ⟨e, _, he⟩ := List.mem_map.mp h
            cases e <;> cases he
      · exact ih _ i sn h
  have h := (Props.C20S.requests_reach_exchange_in_order lEngine (lExchange clk) b
    (exchInit clk c).1 (exchInit clk c).2 acts).2.2
  have h : (lreach clk b c acts).produced = _ := h
  intro i sn hm
  rw [h] at hm
  rcases List.mem_append.mp hm with hm | hm
  · simp [exchInit] at hm
  · exact hall _ _ i sn hm

/-- (hypothesis `hre` of the former `order_gone_after_response` DISCHARGED, review B C20E-6) No event the
engine ever processes re-opens an order: every order snapshot it processes was produced by the
execution side, and those are all final (`produced_orders_are_final`). -/
theorem processed_orders_never_reopen (clk : Nat → Int) (b : SystemBuild LEng) (c : MockExchange.Cfg)
    (acts : List (Act MktEv Command)) (i cid : Nat) :
    ∀ ev ∈ (lreach clk b c acts).processed, NoReopen i cid ev := by
  intro ev hev sn he _
  subst he
  obtain ⟨rest, hr⟩ := (Props.C20S.streams_in_order lEngine (lExchange clk) b
    (exchInit clk c).1 (exchInit clk c).2 acts).1.2
  have hfin := produced_orders_are_final clk b c acts
  apply hfin i sn
  apply hr.mem_iff.mp
  apply List.mem_append_left
  simp only [accountOf, List.mem_filterMap]
  exact ⟨_, hev, rfl⟩

/-- (2, every schedule) Once the engine has processed the response to an order `(i, cid)` — a final
order snapshot, which is all this exchange ever answers (`exchange_response_is_final`) — the order is
no longer in flight nor tracked in any other way: it is GONE from the engine's order table, and stays
gone for as long as the engine sends no new open request for the same `(i, cid)` (fresh client order
ids). That no later snapshot reports it active again is no longer a hypothesis: it holds of every
processed history (`processed_orders_never_reopen`). `post` is everything processed after the response. -/
theorem order_gone_after_response (clk : Nat → Int) (b : SystemBuild LEng) (c : MockExchange.Cfg)
    (acts : List (Act MktEv Command)) (pre post : List LEv) (i : Nat) (sn : Orders.Snap)
    (kd : Orders.Inactive) (hfin : sn.state = .inactive kd)
    (hp : (lreach clk b c acts).processed = pre ++ .account (.order i sn) :: post)
    (hsent : ∀ o, Req.opn o ∈ requestsOf lEngine ⟨engFold lEngine b.engine pre, 0⟩
        (.account (.order i sn) :: post) → ¬ (o.key.instrument = i ∧ o.key.cid = sn.cid)) :
    Engine.orderState (lreach clk b c acts).eng.state.core i sn.cid = none := by
  have hre : ∀ ev ∈ post, NoReopen i sn.cid ev := fun ev hev =>
    processed_orders_never_reopen clk b c acts i sn.cid ev (by rw [hp]; simp [hev])
  have hfold := (Props.C20S.engine_is_fold lEngine (lExchange clk) b (exchInit clk c).1
    (exchInit clk c).2 acts).1
  have hfold : (lreach clk b c acts).eng.state = engFold lEngine b.engine (lreach clk b c acts).processed :=
    hfold
  rw [hfold, hp, engFold_append_list]
  generalize engFold lEngine b.engine pre = s0 at hsent ⊢
  -- the response itself
  have hstep : engFold lEngine s0 (.account (.order i sn) :: post) =
      engFold lEngine (lProcess s0 (.account (.order i sn))).1 post := rfl
  rw [hstep]
  have h1 : Engine.orderState (lProcess s0 (.account (.order i sn))).1.core i sn.cid = none := by
    apply response_closes_order s0 i sn kd hfin
    intro o ho
    apply hsent o
    simp only [requestsOf, processWithAudit, List.mem_append]
    exact Or.inl ho
  have hsent' : ∀ o, Req.opn o ∈ requestsOf lEngine ⟨(lProcess s0 (.account (.order i sn))).1, 1⟩ post →
      ¬ (o.key.instrument = i ∧ o.key.cid = sn.cid) := by
    intro o ho
    apply hsent o
    simp only [requestsOf, processWithAudit, List.mem_append]
    exact Or.inr ho
  have key : ∀ (post : List LEv) (s1 : LEng) (q : Nat),
      Engine.orderState s1.core i sn.cid = none → (∀ ev ∈ post, NoReopen i sn.cid ev) →
      (∀ o, Req.opn o ∈ requestsOf lEngine ⟨s1, q⟩ post → ¬ (o.key.instrument = i ∧ o.key.cid = sn.cid)) →
      Engine.orderState (engFold lEngine s1 post).core i sn.cid = none := by
    intro post
    induction post with
    | nil => intro s1 q h1 _ _; exact h1
    | cons ev post ih =>
      intro s1 q h1 hre' hs
      have hstep : engFold lEngine s1 (ev :: post) = engFold lEngine (lProcess s1 ev).1 post := rfl
      rw [hstep]
      refine ih (lProcess s1 ev).1 (q + 1) ?_ (fun e he => hre' e (List.mem_cons_of_mem _ he)) ?_
      · apply closed_until_next_request s1 ev i sn.cid h1 (hre' ev (by simp))
        intro o ho
        apply hs o
        simp only [requestsOf, processWithAudit, List.mem_append]
        exact Or.inl ho
      · intro o ho
        apply hs o
        simp only [requestsOf, processWithAudit, List.mem_append]
        exact Or.inr ho
  exact key post _ 1 h1 hre hsent'

/-- (in flight ⇒ a response is still to come; every schedule, every moment) Whatever the engine
tracks for `(i, cid)` — in flight, cancel in flight — more open requests for `(i, cid)` have been sent
than order responses for it processed: there is an answer outstanding (on its way, or lost behind a
`Shutdown`). Needs an engine built without orders. -/
theorem tracked_order_has_response_outstanding (clk : Nat → Int) (b : SystemBuild LEng)
    (c : MockExchange.Cfg) (acts : List (Act MktEv Command))
    (h0 : ∀ i cid, Engine.orderState b.engine.core i cid = none) :
    Track (lreach clk b c acts) := by
  induction acts using MockExchange.snoc_induction with
  | nil => intro i cid hne; exact absurd (h0 i cid) hne
  | snoc acts act ih =>
    have hrun : lreach clk b c (acts ++ [act]) =
        step lEngine (lExchange clk) (lreach clk b c acts) act := by
      simp [lreach, Props.C20S.reach, run, List.foldl_append]
    rw [hrun]
    generalize hs : lreach clk b c acts = s at ih
    have hinv : Inv lEngine (lExchange clk) b.engine (exchInit clk c).1 (exchInit clk c).2 b.auditMode s := by
      rw [← hs]; exact inv_reach lEngine (lExchange clk) b _ _ acts
    have hprod : s.produced.filterMap responseIdent = s.requests.map reqIdent := by
      rw [← hs]; exact (one_response_per_request clk b c acts).2
    have hfinal : AllFinal s.produced := by rw [← hs]; exact produced_orders_are_final clk b c acts
    cases act with
    | engine =>
      simp only [step, stepEngine]
      split
      · exact ih
      · rename_i hst
        have hst0 : s.stopped = none := stopped_none_of_not_isSome hst
        split
        · exact ih
        · rename_i e rest hfeed
          have hperm := hinv.flow.acc hst0
          have hfeedacc : accountOf s.feed = accountOf [e] ++ accountOf rest := by
            rw [hfeed]; simp [accountOf, List.filterMap_cons]
            cases e <;> simp [Ev.account?]
          intro i cid
          apply track_tick s.eng.state s.processed s.requests e ih
          · intro i cid
            have h1 := respCount_perm i cid hperm
            rw [respCount_append, respCount_append, hfeedacc, respCount_append] at h1
            have h2 : respCount i cid s.produced = reqCount i cid s.requests := by
              unfold respCount reqCount; rw [hprod]
            omega
          · intro i sn he
            apply hfinal i sn
            apply hperm.mem_iff.mp
            rw [hfeedacc, he]
            simp [accountOf, Ev.account?]
    | push m => exact ih
    | fwdMarket =>
      simp only [step, stepFwdMarket]
      split
      · exact ih
      · split <;> exact ih
    | fwdAccount k =>
      simp only [step, stepFwdAccount]
      split
      · exact ih
      · split <;> exact ih
    | call cl =>
      simp only [step, stepCall, send]
      split
      · exact ih
      · split <;> exact ih
    | close how =>
      simp only [step, stepClose, send]
      split
      · exact ih
      · split <;> exact ih
    | takeAudit =>
      simp only [step, stepTakeAudit]
      split <;> exact ih

/-- (2, the whole system at rest) When nothing is in flight any more the engine tracks NO order at
all: every order table is empty of in-flight, open and cancel-in-flight entries — every life cycle
that was started has closed. This is what the `spec` driver demands of `ord<i>` at quiescence. -/
theorem no_order_tracked_at_quiescence (clk : Nat → Int) (b : SystemBuild LEng) (c : MockExchange.Cfg)
    (acts : List (Act MktEv Command)) (h0 : ∀ i cid, Engine.orderState b.engine.core i cid = none)
    (hq : Quiescent (lreach clk b c acts)) (i cid : Nat) :
    Engine.orderState (lreach clk b c acts).eng.state.core i cid = none := by
  cases hos : Engine.orderState (lreach clk b c acts).eng.state.core i cid with
  | none => rfl
  | some a =>
    exfalso
    have ht := tracked_order_has_response_outstanding clk b c acts h0 i cid (by rw [hos]; simp)
    have hperm := (Props.C20S.quiescent_everything_processed lEngine (lExchange clk) b
      (exchInit clk c).1 (exchInit clk c).2 acts hq).2.2
    have h1 := respCount_perm i cid hperm
    have h2 : respCount i cid (lreach clk b c acts).produced = reqCount i cid (lreach clk b c acts).requests := by
      unfold respCount reqCount; rw [(one_response_per_request clk b c acts).2]
    have h1 : respCount i cid (accountOf (lreach clk b c acts).processed) =
        respCount i cid (lreach clk b c acts).produced := h1
    omega

/-! ### The execution manager in detail (C07) -/

/-- (C07's hypothesis `EchoesKey` is discharged) The script the mock client plays for ANY engine
request in ANY exchange state echoes the request's key and static fields and names no instrument in
its errors: it is a faithful client for every manager configuration. -/
theorem mock_client_echoes (cfg : ExecManager.Cfg) (clk : Nat → Int) (x : LExch) (r : Req) :
    ExecManager.echoes cfg (managerSpec clk x r) = true := by
  cases r with
  | opn r => cases hacc : acceptedBy clk x r <;> simp [managerSpec, ExecManager.echoes, hacc]
  | cnl r => simp [managerSpec, ExecManager.echoes]

/-- (summary = detail) The response `respond` puts on the account stream for a request IS the event
the C07 manager sends for that request when its future completes with the client's answer
(`specResponseEvent` of the client's script): same kind, exchange, instrument, client order id,
static fields, and verdict (fully filled / rejected). `ex` is the manager's exchange. -/
theorem response_is_managers_event (clk : Nat → Int) (x : LExch) (r : Req) (ex : Nat)
    (hex : r.key.exchange = ex) :
    ((respond clk x r).2.head?).bind (managerEvent ex) =
      some (ExecManager.specResponseEvent (managerSpec clk x r)) := by
  cases r with
  | cnl r =>
    simp only [Req.key] at hex
    simp [respond, managerEvent, managerSpec, ExecManager.specResponseEvent, managerKey, hex]
  | opn r =>
    obtain ⟨res, hres, hacc, hrej⟩ := exchange_response_is_final clk x r
    obtain ⟨res', hres', hout⟩ := response_is_exchange_answer clk x r
    have : res' = res := by rw [hres] at hres'; injection hres' with h; exact h.symm
    subst this
    rw [hout]
    simp only [List.head?_cons, Option.bind_some, managerEvent, managerSpec,
      ExecManager.specResponseEvent, managerKey, acceptedBy, hres]
    cases res' with
    | accepted f => rw [hacc ⟨f, rfl⟩]; simp
    | rejected e => rw [hrej (fun f h => by cases h)]; simp
    | panic => rw [hrej (fun f h => by cases h)]; simp

/-- (exactly once, every manager schedule) Run the C07 manager — any configuration, any interleaving
of intakes, time steps and polls — on requests that come from the engine (their client scripts are
the mock client's, `managerSpec`). Then, C07 `exactly_once` + `one_event_per_resolution`: the events
sent on the response channel, the requests still in flight and the requests dropped at shutdown are
together exactly the accepted requests (with multiplicity), and the channel carries exactly one
event per completed request. If moreover the exchange latency is within the request timeout, every
completed request was answered by the client's response, never by a timeout, so the event sent is
the one of `response_is_managers_event`. -/
theorem manager_answers_exactly_once (cfg : ExecManager.Cfg) (clk : Nat → Int)
    (as : List ExecManager.Action)
    (hsrc : ∀ q, ExecManager.Action.intake q ∈ as → ∃ x r, q = managerSpec clk x r) :
    let s := ExecManager.run cfg ExecManager.init as
    (s.out.map ExecManager.Event.ident ++ s.pending.map ExecManager.Req.ident ++
        s.dropped.map ExecManager.Req.ident).Perm (s.accepted.map ExecManager.Req.ident) ∧
    s.out = s.resolved.map ExecManager.Resolution.event ∧
    ((∀ q, ExecManager.Action.intake q ∈ as → ∀ d, q.script.delay = some d → d ≤ cfg.timeout) →
      s.out = s.resolved.map fun x => ExecManager.specResponseEvent x.req.spec) := by
  intro s
  have he : Props.C07.EchoesKey cfg as := by
    intro q hq
    obtain ⟨x, r, rfl⟩ := hsrc q hq
    exact mock_client_echoes cfg clk x r
  have h1 := Props.C07.exactly_once cfg as he
  have h2 := Props.C07.one_event_per_resolution cfg as he
  refine ⟨h1, h2, ?_⟩
  intro hlat
  have h2 : s.out = s.resolved.map ExecManager.Resolution.event := h2
  rw [h2]
  apply List.map_congr_left
  intro xr hxr
  have hacc : xr.req ∈ s.accepted := ExecManager.resolved_accepted (ExecManager.inv_reach cfg as) xr hxr
  have hsrcq : ExecManager.Action.intake xr.req.spec ∈ as := by
    rcases ExecManager.accepted_run cfg as ExecManager.init xr.req hacc with h | h
    · simp [ExecManager.init] at h
    · exact h
  obtain ⟨x, r, hq⟩ := hsrc _ hsrcq
  have hdelay : ∃ d, xr.req.spec.script.delay = some d := by
    rw [hq]; cases r <;> simp [managerSpec]
  obtain ⟨d, hd⟩ := hdelay
  have hf := Props.C07.fate_within_timeout cfg as xr hxr d hd (hlat _ hsrcq d hd)
  simp [ExecManager.Resolution.event, ExecManager.specEvent, hf]

/-! ### The client protocol in detail (C08C) -/

/-- The exchange of the composition as a configuration of the client-protocol model: no configured
orders (the mock exchange of a `System` starts without resting orders), any broadcast capacity. -/
def xcfg (c : MockExchange.Cfg) (cap : Nat) : MockClient.XCfg := ⟨c, cap, []⟩

/-- (C08C's hypothesis is discharged) Without configured orders, client order ids are trivially distinct. -/
theorem client_protocol_hypothesis (c : MockExchange.Cfg) (cap : Nat) :
    MockClient.Spec.distinctCids (xcfg c cap) := by
  simp [MockClient.Spec.distinctCids, MockClient.Spec.initialOpen, MockClient.Spec.initialCancelled,
    MockClient.Spec.initialOrders, xcfg]

/-- (summary = detail) Run the C08C protocol — several client clones, the unbounded request channel,
the exchange task, latency sleeps, oneshots; any history of calls, abandoned calls, time steps,
exchange task scheduled or not — on the exchange of the composition. Whenever an `open_order` call
returns with a response, that response is the verdict `MockExchange::open_order` gives on THAT call's
own request, stamped with the caller's clock, in the exchange state the requests processed BEFORE it
left: exactly the `res` from which `respond` builds the order snapshot (`response_is_exchange_answer`,
`exchange_is_C08_run`). No cross-talk between concurrent requests, no reordering. (`ledgerTime` /
`ledgerOps`: the request times under which the C08 ledger stamps what the code stamps — the request
time itself whenever `t + latency / 2` is a `DateTime<Utc>`, `Props.C08C.ledger_time_cases`; the clocks
of the composition are far inside that range.) This is a statement about the C08C transition system,
NOT about `lreach`: the composition takes the client protocol as one step (see the header). -/
theorem client_returns_exchange_verdict (c : MockExchange.Cfg) (hc : c.wf = true) (cap w : Nat)
    {s : MockClient.Sys} (h : Props.C08C.Reach (xcfg c cap) w s) (d : MockClient.Done) (hdn : d ∈ s.out)
    (r : MockClient.XResp) (hr : d.out = .answered r) (q : MockExchange.Req) (tif : Nat)
    (hw : d.what = .open q tif) :
    ∃ (k : Nat) (cr : MockClient.CRec) (res : MockExchange.Result),
      s.calls[d.call]? = some cr ∧ cr.worker = d.worker ∧ r = .order res ∧
      (MockExchange.step (MockExchange.run (MockExchange.init c)
          (MockClient.ledgerOps c.latency (MockClient.plogOps (s.plog.take k))))
        (MockClient.ledgerTime c.latency cr.t) (.openOrder q)).2.1 = .order res := by
  obtain ⟨k, p, cr, _, _, hcr, hwk, hwhat, _, _, hresp, _⟩ :=
    Props.C08C.response_is_answer_to_own_request (c := xcfg c cap) hc (client_protocol_hypothesis c cap)
      h d hdn r hr
  refine ⟨k, cr, _, hcr, hwk, ?_, MockExchange.step_open_resp _ _ _⟩
  rw [hresp, hwhat, hw]
  have hb := (Props.C08C.ledger_is_C08 (MockClient.XState.init (xcfg c cap)) 0 .fetchSnapshot
    (MockClient.plogOps (s.plog.take k))).2.2
  have hl : ((MockClient.XState.init (xcfg c cap)).run (MockClient.plogOps (s.plog.take k))).base.latency =
      c.latency := by
    rw [MockClient.xrun_latency]; rfl
  simp only [MockClient.Call.wire, MockClient.XState.step, MockExchange.step_open_resp, hl]
  rw [hb]
  rfl

/-! ## 3. Accounting agreement at quiescence -/

/-- The exchange invariant holds in every reachable state: the account events produced so far
determine the exchange's trade log (the fills notified, in order) and ledger (per asset, the latest
balance notified). -/
theorem exchange_invariant (clk : Nat → Int) (hclk : StrictClock clk) (b : SystemBuild LEng)
    (c : MockExchange.Cfg) (acts : List (Act MktEv Command)) :
    let s := lreach clk b c acts
    ExInv clk c.init.length ((c.latency / 2 : Nat) : Int) s.exch s.produced := by
  intro s
  have h := Props.C20S.requests_reach_exchange_in_order lEngine (lExchange clk) b
    (exchInit clk c).1 (exchInit clk c).2 acts
  have h1 : s.exch = _ := h.2.1
  have h2 : s.produced = _ := h.2.2
  rw [h1, h2]
  exact exInv_respondAll clk hclk _ _ s.requests _ _ (exInv_init clk hclk c)

/-- Quantities of the exchange's fills are the quantities requested: positive if the requests were. -/
theorem exchange_fills_positive (clk : Nat → Int) (b : SystemBuild LEng) (c : MockExchange.Cfg)
    (acts : List (Act MktEv Command)) (hpos : ∀ r ∈ (lreach clk b c acts).requests, PosReq r) :
    ∀ t ∈ (lreach clk b c acts).exch.x.trades, 0 < t.qty := by
  have h := (Props.C20S.requests_reach_exchange_in_order lEngine (lExchange clk) b
    (exchInit clk c).1 (exchInit clk c).2 acts).2.1
  have h : (lreach clk b c acts).exch = _ := h
  rw [h]
  apply respondAll_trades_pos clk _ _ hpos
  intro t ht
  simp [exchInit, MockExchange.step, MockExchange.updateTime, MockExchange.init] at ht

/-- (3a, positions) When every response and notification produced so far has been processed
(`Quiescent`), the engine's signed position on each instrument equals the net of the fills in the
exchange's own trade log for that instrument (C02 `size_is_net` over C08 `one_fill`) — in whatever
order the scheduler delivered them. -/
theorem positions_agree_at_quiescence (clk : Nat → Int) (hclk : StrictClock clk) (b : SystemBuild LEng)
    (c : MockExchange.Cfg) (acts : List (Act MktEv Command)) (nA k : Nat) (hf : Fresh b.engine nA k)
    (hpos : ∀ r ∈ (lreach clk b c acts).requests, PosReq r) (hq : Quiescent (lreach clk b c acts))
    (i : Nat) (hi : i < k) :
    enginePos (lreach clk b c acts).eng.state i = Spec.net (lreach clk b c acts).exch.x.trades i := by
  have hperm := (Props.C20S.quiescent_everything_processed lEngine (lExchange clk) b
    (exchInit clk c).1 (exchInit clk c).2 acts hq).2.2
  have hfold := (Props.C20S.engine_is_fold lEngine (lExchange clk) b (exchInit clk c).1
    (exchInit clk c).2 acts).1
  apply pos_agree clk _ _ _ _ _ (exchange_invariant clk hclk b c acts) hperm _ k _
    (exchange_fills_positive clk b c acts hpos) i hi
  have : (lreach clk b c acts).eng.state = engFold lEngine b.engine (lreach clk b c acts).processed := hfold
  rw [this, engFold_pos, hf.pos]

/-- (the trade-log half of `exchange_invariant`, ANY client clock) In every reachable state the fills
among the account events produced so far are, in order, the exchange's own trade log. -/
theorem produced_fills_are_trade_log (clk : Nat → Int) (b : SystemBuild LEng) (c : MockExchange.Cfg)
    (acts : List (Act MktEv Command)) :
    tradesOf (lreach clk b c acts).produced = (lreach clk b c acts).exch.x.trades.map toPosTrade := by
  have h := Props.C20S.requests_reach_exchange_in_order lEngine (lExchange clk) b
    (exchInit clk c).1 (exchInit clk c).2 acts
  have h1 : (lreach clk b c acts).exch = _ := h.2.1
  have h2 : (lreach clk b c acts).produced = _ := h.2.2
  rw [h1, h2]
  apply respondAll_trades_inv
  simp [exchInit, tradesOf, MockExchange.step, MockExchange.updateTime, MockExchange.init]

/-- (3a without `StrictClock`, review B C20E-10) The position half of the agreement needs no hypothesis
on the client's clock: fills carry no time stamp that the position arithmetic reads. -/
theorem positions_agree_at_quiescence_any_clock (clk : Nat → Int) (b : SystemBuild LEng)
    (c : MockExchange.Cfg) (acts : List (Act MktEv Command)) (nA k : Nat) (hf : Fresh b.engine nA k)
    (hpos : ∀ r ∈ (lreach clk b c acts).requests, PosReq r) (hq : Quiescent (lreach clk b c acts))
    (i : Nat) (hi : i < k) :
    enginePos (lreach clk b c acts).eng.state i = Spec.net (lreach clk b c acts).exch.x.trades i := by
  have hperm := (Props.C20S.quiescent_everything_processed lEngine (lExchange clk) b
    (exchInit clk c).1 (exchInit clk c).2 acts hq).2.2
  have hfold : (lreach clk b c acts).eng.state = engFold lEngine b.engine (lreach clk b c acts).processed :=
    (Props.C20S.engine_is_fold lEngine (lExchange clk) b (exchInit clk c).1 (exchInit clk c).2 acts).1
  have htr := produced_fills_are_trade_log clk b c acts
  have hq' := exchange_fills_positive clk b c acts hpos
  have hmem : ∀ t ∈ tradesOf (accountOf (lreach clk b c acts).processed), 0 < t.quantity := by
    intro t ht
    have : t ∈ tradesOf (lreach clk b c acts).produced := (tradesOf_perm hperm).mem_iff.mp ht
    rw [htr] at this
    obtain ⟨t0, ht0, rfl⟩ := List.mem_map.mp this
    exact hq' t0 ht0
  have hroute := Props.C02.engine_routes_per_instrument k (tradesOf (accountOf (lreach clk b c acts).processed)) i hi
  have hpq : Position.PosQty ((tradesOf (accountOf (lreach clk b c acts).processed)).filter fun f => f.instrument = i) :=
    fun f hf' => hmem f (List.mem_filter.mp hf').1
  have hnet := (Props.C02.size_is_net _ (Props.C02.oneInstrument_filter
    (tradesOf (accountOf (lreach clk b c acts).processed)) i) hpq).1
  unfold enginePos
  rw [hfold, engFold_pos, hf.pos, hroute]
  simp only
  rw [hnet, ← net_toPosTrade, ← htr]
  unfold Position.net
  exact perm_sum_rat (((tradesOf_perm hperm).filter _).map _)

/-- (3b, balances) … and the engine's balance register of every asset of the exchange holds exactly
the exchange's ledger entry for that asset (C09 `carries_max` over C08 `exact_debit`): the latest
balance the exchange notified, whatever the delivery order — given a strictly increasing client
clock. -/
theorem balances_agree_at_quiescence (clk : Nat → Int) (hclk : StrictClock clk) (b : SystemBuild LEng)
    (c : MockExchange.Cfg) (acts : List (Act MktEv Command)) (k : Nat) (hf : Fresh b.engine c.init.length k)
    (hq : Quiescent (lreach clk b c acts)) (a : Nat) (ha : a < c.init.length) :
    engineBal (lreach clk b c acts).eng.state a =
      (MockExchange.ledger (lreach clk b c acts).exch.x)[a]? := by
  have hperm := (Props.C20S.quiescent_everything_processed lEngine (lExchange clk) b
    (exchInit clk c).1 (exchInit clk c).2 acts hq).2.2
  have hfold := (Props.C20S.engine_is_fold lEngine (lExchange clk) b (exchInit clk c).1
    (exchInit clk c).2 acts).1
  apply bal_agree clk _ _ _ _ _ (exchange_invariant clk hclk b c acts) hperm _ k _ a ha
  have : (lreach clk b c acts).eng.state = engFold lEngine b.engine (lreach clk b c acts).processed := hfold
  rw [this, engFold_bal, hf.bal]

/-- (3) Refinement to the abstract specification: at quiescence "both sides tell the same story"
(`Spec.Agree`) — for every instrument of the exchange the engine's position is the net of the
exchange's trade log, for every asset the engine holds the exchange's ledger entry. -/
theorem accounting_agreement_at_quiescence (clk : Nat → Int) (hclk : StrictClock clk)
    (b : SystemBuild LEng) (c : MockExchange.Cfg) (acts : List (Act MktEv Command))
    (hf : Fresh b.engine c.init.length c.instruments.length)
    (hpos : ∀ r ∈ (lreach clk b c acts).requests, PosReq r) (hq : Quiescent (lreach clk b c acts)) :
    Spec.Agree (lreach clk b c acts).eng.state (lreach clk b c acts).exch.x := by
  have hinv := exchange_invariant clk hclk b c acts
  have hins : (lreach clk b c acts).exch.x.instruments = c.instruments := by
    have h := (Props.C20S.requests_reach_exchange_in_order lEngine (lExchange clk) b
      (exchInit clk c).1 (exchInit clk c).2 acts).2.1
    have h : (lreach clk b c acts).exch = _ := h
    rw [h, respondAll_instruments]
    simp [exchInit, MockExchange.step, MockExchange.updateTime, MockExchange.init]
  constructor
  · intro i hi
    rw [hins] at hi
    exact positions_agree_at_quiescence clk hclk b c acts _ _ hf hpos hq i hi
  · intro a ha
    have hlen : (lreach clk b c acts).exch.x.balances.length = c.init.length := hinv.len
    rw [hlen] at ha
    exact balances_agree_at_quiescence clk hclk b c acts _ hf hq a ha

/-- (the exchange of the composition IS the C08 exchange) In every reachable state the exchange's
state is `MockExchange.run` — the request loop of C08 — from the configured exchange on exactly the
manager's initial snapshot query followed by the engine's requests, the `j`-th stamped `clk j`; so
every theorem of `Props/C08` holds of it. -/
theorem exchange_is_C08_run (clk : Nat → Int) (b : SystemBuild LEng) (c : MockExchange.Cfg)
    (acts : List (Act MktEv Command)) :
    (lreach clk b c acts).exch.x =
      MockExchange.run (MockExchange.init c) (exchHistory clk (lreach clk b c acts).requests) ∧
    (lreach clk b c acts).exch.n = 1 + (lreach clk b c acts).requests.length := by
  have h := (Props.C20S.requests_reach_exchange_in_order lEngine (lExchange clk) b
    (exchInit clk c).1 (exchInit clk c).2 acts).2.1
  have h : (lreach clk b c acts).exch = _ := h
  have hr := respondAll_run clk (lreach clk b c acts).requests (exchInit clk c).1
  rw [h]
  exact ⟨by rw [hr.1]; rfl, by rw [hr.2]; rfl⟩

/-- (3, against the history-only specification) At quiescence the engine's view is what the C08
specification of the exchange — accepted orders singled out by the funds rule, ledger = initial
balances minus their debits, one fill per accepted order — computes FROM THE ENGINE'S OWN REQUEST LOG
alone: position = net of the specification's fills, balance = the specification's ledger. This is
the oracle the `spec` driver runs. Needs a well-formed exchange configuration (C08). -/
theorem engine_view_refines_exchange_spec (clk : Nat → Int) (hclk : StrictClock clk)
    (b : SystemBuild LEng) (c : MockExchange.Cfg) (acts : List (Act MktEv Command)) (hc : c.wf = true)
    (hf : Fresh b.engine c.init.length c.instruments.length)
    (hpos : ∀ r ∈ (lreach clk b c acts).requests, PosReq r) (hq : Quiescent (lreach clk b c acts)) :
    let s := lreach clk b c acts
    let acc := MockExchange.Spec.accepted c (MockExchange.opens c (exchHistory clk s.eng.state.core.log))
    (∀ i, i < c.instruments.length →
      enginePos s.eng.state i = Spec.net (MockExchange.Spec.fills c acc) i) ∧
    (∀ a, a < c.init.length → engineBal s.eng.state a = (MockExchange.Spec.ledger c acc)[a]?) := by
  intro s acc
  have hlog := (engine_log_is_requests clk b c acts hf.log).1
  have hrun := (exchange_is_C08_run clk b c acts).1
  have hspec := Props.C08.refines_spec hc (exchHistory clk s.requests)
  have hl : MockExchange.ledger s.exch.x = MockExchange.Spec.ledger c acc := by
    show MockExchange.ledger (lreach clk b c acts).exch.x = _
    rw [hrun]; simp only [acc]; rw [hlog]; exact hspec.1
  have ht : s.exch.x.trades = MockExchange.Spec.fills c acc := by
    show (lreach clk b c acts).exch.x.trades = _
    rw [hrun]; simp only [acc]; rw [hlog]; exact hspec.2.1
  refine ⟨fun i hi => ?_, fun a ha => ?_⟩
  · rw [← ht]; exact positions_agree_at_quiescence clk hclk b c acts _ _ hf hpos hq i hi
  · rw [← hl]; exact balances_agree_at_quiescence clk hclk b c acts _ hf hq a ha

/-- (one position, two readers) The `(side, quantity_abs)` that `close_positions` reads to size its
closing market order is, at every moment of every schedule, exactly the position the position manager
holds (the one (3) and (5) are about): the command acts on the same position the accounting shows. -/
theorem command_reads_accounted_position (clk : Nat → Int) (b : SystemBuild LEng) (c : MockExchange.Cfg)
    (acts : List (Act MktEv Command)) (h0 : PosSync b.engine) :
    PosSync (lreach clk b c acts).eng.state := by
  have hfold : (lreach clk b c acts).eng.state = engFold lEngine b.engine (lreach clk b c acts).processed :=
    (Props.C20S.engine_is_fold lEngine (lExchange clk) b (exchInit clk c).1 (exchInit clk c).2 acts).1
  rw [hfold]
  exact posSync_engFold _ _ h0

theorem lMkEngine_posSync (k : Nat) (trading : Bool) : PosSync (lMkEngine k trading) := by
  intro j st hst
  simp only [lMkEngine, List.getElem?_map] at hst
  cases hr : (List.range k)[j]? with
  | none => simp [hr] at hst
  | some v =>
    simp only [hr, Option.map_some, Option.some.injEq] at hst
    subst hst
    have hj : j < k := by
      have := (List.getElem?_eq_some_iff.mp hr).1; simpa using this
    simp [posSum, lMkEngine, Position.Instruments.init, hj, Position.Run.init, Position.PositionManager.init]

/-! ### Through the index / name translation (C04 / C04M) -/

/-- (names ↔ indices) In the code the exchange knows instruments and assets by NAME: the request goes
out through the manager's `ExecutionInstrumentMap`, the mock exchange finds the instrument in its own
table and debits the balance carrying the asset's name, and the answers come back through the
`AccountEventIndexer` (`MockInstruments.mockOpen`, C04M). Under C04M's `ViewHyp` (builder output,
instrument and asset names injective on the exchange, the manager's map and the exchange's table
generated for it, a balance configured for exactly the exchange's assets; satisfiable: see the
non-vacuity section of `Props/C04M.lean`): after ANY list of own open requests, the name-level exchange task and the index-level
exchange of this composition (configured with the engine view `MockInstruments.specCfg`: instrument
`i` = the engine's instrument `i`, asset `a` = the engine's asset `a`) answer the next open request
with the SAME balance snapshot (asset index, amounts), the SAME fill (instrument index, side, price,
quantity, fees) and — when accepted — the same verdict under the same engine key. So (1)–(5), proved
over indices, are statements about the exchange the code talks to by name; in particular the asset
whose register (3b) compares IS the instrument's own quote / base asset (C04M
`same_assets_for_every_order`). Time stamps are not part of `MockInstruments.Events`.
Scope (review B C20E-4): histories of OPEN requests only (`rs.map Req.opn` — a reachable `s.exch` has
cancel requests interleaved; they change neither ledger nor trade log, but that is not restated here),
and the verdict conjunct is stated for ACCEPTED orders only; what a rejected order looks like under
names is `Props.C04M.reject_outcome_refines_view`. For a rejected order the first two conjuncts say
that neither side shows a balance snapshot or a fill. -/
theorem name_level_exchange_shows_this_exchange {defs : List Index.Def} {ii : Index.Indexed}
    {mc : MockInstruments.MockConfig} {m : ExecMap.EMap} {t : MockInstruments.Table}
    (H : MockInstruments.ViewHyp defs ii mc m t)
    (clk : Nat → Int) (chan : Nat) (rs : List OpenReq)
    (hrs : ∀ r ∈ rs, MockInstruments.Own ii mc (toOpen r)) (r : OpenReq)
    (hr : MockInstruments.Own ii mc (toOpen r)) :
    let mt := MockInstruments.mockRun ii m (MockInstruments.spawnMock ⟨chan, mc, t⟩) (rs.map toOpen)
    let ev := (MockInstruments.mockOpen m mt (MockInstruments.nameOf ii (toOpen r)) (toOpen r)).2
    let x := (respondAll (lExchange clk) (exchInit clk (MockInstruments.specCfg ii mc)).1 (rs.map Req.opn)).1
    let out := (respond clk x (.opn r)).2
    ev.balance = balanceOf out ∧ ev.trade = tradeOf out ∧
    ((∃ f, (MockExchange.step x.x (clk x.n) (.openOrder (toXReq r))).2.1 = .order (.accepted f)) →
      ev.order = some (m.exchange.key, r.key.instrument, .filled)) := by
  intro mt ev x out
  let cfg := MockInstruments.specCfg ii mc
  have hwf : cfg.wf = true := specCfg_wf H.build H.wfa mc
  -- name level
  have hos : ∀ o ∈ rs.map toOpen, MockInstruments.Own ii mc o := by
    intro o ho
    obtain ⟨r', hr', rfl⟩ := List.mem_map.mp ho
    exact hrs r' hr'
  have hv := MockInstruments.viewInv_run H (rs.map toOpen) hos (MockInstruments.viewInv_spawn mc m t chan)
  have hstep := (MockInstruments.viewInv_step H hv (toOpen r) hr).2
  have hhist : (rs.map toOpen).foldl (MockInstruments.specNext ii mc) [] =
      MockInstruments.specHistory ii mc (rs.map toOpen) := rfl
  rw [hhist] at hstep
  -- index level
  have hrun := respondAll_run clk (rs.map Req.opn) (exchInit clk cfg).1
  have hx : x.x = MockExchange.run (MockExchange.init cfg) (exchHistory clk (rs.map Req.opn)) := by
    show (respondAll (lExchange clk) (exchInit clk cfg).1 (rs.map Req.opn)).1.x = _
    rw [hrun.1]; rfl
  have href := Props.C08.responses_refine hwf (exchHistory clk (rs.map Req.opn)) (clk x.n) (toXReq r)
  simp only at href
  rw [← hx] at href
  have hsame := respond_same cfg (histories_same clk ii mc rs)
    (MockExchange.exchangeTime cfg 0) (MockExchange.exchangeTime cfg (clk x.n)) (toXReq r)
  have hout : out = orderResponse r (resultOf (MockExchange.step x.x (clk x.n) (.openOrder (toXReq r))).2.1) ::
      (MockExchange.step x.x (clk x.n) (.openOrder (toXReq r))).2.2.map notif := rfl
  have hobs : MockInstruments.specObserve ii mc (MockInstruments.specHistory ii mc (rs.map toOpen)) (toOpen r) =
      MockExchange.Spec.respond cfg (MockInstruments.specHistory ii mc (rs.map toOpen))
        ⟨MockExchange.exchangeTime cfg 0, toXReq r⟩ := rfl
  rw [hobs] at hstep
  cases hI : MockExchange.Spec.respond cfg (idxHistory clk cfg rs)
      ⟨MockExchange.exchangeTime cfg (clk x.n), toXReq r⟩ with
  | none =>
    have hI' : MockExchange.Spec.respond cfg (MockExchange.Spec.accepted cfg
        (MockExchange.opens cfg (exchHistory clk (rs.map Req.opn))))
        ⟨MockExchange.exchangeTime cfg (clk x.n), toXReq r⟩ = none := hI
    rw [hI'] at href
    obtain ⟨err, herr⟩ := href
    rw [hI] at hsame
    cases hN : MockExchange.Spec.respond cfg (MockInstruments.specHistory ii mc (rs.map toOpen))
        ⟨MockExchange.exchangeTime cfg 0, toXReq r⟩ with
    | some v => rw [hN] at hsame; simp [seen] at hsame
    | none =>
      rw [hN] at hstep
      have h1 : (MockExchange.step x.x (clk x.n) (.openOrder (toXReq r))).2.1 = .order (.rejected err) := by
        rw [herr]
      have h2 : (MockExchange.step x.x (clk x.n) (.openOrder (toXReq r))).2.2 = [] := by rw [herr]
      refine ⟨?_, ?_, ?_⟩
      · rw [hstep.1, hout, h2]; rfl
      · rw [hstep.2, hout, h2]; rfl
      · rintro ⟨f, hf⟩; rw [h1] at hf; cases hf
  | some v =>
    obtain ⟨a, bal, tr⟩ := v
    have hI' : MockExchange.Spec.respond cfg (MockExchange.Spec.accepted cfg
        (MockExchange.opens cfg (exchHistory clk (rs.map Req.opn))))
        ⟨MockExchange.exchangeTime cfg (clk x.n), toXReq r⟩ = some (a, bal, tr) := hI
    rw [hI'] at href
    simp only at href
    rw [hI] at hsame
    cases hN : MockExchange.Spec.respond cfg (MockInstruments.specHistory ii mc (rs.map toOpen))
        ⟨MockExchange.exchangeTime cfg 0, toXReq r⟩ with
    | none => rw [hN] at hsame; simp [seen] at hsame
    | some w =>
      obtain ⟨a', bal', tr'⟩ := w
      rw [hN] at hsame hstep
      simp only [seen, Option.map_some, Option.some.injEq, Prod.mk.injEq] at hsame
      obtain ⟨ha, hb, hi, hsd, hp, hq, hfe⟩ := hsame
      simp only at hstep
      obtain ⟨hbal, htrd, _, hord⟩ := hstep
      have h2 : (MockExchange.step x.x (clk x.n) (.openOrder (toXReq r))).2.2 =
          [.balance a ⟨bal, bal, MockExchange.exchangeTime cfg (clk x.n)⟩, .trade tr] := by rw [href]
      have hside : ∀ sd : MockExchange.Side, sideXOfPos (sidePosOfX sd) = sd := by intro sd; cases sd <;> rfl
      have hqty : tr.qty = r.quantity := by
        unfold MockExchange.Spec.respond at hI
        split at hI
        · split at hI
          · cases hI
          · split at hI
            · cases hI
            · simp only [Option.some.injEq, Prod.mk.injEq] at hI
              rw [← hI.2.2]; rfl
        · cases hI
      refine ⟨?_, ?_, ?_⟩
      · rw [hbal, hout, h2, ha, hb]; rfl
      · rw [htrd, hout, h2, hi, hsd, hp, hq, hfe]
        simp [tradeOf, tradesOf, orderResponse, notif, toPosTrade, hside]
      · intro _
        rw [hord]
        have : r.quantity - tr'.qty = 0 := by
          rw [hq, hqty]; grind
        simp [this, toOpen]

/-! ## 4. Rejected orders change neither position nor balances -/

/-- (exchange side) An open request the exchange does not accept produces the order response and
NOTHING else — no balance snapshot, no fill — and leaves the ledger and the trade log untouched
(C08 `rejected_untouched` / `no_fill`); the response reports the order failed. -/
theorem rejected_changes_no_ledger (clk : Nat → Int) (x : LExch) (r : OpenReq)
    (hrej : ∀ f, (MockExchange.step x.x (clk x.n) (.openOrder (toXReq r))).2.1 ≠ .order (.accepted f)) :
    (respond clk x (.opn r)).2 =
      [.order r.key.instrument ⟨r.key.cid, r.quantity, r.price, .inactive .openFailed, r.key.exchange⟩] ∧
    MockExchange.ledger (respond clk x (.opn r)).1.x = MockExchange.ledger x.x ∧
    (respond clk x (.opn r)).1.x.trades = x.x.trades := by
  rcases step_open_facts x.x (clk x.n) (toXReq r) with ⟨f, h1, _⟩ | ⟨_, _, hev, htr, hled⟩
  · exact absurd h1 (hrej f)
  · obtain ⟨res, hres, _, hfail⟩ := exchange_response_is_final clk x r
    obtain ⟨res', hres', hout⟩ := response_is_exchange_answer clk x r
    have : res' = res := by rw [hres] at hres'; injection hres' with h; exact h.symm
    subst this
    refine ⟨?_, hled, htr⟩
    rw [hout, hev, hfail (fun f hf => hrej f (by rw [hres, hf]))]
    rfl

/-- (engine side) Processing an order response — of ANY kind — or a cancel response changes no
position and no balance register; only fills move positions, only balance snapshots move balances. -/
theorem order_response_changes_no_accounting (s : LEng) (i : Nat) (sn : Orders.Snap) (cid : Nat) (ok : Bool) :
    (lProcess s (.account (.order i sn))).1.pos = s.pos ∧
    (lProcess s (.account (.order i sn))).1.bal = s.bal ∧
    (lProcess s (.account (.cancelled i cid ok))).1.pos = s.pos ∧
    (lProcess s (.account (.cancelled i cid ok))).1.bal = s.bal :=
  ⟨rfl, rfl, rfl, rfl⟩

/-! ## 5. Before quiescence: the engine view is the accounting of what it has heard -/

/-- (5, the exact relation; every schedule, every moment — quiescent or not, running or stopped)
The engine's position table is the C02 fold over exactly the fills it has processed, in the order
processed, and its balance registers are the C09 registers fed exactly the balance items it has
processed. Hence its signed position on instrument `i` is the net of the fills HEARD for `i`, and its
balance register of asset `a` holds what `deliver` (the `<=` guard) makes of the balance messages
HEARD for `a`. -/
theorem engine_view_is_heard (clk : Nat → Int) (b : SystemBuild LEng) (c : MockExchange.Cfg)
    (acts : List (Act MktEv Command)) (nA k : Nat) (hf : Fresh b.engine nA k)
    (hpos : ∀ t ∈ tradesOf (accountOf (lreach clk b c acts).processed), 0 < t.quantity) :
    let s := lreach clk b c acts
    let heard := accountOf s.processed
    s.eng.state.pos = Position.Instruments.run (Position.Instruments.init k) (tradesOf heard) ∧
    s.eng.state.bal = (Stale.Eng.init nA k).fullSnapshot (balItemsOf heard) ∧
    (∀ i, i < k → enginePos s.eng.state i = Spec.heardPos heard i) ∧
    (∀ a, a < nA → s.eng.state.bal.assets[a]? =
      some (Stale.deliver false none (Spec.heardBalMsgs heard a))) := by
  intro s heard
  have hfold : s.eng.state = engFold lEngine b.engine s.processed :=
    (Props.C20S.engine_is_fold lEngine (lExchange clk) b (exchInit clk c).1 (exchInit clk c).2 acts).1
  have hp : s.eng.state.pos = Position.Instruments.run (Position.Instruments.init k) (tradesOf heard) := by
    rw [hfold, engFold_pos, hf.pos]
  have hb : s.eng.state.bal = (Stale.Eng.init nA k).fullSnapshot (balItemsOf heard) := by
    rw [hfold, engFold_bal, hf.bal]
  refine ⟨hp, hb, ?_, ?_⟩
  · intro i hi
    have hroute := Props.C02.engine_routes_per_instrument k (tradesOf heard) i hi
    have hpq : Position.PosQty ((tradesOf heard).filter fun f => f.instrument = i) :=
      fun f hf' => hpos f (List.mem_filter.mp hf').1
    have hnet := (Props.C02.size_is_net _ (Props.C02.oneInstrument_filter (tradesOf heard) i) hpq).1
    unfold enginePos Spec.heardPos
    rw [hp, hroute]
    exact hnet
  · intro a ha
    rw [hb]
    exact Props.C09.full_snapshot_item_by_item (Stale.Eng.init nA k) (balItemsOf heard) a none
      (by simp [Stale.Eng.init, ha])

/-- … and (C09 `carries_max`) as soon as a balance for `a` has been heard, the register holds a
balance that WAS heard, carrying the greatest exchange time heard — never an older one. -/
theorem heard_balance_is_latest_heard (clk : Nat → Int) (b : SystemBuild LEng) (c : MockExchange.Cfg)
    (acts : List (Act MktEv Command)) (nA k : Nat) (hf : Fresh b.engine nA k) (a : Nat) (ha : a < nA)
    (hne : Spec.heardBalMsgs (accountOf (lreach clk b c acts).processed) a ≠ []) :
    ∃ m, m ∈ Spec.heardBalMsgs (accountOf (lreach clk b c acts).processed) a ∧
      engineBal (lreach clk b c acts).eng.state a = some m.2 ∧
      ∀ m' ∈ Spec.heardBalMsgs (accountOf (lreach clk b c acts).processed) a, m'.1 ≤ m.1 := by
  have hfold : (lreach clk b c acts).eng.state = engFold lEngine b.engine (lreach clk b c acts).processed :=
    (Props.C20S.engine_is_fold lEngine (lExchange clk) b (exchInit clk c).1 (exchInit clk c).2 acts).1
  obtain ⟨r, hr, hmem, hmax⟩ := Props.C09.carries_max false _ hne
  refine ⟨r, hmem, ?_, hmax⟩
  have hreg := Props.C09.full_snapshot_item_by_item (Stale.Eng.init nA k)
    (balItemsOf (accountOf (lreach clk b c acts).processed)) a none (by simp [Stale.Eng.init, ha])
  have hr' : Stale.deliver false none (((balItemsOf (accountOf (lreach clk b c acts).processed)).filter
      (fun am => am.1 = a)).map (·.2)) = some r := hr
  unfold engineBal
  rw [hfold, engFold_bal, hf.bal, hreg, hr']

/-- (what has been heard is part of what happened) The fills the engine has processed are fills of
the exchange's own trade log, none twice: together with the fills still in flight (or lost behind a
`Shutdown`) they are exactly that log. The engine's view is a PREFIX VIEW of the exchange's. -/
theorem heard_is_part_of_exchange_log (clk : Nat → Int) (hclk : StrictClock clk) (b : SystemBuild LEng)
    (c : MockExchange.Cfg) (acts : List (Act MktEv Command)) :
    let s := lreach clk b c acts
    ∃ rest, (tradesOf (accountOf s.processed) ++ rest).Perm (s.exch.x.trades.map toPosTrade) := by
  intro s
  obtain ⟨rest, hr⟩ := (Props.C20S.streams_in_order lEngine (lExchange clk) b
    (exchInit clk c).1 (exchInit clk c).2 acts).1.2
  refine ⟨tradesOf rest, ?_⟩
  have := tradesOf_perm hr
  rw [tradesOf_append] at this
  rw [← (exchange_invariant clk hclk b c acts).trades]
  exact this

/-- (F11, the positive half) Once the engine has stopped — on `Shutdown` or on a fatal tick — no later
action changes what it has heard or shows: responses and notifications that were still in flight
stay unheard for ever. Nothing guarantees that the engine is quiescent when `Shutdown` is processed
(`shutdown_overtakes_fill_witness`); what `shutdown()` hands back is the accounting of `engine_view_is_heard`. -/
theorem stopped_engine_hears_nothing_more (clk : Nat → Int) (b : SystemBuild LEng) (c : MockExchange.Cfg)
    (acts more : List (Act MktEv Command)) (hst : (lreach clk b c acts).stopped.isSome) :
    (lreach clk b c (acts ++ more)).processed = (lreach clk b c acts).processed ∧
    (lreach clk b c (acts ++ more)).eng = (lreach clk b c acts).eng := by
  have h := Props.C20S.nothing_after_stop lEngine (lExchange clk) b (exchInit clk c).1
    (exchInit clk c).2 acts more hst
  exact ⟨h.2.1, h.2.2.1⟩

/-! ### The C20 finding F11, kept: `Shutdown` may overtake pending notifications -/

/-- one instrument, quote 1000, base 10, no fees, trading off -/
def wBuild : SystemBuild LEng := (SystemBuilder.new.engine_feed_mode .stream).build (lMkEngine 1)
def wCfg : MockExchange.Cfg := lCfg 1 1000 10 0 50
def wClk (n : Nat) : Int := n
def wOpen : OpenReq := ⟨⟨0, 0, 1⟩, .buy, 100, 1⟩

/-- the snapshot is processed, the user sends an open request and calls `shutdown()` before the
exchange's answer has come back: the engine processes the command, then the `Shutdown` -/
def wOvertaken : List (Act MktEv Command) :=
  [ .fwdAccount 0, .engine, .call (send_open_requests [wOpen]), .engine, .close .graceful, .engine ]

/-- the same calls, but the answers are delivered and processed before `shutdown()` is called -/
def wSettled : List (Act MktEv Command) :=
  [ .fwdAccount 0, .engine, .call (send_open_requests [wOpen]), .engine,
    .fwdAccount 0, .engine, .fwdAccount 0, .engine, .fwdAccount 0, .engine, .close .graceful, .engine ]

/-- (F11 witness) Two schedules of the same system with the same handle calls, both ending in a
graceful `shutdown()` that returns an engine: in both the exchange filled the order (trade log of
one fill, quote balance 900); the engine handed back shows a long position of 1 and quote 900 in one,
and NO position and quote 1000 in the other — with the order still marked in flight. The engine view
at shutdown is the view of what was heard, not of what happened. -/
theorem shutdown_overtakes_fill_witness :
    let a := lreach wClk wBuild wCfg wSettled
    let o := lreach wClk wBuild wCfg wOvertaken
    a.stopped = some .shutdown ∧ o.stopped = some .shutdown ∧
    (result a).isSome = true ∧ (result o).isSome = true ∧
    a.exch.x.trades.length = 1 ∧ o.exch.x.trades.length = 1 ∧
    Spec.net a.exch.x.trades 0 = 1 ∧ Spec.net o.exch.x.trades 0 = 1 ∧
    enginePos a.eng.state 0 = 1 ∧ enginePos o.eng.state 0 = 0 ∧
    engineBal a.eng.state 1 = some (900, 900) ∧ engineBal o.eng.state 1 = some (1000, 1000) ∧
    (MockExchange.ledger o.exch.x)[1]? = some (900, 900) ∧
    Engine.orderState a.eng.state.core 0 1 = none ∧
    Engine.orderState o.eng.state.core 0 1 = some .inFlight ∧
    Spec.agreeB a.eng.state a.exch.x = true ∧ Spec.agreeB o.eng.state o.exch.x = false := by
  decide +kernel

/-! ## 7. The input-level guard `PosOps` (review B C20E-3 / -5) -/

/-- The engine `SystemBuilder::build` builds for the correspondence is an ok state. -/
theorem lMkEngine_stateOk (k : Nat) (trading : Bool) : LStateOk (lMkEngine k trading) := by
  refine ⟨lMkEngine_posSync k trading, ?_, ?_, ?_⟩
  · intro j r hr p hp
    simp only [lMkEngine, Position.Instruments.init] at hr
    have : r = Position.Run.init := by
      have := List.mem_of_getElem? hr
      simpa using (List.eq_of_mem_replicate this)
    rw [this] at hp
    cases hp
  · intro st hst p hp
    simp only [lMkEngine, List.mem_map] at hst
    obtain ⟨j, _, rfl⟩ := hst
    cases hp
  · intro t ht; simp [lMkEngine] at ht

theorem lInit_posInv (clk : Nat → Int) (b : SystemBuild LEng) (c : MockExchange.Cfg) (hok : LStateOk b.engine) :
    LPosInv (lInit clk b c) :=
  { reqs := by intro r hr; simp [lInit, SystemBuild.init] at hr
    pend := by
      intro a ha
      simp only [lInit, SystemBuild.init, exchInit, List.mem_singleton] at ha
      subst ha; trivial
    feed := by intro ev hev; simp [lInit, SystemBuild.init] at hev
    mkt := by intro m hm; simp [lInit, SystemBuild.init] at hm
    proc := by intro ev hev; simp [lInit, SystemBuild.init] at hev
    st := hok }

/-- (`hpos` DISCHARGED FROM THE INPUTS) If every open request sent through the handle and every market
item pushed satisfies the guard `PosOps` (positive prices and quantities: what harness and drivers
enforce, anything else is outside the generator), then along EVERY schedule every request the engine
sends — the user's, the strategy's reactions, AND the closing orders `close_positions` derives from the
engine's own positions and last prices — carries a positive price and a positive quantity; in
particular `PosReq` holds of the whole request log. -/
theorem posOps_requests_positive (clk : Nat → Int) (b : SystemBuild LEng) (c : MockExchange.Cfg)
    (acts : List (Act MktEv Command)) (hok : LStateOk b.engine) (hops : PosOps acts) :
    (∀ r ∈ (lreach clk b c acts).requests, LReqOk r) ∧
    (∀ r ∈ (lreach clk b c acts).requests, PosReq r) ∧
    LStateOk (lreach clk b c acts).eng.state := by
  have h := lPosInv_run clk acts _ (lInit_posInv clk b c hok) hops
  exact ⟨h.reqs, fun r hr => (h.reqs r hr).posReq, h.st⟩

/-- (no panic under the guard) Under `PosOps`, along every schedule, NO tick of the engine hits a
vanishing divisor of the position code: for every processed event, `tickPanics` is false in the state
the event was applied to. -/
theorem posOps_no_panic (clk : Nat → Int) (b : SystemBuild LEng) (c : MockExchange.Cfg)
    (acts : List (Act MktEv Command)) (hok : LStateOk b.engine) (hops : PosOps acts)
    (pre post : List LEv) (ev : LEv) (hp : (lreach clk b c acts).processed = pre ++ ev :: post) :
    tickPanics (engFold lEngine b.engine pre) ev = false := by
  have h := lPosInv_run clk acts _ (lInit_posInv clk b c hok) hops
  have hproc : ∀ x ∈ pre, LEvOk x ∧ LEvGuard x := by
    intro x hx
    apply h.proc x
    show x ∈ (lreach clk b c acts).processed
    rw [hp]; simp [hx]
  exact tickPanics_false _ ev (lStateOk_engFold b.engine pre hok hproc)


/-! ## 8. The ops-level specification (review B C20E-1) -/

/-- the built engine starts linked to the specification's empty book -/
theorem lMkEngine_slink (k : Nat) (trading : Bool) : SLink (lMkEngine k trading) ⟨trading, []⟩ :=
  { trading := rfl, links := rfl, le := Nat.le_refl _, un := rfl, settled := fun _ => rfl
    exch := by
      intro j st' h
      simp only [lMkEngine, List.getElem?_map] at h
      cases hr : (List.range k)[j]? with
      | none => simp [hr] at h
      | some v => simp only [hr, Option.map_some, Option.some.injEq] at h; rw [← h] }

theorem handleOf_scriptOf (h : List LEv) : handleOf (OpsSpec.scriptOf h) = handleOf h := by
  induction h with
  | nil => rfl
  | cons ev h ih => cases ev <;> simp_all [OpsSpec.scriptOf, handleOf, Ev.isHandle, List.filter_cons]

theorem marketOf_scriptOf (h : List LEv) : marketOf (OpsSpec.scriptOf h) = marketOf h := by
  induction h with
  | nil => rfl
  | cons ev h ih => cases ev <;> simp_all [OpsSpec.scriptOf, marketOf, Ev.market?, List.filter_cons, List.filterMap_cons]

/-- (requests, every schedule, every moment) Along every schedule from the built engine, as long as the
script processed so far is in the class `Det` (no `close_positions` / `cancel_orders` command, every
request addressed to the one exchange and one of its `k` instruments), the requests the engine has sent
are EXACTLY those the ops-level specification derives from the script — the handle and market events
in the order processed —: same requests, same order, nothing of the engine's own. -/
theorem requests_refine_ops_spec (clk : Nat → Int) (b : SystemBuild LEng) (c : MockExchange.Cfg)
    (acts : List (Act MktEv Command)) (k : Nat) (trading : Bool) (hb : b.engine = lMkEngine k trading)
    (hdet : OpsSpec.Det k (OpsSpec.scriptOf (lreach clk b c acts).processed)) :
    (lreach clk b c acts).requests =
      OpsSpec.requests trading (OpsSpec.scriptOf (lreach clk b c acts).processed) := by
  have h := (Props.C20S.requests_reach_exchange_in_order lEngine (lExchange clk) b
    (exchInit clk c).1 (exchInit clk c).2 acts).1
  have h : (lreach clk b c acts).requests = _ := h
  rw [h]
  exact requestsOf_refines k _ (eng0 b.engine b.auditMode) ⟨trading, []⟩
    (by show SLink b.engine _; rw [hb]; exact lMkEngine_slink k trading) hdet

/-- (`…_refines_ops_spec`: ops-spec ⊒ model) At quiescence — every schedule — for a script in the class
`Det` under the input guard `PosOps`, everything the two views show is what the SPECIFICATIONS compute
from the script alone: the exchange's own ledger and trade log are the C08 specification's (accepted
iff funds, exact debit, one fill per accepted order) over the script's requests; the engine's position
on every instrument is the C02 net of those fills; its balance of every asset is that ledger's entry;
the responses it has processed are, as a multiset, one per request of the script; it tracks no order
(C01: every life cycle closed by its response); and the script IS what the user did: all handle events
sent, in call order, and all market items pushed, in order (their interleaving is the scheduler's). -/
theorem model_refines_ops_spec (clk : Nat → Int) (hclk : StrictClock clk) (b : SystemBuild LEng)
    (c : MockExchange.Cfg) (acts : List (Act MktEv Command)) (k : Nat) (trading : Bool) (hc : c.wf = true)
    (hb : b.engine = lMkEngine k trading) (hk : c.instruments.length = k) (hn : c.init.length = k + 1)
    (hops : PosOps acts) (hq : Quiescent (lreach clk b c acts))
    (hdet : OpsSpec.Det k (OpsSpec.scriptOf (lreach clk b c acts).processed)) :
    let s := lreach clk b c acts
    let script := OpsSpec.scriptOf s.processed
    MockExchange.ledger s.exch.x = OpsSpec.ledger c clk trading script ∧
    s.exch.x.trades = MockExchange.Spec.fills c (OpsSpec.accepted c clk trading script) ∧
    (∀ i, i < k → enginePos s.eng.state i = OpsSpec.net c clk trading script i) ∧
    (∀ a, a < k + 1 → engineBal s.eng.state a = (OpsSpec.ledger c clk trading script)[a]?) ∧
    ((accountOf s.processed).filterMap responseIdent).Perm (OpsSpec.responses trading script) ∧
    (∀ i cid, Engine.orderState s.eng.state.core i cid = none) ∧
    handleOf script = s.sent ∧ marketOf script = s.pushed := by
  intro s script
  have hreq := requests_refine_ops_spec clk b c acts k trading hb hdet
  have hok : LStateOk b.engine := by rw [hb]; exact lMkEngine_stateOk k trading
  have hpos := (posOps_requests_positive clk b c acts hok hops).2.1
  have hf : Fresh b.engine c.init.length c.instruments.length := by
    rw [hb, hk, hn]; exact lMkEngine_fresh k trading
  have hlog := (engine_log_is_requests clk b c acts hf.log).1
  have hview := engine_view_refines_exchange_spec clk hclk b c acts hc hf hpos hq
  simp only at hview
  rw [hlog, hreq] at hview
  have hrun := (exchange_is_C08_run clk b c acts).1
  have hspec := Props.C08.refines_spec hc (exchHistory clk (lreach clk b c acts).requests)
  rw [hreq] at hspec hrun
  have hqp := Props.C20S.quiescent_everything_processed lEngine (lExchange clk) b
    (exchInit clk c).1 (exchInit clk c).2 acts hq
  refine ⟨?_, ?_, ?_, ?_, ?_, ?_, ?_, ?_⟩
  · show MockExchange.ledger (lreach clk b c acts).exch.x = _
    rw [hrun]; exact hspec.1
  · show (lreach clk b c acts).exch.x.trades = _
    rw [hrun]; exact hspec.2.1
  · intro i hi; exact hview.1 i (by rw [hk]; exact hi)
  · intro a ha; exact hview.2 a (by rw [hn]; exact ha)
  · have := responses_are_requests_at_quiescence clk b c acts hq
    simp only at this
    rw [hreq] at this
    exact this
  · intro i cid
    apply no_order_tracked_at_quiescence clk b c acts _ hq i cid
    intro i cid; rw [hb]; exact lMkEngine_no_orders k trading i cid
  · rw [handleOf_scriptOf]; exact hqp.1
  · rw [marketOf_scriptOf]; exact hqp.2.1

/-- (3 with `hpos` discharged) Accounting agreement at quiescence under the input-level guard. -/
theorem accounting_agreement_at_quiescence_of_posOps (clk : Nat → Int) (hclk : StrictClock clk)
    (b : SystemBuild LEng) (c : MockExchange.Cfg) (acts : List (Act MktEv Command))
    (hf : Fresh b.engine c.init.length c.instruments.length) (hok : LStateOk b.engine)
    (hops : PosOps acts) (hq : Quiescent (lreach clk b c acts)) :
    Spec.Agree (lreach clk b c acts).eng.state (lreach clk b c acts).exch.x :=
  accounting_agreement_at_quiescence clk hclk b c acts hf
    (posOps_requests_positive clk b c acts hok hops).2.1 hq

/-! ### What the guard excludes: the real engine panics (witnesses) -/

/-- a buy of 1 at price 0 is accepted and filled; then a sell of 2 at price 0 is accepted and its
response and balance have been processed — the fill that flips the position is next -/
def wPriceZero : List (Act MktEv Command) :=
  [ .fwdAccount 0, .engine, .call (send_open_requests [⟨⟨0, 0, 11⟩, .buy, 0, 1⟩]), .engine,
    .fwdAccount 0, .engine, .fwdAccount 0, .engine, .fwdAccount 0, .engine,
    .call (send_open_requests [⟨⟨0, 0, 12⟩, .sell, 0, 2⟩]), .engine,
    .fwdAccount 0, .engine, .fwdAccount 0, .engine ]

/-- (review B C20E-3, the reviewer's case `price0`) A position entered at price 0 — outside the guard
`PosOps` — makes the REAL engine panic when it exits: `calculate_pnl_return` divides by
`price_entry_average * quantity_abs_max = 0` (position.rs:549-555). The model continues (the `Rat`
division gives 0); `tickPanics` says where the code does not: the one account event still pending is
the flipping fill, and the tick that would process it panics. Harness and model driver print `panic`
there (corpus/C20E/review_b.ops `price0`). -/
theorem price_zero_exit_panics_witness :
    let s := lreach wClk wBuild wCfg wPriceZero
    s.stopped = none ∧ s.feed = [] ∧ s.pending.length = 1 ∧
    enginePos s.eng.state 0 = 1 ∧
    s.pending.map (fun a => tickPanics s.eng.state (.account a)) = [true] := by
  decide +kernel

/-- an open request of quantity 0 is accepted and "filled" -/
def wZeroQty : List (Act MktEv Command) :=
  [ .fwdAccount 0, .engine, .call (send_open_requests [⟨⟨0, 0, 11⟩, .buy, 100, 0⟩]), .engine,
    .fwdAccount 0, .engine, .fwdAccount 0, .engine, .fwdAccount 0, .engine ]

/-- (review B C20S-2) A zero-quantity fill opens a position with `quantity_abs_max = 0`; the model is
quiescent and continues, the REAL engine panics on the NEXT event that touches the position — a market
price for the instrument, or any fill that does not increase it by a positive amount —:
`quantity_abs / quantity_abs_max` = 0 / 0 in `approximate_remaining_exit_fees` (position.rs:517-523). A
same-side fill of positive quantity repairs the position (no panic). -/
theorem zero_quantity_position_panics_witness :
    let s := lreach wClk wBuild wCfg wZeroQty
    s.stopped = none ∧ s.feed = [] ∧ s.pending = [] ∧ s.market = [] ∧
    tickPanics s.eng.state (.market ⟨0, 0, 100, none, false⟩) = true ∧
    tickPanics s.eng.state (.account (.trade ⟨1, 0, 5, .buy, 100, 0, 0⟩)) = true ∧
    tickPanics s.eng.state (.account (.trade ⟨1, 0, 5, .sell, 100, 1, 0⟩)) = true ∧
    tickPanics s.eng.state (.account (.trade ⟨1, 0, 5, .buy, 100, 1, 0⟩)) = false := by
  decide +kernel

/-! ## Non-vacuity -/

example : StrictClock wClk := fun n => by show (n : Int) < ((n + 1 : Nat) : Int); omega
example : Fresh wBuild.engine wCfg.init.length wCfg.instruments.length := ⟨rfl, rfl, rfl⟩
/-- a quiescent reachable state with a fill and a rejection behind it: the hypotheses of (3) hold -/
def wQuiet : List (Act MktEv Command) :=
  [ .fwdAccount 0, .engine, .call (send_open_requests [wOpen, ⟨⟨0, 0, 2⟩, .sell, 100, 20⟩]), .engine,
    .fwdAccount 3, .engine, .fwdAccount 0, .engine, .fwdAccount 1, .engine, .fwdAccount 0, .engine ]
example : (lreach wClk wBuild wCfg wQuiet).stopped = none ∧ (lreach wClk wBuild wCfg wQuiet).feed = [] ∧
    (lreach wClk wBuild wCfg wQuiet).market = [] ∧ (lreach wClk wBuild wCfg wQuiet).pending = [] := by
  decide +kernel
example : ∀ r ∈ (lreach wClk wBuild wCfg wQuiet).requests, PosReq r := by decide +kernel
example : wCfg.wf = true := by decide +kernel
example : (lreach wClk wBuild wCfg wQuiet).requests.length = 2 ∧
    enginePos (lreach wClk wBuild wCfg wQuiet).eng.state 0 = 1 ∧
    Spec.agreeB (lreach wClk wBuild wCfg wQuiet).eng.state (lreach wClk wBuild wCfg wQuiet).exch.x = true := by
  decide +kernel

-- the hypotheses of §7 / §8 hold of the quiescent schedule `wQuiet`, and there the ops-level
-- specification's requests ARE the engine's
example : PosOps wQuiet := by decide +kernel
example : OpsSpec.Det 1 (OpsSpec.scriptOf (lreach wClk wBuild wCfg wQuiet).processed) := by decide +kernel
example : (lreach wClk wBuild wCfg wQuiet).requests =
    OpsSpec.requests false (OpsSpec.scriptOf (lreach wClk wBuild wCfg wQuiet).processed) ∧
    OpsSpec.net wCfg wClk false (OpsSpec.scriptOf (lreach wClk wBuild wCfg wQuiet).processed) 0 = 1 ∧
    (OpsSpec.ledger wCfg wClk false (OpsSpec.scriptOf (lreach wClk wBuild wCfg wQuiet).processed))[1]? =
      some (900, 900) := by
  decide +kernel

end BarterModel.Props.C20E
