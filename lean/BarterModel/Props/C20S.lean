import BarterModel.Lemmas.SysHandle
/-!
# C20S — the `System` handle and the `SystemBuilder` wiring (sub-check registered under C20)

Model: `Model/SysHandle.lean`. A running system = the user holding the handle + market forwarder +
account forwarder + engine runner, talking through one unbounded FIFO feed; every scheduling decision
(tokio's, or the operating system's for the blocking thread of the `Iterator` feed mode) is an
explicit `Act`. The engine `E` (strategy, risk manager, clock, all state) and the execution side `X`
are arbitrary, and so are the settings `b` the builder was given. Unless said otherwise a theorem
holds for EVERY action list `acts` from `SystemBuild::init`; nothing is bounded.

What a user of this code relies on, and where it is proved:
* builder: documented defaults, one setting per setter, last call wins — `builder_*`, `init_*`;
* the four runners of `engine/run.rs` compute the same thing: the two feed modes agree on every
  feed, the audit mode only adds the ticks — `feed_modes_agree`, `audit_mode_only_adds_ticks`,
  `runner_closed_form`, and a stopped system is in exactly the state the chosen runner function
  returns on the channel's content — `stopped_state_is_runner_output`;
* every event sent through the handle reaches `Engine::process` at most once, in call order, never
  overtaken by a later call — `commands_once_in_order`, `applied_in_send_order`,
  `earlier_calls_applied_before`;
* `shutdown()` / `abort()` hand back the engine that processed exactly the recorded history: all
  handle events sent, in order, `Shutdown` last and only once; nothing enqueued behind the
  `Shutdown` is ever processed — `result_is_fold`, `result_on_shutdown`, `nothing_after_stop`,
  `refines_spec`;
* `abort` differs from `shutdown` in NOTHING the engine or the feed can see — `abort_eq_shutdown`;
* audit: enabled ⇒ snapshot with sequence 0 and one gap-free tick per processed event, terminal tick
  last; disabled ⇒ no snapshot, no tick; `take_audit` yields it once — `audit_*`, `take_audit_*`;
* once the engine has stopped by itself every handle call panics and the engine can only be
  obtained from the join handle — `call_after_stop_panics`, `close_after_stop_panics`;
* quiescence ⇒ everything sent / yielded / produced so far has been processed —
  `quiescent_everything_processed`; the execution side sees exactly the engine's requests, in order —
  `requests_reach_exchange_in_order`.
The concrete part (engine model of `Model/Engine.lean` + the harness's strategy + mock exchange) adds
`trading_is_last_update`, `disabled_calls_count` and the link to the C10 replica theorem
(`audit_replica_reproduces_engine`).
-/
namespace BarterModel.Props.C20S
open BarterModel.SysHandle

variable {σ χ μ α κ ρ : Type}

/-! ## `SystemBuilder` -/

/-- Documented defaults: `EngineFeedMode::Iterator`, `AuditMode::Disabled`, `TradingState::Disabled`. -/
theorem builder_defaults (mk : Bool → σ) :
    (SystemBuilder.new.build mk).engineFeedMode = .iterator ∧
    (SystemBuilder.new.build mk).auditMode = .disabled ∧
    (SystemBuilder.new.build mk).engine = mk false := ⟨rfl, rfl, rfl⟩

/-- Each setter determines its own setting of the build and no other. -/
theorem builder_setters (b : SystemBuilder) (mk : Bool → σ) (m : EngineFeedMode) (a : AuditMode) (t : Bool) :
    ((b.engine_feed_mode m).build mk).engineFeedMode = m ∧
    ((b.engine_feed_mode m).build mk).auditMode = (b.build mk).auditMode ∧
    ((b.engine_feed_mode m).build mk).engine = (b.build mk).engine ∧
    ((b.audit_mode a).build mk).auditMode = a ∧
    ((b.audit_mode a).build mk).engineFeedMode = (b.build mk).engineFeedMode ∧
    ((b.audit_mode a).build mk).engine = (b.build mk).engine ∧
    ((b.trading_state t).build mk).engine = mk t ∧
    ((b.trading_state t).build mk).engineFeedMode = (b.build mk).engineFeedMode ∧
    ((b.trading_state t).build mk).auditMode = (b.build mk).auditMode :=
  ⟨rfl, rfl, rfl, rfl, rfl, rfl, rfl, rfl, rfl⟩

/-- Calling a setter twice keeps the last value; different setters commute. -/
theorem builder_last_call_wins (b : SystemBuilder) (m m' : EngineFeedMode) (a a' : AuditMode) (t t' : Bool) :
    (b.engine_feed_mode m).engine_feed_mode m' = b.engine_feed_mode m' ∧
    (b.audit_mode a).audit_mode a' = b.audit_mode a' ∧
    (b.trading_state t).trading_state t' = b.trading_state t' ∧
    (b.engine_feed_mode m).audit_mode a = (b.audit_mode a).engine_feed_mode m ∧
    (b.engine_feed_mode m).trading_state t = (b.trading_state t).engine_feed_mode m ∧
    (b.audit_mode a).trading_state t = (b.trading_state t).audit_mode a :=
  ⟨rfl, rfl, rfl, rfl, rfl, rfl⟩

/-- `init`: the engine starts at sequence 0, or at 1 when the audit snapshot consumed 0; the
snapshot is the built engine state; the audit is present exactly when enabled. -/
theorem init_audit (b : SystemBuild σ) (x0 : χ) (acc0 : List α) :
    let s : Sys σ χ μ α κ ρ := b.init x0 acc0
    (b.auditMode = .enabled → s.eng.seq = 1 ∧ s.snapshot = some (b.engine, 0) ∧ s.auditHeld = true) ∧
    (b.auditMode = .disabled → s.eng.seq = 0 ∧ s.snapshot = none ∧ s.auditHeld = false) ∧
    s.eng.state = b.engine ∧ s.feed = [] ∧ s.stopped = none := by
  refine ⟨?_, ?_, rfl, rfl, rfl⟩
  · intro h; simp [SystemBuild.init, seq0, h]
  · intro h; simp [SystemBuild.init, seq0, h]

/-! ## The four runners of `engine/run.rs` -/

/-- The feed mode does not matter: on every feed the `Iterator` runner and the `Stream` runner return
the same engine, the same shutdown audit, the same audit ticks, the same requests and leave the same
rest. Exact condition: the SAME sequence of events is delivered to the runner (in the model: the same
list); what differs in the code is only how the runner waits (`try_recv` spin on a blocking thread vs
`.await`), which the model does not exhibit. -/
theorem feed_modes_agree (E : Engine σ μ α κ ρ) (a : AuditMode) (e : Eng σ) (feed : List (Ev μ α κ)) :
    runner E .iterator a e feed = runner E .stream a e feed := by
  cases a
  · exact (asyncRunWithAudit_eq_syncRunWithAudit E e feed).symm
  · exact (asyncRun_eq_syncRun E e feed).symm

/-- The audit mode only adds the ticks: engine, returned audit, requests and rest are those of the
runner without audit, which sends nothing. -/
theorem audit_mode_only_adds_ticks (E : Engine σ μ α κ ρ) (m : EngineFeedMode) (e : Eng σ)
    (feed : List (Ev μ α κ)) :
    (runner E m .enabled e feed).engine = (runner E m .disabled e feed).engine ∧
    (runner E m .enabled e feed).shutdownAudit = (runner E m .disabled e feed).shutdownAudit ∧
    (runner E m .enabled e feed).requests = (runner E m .disabled e feed).requests ∧
    (runner E m .enabled e feed).rest = (runner E m .disabled e feed).rest ∧
    (runner E m .disabled e feed).sent = [] := by
  have h := syncRunWithAudit_eq_syncRun E e feed
  have hs := syncRun_sent E e feed
  cases m
  · simp only [runner]
    rw [h]; exact ⟨rfl, rfl, rfl, rfl, hs⟩
  · simp only [runner, asyncRunWithAudit_eq_syncRunWithAudit, asyncRun_eq_syncRun]
    rw [h]; exact ⟨rfl, rfl, rfl, rfl, hs⟩

/-- Closed form of every runner: it consumes the feed up to and including the first terminal tick
(`consumed`), or all of it plus one `FeedEnded` tick when every sender is gone first; the engine is
`process_with_audit` folded over what was consumed; with the audit enabled exactly the ticks of the
consumed events are sent, the returned audit last; none but the last is terminal. -/
theorem runner_closed_form (E : Engine σ μ α κ ρ) (m : EngineFeedMode) (a : AuditMode) (e : Eng σ)
    (feed : List (Ev μ α κ)) :
    consumed E e feed ++ (runner E m a e feed).rest = feed ∧
    (runner E m a e feed).engine.state = engFold E e.state (consumed E e feed) ∧
    (runner E m a e feed).engine.seq =
      e.seq + (consumed E e feed).length + (if feedEnds E e feed then 1 else 0) ∧
    (a = .enabled → (runner E m a e feed).sent = ticksOf E e (consumed E e feed) ++
        (if feedEnds E e feed then [.feedEnded (e.seq + (consumed E e feed).length)] else []) ∧
      (runner E m a e feed).sent.getLast? = some (runner E m a e feed).shutdownAudit) ∧
    (feedEnds E e feed = false → terminalLast (ticksOf E e (consumed E e feed)) = true) ∧
    (feedEnds E e feed = true → ∀ t ∈ ticksOf E e (consumed E e feed), t.terminal = false) := by
  have hr : (runner E m a e feed).rest = (syncRun E e feed).rest ∧
      (runner E m a e feed).engine = (syncRun E e feed).engine := by
    rw [runner_eq]
    split
    · rw [syncRunWithAudit_eq_syncRun]; exact ⟨rfl, rfl⟩
    · exact ⟨rfl, rfl⟩
  have heng := syncRun_engine E e feed
  refine ⟨by rw [hr.1]; exact syncRun_rest E e feed, ?_, ?_, ?_, (consumed_terminal E e feed).2,
    (consumed_terminal E e feed).1⟩
  · rw [hr.2, heng]; split <;> simp [engAfter_state]
  · rw [hr.2, heng]; split <;> simp [engAfter_seq]
  · intro ha
    rw [runner_eq]; simp only [ha, ↓reduceIte]
    refine ⟨?_, syncRunWithAudit_last E e feed⟩
    rw [syncRunWithAudit_sent, engAfter_seq]

/-! ## The running system, for every schedule -/

/-- `acts` from `SystemBuild::init`. -/
abbrev reach (E : Engine σ μ α κ ρ) (X : Exchange χ ρ α) (b : SystemBuild σ) (x0 : χ) (acc0 : List α)
    (acts : List (Act μ κ)) : Sys σ χ μ α κ ρ := run E X (b.init x0 acc0) acts

/-- (handle → engine) Every event sent through the handle is, at any moment of any schedule, either
already processed or still queued on the feed — never both, never lost, never duplicated — and the
processed ones and the queued ones appear in exactly the order of the calls. In particular the
handle events the engine has processed are a prefix of those sent. -/
theorem commands_once_in_order (E : Engine σ μ α κ ρ) (X : Exchange χ ρ α) (b : SystemBuild σ)
    (x0 : χ) (acc0 : List α) (acts : List (Act μ κ)) :
    let s := reach E X b x0 acc0 acts
    handleOf s.processed ++ handleOf s.feed = s.sent ∧ handleOf s.processed <+: s.sent := by
  intro s
  have hf : FlowInv s := (inv_reach E X b x0 acc0 acts).flow
  exact ⟨hf.handle, ⟨handleOf s.feed, hf.handle⟩⟩

/-- (send order = application order) When the engine processes a handle event `ev`, the history it
has processed so far (`pre`) contains exactly the handle events sent BEFORE `ev` — all of them, in
call order, none sent later — and the state `ev` is applied to is the built engine fed `pre`. -/
theorem applied_in_send_order (E : Engine σ μ α κ ρ) (X : Exchange χ ρ α) (b : SystemBuild σ)
    (x0 : χ) (acc0 : List α) (acts : List (Act μ κ)) (pre post : List (Ev μ α κ)) (ev : Ev μ α κ)
    (hp : (reach E X b x0 acc0 acts).processed = pre ++ ev :: post) (hev : ev.isHandle = true) :
    let s := reach E X b x0 acc0 acts
    handleOf pre = s.sent.take (handleOf pre).length ∧
    s.sent[(handleOf pre).length]? = some ev ∧
    engFold E b.engine (pre ++ [ev]) = (E.process (engFold E b.engine pre) ev).1 := by
  intro s
  have hf : FlowInv s := (inv_reach E X b x0 acc0 acts).flow
  have h := hf.handle
  have hp' : s.processed = pre ++ ev :: post := hp
  have hs : s.sent = handleOf pre ++ ev :: (handleOf post ++ handleOf s.feed) := by
    rw [← h, hp']
    simp [handleOf_cons_of_handle _ _ hev, List.append_assoc]
  refine ⟨?_, ?_, engFold_append E b.engine pre ev⟩
  · rw [hs]; simp
  · rw [hs]; simp

/-- … hence a call made earlier is applied earlier: if the `j`-th handle event sent has been
processed, so has every `i`-th with `i < j`, and it stands before it in the processed history.
(`trading_state(x)` sent before command `c` is applied before `c`.) -/
theorem earlier_calls_applied_before (E : Engine σ μ α κ ρ) (X : Exchange χ ρ α) (b : SystemBuild σ)
    (x0 : χ) (acc0 : List α) (acts : List (Act μ κ)) (pre post : List (Ev μ α κ)) (ev : Ev μ α κ)
    (hp : (reach E X b x0 acc0 acts).processed = pre ++ ev :: post) (hev : ev.isHandle = true)
    (i : Nat) (hi : i < (handleOf pre).length) :
    ∃ x, (reach E X b x0 acc0 acts).sent[i]? = some x ∧ x ∈ pre := by
  have h := (applied_in_send_order E X b x0 acc0 acts pre post ev hp hev).1
  refine ⟨(handleOf pre)[i], ?_, ?_⟩
  · rw [← List.getElem?_eq_getElem hi]
    conv => rhs; rw [h]
    rw [List.getElem?_take]; simp [hi]
  · exact (mem_handleOf.mp (List.getElem_mem hi)).1

/-- (own engine) At every moment the engine is the built engine fed exactly the processed history,
its sequence counts that history (plus the audit snapshot), and the execution side has received
exactly the requests the engine sent along it, in order, and produced its account events from them. -/
theorem engine_is_fold (E : Engine σ μ α κ ρ) (X : Exchange χ ρ α) (b : SystemBuild σ)
    (x0 : χ) (acc0 : List α) (acts : List (Act μ κ)) :
    let s := reach E X b x0 acc0 acts
    IsFoldOf E b.engine b.auditMode s.processed s.eng := by
  intro s
  have h : s.eng = engAfter E (eng0 b.engine b.auditMode) s.processed :=
    (inv_reach E X b x0 acc0 acts).own.own
  refine ⟨?_, ?_⟩
  · rw [h, engAfter_state]; rfl
  · rw [h, engAfter_seq]; rfl

theorem requests_reach_exchange_in_order (E : Engine σ μ α κ ρ) (X : Exchange χ ρ α) (b : SystemBuild σ)
    (x0 : χ) (acc0 : List α) (acts : List (Act μ κ)) :
    let s := reach E X b x0 acc0 acts
    s.requests = requestsOf E (eng0 b.engine b.auditMode) s.processed ∧
    s.exch = (respondAll X x0 s.requests).1 ∧
    s.produced = acc0 ++ (respondAll X x0 s.requests).2 := by
  intro s
  have h : OwnInv E X b.engine x0 acc0 b.auditMode s := (inv_reach E X b x0 acc0 acts).own
  exact ⟨h.reqs, h.exch, h.produced⟩

/-- (market / account streams) Market events are processed in the order the stream yielded them,
without gap or repetition; account events processed are events the execution side produced, none
twice; while the engine runs nothing is lost anywhere. -/
theorem streams_in_order (E : Engine σ μ α κ ρ) (X : Exchange χ ρ α) (b : SystemBuild σ)
    (x0 : χ) (acc0 : List α) (acts : List (Act μ κ)) :
    let s := reach E X b x0 acc0 acts
    FromTheStreams s.pushed s.produced s.processed ∧
    (s.stopped = none →
      marketOf s.processed ++ marketOf s.feed ++ s.market = s.pushed ∧
      (accountOf s.processed ++ accountOf s.feed ++ s.pending).Perm s.produced) := by
  intro s
  have h : FlowInv s := (inv_reach E X b x0 acc0 acts).flow
  refine ⟨⟨?_, ?_⟩, fun h0 => ⟨h.mkt h0, h.acc h0⟩⟩
  · obtain ⟨rest, hr⟩ := h.mktPre
    exact ⟨marketOf s.feed ++ rest, by rw [← hr]; simp [List.append_assoc]⟩
  · obtain ⟨rest, hr⟩ := h.accSub
    exact ⟨accountOf s.feed ++ rest, by simpa [List.append_assoc] using hr⟩

/-- (quiescence) When nothing is in flight any more, everything sent through the handle, everything
the market stream yielded and everything the execution side produced has been processed. -/
theorem quiescent_everything_processed (E : Engine σ μ α κ ρ) (X : Exchange χ ρ α) (b : SystemBuild σ)
    (x0 : χ) (acc0 : List α) (acts : List (Act μ κ)) :
    let s := reach E X b x0 acc0 acts
    Quiescent s →
      handleOf s.processed = s.sent ∧ marketOf s.processed = s.pushed ∧
      (accountOf s.processed).Perm s.produced := by
  intro s hq
  obtain ⟨h0, hf, hm, hp⟩ := hq
  have h : FlowInv s := (inv_reach E X b x0 acc0 acts).flow
  refine ⟨?_, ?_, ?_⟩
  · simpa [hf] using h.handle
  · simpa [hf, hm] using h.mkt h0
  · simpa [hf, hp] using h.acc h0

/-- (the runner stops on the first terminal tick) While the engine runs no processed event was a
`Shutdown` or fatal; once it has stopped the LAST processed event is the terminal one, no earlier one
is, the audit handed back is that event's, and the reason recorded is `shutdown` exactly when that
event is the `Shutdown`. -/
theorem stops_on_first_terminal (E : Engine σ μ α κ ρ) (X : Exchange χ ρ α) (b : SystemBuild σ)
    (x0 : χ) (acc0 : List α) (acts : List (Act μ κ)) :
    let s := reach E X b x0 acc0 acts
    (s.stopped = none → (∀ t ∈ ticksOf E (eng0 b.engine b.auditMode) s.processed, t.terminal = false) ∧
      s.shutdownAudit = none ∧ Ev.shutdown ∉ s.processed) ∧
    (∀ st, s.stopped = some st → ∃ pre last, s.processed = pre ++ [last] ∧
      (∀ t ∈ ticksOf E (eng0 b.engine b.auditMode) pre, t.terminal = false) ∧ Ev.shutdown ∉ pre ∧
      s.shutdownAudit = some (processWithAudit E (engAfter E (eng0 b.engine b.auditMode) pre) last).2.1 ∧
      (processWithAudit E (engAfter E (eng0 b.engine b.auditMode) pre) last).2.1.terminal = true ∧
      (st = .shutdown ↔ last = .shutdown)) := by
  intro s
  have h : HaltInv E b.engine b.auditMode s := (inv_reach E X b x0 acc0 acts).halt
  refine ⟨?_, ?_⟩
  · intro h0
    have := h.running h0
    exact ⟨this.1, this.2, no_shutdown_of_nonterminal E _ _ this.1⟩
  · intro st hst
    obtain ⟨pre, last, h1, h2, h3, h4, h5⟩ := h.halted st hst
    refine ⟨pre, last, h1, h2, no_shutdown_of_nonterminal E _ _ h2, h3, h4, ?_⟩
    rw [h5]; cases last <;> simp [Ev.isShutdown]

/-- (`shutdown()` / `abort()` return value) Whatever they return is the engine of `engine_is_fold`
together with the audit of the last processed event. -/
theorem result_is_fold (E : Engine σ μ α κ ρ) (X : Exchange χ ρ α) (b : SystemBuild σ)
    (x0 : χ) (acc0 : List α) (acts : List (Act μ κ)) (e : Eng σ) (t : Tick (Ev μ α κ))
    (hr : result (reach E X b x0 acc0 acts) = some (e, t)) :
    let s := reach E X b x0 acc0 acts
    IsFoldOf E b.engine b.auditMode s.processed e ∧ s.stopped.isSome ∧ s.shutdownAudit = some t ∧
    t.terminal = true := by
  intro s
  have hfold : IsFoldOf E b.engine b.auditMode s.processed s.eng := engine_is_fold E X b x0 acc0 acts
  have hhalt : HaltInv E b.engine b.auditMode s := (inv_reach E X b x0 acc0 acts).halt
  have hr : result s = some (e, t) := hr
  unfold result at hr
  split at hr
  · rename_i hc hp hst ha
    injection hr with hr; injection hr with h1 h2
    obtain ⟨pre, last, _, _, h3, h4, _⟩ := hhalt.halted _ hst
    refine ⟨by rw [← h1]; exact hfold, by simp [hst], by rw [← h2]; exact ha, ?_⟩
    rw [← h2]
    have : some _ = some _ := ha.symm.trans h3
    injection this with this
    rw [this]; exact h4
  · cases hr

/-- (graceful end) If the engine stopped on the `Shutdown` sent by `shutdown()` / `abort()`: the
processed history is `pre ++ [Shutdown]` with no other `Shutdown`; its handle events are EXACTLY the
events sent through the handle, each once, in call order (every command and trading-state update
sent before the shutdown call was processed, before the `Shutdown`); no handle event is left on the
feed. -/
theorem result_on_shutdown (E : Engine σ μ α κ ρ) (X : Exchange χ ρ α) (b : SystemBuild σ)
    (x0 : χ) (acc0 : List α) (acts : List (Act μ κ))
    (hst : (reach E X b x0 acc0 acts).stopped = some .shutdown) :
    let s := reach E X b x0 acc0 acts
    ∃ pre, s.processed = pre ++ [.shutdown] ∧ Ev.shutdown ∉ pre ∧
      SentInOrder s.sent s.processed ∧ handleOf s.feed = [] ∧ s.closed.isSome := by
  intro s
  obtain ⟨pre, last, h1, _, h2, _, _, h5⟩ := (stops_on_first_terminal E X b x0 acc0 acts).2 _ hst
  have hl : last = .shutdown := h5.mp rfl
  subst hl
  have h1 : s.processed = pre ++ [Ev.shutdown] := h1
  have hflow : FlowInv s := (inv_reach E X b x0 acc0 acts).flow
  have hh := hflow.handle
  rw [h1] at hh
  simp only [handleOf_append, handleOf_cons_shutdown, handleOf_nil] at hh
  have hfeed : handleOf s.feed = [] := by
    rcases List.eq_nil_or_concat (handleOf s.feed) with hnil | ⟨init, y, hc⟩
    · exact hnil
    · exfalso
      have : s.sent = (handleOf pre ++ [Ev.shutdown] ++ init) ++ [y] := by
        rw [← hh, hc]; simp [List.append_assoc]
      exact hflow.sdLast _ _ this (by simp)
  refine ⟨pre, h1, h2, ?_, hfeed, ?_⟩
  · unfold SentInOrder
    rw [h1]
    simp only [handleOf_append, handleOf_cons_shutdown, handleOf_nil]
    rw [← hh, hfeed]; simp
  · cases hc : s.closed with
    | some _ => rfl
    | none =>
      exfalso
      apply hflow.sdOpen hc
      rw [← hh]; simp

/-- (nothing after the stop) Once the runner has returned, no later action — forwarders delivering
what was in flight, further pushes, calls, `take_audit` — changes the engine, the processed history,
the audit ticks or the returned audit: events behind the `Shutdown` (or behind a fatal tick) stay on
the feed for ever. -/
theorem nothing_after_stop (E : Engine σ μ α κ ρ) (X : Exchange χ ρ α) (b : SystemBuild σ)
    (x0 : χ) (acc0 : List α) (acts more : List (Act μ κ))
    (hst : (reach E X b x0 acc0 acts).stopped.isSome) :
    let s := reach E X b x0 acc0 acts
    let s' := reach E X b x0 acc0 (acts ++ more)
    s'.stopped = s.stopped ∧ s'.processed = s.processed ∧ s'.eng = s.eng ∧ s'.ticks = s.ticks ∧
    s'.shutdownAudit = s.shutdownAudit ∧ s'.feed = s.feed ∧ s'.sent = s.sent := by
  intro s s'
  have hst : s.stopped.isSome := hst
  cases hs : s.stopped with
  | none => simp [hs] at hst
  | some st =>
    have h := run_frozen E X more s st hs
    have e : s' = run E X s more := run_append E X _ acts more
    rw [e]
    exact ⟨h.1, h.2.1, h.2.2.1, h.2.2.2.1, h.2.2.2.2.1, h.2.2.2.2.2.1, h.2.2.2.2.2.2.2.2⟩

/-- (`abort` = `shutdown` for the engine) Replacing every `abort` by `shutdown` in a schedule (or the
other way round) changes nothing but the record of which of the two consumed the handle: same feed,
same processed history, same engine, same audit, same return value. `abort()` does NOT skip what is
queued before its `Shutdown`. -/
theorem abort_eq_shutdown (E : Engine σ μ α κ ρ) (X : Exchange χ ρ α) (b : SystemBuild σ)
    (x0 : χ) (acc0 : List α) (acts : List (Act μ κ)) :
    let s := reach E X b x0 acc0 acts
    let s' := reach E X b x0 acc0 (acts.map Act.norm)
    s'.eng = s.eng ∧ s'.processed = s.processed ∧ s'.feed = s.feed ∧ s'.ticks = s.ticks ∧
    s'.stopped = s.stopped ∧ s'.shutdownAudit = s.shutdownAudit ∧ s'.sent = s.sent ∧
    s'.panics = s.panics ∧ result s' = result s := by
  intro s s'
  have h : s.norm = s' := by
    have := norm_run E X acts (b.init x0 acc0 : Sys σ χ μ α κ ρ)
    rw [this]; rfl
  rw [← h]
  refine ⟨rfl, rfl, rfl, rfl, rfl, rfl, rfl, rfl, ?_⟩
  cases hc : s.closed <;> cases hp : s.closePanicked <;> cases hst : s.stopped <;>
    cases ha : s.shutdownAudit <;> simp [result, Sys.norm, hc, hp, hst, ha]

/-! ## Audit -/

/-- (audit enabled) The snapshot is the built engine state with sequence 0; the ticks sent are
exactly the ticks of the processed events: one per event, carrying it, with consecutive sequence
numbers from 1 — and once the engine has stopped the terminal tick is the last one and the only
terminal one. -/
theorem audit_enabled_stream (E : Engine σ μ α κ ρ) (X : Exchange χ ρ α) (b : SystemBuild σ)
    (x0 : χ) (acc0 : List α) (acts : List (Act μ κ)) (ha : b.auditMode = .enabled) :
    let s := reach E X b x0 acc0 acts
    s.snapshot = some (b.engine, 0) ∧
    s.ticks = ticksOf E ⟨b.engine, 1⟩ s.processed ∧
    s.ticks.filterMap Tick.event? = s.processed ∧
    s.ticks.map Tick.seq = List.range' 1 s.processed.length ∧
    consecutiveFrom 1 s.ticks = true ∧
    (s.stopped.isSome → terminalLast s.ticks = true ∧ s.ticks.getLast? = s.shutdownAudit) := by
  intro s
  have h : Inv E X b.engine x0 acc0 b.auditMode s := inv_reach E X b x0 acc0 acts
  have ht : s.ticks = ticksOf E ⟨b.engine, 1⟩ s.processed := by
    have := h.own.ticks; simpa [ha, eng0, seq0] using this
  refine ⟨by simpa [ha] using h.own.snap, ht, ?_, ?_, ?_, ?_⟩
  · rw [ht]; exact ticksOf_events E _ _
  · rw [ht]; exact ticksOf_seqs E _ _
  · rw [ht]; exact ticksOf_consecutive E ⟨b.engine, 1⟩ _
  · intro hst
    cases hs : s.stopped with
    | none => simp [hs] at hst
    | some st =>
      obtain ⟨pre, last, h1, h2, h3, h4, _⟩ := h.halt.halted st hs
      have e0 : eng0 b.engine b.auditMode = ⟨b.engine, 1⟩ := by simp [eng0, seq0, ha]
      rw [e0] at h2 h3 h4
      have hcons := consumed_of_halted E ⟨b.engine, 1⟩ pre last [] h2 h4
      have hterm := (consumed_terminal E ⟨b.engine, 1⟩ (pre ++ [last])).2 hcons.2
      rw [hcons.1] at hterm
      rw [ht, h1]
      refine ⟨hterm, ?_⟩
      rw [ticksOf_append, h3]; simp

/-- (audit disabled) No snapshot, no tick, `System.audit` is `None` and `take_audit` yields nothing,
at every moment of every schedule. -/
theorem audit_disabled_nothing (E : Engine σ μ α κ ρ) (X : Exchange χ ρ α) (b : SystemBuild σ)
    (x0 : χ) (acc0 : List α) (acts : List (Act μ κ)) (ha : b.auditMode = .disabled) :
    let s := reach E X b x0 acc0 acts
    s.snapshot = none ∧ s.ticks = [] ∧ s.auditHeld = false ∧ takeAuditResult s = none := by
  intro s
  have h : OwnInv E X b.engine x0 acc0 b.auditMode s := (inv_reach E X b x0 acc0 acts).own
  have hheld : s.auditHeld = false := by
    cases hh : s.auditHeld with
    | false => rfl
    | true => have := held_enabled E X b x0 acc0 acts hh; simp [ha] at this
  refine ⟨by simpa [ha] using h.snap, by simpa [ha] using h.ticks, hheld, ?_⟩
  simp [takeAuditResult, hheld]

/-- (`take_audit`) It yields the snapshot (with the tick receiver) iff the system was built with the
audit enabled and it has not been taken before; taking it changes nothing else. -/
theorem take_audit_once (E : Engine σ μ α κ ρ) (X : Exchange χ ρ α) (b : SystemBuild σ)
    (x0 : χ) (acc0 : List α) (acts : List (Act μ κ)) :
    let s := reach E X b x0 acc0 acts
    (takeAuditResult s).isSome = (decide (b.auditMode = .enabled) && s.auditHeld) ∧
    (∀ x, takeAuditResult s = some x → x = (b.engine, 0)) ∧
    (s.closed = none → takeAuditResult (step E X s .takeAudit) = none) ∧
    (step E X s .takeAudit).eng = s.eng ∧ (step E X s .takeAudit).feed = s.feed ∧
    (step E X s .takeAudit).ticks = s.ticks := by
  intro s
  have h : OwnInv E X b.engine x0 acc0 b.auditMode s := (inv_reach E X b x0 acc0 acts).own
  refine ⟨?_, ?_, ?_, ?_, ?_, ?_⟩
  · unfold takeAuditResult
    cases hh : s.auditHeld with
    | false => simp
    | true =>
      have := held_enabled E X b x0 acc0 acts hh
      simp [h.snap, this]
  · intro x hx
    unfold takeAuditResult at hx
    split at hx
    · rw [h.snap] at hx
      split at hx
      · injection hx with hx; exact hx.symm
      · cases hx
    · cases hx
  · intro hc; simp [step, stepTakeAudit, hc, takeAuditResult]
  · simp only [step, stepTakeAudit]; split <;> rfl
  · simp only [step, stepTakeAudit]; split <;> rfl
  · simp only [step, stepTakeAudit]; split <;> rfl

/-! ## After the engine has stopped by itself -/

/-- Once the runner has returned, every sending call through the handle panics and puts nothing on
the feed. -/
theorem call_after_stop_panics (E : Engine σ μ α κ ρ) (X : Exchange χ ρ α) (s : Sys σ χ μ α κ ρ)
    (c : Call κ) (hst : s.stopped.isSome) (hc : s.closed = none) :
    (step E X s (.call c)).panics = s.panics + 1 ∧ (step E X s (.call c)).feed = s.feed ∧
    (step E X s (.call c)).sent = s.sent := by
  simp [step, stepCall, send, hc, hst]

/-- … and so do `shutdown()` and `abort()`: they return nothing, now or later; the engine can still
be obtained by awaiting the public join handle. -/
theorem close_after_stop_panics (E : Engine σ μ α κ ρ) (X : Exchange χ ρ α) (s : Sys σ χ μ α κ ρ)
    (how : Closed) (hst : s.stopped.isSome) (hc : s.closed = none) (more : List (Act μ κ)) :
    (step E X s (.close how)).closePanicked = true ∧
    result (run E X (step E X s (.close how)) more) = none := by
  have h1 : (step E X s (.close how)).closePanicked = true := by
    simp [step, stepClose, send, hc, hst]
  refine ⟨h1, ?_⟩
  suffices H : ∀ (s' : Sys σ χ μ α κ ρ), s'.closePanicked = true → s'.closed.isSome →
      (run E X s' more).closePanicked = true by
    have := H _ h1 (by simp [step, stepClose, send, hc, hst])
    unfold result; simp [this]
  induction more with
  | nil => intro s' h _; exact h
  | cons act more ih =>
    intro s' h hcl
    simp only [run, List.foldl_cons]
    have hstep : (step E X s' act).closePanicked = true ∧ (step E X s' act).closed.isSome := by
      cases act with
      | push m => exact ⟨h, hcl⟩
      | fwdMarket =>
        cases hm : s'.market <;> cases hs' : s'.stopped <;> simp [step, stepFwdMarket, hm, hs', h, hcl]
      | fwdAccount k =>
        cases hp : s'.pending[k]? <;> cases hs' : s'.stopped <;> simp [step, stepFwdAccount, hp, hs', h, hcl]
      | engine =>
        cases hf : s'.feed <;> cases hs' : s'.stopped <;> simp [step, stepEngine, hf, hs', h, hcl]
      | call c => simp [step, stepCall, hcl, h]
      | close how => simp [step, stepClose, hcl, h]
      | takeAudit => simp [step, stepTakeAudit, hcl, h]
    exact ih _ hstep.1 hstep.2

theorem join_after_stop (E : Engine σ μ α κ ρ) (X : Exchange χ ρ α) (b : SystemBuild σ)
    (x0 : χ) (acc0 : List α) (acts : List (Act μ κ))
    (hst : (reach E X b x0 acc0 acts).stopped.isSome) :
    ∃ t, joinResult (reach E X b x0 acc0 acts) = some ((reach E X b x0 acc0 acts).eng, t) ∧
      t.terminal = true := by
  cases hs : (reach E X b x0 acc0 acts).stopped with
  | none => simp [hs] at hst
  | some st =>
    obtain ⟨pre, last, _, _, h3, h4, _⟩ := (inv_reach E X b x0 acc0 acts).halt.halted st hs
    refine ⟨_, ?_, h4⟩
    unfold joinResult
    simp only [reach] at hs h3 ⊢
    rw [hs, h3]

end BarterModel.Props.C20S
