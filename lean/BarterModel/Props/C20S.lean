import BarterModel.Lemmas.SysHandle
import BarterModel.Lemmas.SysHandlePos
/-!
# C20S — the `System` handle and the `SystemBuilder` wiring (sub-check registered under C20)

Model: `Model/SysHandle.lean`. A running system = the user holding the handle + market forwarder +
account forwarder + engine runner, talking through one unbounded FIFO feed; every scheduling decision
(tokio's, or the operating system's for the blocking thread of the `Iterator` feed mode) is an
explicit `Act`. The engine `E` (strategy, risk manager, clock, all state) and the execution side `X`
are arbitrary, and so are the settings `b` the builder was given. Unless said otherwise a theorem
holds for EVERY action list `acts` from `SystemBuild::init`; nothing is bounded.

What a user of this code relies on, and where it is proved:
* a stopped system is in exactly the state the selected runner function of `engine/run.rs` returns on
  the channel's content, the audit mode only adds the ticks — `stopped_state_is_runner_output`,
  `audit_mode_only_adds_ticks`, `runner_closed_form`;
* every event sent through the handle reaches `Engine::process` at most once, in call order, never
  overtaken by a later call — `commands_once_in_order`, `applied_in_send_order`,
  `earlier_calls_applied_before`, `earlier_calls_applied_before_pos`, `command_sees_trading_state`;
* `shutdown()` / `abort()` hand back the engine that processed exactly the recorded history: all
  handle events sent, in order, `Shutdown` last and only once; nothing enqueued behind the `Shutdown`
  is ever processed; after the close call the engine processes handle events only, under EVERY
  schedule, forwarders included — `engine_is_fold`, `stops_on_first_terminal`, `result_is_fold`,
  `result_on_shutdown`, `nothing_after_stop`, `refines_spec`, `after_close_any_schedule`,
  `final_segment_any_schedule`;
* `abort` vs `shutdown`: the ENGINE TASK cannot tell them apart (`abort_eq_shutdown`, which holds by
  construction of `stepClose`: bookkeeping); the CALLER can — `shutdown()` awaits the execution tasks
  and returns the `JoinError` of one that panicked instead of the engine, `abort()` cannot fail:
  `outcome_abort_eq_shutdown` (equal WHILE NO EXECUTION TASK HAS DIED),
  `shutdown_fails_where_abort_succeeds` + `exec_death_witness` (the difference),
  `exec_task_dies_iff` (the mocked execution manager dies exactly on a request for an instrument its
  exchange does not list), `dead_execution_side_is_silent`;
* audit: enabled ⇒ snapshot with sequence 0 and one gap-free tick per processed event, terminal tick
  last; disabled ⇒ no snapshot, no tick; `take_audit` yields it once — `audit_enabled_stream`,
  `audit_disabled_nothing`, `take_audit_once`;
* once the engine has stopped by itself `shutdown()` / `abort()` return nothing, now or later, and the
  engine can only be obtained from the join handle — `close_after_stop_panics`, `join_after_stop`;
* market / account streams are consumed in order, nothing lost while the engine runs; quiescence ⇒
  everything sent / yielded / produced so far has been processed — `streams_in_order`,
  `quiescent_everything_processed`, `settle_end_quiescent`.
The concrete part (engine model of `Model/Engine.lean` + the harness's strategy + mock exchange) adds
`trading_is_last_update`, the link to the C10 replica theorem with its hypotheses discharged
(`audit_replica_reproduces_engine`; the replica is fed the ticks RECOMPUTED from the processed history,
`cAuditTicks` — that they carry the sequence numbers and terminal flags of the ticks sent is its last
conjunct, their outputs are not part of `SysHandle.Tick`), and the confluence result the
correspondence's canonicalisation rests on (`account_order_irrelevant`, `reachable_state_ok`: the
account events of one block commute on the whole engine state, in every reachable state), with its
hypothesis derived from the INPUTS: `posOps_events_ok` / `reachable_state_ok_of_posOps` (every request
and every strategy reaction asked for has a positive quantity ⇒ every fill the engine ever processes
has; review B C20S-2), and what the guard excludes: `zero_quantity_fill_witness`.

Definitional / bookkeeping (true by construction of the model, kept for reference, NOT results):
`builder_defaults`, `builder_setters`, `builder_last_call_wins` (`rfl`: the model's setters are record
updates); `feed_modes_agree` (the model's `asyncRun` / `syncRun` are the same recursion under two
names — what ties the two real runners is the correspondence run, which drives BOTH feed modes);
`requests_reach_exchange_in_order` (two ghost fields written in the same step: the model has no
request channel or manager task between engine and execution side — C07 / C03 are about those);
`call_after_stop_panics` and the first conjunct of `close_after_stop_panics` (`simp` on `send`);
`abort_eq_shutdown` (`stepClose` never reads `how`); `init_audit`.

Not exhibited by the model (named, tied by the correspondence only): WHEN the blocking engine thread
of the `Iterator` feed mode runs (its `try_recv` spin) and the window between the end of the engine's
last tick and the drop of its feed receiver (the model stops and drops in one step); OS timing;
wall-clock time; tokio's task order inside one await; `Engine::shutdown()` sending
`ExecutionRequest::Shutdown` to the execution managers (what lets `handles.shutdown()` return); what
the ENGINE does with a request for an exchange whose execution task has died (its link is then
closed: the next request ends in an unrecoverable error — observed, not modelled, never generated).
-/
namespace BarterModel.Props.C20S
open BarterModel.SysHandle

variable {σ χ μ α κ ρ : Type}

/-! ## `SystemBuilder` -/

/-- Documented defaults: `EngineFeedMode::Iterator`, `AuditMode::Disabled`, `TradingState::Disabled`. -/
theorem builder_defaults (mk : Bool → σ) :
    (SystemBuilder.new.build mk).engineFeedMode = .iterator ∧
    (SystemBuilder.new.build mk).auditMode = .disabled ∧
    (SystemBuilder.new.build mk).engine = mk false := ⟨rfl, rfl, rfl⟩

/-- Each setter determines its own setting of the build and no other. -/
theorem builder_setters (b : SystemBuilder) (mk : Bool → σ) (m : EngineFeedMode) (a : AuditMode) (t : Bool) :
    ((b.engine_feed_mode m).build mk).engineFeedMode = m ∧
    ((b.engine_feed_mode m).build mk).auditMode = (b.build mk).auditMode ∧
    ((b.engine_feed_mode m).build mk).engine = (b.build mk).engine ∧
    ((b.audit_mode a).build mk).auditMode = a ∧
    ((b.audit_mode a).build mk).engineFeedMode = (b.build mk).engineFeedMode ∧
    ((b.audit_mode a).build mk).engine = (b.build mk).engine ∧
    ((b.trading_state t).build mk).engine = mk t ∧
    ((b.trading_state t).build mk).engineFeedMode = (b.build mk).engineFeedMode ∧
    ((b.trading_state t).build mk).auditMode = (b.build mk).auditMode :=
  ⟨rfl, rfl, rfl, rfl, rfl, rfl, rfl, rfl, rfl⟩

/-- Calling a setter twice keeps the last value; different setters commute. -/
theorem builder_last_call_wins (b : SystemBuilder) (m m' : EngineFeedMode) (a a' : AuditMode) (t t' : Bool) :
    (b.engine_feed_mode m).engine_feed_mode m' = b.engine_feed_mode m' ∧
    (b.audit_mode a).audit_mode a' = b.audit_mode a' ∧
    (b.trading_state t).trading_state t' = b.trading_state t' ∧
    (b.engine_feed_mode m).audit_mode a = (b.audit_mode a).engine_feed_mode m ∧
    (b.engine_feed_mode m).trading_state t = (b.trading_state t).engine_feed_mode m ∧
    (b.audit_mode a).trading_state t = (b.trading_state t).audit_mode a :=
  ⟨rfl, rfl, rfl, rfl, rfl, rfl⟩

/-- `init`: the engine starts at sequence 0, or at 1 when the audit snapshot consumed 0; the
snapshot is the built engine state; the audit is present exactly when enabled. -/
theorem init_audit (b : SystemBuild σ) (x0 : χ) (acc0 : List α) :
    let s : Sys σ χ μ α κ ρ := b.init x0 acc0
    (b.auditMode = .enabled → s.eng.seq = 1 ∧ s.snapshot = some (b.engine, 0) ∧ s.auditHeld = true) ∧
    (b.auditMode = .disabled → s.eng.seq = 0 ∧ s.snapshot = none ∧ s.auditHeld = false) ∧
    s.eng.state = b.engine ∧ s.feed = [] ∧ s.stopped = none := by
  refine ⟨?_, ?_, rfl, rfl, rfl⟩
  · intro h; simp [SystemBuild.init, seq0, h]
  · intro h; simp [SystemBuild.init, seq0, h]

/-! ## The four runners of `engine/run.rs` -/

/-- (definitional, NOT a result: `asyncRun` / `syncRun` and the `…WithAudit` pair are the same
recursion written twice, review B C20S-5) In the MODEL the `Iterator` runner and the `Stream` runner
are the same function of the feed. What differs in the code is how the runner waits (`try_recv` spin
on a blocking thread vs `.await`), which the model does not exhibit; that the two REAL runners agree
is tied by the correspondence run only (the harness drives both feed modes and the unset default). -/
theorem feed_modes_agree (E : Engine σ μ α κ ρ) (a : AuditMode) (e : Eng σ) (feed : List (Ev μ α κ)) :
    runner E .iterator a e feed = runner E .stream a e feed := by
  cases a
  · exact (asyncRunWithAudit_eq_syncRunWithAudit E e feed).symm
  · exact (asyncRun_eq_syncRun E e feed).symm

/-- The audit mode only adds the ticks: engine, returned audit, requests and rest are those of the
runner without audit, which sends nothing. -/
theorem audit_mode_only_adds_ticks (E : Engine σ μ α κ ρ) (m : EngineFeedMode) (e : Eng σ)
    (feed : List (Ev μ α κ)) :
    (runner E m .enabled e feed).engine = (runner E m .disabled e feed).engine ∧
    (runner E m .enabled e feed).shutdownAudit = (runner E m .disabled e feed).shutdownAudit ∧
    (runner E m .enabled e feed).requests = (runner E m .disabled e feed).requests ∧
    (runner E m .enabled e feed).rest = (runner E m .disabled e feed).rest ∧
    (runner E m .disabled e feed).sent = [] := by
  have h := syncRunWithAudit_eq_syncRun E e feed
  have hs := syncRun_sent E e feed
  cases m
  · simp only [runner]
    rw [h]; exact ⟨rfl, rfl, rfl, rfl, hs⟩
  · simp only [runner, asyncRunWithAudit_eq_syncRunWithAudit, asyncRun_eq_syncRun]
    rw [h]; exact ⟨rfl, rfl, rfl, rfl, hs⟩

/-- Closed form of every runner: it consumes the feed up to and including the first terminal tick
(`consumed`), or all of it plus one `FeedEnded` tick when every sender is gone first; the engine is
`process_with_audit` folded over what was consumed; with the audit enabled exactly the ticks of the
consumed events are sent, the returned audit last; none but the last is terminal. -/
theorem runner_closed_form (E : Engine σ μ α κ ρ) (m : EngineFeedMode) (a : AuditMode) (e : Eng σ)
    (feed : List (Ev μ α κ)) :
    consumed E e feed ++ (runner E m a e feed).rest = feed ∧
    (runner E m a e feed).engine.state = engFold E e.state (consumed E e feed) ∧
    (runner E m a e feed).engine.seq =
      e.seq + (consumed E e feed).length + (if feedEnds E e feed then 1 else 0) ∧
    (a = .enabled → (runner E m a e feed).sent = ticksOf E e (consumed E e feed) ++
        (if feedEnds E e feed then [.feedEnded (e.seq + (consumed E e feed).length)] else []) ∧
      (runner E m a e feed).sent.getLast? = some (runner E m a e feed).shutdownAudit) ∧
    (feedEnds E e feed = false → terminalLast (ticksOf E e (consumed E e feed)) = true) ∧
    (feedEnds E e feed = true → ∀ t ∈ ticksOf E e (consumed E e feed), t.terminal = false) := by
  have hr : (runner E m a e feed).rest = (syncRun E e feed).rest ∧
      (runner E m a e feed).engine = (syncRun E e feed).engine := by
    rw [runner_eq]
    split
    · rw [syncRunWithAudit_eq_syncRun]; exact ⟨rfl, rfl⟩
    · exact ⟨rfl, rfl⟩
  have heng := syncRun_engine E e feed
  refine ⟨by rw [hr.1]; exact syncRun_rest E e feed, ?_, ?_, ?_, (consumed_terminal E e feed).2,
    (consumed_terminal E e feed).1⟩
  · rw [hr.2, heng]; split <;> simp [engAfter_state]
  · rw [hr.2, heng]; split <;> simp [engAfter_seq]
  · intro ha
    rw [runner_eq]; simp only [ha, ↓reduceIte]
    refine ⟨?_, syncRunWithAudit_last E e feed⟩
    rw [syncRunWithAudit_sent, engAfter_seq]

/-! ## The running system, for every schedule -/

/-- `acts` from `SystemBuild::init`. -/
abbrev reach (E : Engine σ μ α κ ρ) (X : Exchange χ ρ α) (b : SystemBuild σ) (x0 : χ) (acc0 : List α)
    (acts : List (Act μ κ)) : Sys σ χ μ α κ ρ := run E X (b.init x0 acc0) acts

/-- (handle → engine) Every event sent through the handle is, at any moment of any schedule, either
already processed or still queued on the feed — never both, never lost, never duplicated — and the
processed ones and the queued ones appear in exactly the order of the calls. In particular the
handle events the engine has processed are a prefix of those sent. -/
theorem commands_once_in_order (E : Engine σ μ α κ ρ) (X : Exchange χ ρ α) (b : SystemBuild σ)
    (x0 : χ) (acc0 : List α) (acts : List (Act μ κ)) :
    let s := reach E X b x0 acc0 acts
    handleOf s.processed ++ handleOf s.feed = s.sent ∧ handleOf s.processed <+: s.sent := by
  intro s
  have hf : FlowInv s := (inv_reach E X b x0 acc0 acts).flow
  exact ⟨hf.handle, ⟨handleOf s.feed, hf.handle⟩⟩

/-- (send order = application order) When the engine processes a handle event `ev`, the history it
has processed so far (`pre`) contains exactly the handle events sent BEFORE `ev` — all of them, in
call order, none sent later — and the state `ev` is applied to is the built engine fed `pre`. -/
theorem applied_in_send_order (E : Engine σ μ α κ ρ) (X : Exchange χ ρ α) (b : SystemBuild σ)
    (x0 : χ) (acc0 : List α) (acts : List (Act μ κ)) (pre post : List (Ev μ α κ)) (ev : Ev μ α κ)
    (hp : (reach E X b x0 acc0 acts).processed = pre ++ ev :: post) (hev : ev.isHandle = true) :
    let s := reach E X b x0 acc0 acts
    handleOf pre = s.sent.take (handleOf pre).length ∧
    s.sent[(handleOf pre).length]? = some ev ∧
    engFold E b.engine (pre ++ [ev]) = (E.process (engFold E b.engine pre) ev).1 := by
  intro s
  have hf : FlowInv s := (inv_reach E X b x0 acc0 acts).flow
  have h := hf.handle
  have hp' : s.processed = pre ++ ev :: post := hp
  have hs : s.sent = handleOf pre ++ ev :: (handleOf post ++ handleOf s.feed) := by
    rw [← h, hp']
    simp [handleOf_cons_of_handle _ _ hev, List.append_assoc]
  refine ⟨?_, ?_, engFold_append E b.engine pre ev⟩
  · rw [hs]; simp
  · rw [hs]; simp

/-- … hence a call made earlier is applied earlier: if the `j`-th handle event sent has been
processed, so has every `i`-th with `i < j`, and it stands before it in the processed history.
(`trading_state(x)` sent before command `c` is applied before `c`.) -/
theorem earlier_calls_applied_before (E : Engine σ μ α κ ρ) (X : Exchange χ ρ α) (b : SystemBuild σ)
    (x0 : χ) (acc0 : List α) (acts : List (Act μ κ)) (pre post : List (Ev μ α κ)) (ev : Ev μ α κ)
    (hp : (reach E X b x0 acc0 acts).processed = pre ++ ev :: post) (hev : ev.isHandle = true)
    (i : Nat) (hi : i < (handleOf pre).length) :
    ∃ x, (reach E X b x0 acc0 acts).sent[i]? = some x ∧ x ∈ pre := by
  have h := (applied_in_send_order E X b x0 acc0 acts pre post ev hp hev).1
  refine ⟨(handleOf pre)[i], ?_, ?_⟩
  · rw [← List.getElem?_eq_getElem hi]
    conv => rhs; rw [h]
    rw [List.getElem?_take]; simp [hi]
  · exact (mem_handleOf.mp (List.getElem_mem hi)).1

/-- … positionally (review B C20S-6: `x ∈ pre` is weak when the same event was sent twice): the
`i`-th handle event of the history processed before `ev` IS the `i`-th event sent — so the events sent
before `ev` occupy, in `pre`, exactly the positions of its handle events, in call order, duplicates
included. -/
theorem earlier_calls_applied_before_pos (E : Engine σ μ α κ ρ) (X : Exchange χ ρ α) (b : SystemBuild σ)
    (x0 : χ) (acc0 : List α) (acts : List (Act μ κ)) (pre post : List (Ev μ α κ)) (ev : Ev μ α κ)
    (hp : (reach E X b x0 acc0 acts).processed = pre ++ ev :: post) (hev : ev.isHandle = true)
    (i : Nat) (hi : i < (handleOf pre).length) :
    (handleOf pre)[i]? = (reach E X b x0 acc0 acts).sent[i]? ∧
    (reach E X b x0 acc0 acts).sent[(handleOf pre).length]? = some ev := by
  have h := applied_in_send_order E X b x0 acc0 acts pre post ev hp hev
  refine ⟨?_, h.2.1⟩
  conv => lhs; rw [h.1]
  rw [List.getElem?_take]; simp [hi]

/-- (own engine) At every moment the engine is the built engine fed exactly the processed history,
its sequence counts that history (plus the audit snapshot), and the execution side has received
exactly the requests the engine sent along it, in order, and produced its account events from them. -/
theorem engine_is_fold (E : Engine σ μ α κ ρ) (X : Exchange χ ρ α) (b : SystemBuild σ)
    (x0 : χ) (acc0 : List α) (acts : List (Act μ κ)) :
    let s := reach E X b x0 acc0 acts
    IsFoldOf E b.engine b.auditMode s.processed s.eng := by
  intro s
  have h : s.eng = engAfter E (eng0 b.engine b.auditMode) s.processed :=
    (inv_reach E X b x0 acc0 acts).own.own
  refine ⟨?_, ?_⟩
  · rw [h, engAfter_state]; rfl
  · rw [h, engAfter_seq]; rfl

/-- (bookkeeping, not a result: `requests`, `exch` and `produced` are written by the same model step)
The ghost request log is the engine's requests along the processed history, and the execution side's
state / output is `respondAll` over it. -/
theorem requests_reach_exchange_in_order (E : Engine σ μ α κ ρ) (X : Exchange χ ρ α) (b : SystemBuild σ)
    (x0 : χ) (acc0 : List α) (acts : List (Act μ κ)) :
    let s := reach E X b x0 acc0 acts
    s.requests = requestsOf E (eng0 b.engine b.auditMode) s.processed ∧
    s.exch = (respondAll X x0 s.requests).1 ∧
    s.produced = acc0 ++ (respondAll X x0 s.requests).2 := by
  intro s
  have h : OwnInv E X b.engine x0 acc0 b.auditMode s := (inv_reach E X b x0 acc0 acts).own
  exact ⟨h.reqs, h.exch, h.produced⟩

/-- (market / account streams) Market events are processed in the order the stream yielded them,
without gap or repetition; account events processed are events the execution side produced, none
twice; while the engine runs nothing is lost anywhere. -/
theorem streams_in_order (E : Engine σ μ α κ ρ) (X : Exchange χ ρ α) (b : SystemBuild σ)
    (x0 : χ) (acc0 : List α) (acts : List (Act μ κ)) :
    let s := reach E X b x0 acc0 acts
    FromTheStreams s.pushed s.produced s.processed ∧
    (s.stopped = none →
      marketOf s.processed ++ marketOf s.feed ++ s.market = s.pushed ∧
      (accountOf s.processed ++ accountOf s.feed ++ s.pending).Perm s.produced) := by
  intro s
  have h : FlowInv s := (inv_reach E X b x0 acc0 acts).flow
  refine ⟨⟨?_, ?_⟩, fun h0 => ⟨h.mkt h0, h.acc h0⟩⟩
  · obtain ⟨rest, hr⟩ := h.mktPre
    exact ⟨marketOf s.feed ++ rest, by rw [← hr]; simp [List.append_assoc]⟩
  · obtain ⟨rest, hr⟩ := h.accSub
    exact ⟨accountOf s.feed ++ rest, by simpa [List.append_assoc] using hr⟩

/-- (quiescence) When nothing is in flight any more, everything sent through the handle, everything
the market stream yielded and everything the execution side produced has been processed. -/
theorem quiescent_everything_processed (E : Engine σ μ α κ ρ) (X : Exchange χ ρ α) (b : SystemBuild σ)
    (x0 : χ) (acc0 : List α) (acts : List (Act μ κ)) :
    let s := reach E X b x0 acc0 acts
    Quiescent s →
      handleOf s.processed = s.sent ∧ marketOf s.processed = s.pushed ∧
      (accountOf s.processed).Perm s.produced := by
  intro s hq
  obtain ⟨h0, hf, hm, hp⟩ := hq
  have h : FlowInv s := (inv_reach E X b x0 acc0 acts).flow
  refine ⟨?_, ?_, ?_⟩
  · simpa [hf] using h.handle
  · simpa [hf, hm] using h.mkt h0
  · simpa [hf, hp] using h.acc h0

/-- The driver's "await until nothing moves" scheduler ends, while the engine runs, only in a
quiescent state. -/
theorem settle_end_quiescent (s : Sys σ χ μ α κ ρ) (h : pickSettle s = none) (h0 : s.stopped = none) :
    Quiescent s := by
  unfold pickSettle at h
  simp only [h0, Option.isSome_none, Bool.false_eq_true, ↓reduceIte] at h
  refine ⟨h0, ?_, ?_, ?_⟩
  · cases hf : s.feed with
    | nil => rfl
    | cons x xs => simp [hf] at h
  · cases hf : s.feed with
    | nil =>
      cases hm : s.market with
      | nil => rfl
      | cons x xs => simp [hf, hm] at h
    | cons x xs => simp [hf] at h
  · cases hf : s.feed with
    | nil =>
      cases hm : s.market with
      | nil =>
        cases hp : s.pending with
        | nil => rfl
        | cons x xs => simp [hf, hm, hp] at h
      | cons x xs => simp [hf, hm] at h
    | cons x xs => simp [hf] at h

/-- (the runner stops on the first terminal tick) While the engine runs no processed event was a
`Shutdown` or fatal; once it has stopped the LAST processed event is the terminal one, no earlier one
is, the audit handed back is that event's, and the reason recorded is `shutdown` exactly when that
event is the `Shutdown`. -/
theorem stops_on_first_terminal (E : Engine σ μ α κ ρ) (X : Exchange χ ρ α) (b : SystemBuild σ)
    (x0 : χ) (acc0 : List α) (acts : List (Act μ κ)) :
    let s := reach E X b x0 acc0 acts
    (s.stopped = none → (∀ t ∈ ticksOf E (eng0 b.engine b.auditMode) s.processed, t.terminal = false) ∧
      s.shutdownAudit = none ∧ Ev.shutdown ∉ s.processed) ∧
    (∀ st, s.stopped = some st → ∃ pre last, s.processed = pre ++ [last] ∧
      (∀ t ∈ ticksOf E (eng0 b.engine b.auditMode) pre, t.terminal = false) ∧ Ev.shutdown ∉ pre ∧
      s.shutdownAudit = some (processWithAudit E (engAfter E (eng0 b.engine b.auditMode) pre) last).2.1 ∧
      (processWithAudit E (engAfter E (eng0 b.engine b.auditMode) pre) last).2.1.terminal = true ∧
      (st = .shutdown ↔ last = .shutdown)) := by
  intro s
  have h : HaltInv E b.engine b.auditMode s := (inv_reach E X b x0 acc0 acts).halt
  refine ⟨?_, ?_⟩
  · intro h0
    have := h.running h0
    exact ⟨this.1, this.2, no_shutdown_of_nonterminal E _ _ this.1⟩
  · intro st hst
    obtain ⟨pre, last, h1, h2, h3, h4, h5⟩ := h.halted st hst
    refine ⟨pre, last, h1, h2, no_shutdown_of_nonterminal E _ _ h2, h3, h4, ?_⟩
    rw [h5]; cases last <;> simp [Ev.isShutdown]

/-- (`shutdown()` / `abort()` return value) Whatever they return is the engine of `engine_is_fold`
together with the audit of the last processed event. -/
theorem result_is_fold (E : Engine σ μ α κ ρ) (X : Exchange χ ρ α) (b : SystemBuild σ)
    (x0 : χ) (acc0 : List α) (acts : List (Act μ κ)) (e : Eng σ) (t : Tick (Ev μ α κ))
    (hr : result (reach E X b x0 acc0 acts) = some (e, t)) :
    let s := reach E X b x0 acc0 acts
    IsFoldOf E b.engine b.auditMode s.processed e ∧ s.stopped.isSome ∧ s.shutdownAudit = some t ∧
    t.terminal = true := by
  intro s
  have hfold : IsFoldOf E b.engine b.auditMode s.processed s.eng := engine_is_fold E X b x0 acc0 acts
  have hhalt : HaltInv E b.engine b.auditMode s := (inv_reach E X b x0 acc0 acts).halt
  have hr : result s = some (e, t) := hr
  unfold result at hr
  split at hr
  · rename_i hc hp hst ha
    injection hr with hr; injection hr with h1 h2
    obtain ⟨pre, last, _, _, h3, h4, _⟩ := hhalt.halted _ hst
    refine ⟨by rw [← h1]; exact hfold, by simp [hst], by rw [← h2]; exact ha, ?_⟩
    rw [← h2]
    have : some _ = some _ := ha.symm.trans h3
    injection this with this
    rw [this]; exact h4
  · cases hr

/-- (graceful end) If the engine stopped on the `Shutdown` sent by `shutdown()` / `abort()`: the
processed history is `pre ++ [Shutdown]` with no other `Shutdown`; its handle events are EXACTLY the
events sent through the handle, each once, in call order (every command and trading-state update
sent before the shutdown call was processed, before the `Shutdown`); no handle event is left on the
feed. -/
theorem result_on_shutdown (E : Engine σ μ α κ ρ) (X : Exchange χ ρ α) (b : SystemBuild σ)
    (x0 : χ) (acc0 : List α) (acts : List (Act μ κ))
    (hst : (reach E X b x0 acc0 acts).stopped = some .shutdown) :
    let s := reach E X b x0 acc0 acts
    ∃ pre, s.processed = pre ++ [.shutdown] ∧ Ev.shutdown ∉ pre ∧
      SentInOrder s.sent s.processed ∧ handleOf s.feed = [] ∧ s.closed.isSome := by
  intro s
  obtain ⟨pre, last, h1, _, h2, _, _, h5⟩ := (stops_on_first_terminal E X b x0 acc0 acts).2 _ hst
  have hl : last = .shutdown := h5.mp rfl
  subst hl
  have h1 : s.processed = pre ++ [Ev.shutdown] := h1
  have hflow : FlowInv s := (inv_reach E X b x0 acc0 acts).flow
  have hh := hflow.handle
  rw [h1] at hh
  simp only [handleOf_append, handleOf_cons_shutdown, handleOf_nil] at hh
  have hfeed : handleOf s.feed = [] := by
    rcases List.eq_nil_or_concat (handleOf s.feed) with hnil | ⟨init, y, hc⟩
    · exact hnil
    · exfalso
      have : s.sent = (handleOf pre ++ [Ev.shutdown] ++ init) ++ [y] := by
        rw [← hh, hc]; simp [List.append_assoc]
      exact hflow.sdLast _ _ this (by simp)
  refine ⟨pre, h1, h2, ?_, hfeed, ?_⟩
  · unfold SentInOrder
    rw [h1]
    simp only [handleOf_append, handleOf_cons_shutdown, handleOf_nil]
    rw [← hh, hfeed]; simp
  · cases hc : s.closed with
    | some _ => rfl
    | none =>
      exfalso
      apply hflow.sdOpen hc
      rw [← hh]; simp

/-- (nothing after the stop) Once the runner has returned, no later action — forwarders delivering
what was in flight, further pushes, calls, `take_audit` — changes the engine, the processed history,
the audit ticks or the returned audit: events behind the `Shutdown` (or behind a fatal tick) stay on
the feed for ever. -/
theorem nothing_after_stop (E : Engine σ μ α κ ρ) (X : Exchange χ ρ α) (b : SystemBuild σ)
    (x0 : χ) (acc0 : List α) (acts more : List (Act μ κ))
    (hst : (reach E X b x0 acc0 acts).stopped.isSome) :
    let s := reach E X b x0 acc0 acts
    let s' := reach E X b x0 acc0 (acts ++ more)
    s'.stopped = s.stopped ∧ s'.processed = s.processed ∧ s'.eng = s.eng ∧ s'.ticks = s.ticks ∧
    s'.shutdownAudit = s.shutdownAudit ∧ s'.feed = s.feed ∧ s'.sent = s.sent := by
  intro s s'
  have hst : s.stopped.isSome := hst
  cases hs : s.stopped with
  | none => simp [hs] at hst
  | some st =>
    have h := run_frozen E X more s st hs
    have e : s' = run E X s more := run_append E X _ acts more
    rw [e]
    exact ⟨h.1, h.2.1, h.2.2.1, h.2.2.2.1, h.2.2.2.2.1, h.2.2.2.2.2.1, h.2.2.2.2.2.2.2.2⟩

/-- (`abort` = `shutdown` for the ENGINE TASK; bookkeeping: `stepClose` never reads `how`) Replacing
every `abort` by `shutdown` in a schedule (or the other way round) changes nothing but the record of
which of the two consumed the handle: same feed, same processed history, same engine, same audit, same
join value of the engine task (`result`). `abort()` does NOT skip what is queued before its
`Shutdown`. What the CALLER gets is `outcome`, and there the two differ once an execution task has
died: `outcome_abort_eq_shutdown`, `shutdown_fails_where_abort_succeeds` (review B C20S-1: with
`result` read as the caller's value this theorem was false of the code after an execution-task
panic). -/
theorem abort_eq_shutdown (E : Engine σ μ α κ ρ) (X : Exchange χ ρ α) (b : SystemBuild σ)
    (x0 : χ) (acc0 : List α) (acts : List (Act μ κ)) :
    let s := reach E X b x0 acc0 acts
    let s' := reach E X b x0 acc0 (acts.map Act.norm)
    s'.eng = s.eng ∧ s'.processed = s.processed ∧ s'.feed = s.feed ∧ s'.ticks = s.ticks ∧
    s'.stopped = s.stopped ∧ s'.shutdownAudit = s.shutdownAudit ∧ s'.sent = s.sent ∧
    s'.panics = s.panics ∧ result s' = result s := by
  intro s s'
  have h : s.norm = s' := by
    have := norm_run E X acts (b.init x0 acc0 : Sys σ χ μ α κ ρ)
    rw [this]; rfl
  rw [← h]
  refine ⟨rfl, rfl, rfl, rfl, rfl, rfl, rfl, rfl, ?_⟩
  cases hc : s.closed <;> cases hp : s.closePanicked <;> cases hst : s.stopped <;>
    cases ha : s.shutdownAudit <;> simp [result, Sys.norm, hc, hp, hst, ha]

/-- (`abort` = `shutdown` for the caller, WHILE NO EXECUTION TASK HAS DIED) If no execution task of
the execution side has panicked, `shutdown().await` and `abort().await` evaluate to the same value:
replacing every `abort` by `shutdown` in the schedule changes nothing in `outcome`. -/
theorem outcome_abort_eq_shutdown (E : Engine σ μ α κ ρ) (X : Exchange χ ρ α) (b : SystemBuild σ)
    (x0 : χ) (acc0 : List α) (acts : List (Act μ κ)) (died : χ → Bool)
    (hd : died (reach E X b x0 acc0 acts).exch = false) :
    outcome died (reach E X b x0 acc0 (acts.map Act.norm)) = outcome died (reach E X b x0 acc0 acts) := by
  have h : (reach E X b x0 acc0 acts).norm = reach E X b x0 acc0 (acts.map Act.norm) := by
    have := norm_run E X acts (b.init x0 acc0 : Sys σ χ μ α κ ρ)
    rw [this]; rfl
  have hr := (abort_eq_shutdown E X b x0 acc0 acts).2.2.2.2.2.2.2.2
  rw [← h] at hr ⊢
  unfold outcome
  rw [hr]
  have he : (reach E X b x0 acc0 acts).norm.exch = (reach E X b x0 acc0 acts).exch := rfl
  cases result (reach E X b x0 acc0 acts) with
  | none => rfl
  | some r => simp [he, hd]

/-- (the difference) Once an execution task has died, a graceful `shutdown()` whose engine task has
returned `(e, t)` evaluates to the `JoinError`, an `abort()` in the same state to `Ok((e, t))`. -/
theorem shutdown_fails_where_abort_succeeds (s : Sys σ χ μ α κ ρ) (died : χ → Bool) (e : Eng σ)
    (t : Tick (Ev μ α κ)) (hr : result s = some (e, t)) (hd : died s.exch = true) :
    (s.closed = some .graceful → outcome died s = some .joinError) ∧
    (s.closed = some .aborted → outcome died s = some (.ok e t)) := by
  unfold outcome
  rw [hr]
  exact ⟨fun h => by simp [h, hd], fun h => by simp [h]⟩

/-- (scheduler model = runner functions) When the engine has stopped, the system is in EXACTLY the
state that the runner function `init` selected (`runner`, any of the four) returns when it is handed
the total content of the feed channel (what was processed followed by what is still queued): same
engine and sequence, same returned audit, same audit ticks, same requests, same unconsumed rest. -/
theorem stopped_state_is_runner_output (E : Engine σ μ α κ ρ) (X : Exchange χ ρ α) (b : SystemBuild σ)
    (x0 : χ) (acc0 : List α) (acts : List (Act μ κ)) (m : EngineFeedMode)
    (hst : (reach E X b x0 acc0 acts).stopped.isSome) :
    let s := reach E X b x0 acc0 acts
    let o := runner E m b.auditMode (eng0 b.engine b.auditMode) (s.processed ++ s.feed)
    o.engine = s.eng ∧ some o.shutdownAudit = s.shutdownAudit ∧ o.sent = s.ticks ∧
    o.rest = s.feed ∧ o.requests = s.requests := by
  intro s o
  have h : Inv E X b.engine x0 acc0 b.auditMode s := inv_reach E X b x0 acc0 acts
  have hst : s.stopped.isSome := hst
  cases hs : s.stopped with
  | none => simp [hs] at hst
  | some st =>
    obtain ⟨pre, last, h1, h2, h3, h4, _⟩ := h.halt.halted st hs
    have ho := runner_output_of_halted E m b.auditMode (eng0 b.engine b.auditMode) pre last s.feed h2 h4
    have : o = runner E m b.auditMode (eng0 b.engine b.auditMode) ((pre ++ [last]) ++ s.feed) := by
      simp only [o, h1]
    rw [this]
    refine ⟨?_, ?_, ?_, ho.2.2.2.1, ?_⟩
    · rw [ho.1, h.own.own, h1]
    · rw [ho.2.1, h3]
    · rw [ho.2.2.1, h.own.ticks, h1]
    · rw [ho.2.2.2.2, h.own.reqs, h1]

/-- (refinement to the abstract spec) What `shutdown()` / `abort()` return after a graceful end
satisfies the documented contract: the history the engine processed contains every event sent
through the handle, once, in call order, `Shutdown` last; its market events are a gap-free prefix of
what the stream yielded and its account events were produced by the execution side; and the engine
handed back is the built engine fed that history and nothing else. -/
theorem refines_spec (E : Engine σ μ α κ ρ) (X : Exchange χ ρ α) (b : SystemBuild σ)
    (x0 : χ) (acc0 : List α) (acts : List (Act μ κ)) (e : Eng σ) (t : Tick (Ev μ α κ))
    (hr : result (reach E X b x0 acc0 acts) = some (e, t))
    (hst : (reach E X b x0 acc0 acts).stopped = some .shutdown) :
    let s := reach E X b x0 acc0 acts
    SentInOrder s.sent s.processed ∧ FromTheStreams s.pushed s.produced s.processed ∧
    IsFoldOf E b.engine b.auditMode s.processed e ∧
    (∃ pre, s.processed = pre ++ [.shutdown] ∧ Ev.shutdown ∉ pre) ∧
    (∃ n, t = .process n .shutdown (E.fatal (engFold E b.engine s.processed.dropLast) .shutdown)) := by
  intro s
  obtain ⟨pre, h1, h2, h3, _, _⟩ := result_on_shutdown E X b x0 acc0 acts hst
  have hfold := result_is_fold E X b x0 acc0 acts e t hr
  refine ⟨h3, (streams_in_order E X b x0 acc0 acts).1, hfold.1, ⟨pre, h1, h2⟩, ?_⟩
  obtain ⟨pre', last, g1, _, _, g3, _, g5⟩ := (stops_on_first_terminal E X b x0 acc0 acts).2 _ hst
  have hl : last = .shutdown := g5.mp rfl
  subst hl
  have hsa := hfold.2.2.1
  have : some t = some _ := hsa.symm.trans g3
  injection this with this
  have g1 : s.processed = pre' ++ [Ev.shutdown] := g1
  refine ⟨(engAfter E (eng0 b.engine b.auditMode) pre').seq, ?_⟩
  rw [this, g1]
  simp [processWithAudit, engAfter_state, eng0]

/-! ## The last segment: what `shutdown()` / `abort()` still let the engine process

Oracle review C20S-H1: the spec driver now STATES `m` (empty) and `a` (empty) in the final block and
`h` / `m` / `a` (all empty) in the `join` block; these theorems are what the empty lines rest on.
Review B C20S-3: the justification is `after_close_any_schedule` (every schedule after the close
call), not "no forwarder runs". -/

/-- An action that is no forwarder step: a user action (push onto the market stream, handle call,
`take_audit`, `shutdown` / `abort`) or an iteration of the engine runner. -/
def Act.noForward : Act μ κ → Bool
  | .fwdMarket => false
  | .fwdAccount _ => false
  | _ => true

/-- `self.engine.await` inside `shutdown` / `abort` (the driver's `pickDrain` scheduler) consists of
runner iterations only. -/
theorem drain_only_engine (E : Engine σ μ α κ ρ) (X : Exchange χ ρ α) (n : Nat) (s : Sys σ χ μ α κ ρ) :
    ∀ a ∈ schedActs E X pickDrain n s, a = Act.engine := by
  induction n generalizing s with
  | zero => intro a ha; simp [schedActs] at ha
  | succ n ih =>
    intro a ha
    unfold schedActs at ha
    cases hp : pickDrain s with
    | none => simp [hp] at ha
    | some b =>
      simp only [hp, List.mem_cons] at ha
      have hb : b = Act.engine := by
        unfold pickDrain at hp
        split at hp
        · cases hp
        · split at hp
          · injection hp with hp; exact hp.symm
          · cases hp
      rcases ha with ha | ha
      · rw [ha, hb]
      · exact ih _ a ha

/-- (the last segment, weaker form kept for `final_segment_no_stream_events`; the result that carries
the spec keys is `after_close_any_schedule` / `final_segment_any_schedule`, which needs no such
hypothesis after the close call) As long as no forwarder runs — which is the case between the user's
last `await` and the close CALL: handle sends are synchronous, the forwarders are tasks that need the
scheduler — a feed that holds only handle events keeps holding only handle events, and whatever the
engine processes in the meantime are handle events: no market event and no account event. -/
theorem no_forward_handle_only (E : Engine σ μ α κ ρ) (X : Exchange χ ρ α) (acts : List (Act μ κ))
    (s : Sys σ χ μ α κ ρ) (hf : ∀ e ∈ s.feed, e.isHandle = true)
    (ha : ∀ a ∈ acts, Act.noForward a = true) :
    ∃ l, (run E X s acts).processed = s.processed ++ l ∧ (∀ e ∈ l, e.isHandle = true) ∧
      (∀ e ∈ (run E X s acts).feed, e.isHandle = true) := by
  induction acts generalizing s with
  | nil => exact ⟨[], by simp [run], by simp, hf⟩
  | cons a acts ih =>
    have hstep : ∃ l, (step E X s a).processed = s.processed ++ l ∧ (∀ e ∈ l, e.isHandle = true) ∧
        (∀ e ∈ (step E X s a).feed, e.isHandle = true) := by
      cases a with
      | push m => exact ⟨[], by simp [step, stepPush], by simp, by simpa [step, stepPush] using hf⟩
      | fwdMarket => simp [Act.noForward] at ha
      | fwdAccount k => simp [Act.noForward] at ha
      | engine =>
        simp only [step, stepEngine]
        split
        · exact ⟨[], by simp, by simp, hf⟩
        · cases hfe : s.feed with
          | nil => exact ⟨[], by simp, by simp, by simp [hfe]⟩
          | cons e rest =>
            refine ⟨[e], by simp, ?_, ?_⟩
            · intro x hx; simp at hx; rw [hx]; exact hf e (by simp [hfe])
            · intro x hx; exact hf x (by simp [hfe]; right; simpa using hx)
      | call c =>
        refine ⟨[], ?_, by simp, ?_⟩
        · simp only [step, stepCall, send]; split <;> (try split) <;> simp
        · simp only [step, stepCall, send]
          split
          · exact hf
          · split
            · exact hf
            · intro x hx
              simp at hx
              rcases hx with hx | hx
              · exact hf x hx
              · rw [hx]; exact Call.event_isHandle c
      | close how =>
        refine ⟨[], ?_, by simp, ?_⟩
        · simp only [step, stepClose, send]; split <;> (try split) <;> simp
        · simp only [step, stepClose, send]
          split
          · exact hf
          · split
            · exact hf
            · intro x hx
              simp at hx
              rcases hx with hx | hx
              · exact hf x hx
              · rw [hx]; rfl
      | takeAudit =>
        refine ⟨[], ?_, by simp, ?_⟩
        · simp only [step, stepTakeAudit]; split <;> simp
        · simp only [step, stepTakeAudit]; split <;> exact hf
    obtain ⟨l1, h1, h2, h3⟩ := hstep
    obtain ⟨l2, g1, g2, g3⟩ := ih (step E X s a) h3 (fun b hb => ha b (by simp [hb]))
    refine ⟨l1 ++ l2, ?_, ?_, ?_⟩
    · show (run E X (step E X s a) acts).processed = _
      rw [g1, h1, List.append_assoc]
    · intro e he
      rcases List.mem_append.mp he with he | he
      · exact h2 e he
      · exact g2 e he
    · exact g3

/-- (spec keys `m` / `a` of the final block) From a state whose feed holds only handle events — the
state the harness is in after every `settle` — any sequence of pushes, handle calls and `take_audit`,
then `shutdown` / `abort` and the wait for the engine, makes the engine process handle events only:
the final block's market and account projections are EMPTY. Whatever the forwarders enqueue later
stands behind the `Shutdown` and is never processed (`nothing_after_stop`). -/
theorem final_segment_no_stream_events (E : Engine σ μ α κ ρ) (X : Exchange χ ρ α)
    (s : Sys σ χ μ α κ ρ) (user : List (Act μ κ)) (n : Nat)
    (hf : ∀ e ∈ s.feed, e.isHandle = true) (hu : ∀ a ∈ user, Act.noForward a = true) :
    let s1 := run E X s user
    let s2 := run E X s1 (schedActs E X pickDrain n s1)
    ∃ l, s2.processed = s.processed ++ l ∧ marketOf l = [] ∧ accountOf l = [] ∧ handleOf l = l := by
  intro s1 s2
  have hall : ∀ a ∈ user ++ schedActs E X pickDrain n s1, Act.noForward a = true := by
    intro a ha
    rcases List.mem_append.mp ha with ha | ha
    · exact hu a ha
    · rw [drain_only_engine E X n s1 a ha]; rfl
  obtain ⟨l, h1, h2, _⟩ := no_forward_handle_only E X _ s hf hall
  have e : s2 = run E X s (user ++ schedActs E X pickDrain n s1) := (run_append E X s user _).symm
  refine ⟨l, by rw [e]; exact h1, ?_, ?_, ?_⟩
  · clear h1
    induction l with
    | nil => rfl
    | cons x xs ih =>
      rw [marketOf_cons_of_handle _ _ (h2 x (by simp))]
      exact ih (fun e he => h2 e (by simp [he]))
  · clear h1
    induction l with
    | nil => rfl
    | cons x xs ih =>
      rw [accountOf_cons_of_handle _ _ (h2 x (by simp))]
      exact ih (fun e he => h2 e (by simp [he]))
  · exact List.filter_eq_self.mpr h2

/-- (review B C20S-3; stronger than `no_forward_handle_only`) From a running system whose handle has
not been consumed and whose feed holds only handle events, `shutdown()` / `abort()` followed by ANY
schedule — forwarders included, for ever — makes the engine process handle events only. What makes
the final block's `m` / `a` empty is NOT that no forwarder runs: whatever the forwarders enqueue after
the close call stands behind the `Shutdown`, and the engine stops there. -/
theorem after_close_any_schedule (E : Engine σ μ α κ ρ) (X : Exchange χ ρ α) (s : Sys σ χ μ α κ ρ)
    (how : Closed) (more : List (Act μ κ))
    (hf : ∀ e ∈ s.feed, e.isHandle = true) (hc : s.closed = none) (hs : s.stopped = none) :
    ∃ l, (run E X (step E X s (.close how)) more).processed = s.processed ++ l ∧
      (∀ e ∈ l, e.isHandle = true) ∧ marketOf l = [] ∧ accountOf l = [] := by
  have hJ : AfterClose (step E X s (.close how)) := by
    refine ⟨by simp [step, stepClose, hc, send, hs], Or.inr ⟨s.feed, [], ?_, hf⟩⟩
    simp [step, stepClose, hc, send, hs]
  obtain ⟨_, l, h1, h2⟩ := afterClose_run E X more _ hJ
  have hm : ∀ l : List (Ev μ α κ), (∀ e ∈ l, e.isHandle = true) → marketOf l = [] ∧ accountOf l = [] := by
    intro l
    induction l with
    | nil => intro _; exact ⟨rfl, rfl⟩
    | cons x xs ih =>
      intro h
      rw [marketOf_cons_of_handle _ _ (h x (by simp)), accountOf_cons_of_handle _ _ (h x (by simp))]
      exact ih (fun e he => h e (by simp [he]))
  refine ⟨l, ?_, h2, (hm l h2).1, (hm l h2).2⟩
  rw [h1]; simp [step, stepClose, hc, send, hs]

/-- (spec keys `m` / `a` of the final block, every schedule) From a state whose feed holds only
handle events — the state the harness is in after every `settle` —: whatever the user does without
awaiting (pushes onto the market stream, handle calls, `take_audit`; the engine thread may run
meanwhile), then `shutdown()` / `abort()` — if the engine is still running at that moment — then ANY
schedule: the engine processes handle events only. -/
theorem final_segment_any_schedule (E : Engine σ μ α κ ρ) (X : Exchange χ ρ α)
    (s : Sys σ χ μ α κ ρ) (user more : List (Act μ κ)) (how : Closed)
    (hf : ∀ e ∈ s.feed, e.isHandle = true) (hu : ∀ a ∈ user, Act.noForward a = true)
    (hc : (run E X s user).closed = none) (hs : (run E X s user).stopped = none) :
    ∃ l, (run E X (step E X (run E X s user) (.close how)) more).processed = s.processed ++ l ∧
      marketOf l = [] ∧ accountOf l = [] ∧ handleOf l = l := by
  obtain ⟨l1, h1, h2, h3⟩ := no_forward_handle_only E X user s hf hu
  obtain ⟨l2, g1, g2, _, _⟩ := after_close_any_schedule E X (run E X s user) how more h3 hc hs
  have hall : ∀ e ∈ l1 ++ l2, e.isHandle = true := by
    intro e he
    rcases List.mem_append.mp he with he | he
    · exact h2 e he
    · exact g2 e he
  have hm : ∀ l : List (Ev μ α κ), (∀ e ∈ l, e.isHandle = true) → marketOf l = [] ∧ accountOf l = [] := by
    intro l
    induction l with
    | nil => intro _; exact ⟨rfl, rfl⟩
    | cons x xs ih =>
      intro h
      rw [marketOf_cons_of_handle _ _ (h x (by simp)), accountOf_cons_of_handle _ _ (h x (by simp))]
      exact ih (fun e he => h e (by simp [he]))
  refine ⟨l1 ++ l2, ?_, (hm _ hall).1, (hm _ hall).2, List.filter_eq_self.mpr hall⟩
  rw [g1, h1, List.append_assoc]

/-! ## Audit -/

/-- (audit enabled) The snapshot is the built engine state with sequence 0; the ticks sent are
exactly the ticks of the processed events: one per event, carrying it, with consecutive sequence
numbers from 1 — and once the engine has stopped the terminal tick is the last one and the only
terminal one. -/
theorem audit_enabled_stream (E : Engine σ μ α κ ρ) (X : Exchange χ ρ α) (b : SystemBuild σ)
    (x0 : χ) (acc0 : List α) (acts : List (Act μ κ)) (ha : b.auditMode = .enabled) :
    let s := reach E X b x0 acc0 acts
    s.snapshot = some (b.engine, 0) ∧
    s.ticks = ticksOf E ⟨b.engine, 1⟩ s.processed ∧
    s.ticks.filterMap Tick.event? = s.processed ∧
    s.ticks.map Tick.seq = List.range' 1 s.processed.length ∧
    consecutiveFrom 1 s.ticks = true ∧
    (s.stopped.isSome → terminalLast s.ticks = true ∧ s.ticks.getLast? = s.shutdownAudit) := by
  intro s
  have h : Inv E X b.engine x0 acc0 b.auditMode s := inv_reach E X b x0 acc0 acts
  have ht : s.ticks = ticksOf E ⟨b.engine, 1⟩ s.processed := by
    have := h.own.ticks; simpa [ha, eng0, seq0] using this
  refine ⟨by simpa [ha] using h.own.snap, ht, ?_, ?_, ?_, ?_⟩
  · rw [ht]; exact ticksOf_events E _ _
  · rw [ht]; exact ticksOf_seqs E _ _
  · rw [ht]; exact ticksOf_consecutive E ⟨b.engine, 1⟩ _
  · intro hst
    cases hs : s.stopped with
    | none => simp [hs] at hst
    | some st =>
      obtain ⟨pre, last, h1, h2, h3, h4, _⟩ := h.halt.halted st hs
      have e0 : eng0 b.engine b.auditMode = ⟨b.engine, 1⟩ := by simp [eng0, seq0, ha]
      rw [e0] at h2 h3 h4
      have hcons := consumed_of_halted E ⟨b.engine, 1⟩ pre last [] h2 h4
      have hterm := (consumed_terminal E ⟨b.engine, 1⟩ (pre ++ [last])).2 hcons.2
      rw [hcons.1] at hterm
      rw [ht, h1]
      refine ⟨hterm, ?_⟩
      rw [ticksOf_append, h3]; simp

/-- (audit disabled) No snapshot, no tick, `System.audit` is `None` and `take_audit` yields nothing,
at every moment of every schedule. -/
theorem audit_disabled_nothing (E : Engine σ μ α κ ρ) (X : Exchange χ ρ α) (b : SystemBuild σ)
    (x0 : χ) (acc0 : List α) (acts : List (Act μ κ)) (ha : b.auditMode = .disabled) :
    let s := reach E X b x0 acc0 acts
    s.snapshot = none ∧ s.ticks = [] ∧ s.auditHeld = false ∧ takeAuditResult s = none := by
  intro s
  have h : OwnInv E X b.engine x0 acc0 b.auditMode s := (inv_reach E X b x0 acc0 acts).own
  have hheld : s.auditHeld = false := by
    cases hh : s.auditHeld with
    | false => rfl
    | true => have := held_enabled E X b x0 acc0 acts hh; simp [ha] at this
  refine ⟨by simpa [ha] using h.snap, by simpa [ha] using h.ticks, hheld, ?_⟩
  simp [takeAuditResult, hheld]

/-- (`take_audit`) It yields the snapshot (with the tick receiver) iff the system was built with the
audit enabled and it has not been taken before; taking it changes nothing else. -/
theorem take_audit_once (E : Engine σ μ α κ ρ) (X : Exchange χ ρ α) (b : SystemBuild σ)
    (x0 : χ) (acc0 : List α) (acts : List (Act μ κ)) :
    let s := reach E X b x0 acc0 acts
    (takeAuditResult s).isSome = (decide (b.auditMode = .enabled) && s.auditHeld) ∧
    (∀ x, takeAuditResult s = some x → x = (b.engine, 0)) ∧
    (s.closed = none → takeAuditResult (step E X s .takeAudit) = none) ∧
    (step E X s .takeAudit).eng = s.eng ∧ (step E X s .takeAudit).feed = s.feed ∧
    (step E X s .takeAudit).ticks = s.ticks := by
  intro s
  have h : OwnInv E X b.engine x0 acc0 b.auditMode s := (inv_reach E X b x0 acc0 acts).own
  refine ⟨?_, ?_, ?_, ?_, ?_, ?_⟩
  · unfold takeAuditResult
    cases hh : s.auditHeld with
    | false => simp
    | true =>
      have := held_enabled E X b x0 acc0 acts hh
      simp [h.snap, this]
  · intro x hx
    unfold takeAuditResult at hx
    split at hx
    · rw [h.snap] at hx
      split at hx
      · injection hx with hx; exact hx.symm
      · cases hx
    · cases hx
  · intro hc; simp [step, stepTakeAudit, hc, takeAuditResult]
  · simp only [step, stepTakeAudit]; split <;> rfl
  · simp only [step, stepTakeAudit]; split <;> rfl
  · simp only [step, stepTakeAudit]; split <;> rfl

/-! ## After the engine has stopped by itself -/

/-- (bookkeeping: `simp` on `send`) Once the runner has returned, every sending call through the handle
panics and puts nothing on the feed. -/
theorem call_after_stop_panics (E : Engine σ μ α κ ρ) (X : Exchange χ ρ α) (s : Sys σ χ μ α κ ρ)
    (c : Call κ) (hst : s.stopped.isSome) (hc : s.closed = none) :
    (step E X s (.call c)).panics = s.panics + 1 ∧ (step E X s (.call c)).feed = s.feed ∧
    (step E X s (.call c)).sent = s.sent := by
  simp [step, stepCall, send, hc, hst]

/-- … and so do `shutdown()` and `abort()`: they return nothing, now or later; the engine can still
be obtained by awaiting the public join handle. -/
theorem close_after_stop_panics (E : Engine σ μ α κ ρ) (X : Exchange χ ρ α) (s : Sys σ χ μ α κ ρ)
    (how : Closed) (hst : s.stopped.isSome) (hc : s.closed = none) (more : List (Act μ κ)) :
    (step E X s (.close how)).closePanicked = true ∧
    result (run E X (step E X s (.close how)) more) = none := by
  have h1 : (step E X s (.close how)).closePanicked = true := by
    simp [step, stepClose, send, hc, hst]
  refine ⟨h1, ?_⟩
  suffices H : ∀ (s' : Sys σ χ μ α κ ρ), s'.closePanicked = true → s'.closed.isSome →
      (run E X s' more).closePanicked = true by
    have := H _ h1 (by simp [step, stepClose, send, hc, hst])
    unfold result; simp [this]
  induction more with
  | nil => intro s' h _; exact h
  | cons act more ih =>
    intro s' h hcl
    simp only [run, List.foldl_cons]
    have hstep : (step E X s' act).closePanicked = true ∧ (step E X s' act).closed.isSome := by
      cases act with
      | push m => exact ⟨h, hcl⟩
      | fwdMarket =>
        cases hm : s'.market <;> cases hs' : s'.stopped <;> simp [step, stepFwdMarket, hm, hs', h, hcl]
      | fwdAccount k =>
        cases hp : s'.pending[k]? <;> cases hs' : s'.stopped <;> simp [step, stepFwdAccount, hp, hs', h, hcl]
      | engine =>
        cases hf : s'.feed <;> cases hs' : s'.stopped <;> simp [step, stepEngine, hf, hs', h, hcl]
      | call c => simp [step, stepCall, hcl, h]
      | close how => simp [step, stepClose, hcl, h]
      | takeAudit => simp [step, stepTakeAudit, hcl, h]
    exact ih _ hstep.1 hstep.2

theorem join_after_stop (E : Engine σ μ α κ ρ) (X : Exchange χ ρ α) (b : SystemBuild σ)
    (x0 : χ) (acc0 : List α) (acts : List (Act μ κ))
    (hst : (reach E X b x0 acc0 acts).stopped.isSome) :
    ∃ t, joinResult (reach E X b x0 acc0 acts) = some ((reach E X b x0 acc0 acts).eng, t) ∧
      t.terminal = true := by
  cases hs : (reach E X b x0 acc0 acts).stopped with
  | none => simp [hs] at hst
  | some st =>
    obtain ⟨pre, last, _, _, h3, h4, _⟩ := (inv_reach E X b x0 acc0 acts).halt.halted st hs
    refine ⟨_, ?_, h4⟩
    unfold joinResult
    simp only [reach] at hs h3 ⊢
    rw [hs, h3]

/-! ## The concrete system of the correspondence (engine model of `Model/Engine.lean` + the harness's
strategy, mock exchange) -/

section Concrete
open BarterModel.Engine BarterModel.Orders BarterModel.Props.C10

/-- `acts` from `SystemBuild::init`, concrete engine and exchange. -/
abbrev creach (b : SystemBuild CEng) (x0 : CExch) (acc0 : List AccEv)
    (acts : List (Act MktEv Command)) : CSys := run cEngine cExchange (b.init x0 acc0) acts

/-- (trading state) At every moment the engine's trading state is the LAST trading-state update it
has processed (the builder's initial state if none) — commands, market and account events never touch
it, in either trading state commands are actioned — and `on_trading_disabled` has been invoked once
per `Enabled → Disabled` transition. After a graceful shutdown "processed" is "sent": the returned
engine's trading state is the last `trading_state()` call. -/
theorem trading_is_last_update (b : SystemBuild CEng) (x0 : CExch) (acc0 : List AccEv)
    (acts : List (Act MktEv Command)) :
    let s := creach b x0 acc0 acts
    s.eng.state.eng.enabled = specTrading b.engine.eng.enabled (handleOf s.processed) ∧
    s.eng.state.eng.disabledCalls =
      b.engine.eng.disabledCalls + specDisabledCalls b.engine.eng.enabled (handleOf s.processed) ∧
    (s.stopped = some .shutdown →
      s.eng.state.eng.enabled = specTrading b.engine.eng.enabled s.sent ∧
      s.eng.state.eng.disabledCalls =
        b.engine.eng.disabledCalls + specDisabledCalls b.engine.eng.enabled s.sent) := by
  intro s
  have hfold : IsFoldOf cEngine b.engine b.auditMode s.processed s.eng :=
    engine_is_fold cEngine cExchange b x0 acc0 acts
  have ht := engFold_trading b.engine s.processed
  have hh := specTrading_handleOf (μ := MktEv) (α := AccEv) (κ := Command) b.engine.eng.enabled s.processed
  have h1 : s.eng.state.eng.enabled = specTrading b.engine.eng.enabled (handleOf s.processed) := by
    rw [hfold.1, ht.1, hh.1]
  have h2 : s.eng.state.eng.disabledCalls =
      b.engine.eng.disabledCalls + specDisabledCalls b.engine.eng.enabled (handleOf s.processed) := by
    rw [hfold.1, ht.2, hh.2]
  refine ⟨h1, h2, ?_⟩
  intro hst
  obtain ⟨_, _, _, h3, _, _⟩ := result_on_shutdown cEngine cExchange b x0 acc0 acts hst
  have h3 : handleOf s.processed = s.sent := h3
  rw [← h3]; exact ⟨h1, h2⟩

/-- (`trading_state(x)` before command `c`) When the engine processes a handle event `ev` — e.g. a
command —, its trading state is the one set by the last `trading_state()` call made BEFORE the call
that sent `ev` (the builder's initial state if there was none): updates sent later have not been
applied, every update sent earlier has. -/
theorem command_sees_trading_state (b : SystemBuild CEng) (x0 : CExch) (acc0 : List AccEv)
    (acts : List (Act MktEv Command)) (pre post : List CEv) (ev : CEv)
    (hp : (creach b x0 acc0 acts).processed = pre ++ ev :: post) (hev : ev.isHandle = true) :
    (engFold cEngine b.engine pre).eng.enabled =
      specTrading b.engine.eng.enabled ((creach b x0 acc0 acts).sent.take (handleOf pre).length) := by
  have h := (applied_in_send_order cEngine cExchange b x0 acc0 acts pre post ev hp hev).1
  rw [← h, (specTrading_handleOf b.engine.eng.enabled pre).1]
  exact (engFold_trading b.engine pre).1

/-! ### The death of the execution task (review B C20S-1) -/

/-- (when the execution task dies) At every moment of every schedule the execution manager task of the
mocked exchange is dead exactly if it was handed — i.e. the engine SENT, to the mocked exchange — a
request (open or cancel) naming an instrument that exchange does not list. -/
theorem exec_task_dies_iff (b : SystemBuild CEng) (x0 : CExch) (acc0 : List AccEv)
    (acts : List (Act MktEv Command)) :
    (creach b x0 acc0 acts).exch.dead =
      (x0.dead || (creach b x0 acc0 acts).requests.any (fun r => decide (x0.k ≤ r.key.instrument))) := by
  have h := (requests_reach_exchange_in_order cEngine cExchange b x0 acc0 acts).2.1
  have h : (creach b x0 acc0 acts).exch = _ := h
  rw [h]
  exact respondAll_dead_iff _ x0

/-- a dead execution side changes no more and produces nothing, whatever the schedule -/
theorem run_dead_silent (more : List (Act MktEv Command)) (s : CSys) (hd : s.exch.dead = true) :
    (run cEngine cExchange s more).exch = s.exch ∧ (run cEngine cExchange s more).produced = s.produced := by
  induction more generalizing s with
  | nil => exact ⟨rfl, rfl⟩
  | cons a more ih =>
    have hstep : (SysHandle.step cEngine cExchange s a).exch = s.exch ∧ (SysHandle.step cEngine cExchange s a).produced = s.produced := by
      cases a with
      | push m => exact ⟨rfl, rfl⟩
      | fwdMarket => simp only [SysHandle.step, stepFwdMarket]; split <;> (try split) <;> exact ⟨rfl, rfl⟩
      | fwdAccount k => simp only [SysHandle.step, stepFwdAccount]; split <;> (try split) <;> exact ⟨rfl, rfl⟩
      | call c => simp only [SysHandle.step, stepCall, send]; split <;> (try split) <;> exact ⟨rfl, rfl⟩
      | close how => simp only [SysHandle.step, stepClose, send]; split <;> (try split) <;> exact ⟨rfl, rfl⟩
      | takeAudit => simp only [SysHandle.step, stepTakeAudit]; split <;> exact ⟨rfl, rfl⟩
      | engine =>
        simp only [SysHandle.step, stepEngine]
        split
        · exact ⟨rfl, rfl⟩
        · split
          · exact ⟨rfl, rfl⟩
          · simp [respondAll_dead _ s.exch hd]
    have := ih (SysHandle.step cEngine cExchange s a) (by rw [hstep.1]; exact hd)
    exact ⟨this.1.trans hstep.1, this.2.trans hstep.2⟩

/-- (after the death) Whatever is requested of a dead execution side, no response and no notification
is ever produced again: the requests stay unanswered (their orders in flight) for ever. -/
theorem dead_execution_side_is_silent (b : SystemBuild CEng) (x0 : CExch) (acc0 : List AccEv)
    (acts more : List (Act MktEv Command)) (hd : (creach b x0 acc0 acts).exch.dead = true) :
    (creach b x0 acc0 (acts ++ more)).produced = (creach b x0 acc0 acts).produced ∧
    (creach b x0 acc0 (acts ++ more)).exch = (creach b x0 acc0 acts).exch := by
  have e : creach b x0 acc0 (acts ++ more) = run cEngine cExchange (creach b x0 acc0 acts) more :=
    run_append cEngine cExchange _ acts more
  rw [e]
  exact ⟨(run_dead_silent more _ hd).2, (run_dead_silent more _ hd).1⟩

/-- (audit ⇒ replica) With the audit enabled, a `StateReplicaManager` started from the snapshot and
run over the audit ticks (the `Replica` of `Model/Audit.lean`) accepts every tick — none skipped,
none rejected —, ends at the sequence of the last tick, and its state reproduces the engine's at
that moment (`Props.C10.Synced`: trading state, positions, prices, and orders once in-flight request
markers are set aside) — for every schedule and at every moment, in particular for the engine that
`shutdown()` / `abort()` return. The hypotheses of the C10 theorem (`HistoryOk`) are DISCHARGED here
for this system: its exchange only reports final order states, so no client order id is ever
confirmed open. Needs an engine built without orders (`SystemBuilder::build` builds it so).
(Review B C20S-7: the replica is fed the ticks RECOMPUTED from the processed history, `cAuditTicks`,
not `s.ticks` — `SysHandle.Tick` carries sequence number, event and terminal flag but no output; the
last conjunct says that the recomputed ticks have the sequence numbers and terminal flags of the ticks
actually sent, and `audit_enabled_stream` that the ticks sent carry exactly the processed events. That
the REAL ticks' outputs drive the REAL replica to the engine's state is the harness's `replica_eq`.) -/
theorem audit_replica_reproduces_engine (b : SystemBuild CEng) (x0 : CExch) (acc0 : List AccEv)
    (acts : List (Act MktEv Command)) (hno : ∀ i c, orderState b.engine.eng i c = none) :
    let s := creach b x0 acc0 acts
    ∃ r, Audit.Replica.run ⟨b.engine.eng, 0⟩ (cAuditTicks b.engine 1 s.processed) = .ok r ∧
      r.seq = s.processed.length ∧ Synced s.eng.state.eng r.state ∧
      (b.auditMode = .enabled →
        (cAuditTicks b.engine 1 s.processed).map Audit.Tick.seq = s.ticks.map SysHandle.Tick.seq ∧
        (cAuditTicks b.engine 1 s.processed).map Audit.Tick.terminal = s.ticks.map SysHandle.Tick.terminal) := by
  intro s
  have hinv : Inv cEngine cExchange b.engine x0 acc0 b.auditMode s := inv_reach cEngine cExchange b x0 acc0 acts
  have hfold : IsFoldOf cEngine b.engine b.auditMode s.processed s.eng :=
    engine_is_fold cEngine cExchange b x0 acc0 acts
  -- the replica consumes the whole processed history: no terminal tick before the last one
  have hcons : consumed cEngine ⟨b.engine, 1⟩ s.processed = s.processed := by
    have key : ∀ q, consumed cEngine ⟨b.engine, q⟩ s.processed = s.processed := by
      intro q
      -- terminality of a tick does not depend on the sequence counter
      have hq : ∀ (h : List CEv) (e : CEng) (q q' : Nat),
          (ticksOf cEngine ⟨e, q⟩ h).map Tick.terminal = (ticksOf cEngine ⟨e, q'⟩ h).map Tick.terminal := by
        intro h
        induction h with
        | nil => intro e q q'; rfl
        | cons x h ih =>
          intro e q q'
          simp only [ticksOf, List.map_cons]
          have := ih (processWithAudit cEngine ⟨e, q⟩ x).1.state (q + 1) (q' + 1)
          exact List.cons_eq_cons.mpr ⟨rfl, this⟩
      have hnt : ∀ (h : List CEv),
          (∀ t ∈ ticksOf cEngine (eng0 b.engine b.auditMode) h, t.terminal = false) →
          (∀ t ∈ ticksOf cEngine ⟨b.engine, q⟩ h, t.terminal = false) := by
        intro h hall t ht
        have h1 : t.terminal ∈ (ticksOf cEngine ⟨b.engine, q⟩ h).map Tick.terminal :=
          List.mem_map_of_mem ht
        rw [hq h b.engine q (seq0 b.auditMode)] at h1
        obtain ⟨t', ht', he⟩ := List.mem_map.mp h1
        rw [← he]; exact hall t' ht'
      cases hs : s.stopped with
      | none => exact consumed_of_running cEngine _ _ (hnt _ (hinv.halt.running hs).1)
      | some st =>
        obtain ⟨pre, last, h1, h2, _, h4, _⟩ := hinv.halt.halted st hs
        rw [h1]
        have h4' : (processWithAudit cEngine (engAfter cEngine ⟨b.engine, q⟩ pre) last).2.1.terminal = true := by
          have e1 : (engAfter cEngine ⟨b.engine, q⟩ pre).state =
              (engAfter cEngine (eng0 b.engine b.auditMode) pre).state := by
            rw [engAfter_state, engAfter_state]; rfl
          simp only [processWithAudit, Tick.terminal] at h4 ⊢
          rw [e1]; exact h4
        have := consumed_of_halted cEngine ⟨b.engine, q⟩ pre last [] (hnt _ h2) h4'
        simpa using this.1
    exact key 1
  have hrun := replica_run_ticks b.engine b.engine.eng 0 s.processed
  simp only [Nat.zero_add] at hrun
  rw [hcons] at hrun
  refine ⟨_, hrun, rfl, ?_, ?_⟩
  · have hn : NoConfirmed b.engine.eng := by intro i c; rw [hno i c]; rfl
    have hsim := replica_simulation b.engine.eng b.engine.eng (cHist b.engine s.processed)
      (synced_snapshot b.engine.eng (by intro i c; rw [hno i c]; rfl))
      (historyOk_cHist b.engine s.processed hn)
    rw [← engFold_eq_engineRun, ← hfold.1] at hsim
    exact hsim
  · intro ha
    have ht : s.ticks = ticksOf cEngine ⟨b.engine, 1⟩ s.processed := by
      have := hinv.own.ticks; simpa [ha, eng0, seq0] using this
    rw [ht]; exact cAuditTicks_agree b.engine 1 s.processed

/-- The engine `SystemBuilder::build` builds for the correspondence has no orders. -/
theorem cMkEngine_no_orders (k : Nat) (x2 trading : Bool) (i c : Nat) :
    orderState (cMkEngine k x2 trading).eng i c = none := by
  unfold orderState
  cases h : (cMkEngine k x2 trading).eng.instruments[i]? with
  | none => rfl
  | some st =>
    have hm : st ∈ (cMkEngine k x2 trading).eng.instruments := List.mem_of_getElem? h
    simp only [cMkEngine, List.mem_append, List.mem_map] at hm
    rcases hm with ⟨j, _, rfl⟩ | hm
    · rfl
    · split at hm
      · simp only [List.mem_singleton] at hm; subst hm; rfl
      · simp at hm

/-- (account events of one block commute) In a state where the strategy has nothing pending
(`Settled`: while trading is enabled it has answered every recorded trade — true after every tick),
no order is confirmed open and positions are well-formed, processing a block of account events of the
mock exchange (order reports, cancel errors, balances, fills with positive quantity) in ANY order
leads to the SAME engine: orders, positions, prices, trading state, request log, everything. This is
what the correspondence relies on when it compares the account events of one `settle` segment as a
sorted multiset: their arrival order is tokio's, the resulting engine is not. -/
theorem account_order_irrelevant (s : CEng) (l1 l2 : List AccEv) (ok : StateOk s)
    (hq : ∀ a ∈ l1, AccOk a) (hperm : l1.Perm l2) :
    engFold cEngine s (l1.map Ev.account) = engFold cEngine s (l2.map Ev.account) := by
  rw [engFold_accounts s l1 ok.settled ok.noConfirmed, engFold_accounts s l2 ok.settled ok.noConfirmed,
    foldl_accApply_perm l1 l2 hperm s.eng ok.posOk hq]

/-- … and every state the concrete system reaches is such a state: for every schedule from a build
of `cMkEngine`, as long as the fills the engine has processed carry positive quantities. -/
theorem reachable_state_ok (b : SystemBuilder) (k : Nat) (x2 : Bool) (x0 : CExch) (acc0 : List AccEv)
    (acts : List (Act MktEv Command))
    (hq : ∀ ev ∈ (creach (b.build (cMkEngine k x2)) x0 acc0 acts).processed, EvOk ev) :
    StateOk (creach (b.build (cMkEngine k x2)) x0 acc0 acts).eng.state := by
  have hfold : IsFoldOf cEngine (b.build (cMkEngine k x2)).engine (b.build (cMkEngine k x2)).auditMode
      (creach (b.build (cMkEngine k x2)) x0 acc0 acts).processed
      (creach (b.build (cMkEngine k x2)) x0 acc0 acts).eng :=
    engine_is_fold cEngine cExchange _ x0 acc0 acts
  rw [hfold.1]
  apply stateOk_engFold _ _ _ hq
  refine ⟨?_, ?_, ?_⟩
  · intro _; rfl
  · intro i c
    show Audit.strip (orderState (cMkEngine k x2 _).eng i c) = none
    rw [cMkEngine_no_orders]; rfl
  · intro st hst
    simp only [SystemBuilder.build, cMkEngine, List.mem_append, List.mem_map] at hst
    intro sd q hp
    rcases hst with ⟨j, _, rfl⟩ | hst
    · cases hp
    · split at hst
      · simp only [List.mem_singleton] at hst; subst hst; cases hp
      · simp at hst

/-! ### The input-level guard (review B C20S-2) -/

/-- (`EvOk` / `AccOk` derived from the INPUTS) If every open request sent through the handle and every
market item pushed satisfies the guard `PosOps` (positive prices, positive quantities — what harness
and drivers enforce: anything else is `bad-op`), then along EVERY schedule every open request the
engine sends — the user's, the strategy's reactions, the closing orders `close_positions` derives from
the engine's own positions — carries a positive quantity, every event the engine processes is `EvOk`
(every fill positive), and every reachable engine state is `StateOk`. -/
theorem posOps_events_ok (b : SystemBuilder) (k : Nat) (x2 : Bool) (x0 : CExch) (acc0 : List AccEv)
    (acts : List (Act MktEv Command)) (hacc0 : ∀ a ∈ acc0, AccOk a) (hops : PosOps acts) :
    let s := creach (b.build (cMkEngine k x2)) x0 acc0 acts
    (∀ ev ∈ s.processed, EvOk ev) ∧ (∀ r ∈ s.requests, CReqOk r) ∧ StateOk s.eng.state := by
  intro s
  have h0 : PosInv ((b.build (cMkEngine k x2)).init x0 acc0 : CSys) :=
    { reqs := by intro r hr; simp [SystemBuild.init] at hr
      pend := hacc0
      feed := by intro ev hev; simp [SystemBuild.init] at hev
      mkt := by intro m hm; simp [SystemBuild.init] at hm
      proc := by intro ev hev; simp [SystemBuild.init] at hev
      st := reachable_state_ok b k x2 x0 acc0 [] (by intro ev hev; simp [creach, SysHandle.run, SystemBuild.init] at hev)
      trades := by intro t ht; simp [SystemBuild.init, SystemBuilder.build, cMkEngine] at ht }
  have h := posInv_run acts _ h0 hops
  exact ⟨h.proc, h.reqs, h.st⟩

/-- `reachable_state_ok` with its hypothesis discharged from the inputs. -/
theorem reachable_state_ok_of_posOps (b : SystemBuilder) (k : Nat) (x2 : Bool) (x0 : CExch)
    (acc0 : List AccEv) (acts : List (Act MktEv Command)) (hacc0 : ∀ a ∈ acc0, AccOk a)
    (hops : PosOps acts) :
    StateOk (creach (b.build (cMkEngine k x2)) x0 acc0 acts).eng.state :=
  (posOps_events_ok b k x2 x0 acc0 acts hacc0 hops).2.2

/-- the initial account snapshot of the correspondence satisfies the hypothesis on `acc0` -/
theorem snapshot_accOk (q : Rat) (bs : List Rat) : ∀ a ∈ [AccEv.snapshot q bs], AccOk a := by
  intro a ha i o ho
  simp only [List.mem_singleton] at ha
  subst ha
  simp [accOp] at ho

/-! ### Non-vacuity: concrete schedules (evaluated by the kernel) -/

/-- audit enabled, trading enabled, 1 instrument, quote balance 1000 -/
def demoBuild : SystemBuild CEng :=
  ((SystemBuilder.new.audit_mode .enabled).trading_state true).build (cMkEngine 1 false)
def demoExch : CExch := { k := 1, quote := 1000, base := [10] }
def demoOpen : OpenReq := ⟨⟨0, 0, 1⟩, .buy, 100, 1⟩

/-- open request, trading off, shutdown; a market event forwarded behind the `Shutdown` stays on the feed -/
def demoActs : List (Act MktEv Command) :=
  [ .call (send_open_requests [demoOpen]), .engine, .fwdAccount 0, .engine, .fwdAccount 0, .engine,
    .call (trading_state false), .close .graceful, .push ⟨0, 0, 101, none, false⟩, .fwdMarket,
    .engine, .engine, .engine ]

example : (creach demoBuild demoExch [.snapshot 1000 [10]] demoActs).stopped = some .shutdown := by
  decide +kernel
example : (result (creach demoBuild demoExch [.snapshot 1000 [10]] demoActs)).isSome = true := by
  decide +kernel
example : (creach demoBuild demoExch [.snapshot 1000 [10]] demoActs).processed.length = 5 ∧
    (creach demoBuild demoExch [.snapshot 1000 [10]] demoActs).eng.seq = 6 ∧
    (creach demoBuild demoExch [.snapshot 1000 [10]] demoActs).ticks.length = 5 ∧
    (creach demoBuild demoExch [.snapshot 1000 [10]] demoActs).feed.length = 1 ∧
    (creach demoBuild demoExch [.snapshot 1000 [10]] demoActs).eng.state.eng.enabled = false ∧
    (creach demoBuild demoExch [.snapshot 1000 [10]] demoActs).eng.state.eng.disabledCalls = 1 := by
  decide +kernel
-- audit disabled: one sequence number less, no tick
example : (creach ((SystemBuilder.new.trading_state true).build (cMkEngine 1 false)) demoExch
      [.snapshot 1000 [10]] demoActs).eng.seq = 5 ∧
    (creach ((SystemBuilder.new.trading_state true).build (cMkEngine 1 false)) demoExch
      [.snapshot 1000 [10]] demoActs).ticks.length = 0 := by
  decide +kernel
-- a request for the exchange without execution link stops the engine; the next call panics,
-- `shutdown()` returns nothing, the join handle still yields the engine
def demoFatal : List (Act MktEv Command) :=
  [ .call (send_open_requests [⟨⟨1, 1, 5⟩, .buy, 10, 1⟩]), .engine, .call (trading_state true),
    .close .graceful, .engine ]
example : (creach (SystemBuilder.new.build (cMkEngine 1 true)) demoExch [] demoFatal).stopped = some .fatal ∧
    (creach (SystemBuilder.new.build (cMkEngine 1 true)) demoExch [] demoFatal).panics = 2 ∧
    (result (creach (SystemBuilder.new.build (cMkEngine 1 true)) demoExch [] demoFatal)).isSome = false ∧
    (joinResult (creach (SystemBuilder.new.build (cMkEngine 1 true)) demoExch [] demoFatal)).isSome = true := by
  decide +kernel

/-- instrument 1 lives on exchange 1; the request addresses it on exchange 0 (the mocked one) -/
def demoForeign (how : Closed) : List (Act MktEv Command) :=
  [ .call (send_open_requests [⟨⟨0, 1, 5⟩, .buy, 10, 1⟩]), .engine, .close how, .engine ]

/-- (witness of the difference; the reviewer's cases `foreign_instr_shutdown|abort`) Same calls, same
schedule, the engine task returns in both: `shutdown()` evaluates to the `JoinError` of the dead
execution manager, `abort()` to `Ok(engine, audit)`. -/
theorem exec_death_witness :
    let sd := creach (SystemBuilder.new.build (cMkEngine 1 true)) demoExch [] (demoForeign .graceful)
    let ab := creach (SystemBuilder.new.build (cMkEngine 1 true)) demoExch [] (demoForeign .aborted)
    sd.exch.dead = true ∧ ab.exch.dead = true ∧
    sd.stopped = some .shutdown ∧ ab.stopped = some .shutdown ∧
    (result sd).isSome = true ∧ (result ab).isSome = true ∧
    (outcome CExch.dead sd).map Outcome.isJoinError = some true ∧
    (outcome CExch.dead ab).map Outcome.isJoinError = some false := by
  decide +kernel
/-- an open request of quantity 0, accepted and filled by the mock exchange -/
def zeroActs : List (Act MktEv Command) :=
  [ .fwdAccount 0, .engine, .call (send_open_requests [⟨⟨0, 0, 1⟩, .buy, 100, 0⟩]), .engine,
    .fwdAccount 0, .engine, .fwdAccount 0, .engine, .fwdAccount 0, .engine ]

/-- (what the guard excludes) A zero-quantity open request is accepted and "filled" by the mock
exchange; the engine then holds a position of quantity 0 — a state outside `StateOk` (`Canon` fails),
and the state on which the REAL engine panics at the next fill or price update of that instrument
(`quantity_abs / quantity_abs_max` = 0 / 0 in `approximate_remaining_exit_fees`, position.rs:517-523,
reached from `update_pnl_unrealised`; re-run: audit/sub/scratch_B/C20S_z1.ops, C20S_z2.ops). The
model continues there; harness and drivers reject such inputs as `bad-op`. The panic itself is stated
on the full position record in the sub-check C20E (`Props.C20E.zero_quantity_position_panics_witness`). -/
theorem zero_quantity_fill_witness :
    let s := creach (SystemBuilder.new.build (cMkEngine 1 false)) demoExch [.snapshot 1000 [10]] zeroActs
    s.stopped = none ∧ s.processed.length = 5 ∧
    (s.eng.state.eng.instruments[0]?.bind (·.position)) = some (.buy, 0) := by
  decide +kernel
end Concrete

end BarterModel.Props.C20S
