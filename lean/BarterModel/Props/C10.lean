import BarterModel.Lemmas.Audit
/-!
# C10 — Audit stream is gap-free and sufficient to replicate engine state

`runWithAudit` is the engine run loop with auditing (sync and async runners share it), `Replica`
the state replica manager. `Synced e r` says the replica `r` reproduces the engine `e`: same trading
state, same position and price per instrument, and per instrument and client order id the same
order state **once in-flight request markers are set aside** (`strip`).

Hypotheses of the replication theorem (each is necessary; see the `example`s at the end):
* `Op.exchangeReport`: order reports carry exchange states only (open / cancelled / fully filled /
  failed / expired, cancel responses) — never an in-flight echo or a hand-built cancel marker;
* `FreshCids`: an open request reported sent re-uses no client order id whose order the exchange
  has confirmed open (`strip (state before) = none`).
**Partial**: connectivity, balances, market-data registers and tear sheets are updated by the same
`update_from_*` calls on both sides and are compared directly on the real engine / replica by the
correspondence run, not re-proved here; that the async runner's channel is FIFO is an assumption.
-/
namespace BarterModel.Props.C10
open BarterModel.Audit BarterModel.Engine BarterModel.Orders

/-- (1) one record per processed event, carrying that event, stamped with the engine's sequence,
which then advances by exactly one. -/
theorem one_record_per_event (s : EngA) (ev : Event) (ask : Ask) :
    (processWithAudit s ev ask).2 = .process s.seq ev (process s.eng ev ask.algoC ask.algoO ask.refuse).2 ∧
    (processWithAudit s ev ask).1.seq = s.seq + 1 ∧
    (processWithAudit s ev ask).1.eng = (process s.eng ev ask.algoC ask.algoO ask.refuse).1 :=
  ⟨rfl, rfl, rfl⟩

/-- (1) strictly consecutive sequence numbers: the records of a run are numbered
`seq, seq+1, …` (following the snapshot record, which consumed `seq-1`), and the engine's sequence
ends one past the last record. -/
theorem consecutive (s : EngA) (feed : List (Event × Ask)) :
    (runWithAudit s feed).2.map Tick.seq = List.range' s.seq (runWithAudit s feed).2.length ∧
    (runWithAudit s feed).1.seq = s.seq + (runWithAudit s feed).2.length := by
  induction feed generalizing s with
  | nil => simp [runWithAudit, Tick.seq, List.range']
  | cons t rest ih =>
    obtain ⟨ev, ask⟩ := t
    simp only [runWithAudit]
    split
    · simp [processWithAudit, Tick.seq, List.range']
    · have := ih (processWithAudit s ev ask).1
      simp only [List.map_cons, List.length_cons, List.range'_succ]
      refine ⟨?_, ?_⟩
      · rw [this.1]; simp [processWithAudit, Tick.seq]
      · rw [this.2]; simp [processWithAudit]; omega

/-- (1) the records carry the feed's events, in order (a prefix of the feed when the run stopped on
a terminal record). -/
theorem records_carry_events (s : EngA) (feed : List (Event × Ask)) :
    ∃ n, n ≤ feed.length ∧
      (runWithAudit s feed).2.filterMap (fun t => match t with
        | .process _ ev _ => some ev | .feedEnded _ => none) = (feed.take n).map (·.1) := by
  induction feed generalizing s with
  | nil => exact ⟨0, by simp, by simp [runWithAudit]⟩
  | cons t rest ih =>
    obtain ⟨ev, ask⟩ := t
    simp only [runWithAudit]
    split
    · exact ⟨1, by simp, by simp [processWithAudit]⟩
    · obtain ⟨n, hn, h⟩ := ih (processWithAudit s ev ask).1
      refine ⟨n + 1, by simpa using hn, ?_⟩
      have ht : (processWithAudit s ev ask).2 =
          Tick.process s.seq ev (process s.eng ev ask.algoC ask.algoO ask.refuse).2 := rfl
      simp only [List.filterMap_cons, ht, List.take_succ_cons, List.map_cons]
      rw [h]

/-- (2) the run's final record is the shutdown, feed-ended or fatal-error record, and no earlier
record is terminal (nothing is processed after a terminal record). -/
theorem terminal_last (s : EngA) (feed : List (Event × Ask)) :
    ∃ init last, (runWithAudit s feed).2 = init ++ [last] ∧ last.terminal = true ∧
      ∀ t ∈ init, t.terminal = false := by
  induction feed generalizing s with
  | nil => exact ⟨[], .feedEnded s.seq, by simp [runWithAudit], rfl, by simp⟩
  | cons t rest ih =>
    obtain ⟨ev, ask⟩ := t
    simp only [runWithAudit]
    split
    · rename_i ht; exact ⟨[], _, by simp, ht, by simp⟩
    · rename_i ht
      obtain ⟨init, last, h, hl, hi⟩ := ih (processWithAudit s ev ask).1
      refine ⟨(processWithAudit s ev ask).2 :: init, last, by simp [h], hl, ?_⟩
      intro x hx
      rcases List.mem_cons.mp hx with rfl | hx
      · simpa using ht
      · exact hi x hx

/-- The replica reproduces the engine (orders: once in-flight markers are set aside). -/
structure Synced (e r : Eng) : Prop where
  trading : r.enabled = e.enabled
  length : r.instruments.length = e.instruments.length
  positions : ∀ (i : Nat) (se sr : Instr), e.instruments[i]? = some se → r.instruments[i]? = some sr →
    sr.position = se.position ∧ sr.price = se.price
  orders : ∀ (i c : Nat), orderState r i c = strip (orderState e i c)

/-- the hypothesis on order reports of an event -/
def EventOk : Event → Prop
  | .update (.order _ op) => Op.exchangeReport op = true
  | _ => True

/-- the hypothesis on open requests: an id whose order the exchange has confirmed is not re-used -/
def FreshCids (e : Eng) (opens : List OpenReq) : Prop :=
  ∀ o ∈ opens, strip (orderState e o.key.instrument o.key.cid) = none

theorem synced_of_eq_instruments {e e' r : Eng} (h : Synced e r)
    (hi : e'.instruments = e.instruments) (hen : e'.enabled = e.enabled) : Synced e' r :=
  ⟨by rw [hen]; exact h.trading, by rw [hi]; exact h.length,
   by intro i se sr; rw [hi]; exact h.positions i se sr,
   by intro i c; have := h.orders i c; simpa [orderState, hi] using this⟩

theorem synced_recordCancel {e r : Eng} (h : Synced e r) (q : CancelReq) :
    Synced (recordCancel e q) r := by
  refine ⟨h.trading, by rw [recordCancel_length]; exact h.length, ?_, ?_⟩
  · intro i se sr hse hsr
    simp only [recordCancel, modifyInstr_getElem?] at hse
    by_cases hi : i = q.key.instrument
    · subst hi
      cases hx : e.instruments[q.key.instrument]? with
      | none => simp [hx] at hse
      | some s0 =>
        simp [hx] at hse; subst hse
        exact h.positions _ s0 sr hx hsr
    · simp [hi] at hse; exact h.positions i se sr hse hsr
  · intro i c
    rw [orderState_recordCancel]
    split
    · rw [h.orders i c]
      cases ho : orderState e i c with
      | none => rfl
      | some a => simpa [Lifecycle.step] using (strip_cancel_mark (some a)).symm
    · exact h.orders i c

theorem synced_recordCancels {e r : Eng} (h : Synced e r) (qs : List CancelReq) :
    Synced (recordCancels e qs) r := by
  induction qs generalizing e with
  | nil => exact h
  | cons q qs ih => exact ih (synced_recordCancel h q)

theorem synced_recordOpen {e r : Eng} (h : Synced e r) (o : OpenReq)
    (hf : strip (orderState e o.key.instrument o.key.cid) = none) : Synced (recordOpen e o) r := by
  refine ⟨h.trading, by rw [recordOpen_length]; exact h.length, ?_, ?_⟩
  · intro i se sr hse hsr
    simp only [recordOpen, modifyInstr_getElem?] at hse
    by_cases hi : i = o.key.instrument
    · subst hi
      cases hx : e.instruments[o.key.instrument]? with
      | none => simp [hx] at hse
      | some s0 =>
        simp [hx] at hse; subst hse
        exact h.positions _ s0 sr hx hsr
    · simp [hi] at hse; exact h.positions i se sr hse hsr
  · intro i c
    rw [orderState_recordOpen]
    split
    · rename_i hh
      obtain ⟨h1, h2, _⟩ := hh
      subst h1; subst h2
      rw [h.orders, hf]; rfl
    · exact h.orders i c

theorem synced_recordOpens {e r : Eng} (h : Synced e r) (os : List OpenReq) (hf : FreshCids e os) :
    Synced (recordOpens e os) r := by
  induction os generalizing e with
  | nil => exact h
  | cons o os ih =>
    simp only [recordOpens, List.foldl_cons]
    apply ih (synced_recordOpen h o (hf o (by simp)))
    intro o' ho'
    rw [orderState_recordOpen]
    split
    · rfl
    · exact hf o' (by simp [ho'])

theorem synced_applyUpdate {e r : Eng} (h : Synced e r) (u : Update) (hu : EventOk (.update u)) :
    Synced (applyUpdate e u) (applyUpdate r u) := by
  have hlen : ∀ (x : Eng), (applyUpdate x u).instruments.length = x.instruments.length := by
    intro x; cases u <;> simp [applyUpdate, modifyInstr_length]
  refine ⟨by cases u <;> exact h.trading, by rw [hlen, hlen]; exact h.length, ?_, ?_⟩
  · intro i se sr hse hsr
    cases u with
    | order j op =>
      simp only [applyUpdate, modifyInstr_getElem?] at hse hsr
      by_cases hi : i = j
      · subst hi
        cases hx : e.instruments[i]? with
        | none => simp [hx] at hse
        | some s0 =>
          cases hy : r.instruments[i]? with
          | none => simp [hy] at hsr
          | some r0 =>
            simp [hx] at hse; simp [hy] at hsr; subst hse; subst hsr
            exact h.positions i s0 r0 hx hy
      · simp [hi] at hse hsr; exact h.positions i se sr hse hsr
    | position j side q =>
      simp only [applyUpdate, modifyInstr_getElem?] at hse hsr
      by_cases hi : i = j
      · subst hi
        cases hx : e.instruments[i]? with
        | none => simp [hx] at hse
        | some s0 =>
          cases hy : r.instruments[i]? with
          | none => simp [hy] at hsr
          | some r0 =>
            simp [hx] at hse; simp [hy] at hsr; subst hse; subst hsr
            exact ⟨rfl, (h.positions i s0 r0 hx hy).2⟩
      · simp [hi] at hse hsr; exact h.positions i se sr hse hsr
    | flat j =>
      simp only [applyUpdate, modifyInstr_getElem?] at hse hsr
      by_cases hi : i = j
      · subst hi
        cases hx : e.instruments[i]? with
        | none => simp [hx] at hse
        | some s0 =>
          cases hy : r.instruments[i]? with
          | none => simp [hy] at hsr
          | some r0 =>
            simp [hx] at hse; simp [hy] at hsr; subst hse; subst hsr
            exact ⟨rfl, (h.positions i s0 r0 hx hy).2⟩
      · simp [hi] at hse hsr; exact h.positions i se sr hse hsr
    | price j p =>
      simp only [applyUpdate, modifyInstr_getElem?] at hse hsr
      by_cases hi : i = j
      · subst hi
        cases hx : e.instruments[i]? with
        | none => simp [hx] at hse
        | some s0 =>
          cases hy : r.instruments[i]? with
          | none => simp [hy] at hsr
          | some r0 =>
            simp [hx] at hse; simp [hy] at hsr; subst hse; subst hsr
            exact ⟨(h.positions i s0 r0 hx hy).1, rfl⟩
      · simp [hi] at hse hsr; exact h.positions i se sr hse hsr
    | other => exact h.positions i se sr hse hsr
  · intro i c
    cases u with
    | order j op =>
      rw [orderState_applyUpdate_order, orderState_applyUpdate_order]
      by_cases hi : i = j
      · subst hi
        simp only [↓reduceIte]
        have ho := h.orders i c
        unfold orderState at ho
        cases hx : e.instruments[i]? with
        | none =>
          have : r.instruments[i]? = none := by
            have hl := h.length
            rcases Nat.lt_or_ge i e.instruments.length with hlt | hge
            · simp [List.getElem?_eq_getElem hlt] at hx
            · exact List.getElem?_eq_none (by omega)
          simp [this]; rfl
        | some s0 =>
          cases hy : r.instruments[i]? with
          | none =>
            have hlt : i < e.instruments.length := (List.getElem?_eq_some_iff.mp hx).1
            have : i < r.instruments.length := by rw [h.length]; exact hlt
            simp [List.getElem?_eq_getElem this] at hy
          | some r0 =>
            simp only [hx, hy] at ho ⊢
            exact strip_step_tables s0.orders r0.orders op c hu ho
      · simp only [hi, ↓reduceIte]; exact h.orders i c
    | position j side q =>
      rw [orderState_applyUpdate_other _ _ _ _ (by intro i op; simp),
        orderState_applyUpdate_other _ _ _ _ (by intro i op; simp)]
      exact h.orders i c
    | flat j =>
      rw [orderState_applyUpdate_other _ _ _ _ (by intro i op; simp),
        orderState_applyUpdate_other _ _ _ _ (by intro i op; simp)]
      exact h.orders i c
    | price j p =>
      rw [orderState_applyUpdate_other _ _ _ _ (by intro i op; simp),
        orderState_applyUpdate_other _ _ _ _ (by intro i op; simp)]
      exact h.orders i c
    | other => exact h.orders i c

/-- `generate_algo_orders` on the engine only keeps the replica in sync -/
theorem synced_generate {e r : Eng} (h : Synced e r) (algoC : List CancelReq) (algoO : List OpenReq)
    (refuse : Key → Bool)
    (hf : FreshCids e (generateAlgoOrders e algoC algoO refuse).2.opens.sent) :
    Synced (generateAlgoOrders e algoC algoO refuse).1 r := by
  simp only [generateAlgoOrders] at hf ⊢
  apply synced_recordOpens
  · apply synced_recordCancels
    exact synced_of_eq_instruments h rfl rfl
  · intro o ho
    rw [strip_recordCancels_eq]
    simpa [orderState, sendRequests] using hf o ho

theorem synced_generateStage {e r : Eng} (h : Synced e r) (cmd : Option ActionOut)
    (algoC : List CancelReq) (algoO : List OpenReq) (refuse : Key → Bool)
    (hf : ∀ g, (generateStage e cmd algoC algoO refuse).2.generated = some g → FreshCids e g.opens.sent) :
    Synced (generateStage e cmd algoC algoO refuse).1 r := by
  unfold generateStage at hf ⊢
  split
  · rename_i hen
    simp only [hen, ↓reduceIte] at hf
    exact synced_generate h _ _ _ (hf _ rfl)
  · exact h

theorem synced_send {e r : Eng} (h : Synced e r) {α : Type} (toReq : α → Req) (rs : List α) :
    Synced (sendRequests e toReq rs).1 r := synced_of_eq_instruments h rfl rfl

theorem synced_action {e r : Eng} (h : Synced e r) (c : Command)
    (hf : FreshCids e (action e c).2.opens.sent) : Synced (action e c).1 r := by
  cases c with
  | sendCancelRequests rs =>
    simp only [action]
    exact synced_recordCancels (synced_send h _ _) _
  | sendOpenRequests rs =>
    simp only [action] at hf ⊢
    apply synced_recordOpens (synced_send h _ _)
    intro o ho; simpa [orderState, sendRequests] using hf o ho
  | closePositions f =>
    simp only [action] at hf ⊢
    apply synced_recordOpens
    · exact synced_recordCancels (synced_send (synced_send h _ _) _ _) _
    · intro o ho
      rw [strip_recordCancels_eq]
      simpa [orderState, sendRequests] using hf o ho
  | cancelOrders f =>
    simp only [action]
    exact synced_recordCancels (synced_send h _ _) _

theorem mem_sentOpens_cmd (e : Eng) (a : ActionOut) (algoC : List CancelReq) (algoO : List OpenReq)
    (refuse : Key → Bool) (o : OpenReq) (ho : o ∈ a.opens.sent) :
    o ∈ sentOpens (generateStage e (some a) algoC algoO refuse).2 := by
  unfold sentOpens; rw [generateStage_commanded]; simp [ho]

theorem mem_sentOpens_gen (e : Eng) (cmd : Option ActionOut) (algoC : List CancelReq)
    (algoO : List OpenReq) (refuse : Key → Bool) (g : AlgoOut)
    (hg : (generateStage e cmd algoC algoO refuse).2.generated = some g) (o : OpenReq)
    (ho : o ∈ g.opens.sent) : o ∈ sentOpens (generateStage e cmd algoC algoO refuse).2 := by
  unfold sentOpens; rw [hg]; simp [ho]

theorem updateTradingState_fields (e : Eng) (on : Bool) :
    (updateTradingState e on).instruments = e.instruments ∧ (updateTradingState e on).enabled = on := by
  unfold updateTradingState
  split
  · rename_i hc; simp at hc; simp [hc.2]
  · exact ⟨rfl, rfl⟩

/-- (3) `replica_simulation`, one record: if the replica reproduces the engine before an event, it
reproduces it after the engine processed the event and the replica applied the record — for every
event kind (market/account updates, trading-state updates, the four commands, shutdown), every
strategy output and risk verdict, every link table. -/
theorem replica_simulation_step (e r : Eng) (ev : Event) (ask : Ask) (h : Synced e r)
    (hev : EventOk ev)
    (hf : FreshCids (preState e ev) (sentOpens (process e ev ask.algoC ask.algoO ask.refuse).2)) :
    Synced (process e ev ask.algoC ask.algoO ask.refuse).1 (replicaApply r ev) := by
  cases ev with
  | shutdown => exact h
  | command c =>
    simp only [process, replicaApply, preState] at hf ⊢
    split
    · rename_i hfat
      apply synced_action h c
      intro o ho; apply hf o
      simp [sentOpens, hfat, ho]
    · rename_i hfat
      simp only [hfat] at hf
      have hact : Synced (action e c).1 r := by
        apply synced_action h c
        intro o ho; exact hf o (mem_sentOpens_cmd _ _ _ _ _ o ho)
      apply synced_generateStage hact
      intro g hg o ho
      exact strip_action_none e c _ _ (hf o (mem_sentOpens_gen _ _ _ _ _ g hg o ho))
  | tradingState on =>
    simp only [process, replicaApply, preState] at hf ⊢
    have hfields := updateTradingState_fields e on
    have h1 : Synced (updateTradingState e on) { r with enabled := on } :=
      ⟨hfields.2.symm, by rw [hfields.1]; exact h.length,
       by intro i se sr; rw [hfields.1]; exact h.positions i se sr,
       by intro i c; have := h.orders i c; simpa [orderState, hfields.1] using this⟩
    apply synced_generateStage h1
    intro g hg o ho
    have := hf o (mem_sentOpens_gen _ _ _ _ _ g hg o ho)
    simpa [orderState, hfields.1] using this
  | update u =>
    simp only [process, replicaApply, preState] at hf ⊢
    apply synced_generateStage (synced_applyUpdate h u hev)
    intro g hg o ho
    exact hf o (mem_sentOpens_gen _ _ _ _ _ g hg o ho)

/-- history of engine ticks paired with what the replica does with each record -/
def engineRun (e : Eng) : List (Event × Ask) → Eng
  | [] => e
  | (ev, ask) :: rest => engineRun (process e ev ask.algoC ask.algoO ask.refuse).1 rest

def replicaRun (r : Eng) : List (Event × Ask) → Eng
  | [] => r
  | (ev, _) :: rest => replicaRun (replicaApply r ev) rest

/-- the hypotheses along a history -/
def HistoryOk (e : Eng) : List (Event × Ask) → Prop
  | [] => True
  | (ev, ask) :: rest =>
    EventOk ev ∧
    FreshCids (preState e ev) (sentOpens (process e ev ask.algoC ask.algoO ask.refuse).2) ∧
    HistoryOk (process e ev ask.algoC ask.algoO ask.refuse).1 rest

/-- (3) `replica_simulation` over any history: a replica built from the snapshot (equal states are
`Synced` when the snapshot holds no in-flight marker; more generally any `Synced` pair) and fed
the audit records reproduces the engine after every record. -/
theorem replica_simulation (e r : Eng) (hist : List (Event × Ask)) (h : Synced e r)
    (hok : HistoryOk e hist) : Synced (engineRun e hist) (replicaRun r hist) := by
  induction hist generalizing e r with
  | nil => exact h
  | cons t rest ih =>
    obtain ⟨ev, ask⟩ := t
    obtain ⟨h1, h2, h3⟩ := hok
    exact ih _ _ (replica_simulation_step e r ev ask h h1 h2) h3

/-- the snapshot the replica starts from is the engine state itself -/
theorem synced_snapshot (e : Eng) (hclean : ∀ i c, strip (orderState e i c) = orderState e i c) :
    Synced e e :=
  ⟨rfl, rfl, by intro i se sr h1 h2; rw [h1] at h2; injection h2 with h2; subst h2; exact ⟨rfl, rfl⟩,
   fun i c => (hclean i c).symm⟩

/-- the replica consumes the engine's own stream without gaps: each process record of a run is
applied (never skipped, never rejected) by a replica whose sequence is the snapshot's -/
theorem replica_accepts_engine_record (rep : Replica) (s : EngA) (ev : Event) (ask : Ask)
    (hseq : rep.seq + 1 = s.seq) :
    ∃ stop, rep.step (processWithAudit s ev ask).2 =
      .applied ⟨replicaApply rep.state ev, s.seq⟩ stop := by
  simp only [processWithAudit, Replica.step]
  have h1 : ¬ rep.seq ≥ s.seq := by omega
  have h2 : ¬ rep.seq + 1 ≠ s.seq := by omega
  simp [h1, h2]

/-- (4) a repeated (or older) record is skipped, leaving the replica untouched … -/
theorem duplicate_skipped (rep : Replica) (seq : Nat) (ev : Event) (a : Engine.Audit)
    (h : seq ≤ rep.seq) : rep.step (.process seq ev a) = .skipped := by
  simp [Replica.step, h]

/-- (4) … and a record that does not directly follow the last applied one (a gap) is rejected: the
run ends with an error and the state is not advanced. -/
theorem gap_rejected (rep : Replica) (seq : Nat) (ev : Event) (a : Engine.Audit)
    (h : rep.seq + 1 < seq) (rest : List Tick) :
    rep.step (.process seq ev a) = .error ∧ rep.run (.process seq ev a :: rest) = .error () := by
  have h1 : ¬ rep.seq ≥ seq := by omega
  have h2 : rep.seq + 1 ≠ seq := by omega
  simp [Replica.step, Replica.run, h1, h2]

/-! Non-vacuity and necessity of the hypotheses. -/
def demoEng : Eng :=
  { enabled := true, links := [.healthy], log := [],
    instruments := [⟨0, 0, 1, [], none, none⟩], disabledCalls := 0 }
def openReq : OpenReq := ⟨⟨0, 0, 7⟩, .buy, 100, 10⟩
def ask0 : Ask := ⟨[], [openReq], fun _ => false⟩
def askNone : Ask := ⟨[], [], fun _ => false⟩
def rep1 : Open := ⟨1, 5, 0⟩
def hist : List (Event × Ask) :=
  [(.update (.price 0 100), ask0),
   (.update (.order 0 (.snapshot ⟨7, 10, 100, .active (.opn rep1), 0⟩)), askNone),
   (.command (.cancelOrders .none), askNone),
   (.update (.order 0 (.cancelResp 7 false)), askNone)]
-- the engine marks the order in flight / cancel in flight, the replica never does; stripped they agree
example : orderState (engineRun demoEng (hist.take 3)) 0 7 = some (.cancelInFlight (some rep1)) ∧
    orderState (replicaRun demoEng (hist.take 3)) 0 7 = some (.opn rep1) := by decide +kernel
example : orderState (engineRun demoEng hist) 0 7 = some (.opn rep1) ∧
    orderState (replicaRun demoEng hist) 0 7 = some (.opn rep1) := by decide +kernel
-- FreshCids is necessary: re-using the id of a confirmed order breaks replication
example : orderState (engineRun demoEng ((hist.take 2) ++ [(.update (.price 0 101), ask0)])) 0 7 = some .inFlight ∧
    orderState (replicaRun demoEng ((hist.take 2) ++ [(.update (.price 0 101), ask0)])) 0 7 = some (.opn rep1) := by
  decide +kernel

end BarterModel.Props.C10
