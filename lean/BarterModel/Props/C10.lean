import BarterModel.Lemmas.Audit
import BarterModel.Lemmas.KernelsAgree.AuditSeqSM
/-!
# C10 — Audit stream is gap-free and sufficient to replicate engine state

`runWithAudit` is the engine run loop with auditing (sync and async runners share it), `Replica`
the state replica manager. `Synced e r` says the replica `r` reproduces the engine `e`: same trading
state, same position and price per instrument, and per instrument and client order id the same
order state **once in-flight request markers are set aside** (`strip`).

Hypotheses of the replication theorem (each is necessary; see the `example`s at the end):
* `Op.exchangeReport`: order reports carry exchange states only (open / cancelled / fully filled /
  failed / expired, cancel responses) — never an in-flight echo or a hand-built cancel marker;
* `FreshCids`: an open request reported sent re-uses no client order id whose order the exchange
  has confirmed open (`strip (state before) = none`).
**Partial**: connectivity, balances, market-data registers and tear sheets are updated by the same
`update_from_*` calls on both sides and are compared directly on the real engine / replica by the
correspondence run, not re-proved here (the abstract statement behind that comparison, with its
hypothesis on the strategy hooks, is `rest_components_replicate` at the end of the file); that the
async runner's channel is FIFO is an assumption.
-/
namespace BarterModel.Props.C10
open BarterModel.Audit BarterModel.Engine BarterModel.Orders

/-- (1) one record per processed event, carrying that event, stamped with the engine's sequence,
which then advances by exactly one. -/
theorem one_record_per_event (s : EngA) (ev : Event) (ask : Ask) :
    (processWithAudit s ev ask).2 = .process s.seq ev (process s.eng ev ask.algoC ask.algoO ask.refuse).2 ∧
    (processWithAudit s ev ask).1.seq = s.seq + 1 ∧
    (processWithAudit s ev ask).1.eng = (process s.eng ev ask.algoC ask.algoO ask.refuse).1 :=
  ⟨rfl, rfl, rfl⟩

/-- (1) strictly consecutive sequence numbers: the records of a run are numbered
`seq, seq+1, …` (following the snapshot record, which consumed `seq-1`), and the engine's sequence
ends one past the last record. -/
theorem consecutive (s : EngA) (feed : List (Event × Ask)) :
    (runWithAudit s feed).2.map Tick.seq = List.range' s.seq (runWithAudit s feed).2.length ∧
    (runWithAudit s feed).1.seq = s.seq + (runWithAudit s feed).2.length := by
  induction feed generalizing s with
  | nil => simp [runWithAudit, Tick.seq, List.range']
  | cons t rest ih =>
    obtain ⟨ev, ask⟩ := t
    simp only [runWithAudit]
    split
    · simp [processWithAudit, Tick.seq, List.range']
    · have := ih (processWithAudit s ev ask).1
      simp only [List.map_cons, List.length_cons, List.range'_succ]
      refine ⟨?_, ?_⟩
      · rw [this.1]; simp [processWithAudit, Tick.seq]
      · rw [this.2]; simp [processWithAudit]; omega

/-- (1) the records carry the feed's events, in order (a prefix of the feed when the run stopped on
a terminal record). -/
theorem records_carry_events (s : EngA) (feed : List (Event × Ask)) :
    ∃ n, n ≤ feed.length ∧
      (runWithAudit s feed).2.filterMap (fun t => match t with
        | .process _ ev _ => some ev | .feedEnded _ => none) = (feed.take n).map (·.1) := by
  induction feed generalizing s with
  | nil => exact ⟨0, by simp, by simp [runWithAudit]⟩
  | cons t rest ih =>
    obtain ⟨ev, ask⟩ := t
    simp only [runWithAudit]
    split
    · exact ⟨1, by simp, by simp [processWithAudit]⟩
    · obtain ⟨n, hn, h⟩ := ih (processWithAudit s ev ask).1
      refine ⟨n + 1, by simpa using hn, ?_⟩
      have ht : (processWithAudit s ev ask).2 =
          Tick.process s.seq ev (process s.eng ev ask.algoC ask.algoO ask.refuse).2 := rfl
      simp only [List.filterMap_cons, ht, List.take_succ_cons, List.map_cons]
      rw [h]

/-- (2) the run's final record is the shutdown, feed-ended or fatal-error record, and no earlier
record is terminal (nothing is processed after a terminal record). -/
theorem terminal_last (s : EngA) (feed : List (Event × Ask)) :
    ∃ init last, (runWithAudit s feed).2 = init ++ [last] ∧ last.terminal = true ∧
      ∀ t ∈ init, t.terminal = false := by
  induction feed generalizing s with
  | nil => exact ⟨[], .feedEnded s.seq, by simp [runWithAudit], rfl, by simp⟩
  | cons t rest ih =>
    obtain ⟨ev, ask⟩ := t
    simp only [runWithAudit]
    split
    · rename_i ht; exact ⟨[], _, by simp, ht, by simp⟩
    · rename_i ht
      obtain ⟨init, last, h, hl, hi⟩ := ih (processWithAudit s ev ask).1
      refine ⟨(processWithAudit s ev ask).2 :: init, last, by simp [h], hl, ?_⟩
      intro x hx
      rcases List.mem_cons.mp hx with rfl | hx
      · simpa using ht
      · exact hi x hx

/-- The replica reproduces the engine (orders: once in-flight markers are set aside). -/
structure Synced (e r : Eng) : Prop where
  trading : r.enabled = e.enabled
  length : r.instruments.length = e.instruments.length
  positions : ∀ (i : Nat) (se sr : Instr), e.instruments[i]? = some se → r.instruments[i]? = some sr →
    sr.position = se.position ∧ sr.price = se.price
  orders : ∀ (i c : Nat), orderState r i c = strip (orderState e i c)

/-- the hypothesis on order reports of an event -/
def EventOk : Event → Prop
  | .update (.order _ op) => Op.exchangeReport op = true
  | _ => True

/-- the hypothesis on open requests: an id whose order the exchange has confirmed is not re-used -/
def FreshCids (e : Eng) (opens : List OpenReq) : Prop :=
  ∀ o ∈ opens, strip (orderState e o.key.instrument o.key.cid) = none

theorem synced_of_eq_instruments {e e' r : Eng} (h : Synced e r)
    (hi : e'.instruments = e.instruments) (hen : e'.enabled = e.enabled) : Synced e' r :=
  ⟨by rw [hen]; exact h.trading, by rw [hi]; exact h.length,
   by intro i se sr; rw [hi]; exact h.positions i se sr,
   by intro i c; have := h.orders i c; simpa [orderState, hi] using this⟩

theorem synced_recordCancel {e r : Eng} (h : Synced e r) (q : CancelReq) :
    Synced (recordCancel e q) r := by
  refine ⟨h.trading, by rw [recordCancel_length]; exact h.length, ?_, ?_⟩
  · intro i se sr hse hsr
    simp only [recordCancel, modifyInstr_getElem?] at hse
    by_cases hi : i = q.key.instrument
    · subst hi
      cases hx : e.instruments[q.key.instrument]? with
      | none => simp [hx] at hse
      | some s0 =>
        simp [hx] at hse; subst hse
        exact h.positions _ s0 sr hx hsr
    · simp [hi] at hse; exact h.positions i se sr hse hsr
  · intro i c
    rw [orderState_recordCancel]
    split
    · rw [h.orders i c]
      cases ho : orderState e i c with
      | none => rfl
      | some a => simpa [Lifecycle.step] using (strip_cancel_mark (some a)).symm
    · exact h.orders i c

theorem synced_recordCancels {e r : Eng} (h : Synced e r) (qs : List CancelReq) :
    Synced (recordCancels e qs) r := by
  induction qs generalizing e with
  | nil => exact h
  | cons q qs ih => exact ih (synced_recordCancel h q)

theorem synced_recordOpen {e r : Eng} (h : Synced e r) (o : OpenReq)
    (hf : strip (orderState e o.key.instrument o.key.cid) = none) : Synced (recordOpen e o) r := by
  refine ⟨h.trading, by rw [recordOpen_length]; exact h.length, ?_, ?_⟩
  · intro i se sr hse hsr
    simp only [recordOpen, modifyInstr_getElem?] at hse
    by_cases hi : i = o.key.instrument
    · subst hi
      cases hx : e.instruments[o.key.instrument]? with
      | none => simp [hx] at hse
      | some s0 =>
        simp [hx] at hse; subst hse
        exact h.positions _ s0 sr hx hsr
    · simp [hi] at hse; exact h.positions i se sr hse hsr
  · intro i c
    rw [orderState_recordOpen]
    split
    · rename_i hh
      obtain ⟨h1, h2, _⟩ := hh
      subst h1; subst h2
      rw [h.orders, hf]; rfl
    · exact h.orders i c

theorem synced_recordOpens {e r : Eng} (h : Synced e r) (os : List OpenReq) (hf : FreshCids e os) :
    Synced (recordOpens e os) r := by
  induction os generalizing e with
  | nil => exact h
  | cons o os ih =>
    simp only [recordOpens, List.foldl_cons]
    apply ih (synced_recordOpen h o (hf o (by simp)))
    intro o' ho'
    rw [orderState_recordOpen]
    split
    · rfl
    · exact hf o' (by simp [ho'])

theorem synced_applyUpdate {e r : Eng} (h : Synced e r) (u : Update) (hu : EventOk (.update u)) :
    Synced (applyUpdate e u) (applyUpdate r u) := by
  have hlen : ∀ (x : Eng), (applyUpdate x u).instruments.length = x.instruments.length := by
    intro x; cases u <;> simp [applyUpdate, modifyInstr_length]
  refine ⟨by cases u <;> exact h.trading, by rw [hlen, hlen]; exact h.length, ?_, ?_⟩
  · intro i se sr hse hsr
    cases u with
    | order j op =>
      simp only [applyUpdate, modifyInstr_getElem?] at hse hsr
      by_cases hi : i = j
      · subst hi
        cases hx : e.instruments[i]? with
        | none => simp [hx] at hse
        | some s0 =>
          cases hy : r.instruments[i]? with
          | none => simp [hy] at hsr
          | some r0 =>
            simp [hx] at hse; simp [hy] at hsr; subst hse; subst hsr
            exact h.positions i s0 r0 hx hy
      · simp [hi] at hse hsr; exact h.positions i se sr hse hsr
    | position j side q =>
      simp only [applyUpdate, modifyInstr_getElem?] at hse hsr
      by_cases hi : i = j
      · subst hi
        cases hx : e.instruments[i]? with
        | none => simp [hx] at hse
        | some s0 =>
          cases hy : r.instruments[i]? with
          | none => simp [hy] at hsr
          | some r0 =>
            simp [hx] at hse; simp [hy] at hsr; subst hse; subst hsr
            exact ⟨rfl, (h.positions i s0 r0 hx hy).2⟩
      · simp [hi] at hse hsr; exact h.positions i se sr hse hsr
    | flat j =>
      simp only [applyUpdate, modifyInstr_getElem?] at hse hsr
      by_cases hi : i = j
      · subst hi
        cases hx : e.instruments[i]? with
        | none => simp [hx] at hse
        | some s0 =>
          cases hy : r.instruments[i]? with
          | none => simp [hy] at hsr
          | some r0 =>
            simp [hx] at hse; simp [hy] at hsr; subst hse; subst hsr
            exact ⟨rfl, (h.positions i s0 r0 hx hy).2⟩
      · simp [hi] at hse hsr; exact h.positions i se sr hse hsr
    | price j p =>
      simp only [applyUpdate, modifyInstr_getElem?] at hse hsr
      by_cases hi : i = j
      · subst hi
        cases hx : e.instruments[i]? with
        | none => simp [hx] at hse
        | some s0 =>
          cases hy : r.instruments[i]? with
          | none => simp [hy] at hsr
          | some r0 =>
            simp [hx] at hse; simp [hy] at hsr; subst hse; subst hsr
            exact ⟨(h.positions i s0 r0 hx hy).1, rfl⟩
      · simp [hi] at hse hsr; exact h.positions i se sr hse hsr
    | other => exact h.positions i se sr hse hsr
  · intro i c
    cases u with
    | order j op =>
      rw [orderState_applyUpdate_order, orderState_applyUpdate_order]
      by_cases hi : i = j
      · subst hi
        simp only [↓reduceIte]
        have ho := h.orders i c
        unfold orderState at ho
        cases hx : e.instruments[i]? with
        | none =>
          have : r.instruments[i]? = none := by
            have hl := h.length
            rcases Nat.lt_or_ge i e.instruments.length with hlt | hge
            · simp [List.getElem?_eq_getElem hlt] at hx
            · exact List.getElem?_eq_none (by omega)
          simp [this]; rfl
        | some s0 =>
          cases hy : r.instruments[i]? with
          | none =>
            have hlt : i < e.instruments.length := (List.getElem?_eq_some_iff.mp hx).1
            have : i < r.instruments.length := by rw [h.length]; exact hlt
            simp [List.getElem?_eq_getElem this] at hy
          | some r0 =>
            simp only [hx, hy] at ho ⊢
            exact strip_step_tables s0.orders r0.orders op c hu ho
      · simp only [hi, ↓reduceIte]; exact h.orders i c
    | position j side q =>
      rw [orderState_applyUpdate_other _ _ _ _ (by intro i op; simp),
        orderState_applyUpdate_other _ _ _ _ (by intro i op; simp)]
      exact h.orders i c
    | flat j =>
      rw [orderState_applyUpdate_other _ _ _ _ (by intro i op; simp),
        orderState_applyUpdate_other _ _ _ _ (by intro i op; simp)]
      exact h.orders i c
    | price j p =>
      rw [orderState_applyUpdate_other _ _ _ _ (by intro i op; simp),
        orderState_applyUpdate_other _ _ _ _ (by intro i op; simp)]
      exact h.orders i c
    | other => exact h.orders i c

/-- `generate_algo_orders` on the engine only keeps the replica in sync -/
theorem synced_generate {e r : Eng} (h : Synced e r) (algoC : List CancelReq) (algoO : List OpenReq)
    (refuse : Key → Bool)
    (hf : FreshCids e (generateAlgoOrders e algoC algoO refuse).2.opens.sent) :
    Synced (generateAlgoOrders e algoC algoO refuse).1 r := by
  simp only [generateAlgoOrders] at hf ⊢
  apply synced_recordOpens
  · apply synced_recordCancels
    exact synced_of_eq_instruments h rfl rfl
  · intro o ho
    rw [strip_recordCancels_eq]
    simpa [orderState, sendRequests] using hf o ho

theorem synced_generateStage {e r : Eng} (h : Synced e r) (cmd : Option ActionOut)
    (algoC : List CancelReq) (algoO : List OpenReq) (refuse : Key → Bool)
    (hf : ∀ g, (generateStage e cmd algoC algoO refuse).2.generated = some g → FreshCids e g.opens.sent) :
    Synced (generateStage e cmd algoC algoO refuse).1 r := by
  unfold generateStage at hf ⊢
  split
  · rename_i hen
    simp only [hen, ↓reduceIte] at hf
    exact synced_generate h _ _ _ (hf _ rfl)
  · exact h

theorem synced_send {e r : Eng} (h : Synced e r) {α : Type} (toReq : α → Req) (rs : List α) :
    Synced (sendRequests e toReq rs).1 r := synced_of_eq_instruments h rfl rfl

theorem synced_action {e r : Eng} (h : Synced e r) (c : Command)
    (hf : FreshCids e (action e c).2.opens.sent) : Synced (action e c).1 r := by
  cases c with
  | sendCancelRequests rs =>
    simp only [action]
    exact synced_recordCancels (synced_send h _ _) _
  | sendOpenRequests rs =>
    simp only [action] at hf ⊢
    apply synced_recordOpens (synced_send h _ _)
    intro o ho; simpa [orderState, sendRequests] using hf o ho
  | closePositions f =>
    simp only [action] at hf ⊢
    apply synced_recordOpens
    · exact synced_recordCancels (synced_send (synced_send h _ _) _ _) _
    · intro o ho
      rw [strip_recordCancels_eq]
      simpa [orderState, sendRequests] using hf o ho
  | cancelOrders f =>
    simp only [action]
    exact synced_recordCancels (synced_send h _ _) _

theorem mem_sentOpens_cmd (e : Eng) (a : ActionOut) (algoC : List CancelReq) (algoO : List OpenReq)
    (refuse : Key → Bool) (o : OpenReq) (ho : o ∈ a.opens.sent) :
    o ∈ sentOpens (generateStage e (some a) algoC algoO refuse).2 := by
  unfold sentOpens; rw [generateStage_commanded]; simp [ho]

theorem mem_sentOpens_gen (e : Eng) (cmd : Option ActionOut) (algoC : List CancelReq)
    (algoO : List OpenReq) (refuse : Key → Bool) (g : AlgoOut)
    (hg : (generateStage e cmd algoC algoO refuse).2.generated = some g) (o : OpenReq)
    (ho : o ∈ g.opens.sent) : o ∈ sentOpens (generateStage e cmd algoC algoO refuse).2 := by
  unfold sentOpens; rw [hg]; simp [ho]

theorem updateTradingState_fields (e : Eng) (on : Bool) :
    (updateTradingState e on).instruments = e.instruments ∧ (updateTradingState e on).enabled = on := by
  unfold updateTradingState
  split
  · rename_i hc; simp at hc; simp [hc.2]
  · exact ⟨rfl, rfl⟩

/-- (3) `replica_simulation`, one record: if the replica reproduces the engine before an event, it
reproduces it after the engine processed the event and the replica applied the record — for every
event kind (market/account updates, trading-state updates, the four commands, shutdown), every
strategy output and risk verdict, every link table. -/
theorem replica_simulation_step (e r : Eng) (ev : Event) (ask : Ask) (h : Synced e r)
    (hev : EventOk ev)
    (hf : FreshCids (preState e ev) (sentOpens (process e ev ask.algoC ask.algoO ask.refuse).2)) :
    Synced (process e ev ask.algoC ask.algoO ask.refuse).1 (replicaApply r ev) := by
  cases ev with
  | shutdown => exact h
  | command c =>
    simp only [process, replicaApply, preState] at hf ⊢
    split
    · rename_i hfat
      apply synced_action h c
      intro o ho; apply hf o
      simp [sentOpens, hfat, ho]
    · rename_i hfat
      simp only [hfat] at hf
      have hact : Synced (action e c).1 r := by
        apply synced_action h c
        intro o ho; exact hf o (mem_sentOpens_cmd _ _ _ _ _ o ho)
      apply synced_generateStage hact
      intro g hg o ho
      exact strip_action_none e c _ _ (hf o (mem_sentOpens_gen _ _ _ _ _ g hg o ho))
  | tradingState on =>
    simp only [process, replicaApply, preState] at hf ⊢
    have hfields := updateTradingState_fields e on
    have h1 : Synced (updateTradingState e on) { r with enabled := on } :=
      ⟨hfields.2.symm, by rw [hfields.1]; exact h.length,
       by intro i se sr; rw [hfields.1]; exact h.positions i se sr,
       by intro i c; have := h.orders i c; simpa [orderState, hfields.1] using this⟩
    apply synced_generateStage h1
    intro g hg o ho
    have := hf o (mem_sentOpens_gen _ _ _ _ _ g hg o ho)
    simpa [orderState, hfields.1] using this
  | update u =>
    simp only [process, replicaApply, preState] at hf ⊢
    apply synced_generateStage (synced_applyUpdate h u hev)
    intro g hg o ho
    exact hf o (mem_sentOpens_gen _ _ _ _ _ g hg o ho)

/-- history of engine ticks paired with what the replica does with each record -/
def engineRun (e : Eng) : List (Event × Ask) → Eng
  | [] => e
  | (ev, ask) :: rest => engineRun (process e ev ask.algoC ask.algoO ask.refuse).1 rest

def replicaRun (r : Eng) : List (Event × Ask) → Eng
  | [] => r
  | (ev, _) :: rest => replicaRun (replicaApply r ev) rest

/-- the hypotheses along a history -/
def HistoryOk (e : Eng) : List (Event × Ask) → Prop
  | [] => True
  | (ev, ask) :: rest =>
    EventOk ev ∧
    FreshCids (preState e ev) (sentOpens (process e ev ask.algoC ask.algoO ask.refuse).2) ∧
    HistoryOk (process e ev ask.algoC ask.algoO ask.refuse).1 rest

/-- (3) `replica_simulation` over any history: a replica built from the snapshot (equal states are
`Synced` when the snapshot holds no in-flight marker; more generally any `Synced` pair) and fed
the audit records reproduces the engine after every record. -/
theorem replica_simulation (e r : Eng) (hist : List (Event × Ask)) (h : Synced e r)
    (hok : HistoryOk e hist) : Synced (engineRun e hist) (replicaRun r hist) := by
  induction hist generalizing e r with
  | nil => exact h
  | cons t rest ih =>
    obtain ⟨ev, ask⟩ := t
    obtain ⟨h1, h2, h3⟩ := hok
    exact ih _ _ (replica_simulation_step e r ev ask h h1 h2) h3

/-- the snapshot the replica starts from is the engine state itself -/
theorem synced_snapshot (e : Eng) (hclean : ∀ i c, strip (orderState e i c) = orderState e i c) :
    Synced e e :=
  ⟨rfl, rfl, by intro i se sr h1 h2; rw [h1] at h2; injection h2 with h2; subst h2; exact ⟨rfl, rfl⟩,
   fun i c => (hclean i c).symm⟩

/-- the replica consumes the engine's own stream without gaps: each process record of a run is
applied (never skipped, never rejected) by a replica whose sequence is the snapshot's -/
theorem replica_accepts_engine_record (rep : Replica) (s : EngA) (ev : Event) (ask : Ask)
    (hseq : rep.seq + 1 = s.seq) :
    ∃ stop, rep.step (processWithAudit s ev ask).2 =
      .applied ⟨replicaApply rep.state ev, s.seq⟩ stop := by
  simp only [processWithAudit, Replica.step]
  have h1 : ¬ rep.seq ≥ s.seq := by omega
  have h2 : ¬ rep.seq + 1 ≠ s.seq := by omega
  simp [h1, h2]

/-- (4) a repeated (or older) record is skipped, leaving the replica untouched … -/
theorem duplicate_skipped (rep : Replica) (seq : Nat) (ev : Event) (a : Engine.Audit)
    (h : seq ≤ rep.seq) : rep.step (.process seq ev a) = .skipped := by
  simp [Replica.step, h]

/-- (4) … and a record that does not directly follow the last applied one (a gap) is rejected: the
run ends with an error and the state is not advanced. -/
theorem gap_rejected (rep : Replica) (seq : Nat) (ev : Event) (a : Engine.Audit)
    (h : rep.seq + 1 < seq) (rest : List Tick) :
    rep.step (.process seq ev a) = .error ∧ rep.run (.process seq ev a :: rest) = .error () := by
  have h1 : ¬ rep.seq ≥ seq := by omega
  have h2 : rep.seq + 1 ≠ seq := by omega
  simp [Replica.step, Replica.run, h1, h2]

/-! Non-vacuity and necessity of the hypotheses. -/
def demoEng : Eng :=
  { enabled := true, links := [.healthy], log := [],
    instruments := [⟨0, 0, 1, [], none, none⟩], disabledCalls := 0 }
def openReq : OpenReq := ⟨⟨0, 0, 7⟩, .buy, 100, 10⟩
def ask0 : Ask := ⟨[], [openReq], fun _ => false⟩
def askNone : Ask := ⟨[], [], fun _ => false⟩
def rep1 : Open := ⟨1, 5, 0⟩
def hist : List (Event × Ask) :=
  [(.update (.price 0 100), ask0),
   (.update (.order 0 (.snapshot ⟨7, 10, 100, .active (.opn rep1), 0⟩)), askNone),
   (.command (.cancelOrders .none), askNone),
   (.update (.order 0 (.cancelResp 7 false)), askNone)]
-- the engine marks the order in flight / cancel in flight, the replica never does; stripped they agree
example : orderState (engineRun demoEng (hist.take 3)) 0 7 = some (.cancelInFlight (some rep1)) ∧
    orderState (replicaRun demoEng (hist.take 3)) 0 7 = some (.opn rep1) := by decide +kernel
example : orderState (engineRun demoEng hist) 0 7 = some (.opn rep1) ∧
    orderState (replicaRun demoEng hist) 0 7 = some (.opn rep1) := by decide +kernel
-- FreshCids is necessary: re-using the id of a confirmed order breaks replication
example : orderState (engineRun demoEng ((hist.take 2) ++ [(.update (.price 0 101), ask0)])) 0 7 = some .inFlight ∧
    orderState (replicaRun demoEng ((hist.take 2) ++ [(.update (.price 0 101), ask0)])) 0 7 = some (.opn rep1) := by
  decide +kernel

/-! ## Added after the independent review (audit/REVIEW-notes.md, items C10-4 and C10-1) -/

/-- (C10-4) **the real loops compose to the idealised folds.** The replica's own run loop
(`Replica.run`: sequence validation, skip / reject / apply, stop on a terminal record) fed with the
record list the engine's run loop produces (`runWithAudit`: one record per event, stop after the
terminal one) never skips and never rejects; it ends in the state `replicaRun` computes over the
prefix of the feed the engine actually processed (up to and including the terminal record), and the
engine ends in `engineRun` over the same prefix. So `replica_simulation`, which is stated for
`engineRun` / `replicaRun`, is a statement about the two real loops. -/
theorem replica_run_on_engine_stream (feed : List (Event × Ask)) :
    ∀ (s : EngA) (rep : Replica), rep.seq + 1 = s.seq →
    ∃ n, n ≤ feed.length ∧ ∃ rep', rep.run (runWithAudit s feed).2 = .ok rep' ∧
      rep'.state = replicaRun rep.state (feed.take n) ∧
      (runWithAudit s feed).1.eng = engineRun s.eng (feed.take n) := by
  induction feed with
  | nil =>
    intro s rep _
    exact ⟨0, by simp, rep, by simp [runWithAudit, Replica.run, Replica.step], rfl, rfl⟩
  | cons t rest ih =>
    intro s rep hseq
    obtain ⟨ev, ask⟩ := t
    have h1 : ¬ rep.seq ≥ s.seq := by omega
    have h2 : ¬ rep.seq + 1 ≠ s.seq := by omega
    simp only [runWithAudit]
    split
    · rename_i ht
      refine ⟨1, by simp, ⟨replicaApply rep.state ev, s.seq⟩, ?_, ?_, ?_⟩
      · simp only [processWithAudit] at ht
        simp [Replica.run, Replica.step, processWithAudit, h1, h2, ht]
      · simp [replicaRun]
      · simp [engineRun, processWithAudit]
    · rename_i ht
      obtain ⟨n, hn, rep', hr, hs, he⟩ :=
        ih (processWithAudit s ev ask).1 ⟨replicaApply rep.state ev, s.seq⟩ (by simp [processWithAudit])
      refine ⟨n + 1, by simpa using hn, rep', ?_, ?_, ?_⟩
      · simp only [processWithAudit] at ht hr
        simp [Replica.run, Replica.step, processWithAudit, h1, h2, ht]
        exact hr
      · simpa [replicaRun] using hs
      · simpa [engineRun, processWithAudit] using he

/-- (C10-4) … hence the replication theorem for the two real loops: a replica that starts from the
engine's snapshot (in sync, sequence one behind) and runs over the engine's own audit stream ends in
sync with the engine, under the history hypotheses of `replica_simulation` on the processed prefix. -/
theorem replica_run_synced (feed : List (Event × Ask)) (s : EngA) (rep : Replica)
    (hseq : rep.seq + 1 = s.seq) (h : Synced s.eng rep.state)
    (hok : ∀ n, n ≤ feed.length → HistoryOk s.eng (feed.take n)) :
    ∃ rep', rep.run (runWithAudit s feed).2 = .ok rep' ∧ Synced (runWithAudit s feed).1.eng rep'.state := by
  obtain ⟨n, hn, rep', hr, hs, he⟩ := replica_run_on_engine_stream feed s rep hseq
  exact ⟨rep', hr, by rw [hs, he]; exact replica_simulation _ _ _ h (hok n hn)⟩

/-- the history hypotheses are closed under prefixes, so `HistoryOk s.eng feed` discharges `hok` above -/
theorem historyOk_take (e : Eng) (hist : List (Event × Ask)) (h : HistoryOk e hist) (n : Nat) :
    HistoryOk e (hist.take n) := by
  induction hist generalizing e n with
  | nil => simpa using h
  | cons t rest ih =>
    cases n with
    | zero => exact True.intro
    | succ n =>
      obtain ⟨ev, ask⟩ := t
      obtain ⟨h1, h2, h3⟩ := h
      exact ⟨h1, h2, ih _ h3 n⟩

/-! ### (C10-1) the components this model does not carry -/

section Rest
variable {σ : Type}

/-- ENGINE side of one more state component `σ` (connectivity, a balance register, a market-data
register, a tear sheet, …): per processed event the engine applies the component's update function
`upd` to the event (`EngineState::update_from_account` / `update_from_market` / `trading.update`), and
then the strategy hooks that receive `&mut Engine` (`on_disconnect`, `on_trading_disabled`) may do
`hook` to it. Nothing else touches it: commands and the generation stage only read the state and
record in-flight orders. The list is the component's value after each record of the run (the run stops
after a terminal record, as `runWithAudit`). -/
def engineRest (upd : σ → Event → σ) (hook : Eng → Event → σ → σ) (s : EngA) (x : σ) :
    List (Event × Ask) → List σ
  | [] => []
  | (ev, ask) :: rest =>
    let r := processWithAudit s ev ask
    let x' := hook s.eng ev (upd x ev)
    if r.2.terminal then [x'] else x' :: engineRest upd hook r.1 x' rest

/-- REPLICA side: `StateReplicaManager::run` with the component: every record it APPLIES (after the
sequence validation of `Replica.step`) feeds the record's event to the same `upd`; the replica runs no
strategy hook. The list is the component's value after each applied record; `Except.error` on an
out-of-order stream. -/
def Replica.runRest (upd : σ → Event → σ) (r : Replica) (x : σ) : List Tick → Except Unit (List σ)
  | [] => .ok []
  | .feedEnded _ :: _ => .ok []
  | .process seq ev a :: ts =>
    match r.step (.process seq ev a) with
    | .ended => .ok []
    | .skipped => Replica.runRest upd r x ts
    | .error => .error ()
    | .applied r' stop =>
      if stop then .ok [upd x ev]
      else (Replica.runRest upd r' (upd x ev) ts).map (upd x ev :: ·)

/-- (C10-1) **`rest_components_replicate`.** For ANY further state component `σ` with ANY update
function `upd` that engine and replica both apply to the event, and that nothing else touches — under
the hypothesis, stated explicitly, that the strategy hooks `on_disconnect` / `on_trading_disabled` do
NOT modify it (`hHook`) — the replica, started from the snapshot value `x` one sequence number behind
the engine and run over the engine's own audit stream, applies every record (none skipped, none
rejected) and its component equals the engine's AFTER EVERY RECORD. This is the statement behind the
harness key `rep_rest_eq` (and `run_rep_rest_eq`), which compares connectivity, balances, market data
and per-instrument statistics of the real `EngineState` and the real replica after every tick; the
harness strategies' hooks do not mutate state, a strategy whose hooks do is outside the property. The
hypothesis is necessary: `rest_hook_breaks_replication`. -/
theorem rest_components_replicate (upd : σ → Event → σ) (hook : Eng → Event → σ → σ)
    (hHook : ∀ e ev y, hook e ev y = y) (feed : List (Event × Ask)) :
    ∀ (s : EngA) (rep : Replica) (x : σ), rep.seq + 1 = s.seq →
      Replica.runRest upd rep x (runWithAudit s feed).2 = .ok (engineRest upd hook s x feed) := by
  induction feed with
  | nil => intro s rep x _; simp [runWithAudit, Replica.runRest, engineRest]
  | cons t rest ih =>
    intro s rep x hseq
    obtain ⟨ev, ask⟩ := t
    have h1 : ¬ rep.seq ≥ s.seq := by omega
    have h2 : ¬ rep.seq + 1 ≠ s.seq := by omega
    simp only [runWithAudit, engineRest, hHook]
    split
    · rename_i ht
      simp only [processWithAudit] at ht
      simp [Replica.runRest, Replica.step, processWithAudit, h1, h2, ht]
    · rename_i ht
      have := ih (processWithAudit s ev ask).1 ⟨replicaApply rep.state ev, s.seq⟩ (upd x ev)
        (by simp [processWithAudit])
      simp only [processWithAudit] at ht this
      simp [Replica.runRest, Replica.step, processWithAudit, h1, h2, ht, this]
      rfl

/-- (C10-1) the hypothesis on the strategy hooks is necessary: a hook that changes the component on a
disconnect-like event makes engine and replica differ (component = a counter of processed events,
hook = "add 10 on `update other`"). -/
theorem rest_hook_breaks_replication :
    let upd : Nat → Event → Nat := fun n _ => n + 1
    let hook : Eng → Event → Nat → Nat := fun _ ev n => match ev with | .update .other => n + 10 | _ => n
    let feed : List (Event × Ask) := [(.update .other, askNone), (.update (.price 0 1), askNone)]
    engineRest upd hook ⟨demoEng, 1⟩ 0 feed = [11, 12] ∧
    Replica.runRest upd ⟨demoEng, 0⟩ 0 (runWithAudit ⟨demoEng, 1⟩ feed).2 = .ok [1, 2] := by
  intro upd hook feed
  exact ⟨by decide +kernel, rfl⟩

/-! Non-vacuity: the hypotheses of `rest_components_replicate` are met by a counter component with an
inert hook, on a history with a command, an order-generating tick and a shutdown. -/
example :
    let upd : Nat → Event → Nat := fun n ev => match ev with | .update _ => n + 1 | _ => n
    engineRest upd (fun _ _ y => y) ⟨demoEng, 1⟩ 0
      [(.update (.price 0 100), ask0), (.command (.cancelOrders .none), askNone), (.shutdown, askNone),
       (.update .other, askNone)] = [1, 1, 1] := by decide +kernel

end Rest

/-- **Tie to the source by translation: the audit sequence.** `Sequence::{value, fetch_add}` (barter/src/lib.rs),
`EngineMeta`, `Engine::{new, time, reset_metadata}`, `process_with_audit`, the trait `Processor` (barter/src/engine/mod.rs),
`EngineClock` (clock.rs), `EngineContext`, `AuditTick`, the trait `Auditor` and `impl Auditor for Engine` (`audit`,
`audit_snapshot`; barter/src/engine/audit/{context,mod}.rs), `StateReplicaManager::{new, validate_and_update_context}`
(state_replica.rs) are regenerated from the current source by `tools/rust2lean_sm.py` on every run
(`Generated/Machines4.lean`, group `audit_seq`; traits are records of their methods, `&mut self` is state passing,
`Audit::from(kind)` an explicit conversion parameter, `EngineState` an abstract type parameter). For ALL engines,
clocks, events, processors and replica states: `fetch_add` returns the current value and stores the successor; `audit`
stamps `From::from(kind)` with the engine's current sequence and the clock's time and advances `meta.sequence` by one,
changing nothing else; `process_with_audit` is "process, then audit the output of that process on the engine that
process left" for every `Processor` / `Auditor` pair, and with the engine's own `Auditor` impl it REFINES the model's
`processWithAudit` (the definition `one_record_per_event`, `consecutive`, `records_carry_events`, `terminal_last` are
about) whenever the untranslated `Engine::process` is simulated by the model's `process` and leaves `meta.sequence`
alone (`SimProcess`, the one hypothesis, on a parameter); a new engine starts at sequence 0, a new replica at its
snapshot's sequence; and `validate_and_update_context` after `run`'s duplicate test decides skipped / error / applied
exactly as the model's `Replica.step` (`duplicate_skipped`, `gap_rejected`, `replica_accepts_engine_record`), without
hypothesis: the `u64` subtraction `next.sequence - 1` cannot underflow behind that test. The statement is that of
`KernelsAgree.AuditSeqSM.audit_seq_agrees` (Lemmas/KernelsAgree/AuditSeqSM.lean). -/
theorem audit_sequence_agrees_with_source :
    type_of% BarterModel.KernelsAgree.AuditSeqSM.audit_seq_agrees :=
  BarterModel.KernelsAgree.AuditSeqSM.audit_seq_agrees

end BarterModel.Props.C10
