import BarterModel.Lemmas.BookManager
namespace BarterModel.Props.C05M
open BarterModel.Book BarterModel.BookManager

theorem update_snapshot (b s : TBook) : b.update (.snapshot s) = s := rfl

end BarterModel.Props.C05M
