import BarterModel.Lemmas.BookManager
/-!
# C05M (sub-check of C05) — order book event dispatch, `OrderBookMap` and the L2 manager

Statements only (proofs in `Lemmas/BookManager.lean`, which builds on `Lemmas/Book.lean` of C05).
The concrete model is `Model/BookManager.lean` (what `drv_c05m model` executes): `Level` with its
derived order, `upsert_single` with the transcribed `slice::binary_search_by`, `OrderBook` with
`sequence` / `time_engine`, `OrderBook::new` for arbitrary input, `update`, `snapshot(depth)`,
`OrderBookMapSingle` / `OrderBookMapMulti` over shared cells, and `OrderBookL2Manager::run`.
The abstract side (what `drv_c05m spec` executes) is the per-cell fold `specRun` over `SCell`
(copied fields + bag of prices per side + the price → amount maps of C05 while the cell is clean).

Quantifiers: every statement is for *all* level lists (unsorted, duplicate prices, zero or
negative amounts), all sequences / times, all maps (several keys may share one cell) and all
finite streams, unless a hypothesis says otherwise. `WSorted` ("weak book order": never a level
behind one it should precede; equal prices may repeat) is what `OrderBook::new` establishes for
every input (`new_any_input`), so `WSortedBook sn` is no restriction on events built through the
public constructor. `Sorted` / `WFBook` are the strict C05 notions (one level per price, and no
zero amount).
-/
namespace BarterModel.Props.C05M
open BarterModel.Book BarterModel.BookManager

/-! ## 1. `Level`: derived `PartialEq` / `Ord` -/

/-- The derived order is the lexicographic order on `(price, amount)`. -/
theorem level_order_is_lexicographic (a b : Level) :
    (levelCmp a b = .lt ↔ a.price < b.price ∨ (a.price = b.price ∧ a.amount < b.amount)) ∧
    (levelCmp a b = .gt ↔ b.price < a.price ∨ (b.price = a.price ∧ b.amount < a.amount)) ∧
    levelCmp a b = levelCmpSpec a b :=
  ⟨levelCmp_lt_iff a b, levelCmp_gt_iff a b, levelCmp_eq_spec a b⟩

/-- `Ord` is consistent with `Eq` (`cmp == Equal` iff `==` iff the levels are the same), it is
antisymmetric, transitive and total: a lawful total order. -/
theorem level_order_lawful (a b c : Level) :
    (levelCmp a b = .eq ↔ a = b) ∧ (levelEq a b = true ↔ a = b) ∧
    (levelCmp a b).swap = levelCmp b a ∧
    (levelLe a b = true → levelLe b c = true → levelLe a c = true) ∧
    (levelLe a b || levelLe b a) = true ∧
    (levelLe a b = true → levelLe b a = true → a = b) :=
  ⟨levelCmp_eq_iff a b, levelEq_iff a b, levelCmp_swap a b, levelLe_trans a b c, levelLe_total a b,
   levelLe_antisymm a b⟩

/-- `max` / `min` return one of their arguments, an upper / lower bound of both. -/
theorem level_max_min (a b : Level) :
    ((levelMax a b = a ∨ levelMax a b = b) ∧ levelLe a (levelMax a b) = true ∧ levelLe b (levelMax a b) = true) ∧
    ((levelMin a b = a ∨ levelMin a b = b) ∧ levelLe (levelMin a b) a = true ∧ levelLe (levelMin a b) b = true) :=
  ⟨levelMax_spec a b, levelMin_spec a b⟩

/-- Sorting levels by the derived order (`Vec<Level>::sort()`, stable or not) has exactly one
possible result, and that result is in ask order. -/
theorem level_sort_determined (ls l' : List Level) (hp : l'.Perm ls)
    (hs : l'.Pairwise (fun a b => levelLe a b = true)) :
    l' = ls.mergeSort levelLe ∧ WSorted .asks l' :=
  ⟨levelSort_unique hp hs, hs.imp asksLe_of_levelLe⟩

/-! ## 2. `upsert_single` with the real binary search -/

/-- `binary_search_by` (the std loop, transcribed) on any side in weak book order: `Ok(i)` is the
**last** level with the searched price; `Err(i)` means no level has it and `i` is the unique
insertion point. -/
theorem binary_search_correct (s : Side) (ls : List Level) (h : WSorted s ls) (p : Rat) :
    (∀ i, binarySearchBy (fun e => s.cmp e.price p) ls = .ok i →
        ∃ hi : i < ls.length, ls[i].price = p ∧ ∀ x ∈ ls.drop (i + 1), s.before p x.price = true) ∧
    (∀ i, binarySearchBy (fun e => s.cmp e.price p) ls = .err i →
        i ≤ ls.length ∧ (∀ x ∈ ls.take i, s.before x.price p = true) ∧
          (∀ x ∈ ls.drop i, s.before p x.price = true)) :=
  ⟨fun _ hr => binarySearch_ok h hr, fun _ hr => binarySearch_err h hr⟩

/-- On a strictly ordered side the binary-search `upsert_single` **is** the front-to-back scan of
the C05 model — the assumption "binary_search_by modelled as a scan" of C05 becomes a theorem, and
every C05 theorem about `upsertSingle` / `upsert` / `OrderBook.update` holds for the real search. -/
theorem binary_search_is_scan (s : Side) (ls : List Level) (h : Sorted s ls) (new : Level) (us : List Level) :
    upsertSingleBS s new ls = upsertSingle s new ls ∧ upsertBS s ls us = upsert s ls us :=
  ⟨upsertSingleBS_eq_scan new h, upsertBS_eq_scan us h⟩

/-- Weak book order is an invariant of `upsert_single` / `upsert` on every side, for every update
list. -/
theorem upsert_keeps_weak_order (s : Side) (ls : List Level) (h : WSorted s ls) (new : Level) (us : List Level) :
    WSorted s (upsertSingleBS s new ls) ∧ WSorted s (upsertBS s ls us) :=
  ⟨wsorted_upsertSingleBS new h, wsorted_upsertBS us h⟩

/-- The documented four scenarios, for sides that may hold several levels per price: at the
upserted price a zero amount removes one level if there is one, any other amount keeps the number of
levels or makes it 1; no other price is touched. An upsert never *creates* a duplicate and removes
at most one. -/
theorem upsert_level_counts (s : Side) (ls : List Level) (h : WSorted s ls) (new : Level) (q : Rat) :
    countAt (upsertSingleBS s new ls) q =
      if q = new.price then (if new.amount = 0 then countAt ls q - 1 else max (countAt ls q) 1)
      else countAt ls q :=
  countAt_upsertSingleBS new h q

/-! ## 3. `OrderBook::new` for every input -/

/-- "Construct a new sorted OrderBook … levels do not need to be pre-sorted": for **all** inputs the
constructed sides hold exactly the given levels (a permutation: nothing dropped, nothing merged), in
weak book order, with the given sequence and time. (The first two conjuncts — `sequence`, `time_engine`
— are definitional, `rfl`; the content is the permutation and the order.) -/
theorem new_any_input (seq : Nat) (te : Option Int) (bids asks : List Level) :
    let b := TBook.new seq te bids asks
    b.sequence = seq ∧ b.timeEngine = te ∧ b.bids.Perm bids ∧ b.asks.Perm asks ∧ WSortedBook b :=
  ⟨rfl, rfl, sortLevels_perm _ _, sortLevels_perm _ _, wsortedBook_new seq te bids asks⟩

/-- The constructor neither de-duplicates nor drops zero amounts: the result is strictly ordered
iff the *input* has pairwise distinct prices, and free of zero amounts iff the input is. -/
theorem new_strict_iff_input_distinct (s : Side) (ls : List Level) :
    (Sorted s (sortLevels s ls) ↔ (ls.map Level.price).Nodup) ∧
    (NonZero (sortLevels s ls) ↔ NonZero ls) ∧
    (∀ p, countAt (sortLevels s ls) p = countAt ls p) :=
  ⟨sorted_sortLevels_iff s ls, nonZero_sortLevels_iff s ls,
   fun _ => (sortLevels_perm s ls).countP_eq _⟩

/-- How much of the constructed side is fixed by "a permutation of the input in price order" alone,
whatever the sorting algorithm: with pairwise distinct prices the whole side; with repeated prices
the price sequence (the order among equal-priced levels is then the algorithm's choice — the code's
`sort_by` and the model's merge sort both make the *stable* choice, `new_sort_stable`). This was
the justification of the model while the code called `sort_unstable_by`; with `sort_by` (/repo at
`911b9f8`) it is no longer needed as an assumption. -/
theorem new_sort_determined (s : Side) (ls l' : List Level) (hp : l'.Perm ls) (hs : WSorted s l') :
    l'.map Level.price = (sortLevels s ls).map Level.price ∧
    ((ls.map Level.price).Nodup → l' = sortLevels s ls) :=
  ⟨sortLevels_prices_unique hp hs, fun hn => sortLevels_unique_of_nodup hn hp hs⟩

/-- The constructors' sort is **stable** (`slice::sort_by`, `books/mod.rs:154`, `:182`, is documented
stable): for every price, the levels at that price appear in the constructed side in the order in
which they were given — for all inputs, of any length. -/
theorem new_sort_stable (s : Side) (ls : List Level) (p : Rat) :
    (sortLevels s ls).filter (fun l => l.price == p) = ls.filter (fun l => l.price == p) :=
  sortLevels_stable s ls p

/-- Constructing again from the levels of a constructed side changes nothing. -/
theorem new_idempotent (s : Side) (ls : List Level) : sortLevels s (sortLevels s ls) = sortLevels s ls :=
  sortLevels_of_wsorted (wsorted_sortLevels s ls)

/-! ## 4. dispatch on `Snapshot` / `Update`; `sequence` and `time_engine` -/

/-- Definitional / bookkeeping (`rfl`: the defining equations of `TBook.update`, restated for
reference; not results). A snapshot replaces everything (all four fields). -/
theorem update_snapshot (b s : TBook) : b.update (.snapshot s) = s := rfl

/-- Definitional / bookkeeping (`rfl`). An update copies `sequence` and `time_engine` from the event
and upserts both sides. -/
theorem update_update (b u : TBook) :
    b.update (.update u) =
      ⟨u.sequence, u.timeEngine, upsertBS .bids b.bids u.bids, upsertBS .asks b.asks u.asks⟩ := rfl

/-- History before a snapshot is irrelevant: whatever the book was and whatever happened before,
after `… Snapshot(s), post` the book is `s` run over `post`. -/
theorem snapshot_resets_history (b s : TBook) (pre post : List TEvent) :
    b.run (pre ++ .snapshot s :: post) = s.run post := run_snapshot_resets b s pre post

/-- `sequence` and `time_engine` are those of the last applied event (no hypothesis). -/
theorem fields_of_last_event (b : TBook) (evs : List TEvent) :
    (b.run evs).sequence = (evs.getLast?.map (·.book.sequence)).getD b.sequence ∧
    (b.run evs).timeEngine = (evs.getLast?.map (·.book.timeEngine)).getD b.timeEngine :=
  run_fields b evs

/-- On strictly ordered books (C05's domain) this model and the C05 model agree event by event and
over whole histories: forgetting `time_engine` commutes with `update` / `run`. -/
theorem agrees_with_c05_model (b : TBook) (evs : List TEvent) (h : SortedBook b.toCore)
    (hs : ∀ sn, TEvent.snapshot sn ∈ evs → SortedBook sn.toCore) :
    (b.run evs).toCore = b.toCore.run (evs.map TEvent.toCore) := toCore_run h hs

/-! ## 5. invariants of every reachable book -/

/-- Every book obtainable through the public API — `default`, `new` on **any** input, any number of
`update`s with `Snapshot` / `Update` events built by `new` on any input, `snapshot(depth)` — has both
sides in weak book order. -/
theorem reachable_weakly_ordered (b : TBook) (h : Reachable (fun _ => True) b) : WSortedBook b :=
  reachable_wsorted h

/-- If the level lists handed to `new` for *states* (stand-alone books, `Snapshot` payloads) have
pairwise distinct prices and no zero amount — `Update` payloads stay unrestricted — every reachable
book is strictly ordered, has one level per price and no zero amount. -/
theorem reachable_well_formed (b : TBook) (h : Reachable CleanInput b) : WFBook b.toCore :=
  reachable_clean_wf h

/-- … and that hypothesis is necessary: strict order is equivalent to weak order plus distinct
prices, and updates never change the number of levels at a price beyond `upsert_level_counts`. -/
theorem strict_iff_weak_and_distinct (s : Side) (ls : List Level) :
    Sorted s ls ↔ WSorted s ls ∧ (ls.map Level.price).Nodup := sorted_iff_wsorted_nodup

/-! ## 6. `snapshot(depth)`; best level -/

/-- `snapshot(depth)` of any reachable book is the first `depth` levels of each side (a prefix;
the constructor's re-sort changes nothing), same `sequence` and `time_engine`; it is again weakly
ordered. -/
theorem snapshot_is_prefix (b : TBook) (h : WSortedBook b) (d : Nat) :
    b.snapshot d = ⟨b.sequence, b.timeEngine, b.bids.take d, b.asks.take d⟩ ∧ WSortedBook (b.snapshot d) :=
  ⟨snapshot_eq_take h d, wsortedBook_snapshot h d⟩

/-- a depth at least as large as both sides gives the book itself; depth 0 gives empty sides;
snapshots compose to the smaller depth -/
theorem snapshot_laws (b : TBook) (h : WSortedBook b) (d d' : Nat) :
    (b.bids.length ≤ d → b.asks.length ≤ d → b.snapshot d = b) ∧
    (b.snapshot 0 = ⟨b.sequence, b.timeEngine, [], []⟩) ∧
    (b.snapshot d).snapshot d' = b.snapshot (min d' d) := by
  refine ⟨fun hb ha => ?_, ?_, ?_⟩
  · rw [snapshot_eq_take h, List.take_of_length_le hb, List.take_of_length_le ha]
  · rw [snapshot_eq_take h]; simp
  · rw [snapshot_eq_take (wsortedBook_snapshot h d), snapshot_eq_take h, snapshot_eq_take h]
    simp [List.take_take]

/-- best = head: the first level of a side is one no other level of the side beats (weakly, for
sides with repeated prices). -/
theorem best_is_extremum (s : Side) (ls : List Level) (h : WSorted s ls) (l : Level) (hl : best ls = some l) :
    l ∈ ls ∧ ∀ x ∈ ls, s.before x.price l.price = false := by
  obtain ⟨xs, rfl⟩ := List.head?_eq_some_iff.mp hl
  refine ⟨by simp, fun x hx => ?_⟩
  simp only [List.mem_cons] at hx
  rcases hx with rfl | hx
  · exact Side.before_irrefl s _
  · have := (List.pairwise_cons.mp h).1 x hx
    simpa [Side.le] using this

/-! ## 6a. `volume_weighed_mid_price` and its `Decimal` division by zero

`Rat` division is total (`x / 0 = 0`); `Decimal` division panics. `TBook.volumeWeightedMidPrice` is
therefore the value of the call only under the guard `¬ b.vwMidPanics`; `TBook.vwMidChecked` is the
observation with the panic made visible (`none`). -/

/-- **When the call panics**: exactly when both sides are non-empty and the amounts of the two best
levels sum to zero (the divisor of `volume_weighted_mid_price`, `books/mod.rs:309-312`). -/
theorem vw_mid_panics_iff (b : TBook) :
    b.vwMidPanics = true ↔
      ∃ bb ba, best b.bids = some bb ∧ best b.asks = some ba ∧ bb.amount + ba.amount = 0 :=
  vwMidPanics_iff b

/-- Under the guard the value is a genuine quotient: the divisor is not zero and the result `v` is
characterised without division, `v · (bid amount + ask amount) = bid price · ask amount + ask price ·
bid amount` (each best price weighted with the opposite amount). -/
theorem vw_mid_value (b : TBook) (bb ba : Level) (hb : best b.bids = some bb) (ha : best b.asks = some ba)
    (hn : ¬ b.vwMidPanics) :
    bb.amount + ba.amount ≠ 0 ∧
    ∃ v, b.volumeWeightedMidPrice = some v ∧
      v * (bb.amount + ba.amount) = bb.price * ba.amount + ba.price * bb.amount :=
  vwMid_value hb ha (by simpa using hn)

/-- The guard holds on every book whose amounts are positive (what the generators produce apart
from zero amounts, and what an exchange sends): no reachable panic there. -/
theorem vw_mid_safe_of_positive_amounts (b : TBook) (hb : ∀ l ∈ b.bids, 0 < l.amount)
    (ha : ∀ l ∈ b.asks, 0 < l.amount) : ¬ b.vwMidPanics := by
  simp [vwMidPanics_false_of_pos hb ha]

/-- **Witness at the excluded point** (review A, C05M item 1; `corpus/C05M/A1_vw_mid_panic.ops`).
`OrderBook::new(1, None, [(100, 1)], [(101, -1)])` is a *clean* book — distinct prices, no zero
amount: inside the domain of `reachable_well_formed` and of C05's `WFBook` — on which the code panics
(`Decimal` division by zero), while the unguarded equations hold with the value `some 0` on both
sides (`x / 0 = 0` in `Rat`): without the guard, `spec_observables` would claim that the call returns
0. Clean input does not exclude the panic (no generator produces negative amounts, which is why
the sampled runs never saw it). -/
theorem vw_mid_witness :
    let bk : TBook := ⟨1, none, [⟨100, 1⟩], [⟨101, -1⟩]⟩
    TBook.new 1 none [⟨100, 1⟩] [⟨101, -1⟩] = bk ∧
    CleanInput bk.bids ∧ CleanInput bk.asks ∧ Reachable CleanInput bk ∧ WFBook bk.toCore ∧
    bk.vwMidPanics = true ∧ bk.vwMidChecked = none ∧
    bk.toCore.volumeWeightedMidPrice = some 0 ∧
    (SCell.ofBook bk).spec?.map Spec.volumeWeightedMidPrice = some (some 0) ∧
    (SCell.ofBook bk).spec?.map vwMidCheckedSpec = some none := by
  have hnew : TBook.new 1 none [⟨100, 1⟩] [⟨101, -1⟩] = ⟨1, none, [⟨100, 1⟩], [⟨101, -1⟩]⟩ :=
    new_eval (sortLevels_of_wsorted (by decide +kernel)) (sortLevels_of_wsorted (by decide +kernel))
  have hcb : CleanInput [(⟨100, 1⟩ : Level)] := ⟨by decide +kernel, by unfold NonZero; decide +kernel⟩
  have hca : CleanInput [(⟨101, -1⟩ : Level)] := ⟨by decide +kernel, by unfold NonZero; decide +kernel⟩
  have hr : Reachable CleanInput (⟨1, none, [⟨100, 1⟩], [⟨101, -1⟩]⟩ : TBook) := by
    rw [← hnew]; exact Reachable.new 1 none _ _ hcb hca
  exact ⟨hnew, hcb, hca, hr, reachable_clean_wf hr, by decide +kernel, by decide +kernel, by decide +kernel,
    by decide +kernel, by decide +kernel⟩

/-! ## 7. `OrderBookMap` -/

/-- `OrderBookMapSingle`: exactly one key, which resolves to its cell; every other key to nothing. -/
theorem single_map (k c k' : Nat) :
    (BookMap.single k c).keys = [k] ∧
    (BookMap.single k c).find k = some c ∧ (k' ≠ k → (BookMap.single k c).find k' = none) := by
  refine ⟨rfl, by simp [BookMap.find], fun h => ?_⟩
  simp only [BookMap.find]
  rw [if_neg (fun e => h e.symm)]

/-- `OrderBookMapMulti::insert`: afterwards the key resolves to the new cell, every other key is
unchanged, and the key set is the old one plus the key, still without repetition. -/
theorem multi_insert (books : List (Nat × Nat)) (k c k' : Nat) (hn : ((BookMap.multi books).keys).Nodup) :
    ((BookMap.multi books).insert k c).find k' = (if k' = k then some c else (BookMap.multi books).find k') ∧
    (k' ∈ ((BookMap.multi books).insert k c).keys ↔ k' = k ∨ k' ∈ (BookMap.multi books).keys) ∧
    (((BookMap.multi books).insert k c).keys).Nodup :=
  ⟨lookup_hashInsert books k c k', mem_keys_hashInsert books k c k', keys_hashInsert_nodup hn k c⟩

/-- A multi map collected from `(key, cell)` pairs: the **last** pair of a key wins, keys are not
repeated, and `keys` lists exactly the keys `find` resolves (also for the single map). -/
theorem multi_of_pairs (pairs : List (Nat × Nat)) (k : Nat) :
    (multiOf pairs).find k = pairs.reverse.lookup k ∧ ((multiOf pairs).keys).Nodup := by
  refine ⟨?_, foldl_hashInsert_nodup [] pairs List.nodup_nil⟩
  simp only [multiOf, BookMap.find, foldl_hashInsert_lookup]
  cases pairs.reverse.lookup k <;> rfl

theorem keys_iff_find (m : BookMap) (k : Nat) : k ∈ m.keys ↔ (m.find k).isSome := by
  cases m with
  | single k0 c =>
    simp only [BookMap.keys, BookMap.find, List.mem_singleton]
    by_cases h : k0 = k
    · simp [h]
    · have h' : ¬ k = k0 := fun e => h e.symm
      simp [h, h']
  | multi books => exact (lookup_isSome_iff_mem_keys books k).symm

/-- **Refinement of the maps to the association log** (`AssocLog`: the `(key, cell)` associations in
the order in which they were made, the last one for a key in force — what `drv_c05m spec` keeps and
answers `find` / `keys` from, with no hash map on its side). `OrderBookMapSingle::new(k, c)`
refines the one-entry log, `OrderBookMapMulti::new` of collected pairs refines the pairs, and
`insert` refines appending; a map that refines a log resolves every key as the log does, and (having
no repeated key, as every map built that way) lists the log's keys, up to order. -/
theorem map_refines_log (pairs : List (Nat × Nat)) (books : List (Nat × Nat)) (log : AssocLog) (k c : Nat) :
    MapRefines (.single k c) [(k, c)] ∧
    MapRefines (multiOf pairs) pairs ∧
    (MapRefines (.multi books) log → MapRefines ((BookMap.multi books).insert k c) (log ++ [(k, c)])) ∧
    (∀ m, MapRefines m log → m.keys.Nodup → m.keys.Perm (AssocLog.keys log)) ∧
    (AssocLog.keys log).Nodup ∧ (k ∈ AssocLog.keys log ↔ (AssocLog.find log k).isSome) :=
  ⟨mapRefines_single k c, mapRefines_multiOf pairs, fun h => mapRefines_insert h k c,
   fun _ h hn => h.keys_perm hn, AssocLog.keys_nodup log, AssocLog.mem_keys_iff_find log k⟩

/-! ## 8. `OrderBookL2Manager::run` -/

/-- **Per-cell fold** (the general form, keys may share cells): after any stream the book in cell
`c` is its initial book run over exactly the events whose instrument resolves to `c`, in stream
order; the number of cells never changes. -/
theorem manager_per_cell (m : BookMap) (heap : Heap) (stream : List TStreamEvent) (c : Nat) :
    (managerRun m heap stream)[c]? = heap[c]?.map (fun b => b.run (eventsForCell m c stream)) ∧
    (managerRun m heap stream).length = heap.length :=
  ⟨managerRun_cell m heap stream c, managerRun_length m heap stream⟩

/-- **Per-instrument fold**: if `k` is the only key of the stream resolving to its cell (always
the case when no two keys share a cell), the book of instrument `k` after the stream is the fold of
exactly the events addressed to `k`. -/
theorem manager_per_instrument (m : BookMap) (heap : Heap) (stream : List TStreamEvent) (k c : Nat)
    (hk : m.find k = some c)
    (hinj : ∀ k' ev, TStreamEvent.item k' ev ∈ stream → m.find k' = some c → k' = k) :
    (managerRun m heap stream)[c]? = heap[c]?.map (fun b => b.run (eventsForKey k stream)) := by
  rw [managerRun_cell, eventsForCell_eq_eventsForKey hk stream hinj]

/-- **Frame**: `Reconnecting` notices and items for instruments the map does not resolve can be
deleted from the stream without changing any book; a cell no key of the stream resolves to is
untouched. -/
theorem manager_frame (m : BookMap) (heap : Heap) (stream : List TStreamEvent) :
    managerRun m heap (stream.filter (relevant m)) = managerRun m heap stream ∧
    (∀ c, (∀ k ev, TStreamEvent.item k ev ∈ stream → m.find k ≠ some c) →
      (managerRun m heap stream)[c]? = heap[c]?) := by
  refine ⟨managerRun_filter m heap stream, fun c hc => ?_⟩
  have : eventsForCell m c stream = [] := by
    simp only [eventsForCell, List.filterMap_eq_nil_iff]
    intro se hse
    cases se with
    | reconnecting => rfl
    | item k ev => simp [hc k ev hse]
  rw [managerRun_cell, this]
  cases heap[c]? <;> simp [TBook.run]

/-- Running the manager on one stream and then on another (the books are shared state, they persist)
is running it on the concatenation. -/
theorem manager_resumes (m : BookMap) (heap : Heap) (s1 s2 : List TStreamEvent) :
    managerRun m heap (s1 ++ s2) = managerRun m (managerRun m heap s1) s2 := managerRun_append m heap s1 s2

/-- All managed books stay weakly ordered — for every stream whose snapshots were built by `new`
on any input; and stay well-formed (C05's invariant) when the snapshots are. -/
theorem manager_keeps_invariants (m : BookMap) (heap : Heap) (stream : List TStreamEvent) :
    ((∀ b ∈ heap, WSortedBook b) →
      (∀ k sn, TStreamEvent.item k (.snapshot sn) ∈ stream → WSortedBook sn) →
      ∀ b ∈ managerRun m heap stream, WSortedBook b) ∧
    ((∀ b ∈ heap, WFBook b.toCore) →
      (∀ k sn, TStreamEvent.item k (.snapshot sn) ∈ stream → WFBook sn.toCore) →
      ∀ b ∈ managerRun m heap stream, WFBook b.toCore) :=
  ⟨managerRun_wsorted, managerRun_wf⟩

/-- In C05's domain each managed cell is the C05 model's `OrderBook.run` over the cell's events, so
every C05 theorem about that run (map refinement, `holds_exactly`, best = max / min, mid-price)
applies to it. Not without a guard the volume-weighted mid-price: C05's equations for it are about
the total `Rat` quotient and describe the code's call only where `¬ vwMidPanics` (section 6a;
`vw_mid_witness` is a well-formed book where they hold and the code panics). -/
theorem manager_cell_is_c05_run (m : BookMap) (heap : Heap) (stream : List TStreamEvent) (c : Nat) (b0 : TBook)
    (h0 : heap[c]? = some b0) (hb : SortedBook b0.toCore)
    (hs : ∀ k sn, TStreamEvent.item k (.snapshot sn) ∈ stream → SortedBook sn.toCore) :
    ∃ b, (managerRun m heap stream)[c]? = some b ∧
      b.toCore = b0.toCore.run ((eventsForCell m c stream).map TEvent.toCore) :=
  managerRun_core h0 hb hs

/-! ## 9. refinement to the executable specification (`drv_c05m spec`) -/

/-- A book built by `new` on any input is described by the abstract cell made from it. -/
theorem spec_of_new (seq : Nat) (te : Option Int) (bids asks : List Level) :
    RefinesCell (TBook.new seq te bids asks) (SCell.ofBook (TBook.new seq te bids asks)) :=
  refinesCell_ofBook (wsortedBook_new seq te bids asks)

/-- What the coupling gives for every observable: the copied fields; the price sequence of each
side is the bag in book order; the best prices and the mid-price are those of the bags; and while
the cell is clean the whole book, best levels and every depth snapshot are those of the C05 map
specification (all unconditional). The volume-weighted mid-price: the call panics exactly when the
specification's micro-price is undefined (`vwMidUndefined`, computed from the maps alone), the
panic-aware observations agree (`vwMidChecked`: what both drivers print), and — under the explicit
guard `¬ b.vwMidPanics`, without which the equation would hold by `x / 0 = 0` (`vw_mid_witness`) —
the value is the specification's. -/
theorem spec_observables (b : TBook) (c : SCell) (h : RefinesCell b c) :
    b.sequence = c.sequence ∧ b.timeEngine = c.timeEngine ∧
    b.bids.map Level.price = Bag.inOrder .bids c.bidPrices ∧
    b.asks.map Level.price = Bag.inOrder .asks c.askPrices ∧
    b.midPrice = c.midPrice ∧
    (∀ sp, c.spec? = some sp →
      b.toCore = sp.book ∧
      b.vwMidPanics = vwMidUndefined sp ∧ b.vwMidChecked = vwMidCheckedSpec sp ∧
      (¬ b.vwMidPanics → b.toCore.volumeWeightedMidPrice = sp.volumeWeightedMidPrice) ∧
      best b.bids = PMap.best .bids sp.bids ∧ best b.asks = PMap.best .asks sp.asks ∧
      ∀ d, (b.snapshot d).toCore = sp.snapshot d) := by
  refine ⟨h.seq, h.time, h.bidPrices_eq, h.askPrices_eq, h.midPrice_eq, ?_⟩
  intro sp hsp
  simp only [SCell.spec?] at hsp
  cases hm : c.maps with
  | none => simp [hm] at hsp
  | some pr =>
    obtain ⟨mb, ma⟩ := pr
    simp only [hm, Option.map_some, Option.some.injEq] at hsp
    subst hsp
    have hr := h.maps mb ma hm
    refine ⟨hr.book_eq, Refines.vwMidPanics_eq hr, Refines.vwMidChecked_eq hr, fun _ => hr.vwMidPrice_eq,
      ?_, ?_, fun d => ?_⟩
    · have := hr.bids_eq
      simp only [best, PMap.best_eq_head hr.wfBids]
      rw [← this]; rfl
    · have := hr.asks_eq
      simp only [best, PMap.best_eq_head hr.wfAsks]
      rw [← this]; rfl
    · rw [← hr.snapshot_eq d]; rfl

/-- **Refinement of the manager**, for all maps, heaps and streams (snapshots built by `new` on any
input): if every cell is described by its abstract cell before the run, it is afterwards — where
the abstract run folds, independently for every cell, the events resolving to it. -/
theorem manager_refines_spec (m : BookMap) (heap : Heap) (cells : List SCell) (stream : List TStreamEvent)
    (h : HeapRefines heap cells)
    (hs : ∀ k sn, TStreamEvent.item k (.snapshot sn) ∈ stream → WSortedBook sn) :
    HeapRefines (managerRun m heap stream) (specRun m cells stream) := heapRefines_run h hs

/-- … and the same with the key resolution of the specification taken from the association log
instead of the concrete map: this is the run `drv_c05m spec` executes (`specRunBy (AssocLog.find log)`;
its state holds the log, no `BookMap`). -/
theorem manager_refines_log_spec (m : BookMap) (log : AssocLog) (heap : Heap) (cells : List SCell)
    (stream : List TStreamEvent) (hm : MapRefines m log) (h : HeapRefines heap cells)
    (hs : ∀ k sn, TStreamEvent.item k (.snapshot sn) ∈ stream → WSortedBook sn) :
    HeapRefines (managerRun m heap stream) (specRunBy (AssocLog.find log) cells stream) := by
  rw [← hm.specRun_eq]; exact heapRefines_run h hs

/-- the coupling holds initially for any heap of constructed / default books -/
theorem spec_initial (heap : Heap) (h : ∀ b ∈ heap, WSortedBook b) :
    HeapRefines heap (heap.map SCell.ofBook) := by
  refine ⟨by simp, fun i b c hb hc => ?_⟩
  simp only [List.getElem?_map, hb, Option.map_some, Option.some.injEq] at hc
  subst hc
  exact refinesCell_ofBook (h b (List.mem_of_getElem? hb))

/-! ## Non-vacuity and the concrete edge cases

(`new_eval` / `sortLevels_eval` / `sortLevels_of_wsorted` evaluate the constructor: the merge sort
is defined by well-founded recursion and does not reduce in the kernel.) -/

/-- **The constructor does not de-duplicate**: `OrderBook::new(1, None, [(100,1),(100,2)], [])` holds
two bid levels at price 100 … -/
example : TBook.new 1 none [⟨100, 1⟩, ⟨100, 2⟩] [] = ⟨1, none, [⟨100, 1⟩, ⟨100, 2⟩], []⟩ :=
  new_eval (sortLevels_of_wsorted (by decide +kernel)) (sortLevels_of_wsorted (by decide +kernel))

/-- … an `Update` setting 100 to 5 then changes only one of them (the last), and a delete removes
only one; the duplicate survives every update and only a `Snapshot` clears it. -/
example : (TBook.new 1 none [⟨100, 1⟩, ⟨100, 2⟩] []).update (.update (TBook.new 2 none [⟨100, 5⟩] []))
    = ⟨2, none, [⟨100, 1⟩, ⟨100, 5⟩], []⟩ := by
  rw [new_eval (seq := 1) (sortLevels_of_wsorted (ls := [⟨100, 1⟩, ⟨100, 2⟩]) (by decide +kernel))
        (sortLevels_of_wsorted (ls := []) (by decide +kernel)),
      new_eval (seq := 2) (sortLevels_of_wsorted (ls := [⟨100, 5⟩]) (by decide +kernel))
        (sortLevels_of_wsorted (ls := []) (by decide +kernel))]
  decide +kernel

example : (TBook.new 1 none [⟨100, 1⟩, ⟨100, 2⟩] []).update (.update (TBook.new 2 none [⟨100, 0⟩] []))
    = ⟨2, none, [⟨100, 1⟩], []⟩ := by
  rw [new_eval (seq := 1) (sortLevels_of_wsorted (ls := [⟨100, 1⟩, ⟨100, 2⟩]) (by decide +kernel))
        (sortLevels_of_wsorted (ls := []) (by decide +kernel)),
      new_eval (seq := 2) (sortLevels_of_wsorted (ls := [⟨100, 0⟩]) (by decide +kernel))
        (sortLevels_of_wsorted (ls := []) (by decide +kernel))]
  decide +kernel

/-- the hypothesis of `reachable_well_formed` fails for that input and so does its conclusion -/
example : ¬ CleanInput [⟨100, 1⟩, ⟨100, 2⟩] ∧ ¬ Sorted .bids [⟨100, 1⟩, ⟨100, 2⟩] := by
  constructor
  · intro h; exact absurd h.1 (by decide +kernel)
  · decide +kernel

/-- **Nor does it drop zero amounts**: `OrderBook::new(1, None, [], [(101,0)])` stores an ask level of
amount 0, which is then the best ask (`mid_price` = 101 on an otherwise empty book). -/
example : TBook.new 1 none [] [⟨101, 0⟩] = ⟨1, none, [], [⟨101, 0⟩]⟩ ∧
    (⟨1, none, [], [⟨101, 0⟩]⟩ : TBook).midPrice = some 101 :=
  ⟨new_eval (sortLevels_of_wsorted (by decide +kernel)) (sortLevels_of_wsorted (by decide +kernel)),
   by decide +kernel⟩

/-- `volume_weighed_mid_price` divides by the sum of the best amounts: with two zero-amount best
levels (with non-negative amounts possible only through such a constructor input; with a negative
amount also on a clean book, `vw_mid_witness`) the `Decimal` division panics. -/
example : TBook.new 1 none [⟨100, 0⟩] [⟨101, 0⟩] = ⟨1, none, [⟨100, 0⟩], [⟨101, 0⟩]⟩ ∧
    (⟨1, none, [⟨100, 0⟩], [⟨101, 0⟩]⟩ : TBook).vwMidPanics = true :=
  ⟨new_eval (sortLevels_of_wsorted (by decide +kernel)) (sortLevels_of_wsorted (by decide +kernel)),
   by decide +kernel⟩

/-- the scan of the C05 model and the real search differ on duplicate prices (first vs last level of
the run), which is why `binary_search_is_scan` needs strict order -/
example : upsertSingle .bids ⟨100, 0⟩ [⟨100, 1⟩, ⟨100, 2⟩] ≠ upsertSingleBS .bids ⟨100, 0⟩ [⟨100, 1⟩, ⟨100, 2⟩] := by
  decide +kernel

/-- unsorted input is sorted: bids descending, asks ascending -/
example : TBook.new 5 (some 1000) [⟨100, 1⟩, ⟨101, 2⟩] [⟨103, 1⟩, ⟨102, 3/2⟩]
    = ⟨5, some 1000, [⟨101, 2⟩, ⟨100, 1⟩], [⟨102, 3/2⟩, ⟨103, 1⟩]⟩ :=
  new_eval (sortLevels_eval (by decide +kernel) (by decide +kernel) (by decide +kernel))
    (sortLevels_eval (by decide +kernel) (by decide +kernel) (by decide +kernel))

/-- a non-trivial reachable book in the clean world (hypotheses of `reachable_well_formed`) -/
example : Reachable CleanInput
    ((TBook.new 5 (some 1000) [⟨100, 1⟩, ⟨101, 2⟩] [⟨103, 1⟩, ⟨102, 3/2⟩]).update
      (.update (TBook.new 6 none [⟨101, 0⟩, ⟨99, 3⟩, ⟨99, 4⟩] [⟨104, 1⟩]))) := by
  apply Reachable.updateEvent
  apply Reachable.new <;> (constructor <;> decide +kernel)

/-- an update with a delete, a duplicate price (the later entry wins) and inserts -/
example : (⟨5, some 1000, [⟨101, 2⟩, ⟨100, 1⟩], [⟨102, 3/2⟩, ⟨103, 1⟩]⟩ : TBook).update
      (.update ⟨6, none, [⟨101, 0⟩, ⟨99, 3⟩, ⟨99, 4⟩], [⟨104, 1⟩]⟩)
    = ⟨6, none, [⟨100, 1⟩, ⟨99, 4⟩], [⟨102, 3/2⟩, ⟨103, 1⟩, ⟨104, 1⟩]⟩ := by decide +kernel

/-- two keys sharing one cell: both instruments' events land in the same book, in stream order
(the hypothesis of `manager_per_instrument` fails, `manager_per_cell` applies); the item for the
unknown instrument 7 and the reconnecting notice are skipped -/
example : managerRun (multiOf [(0, 0), (1, 0)]) [TBook.default]
      [.item 0 (.update ⟨1, none, [⟨100, 1⟩], []⟩), .reconnecting,
       .item 7 (.snapshot ⟨9, none, [], []⟩), .item 1 (.update ⟨2, some 5, [⟨99, 2⟩], []⟩)]
    = [⟨2, some 5, [⟨100, 1⟩, ⟨99, 2⟩], []⟩] := by decide +kernel

/-- the hypotheses of `manager_refines_spec` hold for a default heap and a constructed stream -/
example : HeapRefines [TBook.default, TBook.default] ([TBook.default, TBook.default].map SCell.ofBook) :=
  spec_initial _ (fun b hb => by
    simp only [List.mem_cons, List.not_mem_nil, or_false, or_self] at hb
    subst hb; exact wsortedBook_default)

end BarterModel.Props.C05M
