import BarterModel.Model.Metrics
import BarterModel.Lemmas.DataSet
import BarterModel.Lemmas.TearSheet
import BarterModel.Props.C18
import BarterModel.Props.C16
/-!
Helper lemmas for the sub-check C16M (`Props/C16M.lean`): `Rat.abs` arithmetic, the saturating
product of `scale` (`scaleVal`), the interval algebra (`periods`, whole seconds, truncation
bounds), `calculate` against the extended-value spec, and the state of the tear-sheet generator
after a history (reusing the C17 refinement `run_eq_specSummary` and the C18 theorems).
-/
namespace BarterModel.Metrics
open BarterModel

theorem decimalMax_pos : (0 : Rat) < decimalMax := by decide
theorem decimalMin_eq : decimalMin = -decimalMax := rfl

theorem abs_nonneg' (a : Rat) : 0 ≤ a.abs := Rat.abs_nonneg
theorem abs_le_iff (a b : Rat) : a.abs ≤ b ↔ -b ≤ a ∧ a ≤ b := by
  unfold Rat.abs; split <;> grind
theorem abs_eq_zero_iff (a : Rat) : a.abs = 0 ↔ a = 0 := by
  unfold Rat.abs; split <;> grind

theorem abs_mul' (a b : Rat) : (a * b).abs = a.abs * b.abs := by
  rcases (Rat.le_total (a := 0) (b := a)) with ha | ha <;> rcases (Rat.le_total (a := 0) (b := b)) with hb | hb
  · rw [Rat.abs_of_nonneg ha, Rat.abs_of_nonneg hb, Rat.abs_of_nonneg (Rat.mul_nonneg ha hb)]
  · have h1 : 0 ≤ -b := by grind
    have : 0 ≤ a * -b := Rat.mul_nonneg ha h1
    have e : a * b = -(a * -b) := by grind
    rw [e, Rat.abs_neg, Rat.abs_of_nonneg this, Rat.abs_of_nonneg ha,
      ← Rat.abs_neg (x := b), Rat.abs_of_nonneg h1]
  · have h1 : 0 ≤ -a := by grind
    have : 0 ≤ -a * b := Rat.mul_nonneg h1 hb
    have e : a * b = -(-a * b) := by grind
    rw [e, Rat.abs_neg, Rat.abs_of_nonneg this, Rat.abs_of_nonneg hb,
      ← Rat.abs_neg (x := a), Rat.abs_of_nonneg h1]
  · have h1 : 0 ≤ -a := by grind
    have h2 : 0 ≤ -b := by grind
    have : 0 ≤ -a * -b := Rat.mul_nonneg h1 h2
    have e : a * b = (-a * -b) := by grind
    rw [e, Rat.abs_of_nonneg this, ← Rat.abs_neg (x := a), Rat.abs_of_nonneg h1,
      ← Rat.abs_neg (x := b), Rat.abs_of_nonneg h2]

theorem div_nonneg {a b : Rat} (ha : 0 ≤ a) (hb : 0 ≤ b) : 0 ≤ a / b := by
  rcases Rat.le_iff_lt_or_eq.mp hb with h | h
  · exact DataSet.div_nonneg_of_pos ha h
  · rw [← h, Rat.div_def, Rat.inv_zero, Rat.mul_zero]; exact Rat.le_refl

/-- `periods` is a genuine quotient as soon as the current interval has at least one second. -/
theorem periods_eq_div {c t : Interval} (hc : c.secs ≠ 0) :
    periods c t = t.secs.abs / c.secs.abs := by
  have : c.secs.abs ≠ 0 := fun h => hc ((abs_eq_zero_iff _).mp h)
  simp [periods, checkedDiv, this]

theorem periods_zero_current {c t : Interval} (hc : c.secs = 0) : periods c t = decimalMax := by
  simp [periods, checkedDiv, hc, Rat.abs_zero]

theorem periods_nonneg (c t : Interval) : 0 ≤ periods c t := by
  by_cases hc : c.secs = 0
  · rw [periods_zero_current hc]; decide
  · rw [periods_eq_div hc]; exact div_nonneg Rat.abs_nonneg Rat.abs_nonneg


/-! ### the saturating product of `scale` -/

/-- `value.checked_mul(scale).unwrap_or(Decimal::MAX)` -/
def scaleVal (v s : Rat) : Rat := (checkedMul v s).getD decimalMax

theorem scaleWith_value (law : Rat → Rat) (m : Metric) (t : Interval) :
    (m.scaleWith law t).value = scaleVal m.value (law (periods m.interval t)) := rfl

theorem scaleWith_interval (law : Rat → Rat) (m : Metric) (t : Interval) :
    (m.scaleWith law t).interval = t := rfl

theorem scaleVal_eq {v s : Rat} (h : (v * s).abs ≤ decimalMax) : scaleVal v s = v * s := by
  have : ¬ decimalMax < (v * s).abs := by grind
  simp [scaleVal, checkedMul, this]

theorem scaleVal_sat {v s : Rat} (h : decimalMax < (v * s).abs) : scaleVal v s = decimalMax := by
  simp [scaleVal, checkedMul, h]

theorem scaleVal_cases (v s : Rat) :
    ((v * s).abs ≤ decimalMax ∧ scaleVal v s = v * s) ∨
    (decimalMax < (v * s).abs ∧ scaleVal v s = decimalMax) := by
  by_cases h : decimalMax < (v * s).abs
  · exact Or.inr ⟨h, scaleVal_sat h⟩
  · have h' : (v * s).abs ≤ decimalMax := by grind
    exact Or.inl ⟨h', scaleVal_eq h'⟩

theorem scaleVal_bounds (v s : Rat) : decimalMin ≤ scaleVal v s ∧ scaleVal v s ≤ decimalMax := by
  rcases scaleVal_cases v s with ⟨h, e⟩ | ⟨_, e⟩
  · rw [e]; exact (abs_le_iff _ _).mp h
  · rw [e]; decide

theorem scaleVal_one {v : Rat} (h : v.abs ≤ decimalMax) : scaleVal v 1 = v := by
  have : (v * 1).abs ≤ decimalMax := by rw [Rat.mul_one]; exact h
  rw [scaleVal_eq this, Rat.mul_one]

theorem scaleVal_zero (v : Rat) : scaleVal v 0 = 0 := by
  have : (v * 0).abs ≤ decimalMax := by rw [Rat.mul_zero]; decide
  rw [scaleVal_eq this, Rat.mul_zero]

theorem scaleVal_assoc {v s1 : Rat} (s2 : Rat) (h1 : (v * s1).abs ≤ decimalMax) :
    scaleVal (scaleVal v s1) s2 = scaleVal v (s1 * s2) := by
  rw [scaleVal_eq h1]
  unfold scaleVal checkedMul
  rw [Rat.mul_assoc]

theorem scaleVal_nonneg {v s : Rat} (hv : 0 ≤ v) (hs : 0 ≤ s) : 0 ≤ scaleVal v s := by
  rcases scaleVal_cases v s with ⟨_, e⟩ | ⟨_, e⟩
  · rw [e]; exact Rat.mul_nonneg hv hs
  · rw [e]; decide

theorem scaleVal_nonpos {v s : Rat} (hv : v ≤ 0) (hs : 0 ≤ s) (hlo : decimalMin ≤ v * s) :
    scaleVal v s ≤ 0 := by
  have hn : v * s ≤ 0 := by
    have : 0 ≤ -v * s := Rat.mul_nonneg (by grind) hs
    grind
  have : (v * s).abs ≤ decimalMax := (abs_le_iff _ _).mpr ⟨hlo, by
    have : (0 : Rat) ≤ decimalMax := by decide
    grind⟩
  rw [scaleVal_eq this]; exact hn

theorem scaleVal_mono {v1 v2 s : Rat} (hs : 0 ≤ s) (h : v1 ≤ v2) (hlo : decimalMin ≤ v1 * s) :
    scaleVal v1 s ≤ scaleVal v2 s := by
  have hle : v1 * s ≤ v2 * s := Rat.mul_le_mul_of_nonneg_right h hs
  rcases scaleVal_cases v2 s with ⟨h2, e2⟩ | ⟨_, e2⟩
  · have h2' := (abs_le_iff _ _).mp h2
    have : (v1 * s).abs ≤ decimalMax := (abs_le_iff _ _).mpr ⟨hlo, by grind⟩
    rw [e2, scaleVal_eq this]; exact hle
  · rw [e2]; exact (scaleVal_bounds v1 s).2

theorem scaleVal_min_of_one_lt {s : Rat} (hs : 1 < s) : scaleVal decimalMin s = decimalMax := by
  apply scaleVal_sat
  have h0 : (0 : Rat) ≤ s := by grind
  rw [abs_mul', Rat.abs_of_nonneg h0, show decimalMin.abs = decimalMax by decide]
  have := Rat.mul_lt_mul_of_pos_left hs decimalMax_pos
  rwa [Rat.mul_one] at this

theorem scaleVal_max_of_one_lt {s : Rat} (hs : 1 < s) : scaleVal decimalMax s = decimalMax := by
  apply scaleVal_sat
  have h0 : (0 : Rat) ≤ s := by grind
  rw [abs_mul', Rat.abs_of_nonneg h0, show decimalMax.abs = decimalMax by decide]
  have := Rat.mul_lt_mul_of_pos_left hs decimalMax_pos
  rwa [Rat.mul_one] at this

theorem scaleVal_sentinel_of_le_one {v s : Rat} (hv : v.abs = decimalMax) (h0 : 0 ≤ s) (hs : s ≤ 1) :
    scaleVal v s = v * s := by
  apply scaleVal_eq
  rw [abs_mul', Rat.abs_of_nonneg h0, hv]
  have := Rat.mul_le_mul_of_nonneg_left hs (show (0 : Rat) ≤ decimalMax by decide)
  rwa [Rat.mul_one] at this


/-! ### interval algebra -/

theorem periods_self {a : Interval} (ha : a.secs ≠ 0) : periods a a = 1 := by
  have : a.secs.abs ≠ 0 := fun h => ha ((abs_eq_zero_iff _).mp h)
  rw [periods_eq_div ha]; grind

theorem periods_mul {a b : Interval} (c : Interval) (ha : a.secs ≠ 0) (hb : b.secs ≠ 0) :
    periods a b * periods b c = periods a c := by
  have h1 : a.secs.abs ≠ 0 := fun h => ha ((abs_eq_zero_iff _).mp h)
  have h2 : b.secs.abs ≠ 0 := fun h => hb ((abs_eq_zero_iff _).mp h)
  rw [periods_eq_div ha, periods_eq_div hb, periods_eq_div ha]; grind

theorem periods_inv {a b : Interval} (ha : a.secs ≠ 0) (hb : b.secs ≠ 0) :
    periods a b * periods b a = 1 := by
  rw [periods_mul a ha hb, periods_self ha]

theorem numSeconds_whole (k : Int) : numSeconds (1000 * k) = k := by
  unfold numSeconds; exact Int.mul_tdiv_cancel_left k (by decide)

theorem intCast_abs (k : Int) : ((k : Int) : Rat).abs = ((k.natAbs : Int) : Rat) := by
  rcases Int.le_total 0 k with h | h
  · have : (0 : Rat) ≤ (k : Rat) := by
      have := (Rat.intCast_le_intCast (a := 0) (b := k)).mpr h; simpa using this
    rw [Rat.abs_of_nonneg this]; congr 1; omega
  · have : (0 : Rat) ≤ -(k : Rat) := by
      have := (Rat.intCast_le_intCast (a := k) (b := 0)).mpr h
      have h0 : ((0 : Int) : Rat) = 0 := rfl
      grind
    rw [← Rat.abs_neg, Rat.abs_of_nonneg this, ← Rat.intCast_neg]; congr 1; omega

theorem natAbs_tdiv_1000 (ms : Int) : ((Int.tdiv ms 1000).natAbs : Int) = (ms.natAbs : Int) / 1000 := by
  rcases Int.le_total 0 ms with h | h
  · rw [Int.tdiv_eq_ediv_of_nonneg h]; omega
  · obtain ⟨n, rfl⟩ : ∃ n : Int, ms = -n := ⟨-ms, by omega⟩
    rw [Int.neg_tdiv, Int.tdiv_eq_ediv_of_nonneg (by omega)]; omega

/-- `|num_seconds|` is the whole-second part of the length: `⌊|ms| / 1000⌋`. -/
theorem secs_abs_eq (i : Interval) : i.secs.abs = (((i.interval.natAbs : Int) / 1000 : Int) : Rat) := by
  unfold Interval.secs numSeconds
  rw [intCast_abs, natAbs_tdiv_1000]

theorem length_eq (i : Interval) : i.length = ((i.interval.natAbs : Int) : Rat) / 1000 := by
  unfold Interval.length
  simp only
  congr 1
  have := intCast_abs i.interval
  unfold Rat.abs at this
  split
  · rename_i h
    have h' : ¬ (0 : Rat) ≤ (i.interval : Rat) := by grind
    rw [if_neg h'] at this; exact this
  · rename_i h
    have h' : (0 : Rat) ≤ (i.interval : Rat) := by grind
    rw [if_pos h'] at this; exact this

/-- The code sees the whole seconds of an interval: `|secs| ≤ length < |secs| + 1`. -/
theorem secs_abs_le_length (i : Interval) : i.secs.abs ≤ i.length ∧ i.length < i.secs.abs + 1 := by
  rw [secs_abs_eq, length_eq]
  generalize (i.interval.natAbs : Int) = n
  have h1 : n / 1000 * 1000 ≤ n := by omega
  have h2 : n < (n / 1000 + 1) * 1000 := by omega
  have h1' := (Rat.intCast_le_intCast).mpr h1
  have h2' := (Rat.intCast_lt_intCast).mpr h2
  rw [Rat.intCast_mul] at h1' h2'
  rw [Rat.intCast_add] at h2'
  have e1000 : ((1000 : Int) : Rat) = 1000 := rfl
  have e1 : ((1 : Int) : Rat) = 1 := rfl
  rw [e1000] at h1' h2'
  rw [e1] at h2'
  constructor
  · grind
  · grind

/-- An interval that is a whole number of seconds is seen exactly. -/
theorem secs_abs_eq_length_of_whole {i : Interval} (h : i.interval % 1000 = 0) :
    i.secs.abs = i.length := by
  rw [secs_abs_eq, length_eq]
  have hn : (i.interval.natAbs : Int) % 1000 = 0 := by omega
  generalize (i.interval.natAbs : Int) = n at hn
  have : n = n / 1000 * 1000 := by omega
  have e1000 : ((1000 : Int) : Rat) = 1000 := rfl
  have h' := congrArg (fun z : Int => (z : Rat)) this
  simp only [Rat.intCast_mul, e1000] at h'
  rw [h']
  grind


theorem div_le_iff' {a b c : Rat} (hb : 0 < b) : a / b ≤ c ↔ a ≤ c * b := by
  rw [← Rat.not_lt, Rat.lt_div_iff hb, Rat.not_lt]

theorem le_div_iff' {a b c : Rat} (hc : 0 < c) : a ≤ b / c ↔ a * c ≤ b := by
  rw [← Rat.not_lt, Rat.div_lt_iff hc, Rat.not_lt]

theorem length_nonneg (i : Interval) : 0 ≤ i.length :=
  Rat.le_trans Rat.abs_nonneg (secs_abs_le_length i).1

theorem length_ne_zero_of_secs {i : Interval} (h : i.secs ≠ 0) : i.length ≠ 0 := by
  have h1 : i.secs.abs ≠ 0 := fun e => h ((abs_eq_zero_iff _).mp e)
  have h2 : 0 ≤ i.secs.abs := Rat.abs_nonneg
  have := (secs_abs_le_length i).1
  grind

/-- On whole-second intervals the factor the code computes is the documented one. -/
theorem specPeriods_eq_of_whole {c t : Interval} (hc : c.interval % 1000 = 0)
    (ht : t.interval % 1000 = 0) (h0 : c.secs ≠ 0) : specPeriods c t = some (periods c t) := by
  have hl := length_ne_zero_of_secs h0
  simp only [specPeriods, hl, if_false]
  rw [periods_eq_div h0, secs_abs_eq_length_of_whole hc, secs_abs_eq_length_of_whole ht]

/-- In general the code truncates both lengths to whole seconds; the documented factor `n` then lies
within `|T|/(|S|+1) ≤ n < (|T|+1)/|S|` of what the code uses (`|T|/|S|`). -/
theorem specPeriods_bounds {c t : Interval} (h0 : c.secs ≠ 0) :
    ∃ n, specPeriods c t = some n ∧
      t.secs.abs / (c.secs.abs + 1) ≤ n ∧ n < (t.secs.abs + 1) / c.secs.abs := by
  have hl := length_ne_zero_of_secs h0
  refine ⟨t.length / c.length, by simp [specPeriods, hl], ?_, ?_⟩
  all_goals
    have hS0 : 0 ≤ c.secs.abs := Rat.abs_nonneg
    have hS : 0 < c.secs.abs := by
      have : c.secs.abs ≠ 0 := fun e => h0 ((abs_eq_zero_iff _).mp e)
      grind
    have hT0 : 0 ≤ t.secs.abs := Rat.abs_nonneg
    obtain ⟨c1, c2⟩ := secs_abs_le_length c
    obtain ⟨t1, t2⟩ := secs_abs_le_length t
    have hLc : 0 < c.length := by grind
    have hLt : 0 ≤ t.length := length_nonneg t
    have hn : 0 ≤ t.length / c.length := div_nonneg hLt (by grind)
    have hmul : t.length / c.length * c.length = t.length := Rat.div_mul_cancel hl
  · rw [div_le_iff' (by grind)]
    have : t.length / c.length * c.length ≤ t.length / c.length * (c.secs.abs + 1) :=
      Rat.mul_le_mul_of_nonneg_left (by grind) hn
    grind
  · rw [Rat.lt_div_iff hS]
    have : t.length / c.length * c.secs.abs ≤ t.length / c.length * c.length :=
      Rat.mul_le_mul_of_nonneg_left c1 hn
    grind


theorem scaleVal_mono_factor {v s1 s2 : Rat} (hv : 0 ≤ v) (h0 : 0 ≤ s1) (h : s1 ≤ s2) :
    scaleVal v s1 ≤ scaleVal v s2 := by
  have hle : v * s1 ≤ v * s2 := Rat.mul_le_mul_of_nonneg_left h hv
  have hn1 : 0 ≤ v * s1 := Rat.mul_nonneg hv h0
  rcases scaleVal_cases v s2 with ⟨h2, e2⟩ | ⟨_, e2⟩
  · have h2' := (abs_le_iff _ _).mp h2
    have hmax : (0 : Rat) ≤ decimalMax := by decide
    have : (v * s1).abs ≤ decimalMax := (abs_le_iff _ _).mpr ⟨by grind, by grind⟩
    rw [e2, scaleVal_eq this]; exact hle
  · rw [e2]; exact (scaleVal_bounds v s1).2

theorem periods_mono_target {c t1 t2 : Interval} (h : t1.secs.abs ≤ t2.secs.abs) :
    periods c t1 ≤ periods c t2 := by
  by_cases hc : c.secs = 0
  · rw [periods_zero_current hc, periods_zero_current hc]; exact Rat.le_refl
  · have hpos : 0 < c.secs.abs := by
      have : c.secs.abs ≠ 0 := fun e => hc ((abs_eq_zero_iff _).mp e)
      have := abs_nonneg' c.secs
      grind
    rw [periods_eq_div hc, periods_eq_div hc, div_le_iff' hpos, Rat.div_mul_cancel (by grind)]
    exact h

/-! ### calculate -/

theorem sharpe_value (rf m s : Rat) (p : Interval) :
    (SharpeRatio.calculate rf m s p).value = (specSharpe rf m s).toDecimal := by
  unfold SharpeRatio.calculate specSharpe; split <;> rfl

theorem sortino_value (rf m s : Rat) (p : Interval) :
    (SortinoRatio.calculate rf m s p).value = (specSortino rf m s).toDecimal := by
  unfold SortinoRatio.calculate specSortino specRatio
  by_cases hs : s = 0
  · simp only [hs, if_true]
    by_cases h1 : rf < m
    · have : 0 < m - rf := by grind
      simp [h1, this, Ext.toDecimal]
    · by_cases h2 : m < rf
      · have a : ¬ 0 < m - rf := by grind
        have b : m - rf < 0 := by grind
        simp [h1, h2, a, b, Ext.toDecimal]
      · have a : ¬ 0 < m - rf := by grind
        have b : ¬ m - rf < 0 := by grind
        simp [h1, h2, a, b, Ext.toDecimal]
  · simp [hs, Ext.toDecimal]

theorem abs_eq_ite (d : Rat) : d.abs = if d < 0 then -d else d := by
  unfold Rat.abs; split <;> split <;> grind

theorem calmar_eq_sortino (rf m d : Rat) (p : Interval) :
    CalmarRatio.calculate rf m d p = SortinoRatio.calculate rf m d.abs p := by
  unfold CalmarRatio.calculate SortinoRatio.calculate
  by_cases hd : d = 0
  · simp [hd, Rat.abs_zero]
  · have : d.abs ≠ 0 := fun e => hd ((abs_eq_zero_iff _).mp e)
    simp [hd, this]

theorem calmar_value (rf m d : Rat) (p : Interval) :
    (CalmarRatio.calculate rf m d p).value = (specCalmar rf m d).toDecimal := by
  rw [calmar_eq_sortino, sortino_value, specCalmar, specSortino, abs_eq_ite]


/-! ### the tear-sheet generator over a history -/

theorem updateFromPosition_ret (f : Rat → Rat) (g : Gen) (p : Exit) :
    (g.updateFromPosition f p).total = g.total.update f (retOf p) ∧
    (g.updateFromPosition f p).losses =
      (if retOf p < 0 then g.losses.update f (retOf p) else g.losses) := ⟨rfl, rfl⟩

/-- State of the generator after any history, from any start state. -/
theorem run_state (f : Rat → Rat) (ps : List Exit) : ∀ g : Gen,
    (Gen.run f g ps).timeEngineStart = g.timeEngineStart ∧
    (Gen.run f g ps).timeEngineNow = ((ps.getLast?).map (·.timeExit)).getD g.timeEngineNow ∧
    (Gen.run f g ps).total = (returns ps).foldl (DataSet.Summary.update f) g.total ∧
    (Gen.run f g ps).losses = (lossReturns ps).foldl (DataSet.Summary.update f) g.losses ∧
    (Gen.run f g ps).pnlRaw =
      g.pnlRaw + TearSheet.specPnl (ps.map (·.closed)) ∧
    (Gen.run f g ps).sheet =
      (Drawdown.Sheet.run g.sheet
        (Drawdown.pnlCurve g.pnlRaw (ps.map fun p => (p.timeExit, p.closed.pnlRealised)))).1 := by
  induction ps with
  | nil =>
    intro g
    simp [Gen.run, returns, lossReturns, TearSheet.specPnl, TearSheet.sumRat, Drawdown.pnlCurve,
      Drawdown.Sheet.run, Rat.add_zero]
  | cons p ps ih =>
    intro g
    have h := ih (g.updateFromPosition f p)
    simp only [Gen.run, List.foldl_cons] at h ⊢
    obtain ⟨h1, h2, h3, h4, h5, h6⟩ := h
    refine ⟨h1, ?_, ?_, ?_, ?_, ?_⟩
    · rw [h2, List.getLast?_cons]
      cases ps.getLast? <;> simp [Gen.updateFromPosition]
    · rw [h3]; simp [returns, (updateFromPosition_ret f g p).1]
    · rw [h4]
      simp only [lossReturns, returns, List.map_cons, List.filter_cons]
      by_cases hr : retOf p < 0
      · simp [hr, (updateFromPosition_ret f g p).2]
      · simp [hr, (updateFromPosition_ret f g p).2]
    · rw [h5]
      simp only [Gen.updateFromPosition, TearSheet.specPnl, TearSheet.sumRat, List.map_cons,
        List.foldr_cons, List.map_map]
      grind
    · rw [h6]
      simp [Gen.updateFromPosition, Drawdown.pnlCurve, Drawdown.Sheet.run]

/-- A fresh generator after any history: the clock, the two whole-dataset summaries (C17), the
PnL and the drawdown generators over the cumulative PnL curve (C18). -/
theorem run_init (f : Rat → Rat) (t0 : Int) (ps : List Exit) :
    let g := Gen.run f (Gen.init t0) ps
    g.timeEngineStart = t0 ∧
    g.tradingPeriod = specTradingPeriod t0 ps ∧
    g.total = DataSet.specSummary f (returns ps) ∧
    g.losses = DataSet.specSummary f (lossReturns ps) ∧
    g.pnlRaw = TearSheet.specPnl (ps.map (·.closed)) ∧
    g.sheet = (Drawdown.Sheet.run Drawdown.Sheet.default (specCurve ps)).1 := by
  obtain ⟨h1, h2, h3, h4, h5, h6⟩ := run_state f ps (Gen.init t0)
  refine ⟨h1, ?_, ?_, ?_, ?_, ?_⟩
  · unfold Gen.tradingPeriod specTradingPeriod
    rw [h1, h2]
    simp only [Gen.init]
    congr 1
    cases ps.getLast? <;> simp <;> omega
  · rw [h3, ← DataSet.run_eq_specSummary]; rfl
  · rw [h4, ← DataSet.run_eq_specSummary]; rfl
  · rw [h5]; simp [Gen.init, Rat.zero_add]
  · rw [h6]; rfl


theorem specSummary_stdDev (f : Rat → Rat) (xs : List Rat) :
    (DataSet.specSummary f xs).dispersion.stdDev = specStdDev f xs := rfl

theorem specSummary_mean (f : Rat → Rat) (xs : List Rat) :
    (DataSet.specSummary f xs).mean = DataSet.specMean xs := rfl

/-- `generate` leaves everything the four metrics read untouched (only the mean/max drawdown
generators change). -/
theorem generate_state (f : Rat → Rat) (g : Gen) (rf : Rat) (iv : Interval) :
    (g.generate f rf iv).1.timeEngineStart = g.timeEngineStart ∧
    (g.generate f rf iv).1.timeEngineNow = g.timeEngineNow ∧
    (g.generate f rf iv).1.pnlRaw = g.pnlRaw ∧
    (g.generate f rf iv).1.total = g.total ∧
    (g.generate f rf iv).1.losses = g.losses := ⟨rfl, rfl, rfl, rfl, rfl⟩

/-- The sheet `generate` produces, field by field, in terms of the generator's state. -/
theorem generate_fields (f : Rat → Rat) (g : Gen) (rf : Rat) (iv : Interval) :
    let sh := (g.generate f rf iv).2
    sh.pnl = g.pnlRaw ∧
    sh.pnlReturn = RateOfReturn.scale (RateOfReturn.calculate g.total.mean g.tradingPeriod) iv ∧
    sh.sharpeRatio = SharpeRatio.scale f
      (SharpeRatio.calculate rf g.total.mean g.total.dispersion.stdDev g.tradingPeriod) iv ∧
    sh.sortinoRatio = SortinoRatio.scale f
      (SortinoRatio.calculate rf g.total.mean g.losses.dispersion.stdDev g.tradingPeriod) iv ∧
    sh.calmarRatio = CalmarRatio.scale f
      (CalmarRatio.calculate rf g.total.mean ((g.sheet.generate.2.max.map (·.value)).getD 0)
        g.tradingPeriod) iv ∧
    sh.drawdowns = g.sheet.generate.2 :=
  ⟨rfl, rfl, rfl, rfl, rfl, rfl⟩

/-! ### win rate / profit factor of the full generator are C16's -/

theorem total_eq_sumRat (xs : List Rat) : DataSet.total xs = TearSheet.sumRat xs := by
  induction xs with
  | nil => rfl
  | cons x xs ih => simp [DataSet.total, TearSheet.sumRat, ih]

theorem returns_eq (ps : List Exit) : returns ps = (ps.map (·.closed)).map TearSheet.ret := by
  simp [returns, retOf, List.map_map, Function.comp_def]

theorem lossReturns_eq (ps : List Exit) :
    lossReturns ps = (TearSheet.losers (ps.map (·.closed))).map TearSheet.ret := by
  rw [lossReturns, returns_eq, TearSheet.losers, List.filter_map]
  rfl

/-- The four accumulator numbers `WinRate` / `ProfitFactor` are computed from coincide with those of
the C16 model (which keeps only `count` and `sum`). -/
theorem counts_sums_eq_c16 (f : Rat → Rat) (t0 : Int) (ps : List Exit) :
    let g := Gen.run f (Gen.init t0) ps
    let r := (TearSheet.TearSheetGenerator.init.run (ps.map (·.closed))).pnlReturns
    g.total.count = r.total.count ∧ g.total.sum = r.total.sum ∧
    g.losses.count = r.losses.count ∧ g.losses.sum = r.losses.sum := by
  obtain ⟨_, _, h3, h4, _, _⟩ := run_init f t0 ps
  have h := TearSheet.PnLReturns.run_eq TearSheet.PnLReturns.default (ps.map (·.closed))
  simp only [TearSheet.TearSheetGenerator.run_pnlReturns, TearSheet.TearSheetGenerator.init]
  obtain ⟨_, c1, c2, c3, c4⟩ := h
  rw [h3, h4, c1, c2, c3, c4]
  simp only [DataSet.specSummary, TearSheet.PnLReturns.default, TearSheet.DataSetSummary.default,
    total_eq_sumRat, Rat.zero_add]
  refine ⟨?_, ?_, ?_, ?_⟩
  · simp [returns]
  · rw [returns_eq]
  · rw [lossReturns_eq]; simp
  · rw [lossReturns_eq]


/-! ### interleaved `generate` calls -/

/-- One call on a tear-sheet generator. -/
inductive Step where
  | pos (p : Exit)
  | gen (rf : Rat) (iv : Interval)

def Gen.step (f : Rat → Rat) (g : Gen) : Step → Gen
  | .pos p => g.updateFromPosition f p
  | .gen rf iv => (g.generate f rf iv).1

def Gen.exec (f : Rat → Rat) (g : Gen) (steps : List Step) : Gen := steps.foldl (Gen.step f) g

def positionsOf (steps : List Step) : List Exit :=
  steps.filterMap fun | .pos p => some p | .gen _ _ => none

/-- Everything of the generator except the drawdown generators. -/
structure Core where
  timeEngineStart : Int
  timeEngineNow : Int
  pnlRaw : Rat
  total : DataSet.Summary
  losses : DataSet.Summary

def Gen.core (g : Gen) : Core := ⟨g.timeEngineStart, g.timeEngineNow, g.pnlRaw, g.total, g.losses⟩

theorem core_generate (f : Rat → Rat) (g : Gen) (rf : Rat) (iv : Interval) :
    (g.generate f rf iv).1.core = g.core := rfl

theorem core_update (f : Rat → Rat) (g g' : Gen) (p : Exit) (h : g.core = g'.core) :
    (g.updateFromPosition f p).core = (g'.updateFromPosition f p).core := by
  simp only [Gen.core, Core.mk.injEq] at h
  obtain ⟨h1, h2, h3, h4, h5⟩ := h
  simp [Gen.core, Gen.updateFromPosition, h1, h3, h4, h5]

/-- `generate` calls in between do not influence clock, PnL and the two return summaries. -/
theorem core_exec (f : Rat → Rat) (steps : List Step) : ∀ g g' : Gen, g.core = g'.core →
    (Gen.exec f g steps).core = (Gen.run f g' (positionsOf steps)).core := by
  induction steps with
  | nil => intro g g' h; exact h
  | cons s steps ih =>
    intro g g' h
    cases s with
    | pos p =>
      simp only [Gen.exec, Gen.run, positionsOf, List.foldl_cons, List.filterMap_cons]
      exact ih _ _ (core_update f g g' p h)
    | gen rf iv =>
      simp only [Gen.exec, Gen.run, positionsOf, List.foldl_cons, List.filterMap_cons]
      exact ih _ _ (by rw [Gen.step, core_generate]; exact h)

/-- The four fields of a sheet that do not read the drawdown generators are functions of the core. -/
theorem generate_of_core (f : Rat → Rat) (g g' : Gen) (h : g.core = g'.core) (rf : Rat) (iv : Interval) :
    (g.generate f rf iv).2.pnl = (g'.generate f rf iv).2.pnl ∧
    (g.generate f rf iv).2.pnlReturn = (g'.generate f rf iv).2.pnlReturn ∧
    (g.generate f rf iv).2.sharpeRatio = (g'.generate f rf iv).2.sharpeRatio ∧
    (g.generate f rf iv).2.sortinoRatio = (g'.generate f rf iv).2.sortinoRatio ∧
    (g.generate f rf iv).2.winRate = (g'.generate f rf iv).2.winRate ∧
    (g.generate f rf iv).2.profitFactor = (g'.generate f rf iv).2.profitFactor := by
  simp only [Gen.core, Core.mk.injEq] at h
  obtain ⟨h1, h2, h3, h4, h5⟩ := h
  simp [Gen.generate, Gen.tradingPeriod, h1, h2, h3, h4, h5]

/-! ### the trading period has at least one second -/

theorem clamp_secs (d : Int) :
    ∃ k : Int, 1 ≤ k ∧ ((Int.tdiv (if d < 1000 then 1000 else d) 1000 : Int) : Rat) = (k : Rat) := by
  refine ⟨_, ?_, rfl⟩
  split
  · decide
  · rw [Int.tdiv_eq_ediv_of_nonneg (by omega)]; omega

theorem tradingPeriod_secs (t0 : Int) (ps : List Exit) :
    ∃ k : Int, 1 ≤ k ∧ (specTradingPeriod t0 ps).secs = (k : Rat) := by
  simp only [specTradingPeriod, Interval.secs, Interval.interval, numSeconds]
  exact clamp_secs _

theorem tradingPeriod_secs_ne_zero (t0 : Int) (ps : List Exit) : (specTradingPeriod t0 ps).secs ≠ 0 := by
  obtain ⟨k, hk, e⟩ := tradingPeriod_secs t0 ps
  rw [e]
  intro h
  have := Rat.intCast_eq_zero_iff.mp h
  omega

/-! ### the checked run -/

theorem Exit.panics_iff (p : Exit) :
    p.panics = true ↔ p.closed.priceEntryAverage * p.closed.quantityAbsMax = 0 := by
  simp [Exit.panics, TearSheet.Closed.panics]

theorem runChecked_eq (f : Rat → Rat) (ps : List Exit) : ∀ g : Gen,
    Gen.runChecked f g ps = if ps.any Exit.panics then none else some (Gen.run f g ps) := by
  induction ps with
  | nil => intro g; rfl
  | cons p ps ih =>
    intro g
    by_cases hp : p.panics = true
    · simp [Gen.runChecked, Gen.updateChecked, hp]
    · simp only [Gen.runChecked, Gen.updateChecked, hp, if_false, Bool.false_eq_true, List.any_cons,
        Bool.false_or, ih]
      rfl

theorem runChecked_none_iff (f : Rat → Rat) (g : Gen) (ps : List Exit) :
    Gen.runChecked f g ps = none ↔ ∃ p ∈ ps, p.panics = true := by
  rw [runChecked_eq]
  by_cases h : ps.any Exit.panics = true
  · simp only [h, if_true, true_iff]
    simpa using h
  · simp only [h, if_false, Bool.false_eq_true]
    constructor
    · intro h'; cases h'
    · intro h'; exact absurd (by simpa using h') h

/-- One call with the panic explicit. -/
def Gen.stepChecked (f : Rat → Rat) (g : Gen) : Step → Option Gen
  | .pos p => g.updateChecked f p
  | .gen rf iv => some (g.generate f rf iv).1

/-- Any sequence of `update_from_position` / `generate` calls; `none` = one of them panicked. -/
def Gen.execChecked (f : Rat → Rat) : Gen → List Step → Option Gen
  | g, [] => some g
  | g, s :: steps =>
    match g.stepChecked f s with
    | none => none
    | some g' => Gen.execChecked f g' steps

theorem execChecked_eq (f : Rat → Rat) (steps : List Step) : ∀ g : Gen,
    Gen.execChecked f g steps =
      if (positionsOf steps).any Exit.panics then none else some (Gen.exec f g steps) := by
  induction steps with
  | nil => intro g; rfl
  | cons s steps ih =>
    intro g
    cases s with
    | pos p =>
      by_cases hp : p.panics = true
      · simp [Gen.execChecked, Gen.stepChecked, Gen.updateChecked, hp, positionsOf]
      · simp only [Gen.execChecked, Gen.stepChecked, Gen.updateChecked, hp, if_false,
          Bool.false_eq_true, ih, positionsOf, List.filterMap_cons, List.any_cons, Bool.false_or]
        rfl
    | gen rf iv =>
      simp only [Gen.execChecked, Gen.stepChecked, ih, positionsOf, List.filterMap_cons]
      rfl

/-! ### curves that never have a positive value: C18's decomposition reports nothing -/

theorem decline_nonpos_peak {p v : Rat} (hp : p ≤ 0) (hv : v ≤ p) : Drawdown.decline p v ≤ 0 := by
  rcases Rat.le_iff_lt_or_eq.mp hp with h | h
  · unfold Drawdown.decline
    have hne : p ≠ 0 := by grind
    have e : (p - v) / p * p = p - v := Rat.div_mul_cancel hne
    apply Rat.not_lt.mp
    intro hpos
    have := Rat.mul_pos hpos (show 0 < -p by grind)
    grind
  · rw [h, Drawdown.decline_zero_peak]; exact Rat.le_refl

theorem mem_takeWhile_imp' {α} (f : α → Bool) : ∀ (l : List α) (x : α), x ∈ l.takeWhile f → f x = true := by
  intro l
  induction l with
  | nil => intro x hx; simp at hx
  | cons a l ih =>
    intro x hx
    by_cases ha : f a = true
    · rw [List.takeWhile_cons_of_pos ha] at hx
      rcases List.mem_cons.mp hx with rfl | hx
      · exact ha
      · exact ih x hx
    · rw [List.takeWhile_cons_of_neg ha] at hx; simp at hx

theorem depthOf_nonpos_peak (p : Drawdown.Pt) (seg : List Drawdown.Pt) (hp : p.v ≤ 0)
    (h : ∀ q ∈ seg, q.v ≤ p.v) : Drawdown.depthOf p seg = 0 := by
  unfold Drawdown.depthOf
  rcases Drawdown.largest_eq_zero_or_mem (seg.map fun q => Drawdown.decline p.v q.v) with h0 | hm
  · exact h0
  · obtain ⟨q, hq, e⟩ := List.mem_map.mp hm
    have h1 := decline_nonpos_peak hp (h q hq)
    have h2 := Drawdown.largest_nonneg (seg.map fun q => Drawdown.decline p.v q.v)
    rw [← e] at h2 ⊢
    grind

theorem decompose_nonpos : ∀ (n : Nat) (pts : List Drawdown.Pt), pts.length ≤ n →
    (∀ q ∈ pts, q.v ≤ 0) → Drawdown.decompose pts = ([], none) := by
  intro n
  induction n with
  | zero =>
    intro pts hl _
    have : pts = [] := List.length_eq_zero_iff.mp (by omega)
    subst this; simp [Drawdown.decompose]
  | succ n ih =>
    intro pts hl h
    cases pts with
    | nil => simp [Drawdown.decompose]
    | cons p rest =>
      have hp : p.v ≤ 0 := h p (by simp)
      have hseg : ∀ q ∈ rest.takeWhile (fun q => decide (q.v ≤ p.v)), q.v ≤ p.v := by
        intro q hq
        simpa using (mem_takeWhile_imp' _ _ q hq)
      have hd : ∀ t, Drawdown.ddOf p (rest.takeWhile (fun q => decide (q.v ≤ p.v))) t = none := by
        intro t
        simp [Drawdown.ddOf, depthOf_nonpos_peak p _ hp hseg]
      rw [Drawdown.decompose_cons]
      have hsub := List.dropWhile_sublist (fun q : Drawdown.Pt => decide (q.v ≤ p.v)) (l := rest)
      have hrem := ih (rest.dropWhile (fun q => decide (q.v ≤ p.v)))
        (by have := hsub.length_le; simp only [List.length_cons] at hl; omega)
        (fun q hq => h q (by simp [hsub.subset hq]))
      cases hh : (rest.dropWhile (fun q => decide (q.v ≤ p.v))).head? with
      | none => simp [hd]
      | some q => simp [hd, hrem]

/-- The cumulative-PnL curve of a history none of whose positions made a profit never rises above
zero. -/
theorem pnlCurve_nonpos (ds : List (Int × Rat)) : ∀ (pnl : Rat), pnl ≤ 0 → (∀ d ∈ ds, d.2 ≤ 0) →
    ∀ q ∈ Drawdown.pnlCurve pnl ds, q.v ≤ 0 := by
  induction ds with
  | nil => intro pnl _ _ q hq; simp [Drawdown.pnlCurve] at hq
  | cons d ds ih =>
    intro pnl hp h q hq
    obtain ⟨t, x⟩ := d
    have hx : x ≤ 0 := h (t, x) (by simp)
    simp only [Drawdown.pnlCurve, List.mem_cons] at hq
    rcases hq with hq | hq
    · rw [hq]; simp only; grind
    · exact ih (pnl + x) (by grind) (fun d hd => h d (by simp [hd])) q hq

theorem specCurve_nonpos_of_no_win (ps : List Exit) (h : ∀ p ∈ ps, p.closed.pnlRealised ≤ 0) :
    ∀ q ∈ specCurve ps, q.v ≤ 0 := by
  unfold specCurve
  apply pnlCurve_nonpos _ 0 Rat.le_refl
  intro d hd
  obtain ⟨p, hp, e⟩ := List.mem_map.mp hd
  rw [← e]; exact h p hp

/-! ### approximate roots: what a round trip multiplies by -/

theorem le_one_of_sq_le_one {x : Rat} (h : x * x ≤ 1) : x ≤ 1 := by
  apply Rat.not_lt.mp
  intro hx
  have h1 : x * 1 < x * x := Rat.mul_lt_mul_of_pos_left hx (by grind)
  grind

theorem one_lt_of_one_lt_sq {x : Rat} (h0 : 0 ≤ x) (h : 1 < x * x) : 1 < x := by
  apply Rat.not_le.mp
  intro hx
  have h1 : x * x ≤ x * 1 := Rat.mul_le_mul_of_nonneg_left hx h0
  grind

/-- Two lower approximations `a ≈ √n`, `b ≈ √m` (each within `ε` from below) of reciprocal numbers
`n·m = 1`: their product is at most 1 and misses 1 by less than `ε·(a + b + ε)`. -/
theorem root_product_bounds {a b n m ε : Rat} (ha : 0 ≤ a) (hb : 0 ≤ b) (hε : 0 ≤ ε)
    (h1 : a * a ≤ n) (h2 : b * b ≤ m) (h3 : n < (a + ε) * (a + ε)) (h4 : m < (b + ε) * (b + ε))
    (hnm : n * m = 1) : a * b ≤ 1 ∧ 1 - ε * (a + b + ε) < a * b := by
  have haa : 0 ≤ a * a := Rat.mul_nonneg ha ha
  have hbb : 0 ≤ b * b := Rat.mul_nonneg hb hb
  have hn : 0 ≤ n := Rat.le_trans haa h1
  have hm : 0 ≤ m := Rat.le_trans hbb h2
  constructor
  · apply le_one_of_sq_le_one
    have e1 : a * a * (b * b) ≤ n * (b * b) := Rat.mul_le_mul_of_nonneg_right h1 hbb
    have e2 : n * (b * b) ≤ n * m := Rat.mul_le_mul_of_nonneg_left h2 hn
    have e3 : a * b * (a * b) = a * a * (b * b) := by grind
    grind
  · have hA : 0 ≤ a + ε := by grind
    have hB : 0 ≤ b + ε := by grind
    have hBB : 0 < (b + ε) * (b + ε) := by grind
    have e1 : n * m ≤ n * ((b + ε) * (b + ε)) := Rat.mul_le_mul_of_nonneg_left (by grind) hn
    have e2 : n * ((b + ε) * (b + ε)) < (a + ε) * (a + ε) * ((b + ε) * (b + ε)) :=
      Rat.mul_lt_mul_of_pos_right h3 hBB
    have e3 : (a + ε) * (b + ε) * ((a + ε) * (b + ε)) = (a + ε) * (a + ε) * ((b + ε) * (b + ε)) := by
      grind
    have := one_lt_of_one_lt_sq (Rat.mul_nonneg hA hB) (by grind)
    grind

end BarterModel.Metrics
