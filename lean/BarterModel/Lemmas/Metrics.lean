import BarterModel.Model.Metrics
import BarterModel.Lemmas.DataSet
namespace BarterModel.Metrics
end BarterModel.Metrics
