import BarterModel.Model.ExecMap
/-!
Lemmas for C04 (`Props/C04.lean`): association-list facts (`upsert`/`collect`/`lookup`), the generic
per-table lemmas `lookup_forward` / `lookup_reverse`, agreement of the generated map with the
specification tables (`Agrees`, `AgreesRev`), the six `find_*` against the `spec*` functions, and the
indexer functions against the key-replacing traversals (`*_toOption`).
-/
namespace BarterModel.ExecMap

/-! ### association lists -/

theorem lookup_upsert (m : List (Nat × Nat)) (k v k' : Nat) :
    (upsert m k v).lookup k' = if k' = k then some v else m.lookup k' := by
  induction m with
  | nil => simp [upsert, List.lookup]
  | cons h t ih =>
    obtain ⟨a, b⟩ := h
    simp only [upsert]
    split
    · subst_vars; simp only [List.lookup]; split <;> simp_all
    · simp only [List.lookup, ih]; split <;> simp_all

theorem upsert_of_not_mem (m : List (Nat × Nat)) (k v : Nat) (h : k ∉ m.map (·.1)) :
    upsert m k v = m ++ [(k, v)] := by
  induction m with
  | nil => rfl
  | cons hd t ih =>
    obtain ⟨a, b⟩ := hd
    simp only [List.map_cons, List.mem_cons, not_or] at h
    simp only [upsert]
    rw [if_neg (fun e => h.1 e.symm), ih h.2]; rfl

theorem foldl_upsert_of_nodup (l m : List (Nat × Nat)) (hn : (l.map (·.1)).Nodup)
    (hd : ∀ x ∈ l, x.1 ∉ m.map (·.1)) :
    l.foldl (fun m kv => upsert m kv.1 kv.2) m = m ++ l := by
  induction l generalizing m with
  | nil => simp
  | cons x t ih =>
    simp only [List.foldl_cons]
    rw [upsert_of_not_mem m x.1 x.2 (hd x (by simp))]
    simp only [List.map_cons, List.nodup_cons] at hn
    rw [ih _ hn.2]
    · simp
    · intro y hy
      simp only [List.map_append, List.map_cons, List.map_nil, List.mem_append, List.mem_cons,
        List.not_mem_nil, or_false, not_or]
      refine ⟨hd y (by simp [hy]), ?_⟩
      intro e; apply hn.1; rw [← e]; exact List.mem_map_of_mem hy

theorem collect_of_nodup (l : List (Nat × Nat)) (hn : (l.map (·.1)).Nodup) : collect l = l := by
  unfold collect; rw [foldl_upsert_of_nodup l [] hn (by simp)]; simp

theorem lookup_eq_some_iff_mem (l : List (Nat × Nat)) (hn : (l.map (·.1)).Nodup) (k v : Nat) :
    l.lookup k = some v ↔ (k, v) ∈ l := by
  induction l with
  | nil => simp [List.lookup]
  | cons x t ih =>
    obtain ⟨a, b⟩ := x
    simp only [List.map_cons, List.nodup_cons] at hn
    simp only [List.lookup]
    split
    · rename_i heq
      have : k = a := by simpa using heq
      subst this
      constructor
      · intro h; simp at h; simp [h]
      · intro h
        simp only [List.mem_cons, Prod.mk.injEq, true_and] at h
        rcases h with h | h
        · simp [h]
        · exact absurd (List.mem_map_of_mem (f := (·.1)) h) hn.1
    · rename_i hne
      have : k ≠ a := by simpa using hne
      rw [ih hn.2]; simp [this]

/-! ### one table of the execution map, generically in the entry type -/

section table
variable {α : Type} (keyOf exOf nameOf : α → Nat)

/-- the `filter_map` of map.rs:136-154 -/
def tbl (l : List α) (ex : Nat) : List (Nat × Nat) :=
  l.filterMap fun a => if exOf a == ex then some (keyOf a, nameOf a) else none

theorem tbl_eq (l : List α) (ex : Nat) :
    tbl keyOf exOf nameOf l ex = (l.filter fun a => exOf a == ex).map fun a => (keyOf a, nameOf a) := by
  induction l with
  | nil => rfl
  | cons a t ih =>
    simp only [tbl, List.filterMap_cons, List.filter_cons] at *
    split <;> simp_all

theorem key_of_getElem? {l : List α} (hk : l.map keyOf = List.range l.length) {i : Nat} {a : α}
    (h : l[i]? = some a) : keyOf a = i := by
  have h1 : (l.map keyOf)[i]? = some (keyOf a) := by simp [h]
  rw [hk] at h1
  have hi : i < l.length := by
    have := (List.getElem?_eq_some_iff.mp h).1; exact this
  simpa [List.getElem?_range hi] using h1.symm

theorem getElem?_key {l : List α} (hk : l.map keyOf = List.range l.length) {a : α} (h : a ∈ l) :
    l[keyOf a]? = some a := by
  obtain ⟨i, hi⟩ := List.mem_iff_getElem?.mp h
  rw [key_of_getElem? keyOf hk hi]; exact hi

theorem tbl_keys_nodup {l : List α} (hk : l.map keyOf = List.range l.length) (ex : Nat) :
    ((tbl keyOf exOf nameOf l ex).map (·.1)).Nodup := by
  rw [tbl_eq, List.map_map]
  have : ((l.filter fun a => exOf a == ex).map keyOf).Sublist (l.map keyOf) :=
    List.Sublist.map _ List.filter_sublist
  rw [hk] at this
  exact List.Nodup.sublist this List.nodup_range

theorem mem_tbl {l : List α} (hk : l.map keyOf = List.range l.length) (ex k v : Nat) :
    (k, v) ∈ tbl keyOf exOf nameOf l ex ↔ ∃ a, l[k]? = some a ∧ exOf a = ex ∧ nameOf a = v := by
  simp only [tbl, List.mem_filterMap]
  constructor
  · rintro ⟨a, ha, h⟩
    split at h
    · rename_i he
      simp only [Option.some.injEq, Prod.mk.injEq] at h
      refine ⟨a, ?_, by simpa using he, h.2⟩
      rw [← h.1]; exact getElem?_key keyOf hk ha
    · cases h
  · rintro ⟨a, ha, he, hv⟩
    refine ⟨a, List.mem_of_getElem? ha, ?_⟩
    simp [he, hv, key_of_getElem? keyOf hk ha]

/-- forward table: index → name -/
theorem lookup_forward {l : List α} (hk : l.map keyOf = List.range l.length) (ex i : Nat) :
    (collect (tbl keyOf exOf nameOf l ex)).lookup i =
      match l[i]? with
      | some a => if exOf a = ex then some (nameOf a) else none
      | none => none := by
  have hn := tbl_keys_nodup keyOf exOf nameOf hk ex
  rw [collect_of_nodup _ hn]
  apply Option.ext
  intro v
  rw [lookup_eq_some_iff_mem _ hn, mem_tbl keyOf exOf nameOf hk]
  cases h : l[i]? with
  | none => simp
  | some a =>
    simp only [Option.some.injEq]
    constructor
    · rintro ⟨b, rfl, he, hv⟩; simp [he, hv]
    · intro h2
      split at h2
      · rename_i he; exact ⟨a, rfl, he, by simpa using h2⟩
      · cases h2

/-- no two entries of exchange `ex` share a name -/
def NamesInj (l : List α) (ex : Nat) : Prop :=
  l.Pairwise fun a b => ¬(exOf a = ex ∧ exOf b = ex ∧ nameOf a = nameOf b)

theorem namesInj_unique {l : List α} {ex : Nat} (hp : NamesInj exOf nameOf l ex) {i j : Nat} {a b : α}
    (hi : l[i]? = some a) (hj : l[j]? = some b) (ha : exOf a = ex) (hb : exOf b = ex)
    (hn : nameOf a = nameOf b) : i = j := by
  have H := List.pairwise_iff_getElem.mp hp
  obtain ⟨hi', rfl⟩ := List.getElem?_eq_some_iff.mp hi
  obtain ⟨hj', rfl⟩ := List.getElem?_eq_some_iff.mp hj
  rcases Nat.lt_trichotomy i j with h | h | h
  · exact absurd ⟨ha, hb, hn⟩ (H i j hi' hj' h)
  · exact h
  · exact absurd ⟨hb, ha, hn.symm⟩ (H j i hj' hi' h)

theorem tbl_names_nodup {l : List α} {ex : Nat} (hp : NamesInj exOf nameOf l ex) :
    ((tbl keyOf exOf nameOf l ex).map (·.2)).Nodup := by
  rw [tbl_eq, List.map_map, List.nodup_iff_pairwise_ne, List.pairwise_map]
  have := List.Pairwise.filter (fun a => exOf a == ex) hp
  refine List.Pairwise.imp_of_mem ?_ this
  intro a b ha hb hr
  have ha' : exOf a = ex := by simpa using (List.mem_filter.mp ha).2
  have hb' : exOf b = ex := by simpa using (List.mem_filter.mp hb).2
  intro e; exact hr ⟨ha', hb', e⟩

/-- reverse table: name → index -/
theorem lookup_reverse {l : List α} (hk : l.map keyOf = List.range l.length) {ex : Nat}
    (hp : NamesInj exOf nameOf l ex) (n : Nat) :
    (collect ((collect (tbl keyOf exOf nameOf l ex)).map fun kv => (kv.2, kv.1))).lookup n =
      l.findIdx? (fun a => exOf a == ex && nameOf a == n) := by
  have hn := tbl_keys_nodup keyOf exOf nameOf hk ex
  rw [collect_of_nodup _ hn]
  have hn2 : (((tbl keyOf exOf nameOf l ex).map fun kv => (kv.2, kv.1)).map (·.1)).Nodup := by
    rw [List.map_map]; exact tbl_names_nodup keyOf exOf nameOf hp
  rw [collect_of_nodup _ hn2]
  apply Option.ext
  intro k
  rw [lookup_eq_some_iff_mem _ hn2]
  have : (n, k) ∈ (tbl keyOf exOf nameOf l ex).map (fun kv => (kv.2, kv.1)) ↔
      (k, n) ∈ tbl keyOf exOf nameOf l ex := by
    simp only [List.mem_map, Prod.mk.injEq, Prod.exists]
    constructor
    · rintro ⟨a, b, h, rfl, rfl⟩; exact h
    · intro h; exact ⟨k, n, h, rfl, rfl⟩
  rw [this, mem_tbl keyOf exOf nameOf hk, List.findIdx?_eq_some_iff_getElem]
  constructor
  · rintro ⟨a, ha, he, hv⟩
    obtain ⟨hk', rfl⟩ := List.getElem?_eq_some_iff.mp ha
    refine ⟨hk', by simp [he, hv], ?_⟩
    intro j hj hpj
    simp only [Bool.and_eq_true, beq_iff_eq] at hpj
    have := namesInj_unique exOf nameOf hp (i := j) (j := k)
      (List.getElem?_eq_getElem (Nat.lt_trans hj hk')) ha hpj.1 he (hpj.2.trans hv.symm)
    omega
  · rintro ⟨hk', hpk, _⟩
    simp only [Bool.and_eq_true, beq_iff_eq] at hpk
    exact ⟨l[k], List.getElem?_eq_getElem hk', hpk.1, hpk.2⟩

end table



/-! ### the generated map agrees with the specification tables -/

theorem genMap_ok {c : Coll} {ex : Nat} {m : EMap} (h : genMap c ex = .ok m) :
    ∃ ke, c.exchanges.find? (fun ke => ke.id == ex) = some ke ∧
      m = EMap.new ⟨ke.key, ex⟩
        (collect (tbl KAsset.key KAsset.exchange KAsset.nameExchange c.assets ex))
        (collect (tbl KInstrument.key KInstrument.exchange KInstrument.nameExchange c.instruments ex)) := by
  unfold genMap at h
  split at h
  · cases h
  · rename_i ke hke
    refine ⟨ke, hke, ?_⟩
    injection h with h
    exact h.symm

theorem genMap_error_iff (c : Coll) (ex : Nat) :
    (∃ e, genMap c ex = .error e) ↔ specHasLink c ex = false := by
  unfold genMap specHasLink
  split
  · rename_i h
    simp only [List.find?_eq_none] at h
    constructor
    · intro _; simpa using h
    · intro _; exact ⟨_, rfl⟩
  · rename_i ke hke
    have := List.find?_some hke
    have hm := List.mem_of_find?_eq_some hke
    constructor
    · rintro ⟨e, he⟩; cases he
    · intro h
      rw [List.any_eq_false] at h
      exact absurd this (h ke hm)

structure Agrees (m : EMap) (c : Coll) (ex : Nat) : Prop where
  id_eq : m.exchange.id = ex
  key_eq : c.exchanges.findIdx? (fun k => k.id == ex) = some m.exchange.key
  assets : ∀ a, m.assets.lookup a = specAssetName c ex a
  instruments : ∀ i, m.instruments.lookup i = specInstrumentName c ex i

structure AgreesRev (m : EMap) (c : Coll) (ex : Nat) : Prop extends Agrees m c ex where
  ids_nodup : (c.exchanges.map (·.id)).Nodup
  assetNames : ∀ n, m.assetNames.lookup n = specAssetIndex c ex n
  instrumentNames : ∀ n, m.instrumentNames.lookup n = specInstrumentIndex c ex n

theorem agrees_of_indexed {c : Coll} {ex : Nat} {m : EMap} (hI : Indexed c) (h : genMap c ex = .ok m) :
    Agrees m c ex := by
  obtain ⟨ke, hke, rfl⟩ := genMap_ok h
  refine ⟨rfl, ?_, ?_, ?_⟩
  · obtain ⟨hp, i, hi, rfl, hlt⟩ := List.find?_eq_some_iff_getElem.mp hke
    have : c.exchanges[i].key = i :=
      key_of_getElem? KExchange.key hI.1 (List.getElem?_eq_getElem hi)
    simp only [this]
    rw [List.findIdx?_eq_some_iff_getElem]
    exact ⟨hi, hp, fun j hj => by simpa using hlt j hj⟩
  · intro a
    show List.lookup a (collect _) = _
    rw [lookup_forward KAsset.key KAsset.exchange KAsset.nameExchange hI.2.1 ex a]
    unfold specAssetName; cases c.assets[a]? <;> rfl
  · intro i
    show List.lookup i (collect _) = _
    rw [lookup_forward KInstrument.key KInstrument.exchange KInstrument.nameExchange hI.2.2 ex i]
    unfold specInstrumentName; cases c.instruments[i]? <;> rfl

theorem agreesRev_of_wf {c : Coll} {ex : Nat} {m : EMap} (hW : WF c ex) (h : genMap c ex = .ok m) :
    AgreesRev m c ex := by
  have hA := agrees_of_indexed hW.1 h
  obtain ⟨ke, hke, rfl⟩ := genMap_ok h
  refine ⟨hA, hW.2.1, ?_, ?_⟩
  · intro n
    exact lookup_reverse KAsset.key KAsset.exchange KAsset.nameExchange hW.1.2.1 hW.2.2.1 n
  · intro n
    exact lookup_reverse KInstrument.key KInstrument.exchange KInstrument.nameExchange hW.1.2.2 hW.2.2.2 n

/-! ### the six `find_*` against the specification -/

section finds
variable {m : EMap} {c : Coll} {ex : Nat}

theorem findAssetName_eq (h : Agrees m c ex) (a : Nat) :
    m.findAssetName a = match specAssetName c ex a with
      | some n => .ok n
      | none => .error .assetKey := by
  unfold EMap.findAssetName; rw [h.assets]; cases specAssetName c ex a <;> rfl

theorem findInstrumentName_eq (h : Agrees m c ex) (i : Nat) :
    m.findInstrumentName i = match specInstrumentName c ex i with
      | some n => .ok n
      | none => .error .instrumentKey := by
  unfold EMap.findInstrumentName; rw [h.instruments]; cases specInstrumentName c ex i <;> rfl

theorem findAssetIndex_eq (h : AgreesRev m c ex) (n : Nat) :
    m.findAssetIndex n = match specAssetIndex c ex n with
      | some a => .ok a
      | none => .error .assetIndex := by
  unfold EMap.findAssetIndex; rw [h.assetNames]; cases specAssetIndex c ex n <;> rfl

theorem findInstrumentIndex_eq (h : AgreesRev m c ex) (n : Nat) :
    m.findInstrumentIndex n = match specInstrumentIndex c ex n with
      | some i => .ok i
      | none => .error .instrumentIndex := by
  unfold EMap.findInstrumentIndex; rw [h.instrumentNames]; cases specInstrumentIndex c ex n <;> rfl

theorem findExchangeIndex_eq (h : Agrees m c ex) (id : Nat) :
    m.findExchangeIndex id = match specExchangeIndex c ex id with
      | some x => .ok x
      | none => .error .exchangeIndex := by
  unfold EMap.findExchangeIndex specExchangeIndex
  rw [h.id_eq, h.key_eq]
  by_cases e : id = ex
  · subst e; simp
  · have : ¬ ex = id := fun e' => e e'.symm
    simp [e, this]

theorem exchange_at_key (h : Agrees m c ex) :
    ∃ k, c.exchanges[m.exchange.key]? = some k ∧ k.id = ex := by
  obtain ⟨hi, hp, _⟩ := List.findIdx?_eq_some_iff_getElem.mp h.key_eq
  exact ⟨_, List.getElem?_eq_getElem hi, by simpa using hp⟩

theorem specExchangeId_eq (h : Agrees m c ex) (hn : (c.exchanges.map (·.id)).Nodup) (x : Nat) :
    specExchangeId c ex x = if m.exchange.key = x then some ex else none := by
  obtain ⟨k, hk, hkid⟩ := exchange_at_key h
  unfold specExchangeId
  by_cases e : m.exchange.key = x
  · subst e; simp [hk, hkid]
  · simp only [e, if_false]
    cases hx : c.exchanges[x]? with
    | none => rfl
    | some k' =>
      simp only
      split
      · rename_i hid
        exfalso; apply e
        have H := List.pairwise_iff_getElem.mp
          (List.pairwise_map.mp (List.nodup_iff_pairwise_ne.mp hn))
        obtain ⟨h1, rfl⟩ := List.getElem?_eq_some_iff.mp hk
        obtain ⟨h2, rfl⟩ := List.getElem?_eq_some_iff.mp hx
        rcases Nat.lt_trichotomy m.exchange.key x with l | l | l
        · exact absurd (hkid.trans hid.symm) (H _ _ h1 h2 l)
        · exact l
        · exact absurd (hid.trans hkid.symm) (H _ _ h2 h1 l)
      · rfl

theorem findExchangeId_eq (h : Agrees m c ex) (hn : (c.exchanges.map (·.id)).Nodup) (x : Nat) :
    m.findExchangeId x = match specExchangeId c ex x with
      | some id => .ok id
      | none => .error .exchangeId := by
  rw [specExchangeId_eq h hn]
  unfold EMap.findExchangeId
  rw [h.id_eq]
  split <;> rfl

end finds

/-! ### the indexer against the key-replacing traversal -/

theorem toOption_ok {ε α : Type} (a : α) : (Except.ok a : Except ε α).toOption = some a := rfl
theorem toOption_error {ε α : Type} (e : ε) : (Except.error e : Except ε α).toOption = none := rfl

theorem mapE_toOption {ε α β : Type} (f : α → Except ε β) (g : α → Option β)
    (h : ∀ x, (f x).toOption = g x) (l : List α) : (mapE f l).toOption = mapO g l := by
  induction l with
  | nil => rfl
  | cons x t ih =>
    simp only [mapE, mapO, ← h x, ← ih]
    cases f x <;> cases mapE f t <;> simp [toOption_ok, toOption_error]

section indexer
variable {m : EMap} {fe fa fi : Nat → Option Nat}
  (he : ∀ x, (m.findExchangeIndex x).toOption = fe x)
  (ha : ∀ x, (m.findAssetIndex x).toOption = fa x)
  (hi : ∀ x, (m.findInstrumentIndex x).toOption = fi x)
include ha hi

theorem apiError_toOption (e : ApiErr Nat Nat) : (apiError m e).toOption = e.traverse fa fi := by
  cases e <;> simp only [apiError, ApiErr.traverse, toOption_ok, ← ha, ← hi]
  · cases m.findAssetIndex _ <;> simp [toOption_ok, toOption_error]
  · cases m.findInstrumentIndex _ <;> simp [toOption_ok, toOption_error]
  · cases m.findAssetIndex _ <;> simp [toOption_ok, toOption_error]

theorem orderError_toOption (e : OrderErr Nat Nat) : (orderError m e).toOption = e.traverse fa fi := by
  cases e with
  | connectivity => rfl
  | rejected a =>
    simp only [orderError, OrderErr.traverse, ← apiError_toOption ha hi]
    cases apiError m a <;> simp [toOption_ok, toOption_error]

omit hi in
theorem assetBalance_toOption (b : Bal Nat) : (assetBalance m b).toOption = b.traverse fa := by
  simp only [assetBalance, Bal.traverse, ← ha]
  cases m.findAssetIndex _ <;> simp [toOption_ok, toOption_error]

omit ha in
theorem trade_toOption (t : Trade Nat) : (trade m t).toOption = t.traverse fi := by
  simp only [trade, Trade.traverse, ← hi]
  cases m.findInstrumentIndex _ <;> simp [toOption_ok, toOption_error]

include he

omit ha in
theorem orderKey_toOption (k : OKey Nat Nat) : (orderKey m k).toOption = k.traverse fe fi := by
  simp only [orderKey, OKey.traverse, ← he, ← hi]
  cases m.findExchangeIndex _ <;> cases m.findInstrumentIndex _ <;> simp [toOption_ok, toOption_error]

theorem orderSnapshot_toOption (o : OrderSnap Nat Nat Nat) :
    (orderSnapshot m o).toOption = o.traverse fe fa fi := by
  simp only [orderSnapshot, OrderSnap.traverse, ← orderKey_toOption he hi]
  cases orderKey m o.key with
  | error e => simp [toOption_error]
  | ok key =>
    simp only [toOption_ok]
    cases hs : o.state with
    | active p => simp [OState.traverse, toOption_ok]
    | cancelled p => simp [OState.traverse, toOption_ok]
    | fullyFilled => simp [OState.traverse, toOption_ok]
    | expired => simp [OState.traverse, toOption_ok]
    | openFailed oe =>
      cases oe with
      | connectivity => simp [OState.traverse, OrderErr.traverse, toOption_ok]
      | rejected r =>
        simp only [OState.traverse, OrderErr.traverse, ← apiError_toOption ha hi]
        cases apiError m r <;> simp [toOption_ok, toOption_error]

theorem orderResponseCancel_toOption (r : CancelResp Nat Nat Nat) :
    (orderResponseCancel m r).toOption = r.traverse fe fa fi := by
  simp only [orderResponseCancel, CancelResp.traverse, ← orderKey_toOption he hi]
  cases orderKey m r.key with
  | error e => simp [toOption_error]
  | ok key =>
    simp only [toOption_ok]
    cases r.state with
    | ok c => simp [toOption_ok]
    | error oe =>
      simp only [← orderError_toOption ha hi]
      cases orderError m oe <;> simp [toOption_ok, toOption_error]

theorem instrSnapshot_toOption (s : InstrSnap Nat Nat Nat) :
    (instrSnapshot m s).toOption = s.traverse fe fa fi := by
  simp only [instrSnapshot, InstrSnap.traverse, ← hi,
    ← mapE_toOption (orderSnapshot m) _ (orderSnapshot_toOption he ha hi)]
  cases m.findInstrumentIndex _ <;> cases mapE (orderSnapshot m) s.orders <;>
    simp [toOption_ok, toOption_error]

theorem snapshot_toOption (s : AccSnap Nat Nat Nat) :
    (snapshot m s).toOption = s.traverse fe fa fi := by
  simp only [snapshot, AccSnap.traverse, ← he,
    ← mapE_toOption (assetBalance m) _ (assetBalance_toOption ha),
    ← mapE_toOption (instrSnapshot m) _ (instrSnapshot_toOption he ha hi)]
  cases m.findExchangeIndex _ <;> cases mapE (assetBalance m) s.balances <;>
    cases mapE (instrSnapshot m) s.instruments <;> simp [toOption_ok, toOption_error]

theorem accountEvent_toOption (ev : AccEvent Nat Nat Nat) :
    (accountEvent m ev).toOption = ev.traverse fe fa fi := by
  simp only [accountEvent, AccEvent.traverse, ← he]
  cases m.findExchangeIndex _ with
  | error e => simp [toOption_error]
  | ok x =>
    simp only [toOption_ok]
    cases ev.kind with
    | snapshot s =>
      simp only [AEKind.traverse, ← snapshot_toOption he ha hi]
      cases snapshot m s <;> simp [toOption_ok, toOption_error]
    | balanceSnapshot b =>
      simp only [AEKind.traverse, ← assetBalance_toOption ha]
      cases assetBalance m b <;> simp [toOption_ok, toOption_error]
    | orderSnapshot o =>
      simp only [AEKind.traverse, ← orderSnapshot_toOption he ha hi]
      cases orderSnapshot m o <;> simp [toOption_ok, toOption_error]
    | orderCancelled r =>
      simp only [AEKind.traverse, ← orderResponseCancel_toOption he ha hi]
      cases orderResponseCancel m r <;> simp [toOption_ok, toOption_error]
    | trade t =>
      simp only [AEKind.traverse, ← trade_toOption hi]
      cases trade m t <;> simp [toOption_ok, toOption_error]

end indexer
/-! ### characterisations of the specification functions -/


theorem findIdx?_names {α : Type} (exOf nameOf : α → Nat) {l : List α} {ex : Nat}
    (hp : NamesInj exOf nameOf l ex) (n i : Nat) :
    l.findIdx? (fun a => exOf a == ex && nameOf a == n) = some i ↔
      ∃ a, l[i]? = some a ∧ exOf a = ex ∧ nameOf a = n := by
  rw [List.findIdx?_eq_some_iff_getElem]
  constructor
  · rintro ⟨hk', hpk, _⟩
    simp only [Bool.and_eq_true, beq_iff_eq] at hpk
    exact ⟨l[i], List.getElem?_eq_getElem hk', hpk.1, hpk.2⟩
  · rintro ⟨a, ha, he, hv⟩
    obtain ⟨hk', rfl⟩ := List.getElem?_eq_some_iff.mp ha
    refine ⟨hk', by simp [he, hv], ?_⟩
    intro j hj hpj
    simp only [Bool.and_eq_true, beq_iff_eq] at hpj
    have := namesInj_unique exOf nameOf hp (i := j) (j := i)
      (List.getElem?_eq_getElem (Nat.lt_trans hj hk')) ha hpj.1 he (hpj.2.trans hv.symm)
    omega

theorem findIdx?_names_none {α : Type} (exOf nameOf : α → Nat) (l : List α) (ex n : Nat) :
    l.findIdx? (fun a => exOf a == ex && nameOf a == n) = none ↔
      ∀ a ∈ l, exOf a = ex → nameOf a ≠ n := by
  rw [List.findIdx?_eq_none_iff]
  constructor
  · intro h a ha he hn
    have := h a ha
    simp [he, hn] at this
  · intro h a ha
    by_cases he : exOf a = ex
    · simp [he, h a ha he]
    · simp [he]

theorem specInstrumentName_some (c : Coll) (ex i n : Nat) :
    specInstrumentName c ex i = some n ↔
      ∃ k, c.instruments[i]? = some k ∧ k.exchange = ex ∧ k.nameExchange = n := by
  unfold specInstrumentName
  cases c.instruments[i]? with
  | none => simp
  | some k =>
    simp only [Option.some.injEq]
    constructor
    · intro h; split at h
      · rename_i he; exact ⟨k, rfl, he, by simpa using h⟩
      · cases h
    · rintro ⟨k', rfl, he, hn⟩; simp [he, hn]

theorem specAssetName_some (c : Coll) (ex a n : Nat) :
    specAssetName c ex a = some n ↔
      ∃ k, c.assets[a]? = some k ∧ k.exchange = ex ∧ k.nameExchange = n := by
  unfold specAssetName
  cases c.assets[a]? with
  | none => simp
  | some k =>
    simp only [Option.some.injEq]
    constructor
    · intro h; split at h
      · rename_i he; exact ⟨k, rfl, he, by simpa using h⟩
      · cases h
    · rintro ⟨k', rfl, he, hn⟩; simp [he, hn]

theorem specExchangeId_some (c : Coll) (ex x id : Nat) :
    specExchangeId c ex x = some id ↔ id = ex ∧ ∃ k, c.exchanges[x]? = some k ∧ k.id = ex := by
  unfold specExchangeId
  cases c.exchanges[x]? with
  | none => simp
  | some k =>
    simp only [Option.some.injEq]
    constructor
    · intro h; split at h
      · rename_i he; exact ⟨by simpa using h.symm, k, rfl, he⟩
      · cases h
    · rintro ⟨rfl, k', rfl, he⟩; simp [he]

theorem specInstrumentIndex_some {c : Coll} {ex : Nat} (hW : WF c ex) (n i : Nat) :
    specInstrumentIndex c ex n = some i ↔
      ∃ k, c.instruments[i]? = some k ∧ k.exchange = ex ∧ k.nameExchange = n :=
  findIdx?_names KInstrument.exchange KInstrument.nameExchange hW.2.2.2 n i

theorem specAssetIndex_some {c : Coll} {ex : Nat} (hW : WF c ex) (n a : Nat) :
    specAssetIndex c ex n = some a ↔
      ∃ k, c.assets[a]? = some k ∧ k.exchange = ex ∧ k.nameExchange = n :=
  findIdx?_names KAsset.exchange KAsset.nameExchange hW.2.2.1 n a

theorem specExchangeIndex_some {c : Coll} {ex : Nat} (hW : WF c ex) (id x : Nat) :
    specExchangeIndex c ex id = some x ↔ id = ex ∧ ∃ k, c.exchanges[x]? = some k ∧ k.id = ex := by
  unfold specExchangeIndex
  by_cases e : id = ex
  · simp only [e, if_true, true_and]
    have hp : NamesInj (fun _ : KExchange => 0) KExchange.id c.exchanges 0 := by
      have := List.pairwise_map.mp (List.nodup_iff_pairwise_ne.mp hW.2.1)
      exact this.imp (fun h hh => h hh.2.2)
    have := findIdx?_names (fun _ : KExchange => 0) KExchange.id hp ex x
    simp only [BEq.rfl, Bool.true_and, true_and] at this
    exact this
  · simp [e]

/-! ### ExecutionBuilder / MultiExchangeTxMap / routing -/

theorem upsertG_of_not_mem {β : Type} (m : List (Nat × β)) (k : Nat) (v : β) (h : k ∉ m.map (·.1)) :
    upsertG m k v = m ++ [(k, v)] := by
  induction m with
  | nil => rfl
  | cons hd t ih =>
    obtain ⟨a, b⟩ := hd
    simp only [List.map_cons, List.mem_cons, not_or] at h
    simp only [upsertG]
    rw [if_neg (fun e => h.1 e.symm), ih h.2]; rfl

theorem foldl_upsertG_of_nodup {β : Type} (l m : List (Nat × β)) (hn : (l.map (·.1)).Nodup)
    (hd : ∀ x ∈ l, x.1 ∉ m.map (·.1)) :
    l.foldl (fun m kv => upsertG m kv.1 kv.2) m = m ++ l := by
  induction l generalizing m with
  | nil => simp
  | cons x t ih =>
    simp only [List.foldl_cons]
    rw [upsertG_of_not_mem m x.1 x.2 (hd x (by simp))]
    simp only [List.map_cons, List.nodup_cons] at hn
    rw [ih _ hn.2]
    · simp
    · intro y hy
      simp only [List.map_append, List.map_cons, List.map_nil, List.mem_append, List.mem_cons,
        List.not_mem_nil, or_false, not_or]
      refine ⟨hd y (by simp [hy]), ?_⟩
      intro e; apply hn.1; rw [← e]; exact List.mem_map_of_mem hy

theorem collectG_of_nodup {β : Type} (l : List (Nat × β)) (hn : (l.map (·.1)).Nodup) :
    collectG l = l := by
  unfold collectG; rw [foldl_upsertG_of_nodup l [] hn (by simp)]; simp

theorem lookup_removeKey {β : Type} (l : List (Nat × β)) (k k' : Nat) :
    (removeKey l k).lookup k' = if k' = k then none else l.lookup k' := by
  induction l with
  | nil => simp [removeKey, List.lookup]
  | cons hd t ih =>
    obtain ⟨a, b⟩ := hd
    unfold removeKey at ih ⊢
    simp only [List.filter_cons]
    by_cases hak : a = k
    · subst hak
      simp only [bne_self_eq_false, Bool.false_eq_true, if_false, ih, List.lookup]
      by_cases e : k' = a
      · simp [e]
      · have : (k' == a) = false := by simpa using e
        simp [e, this]
    · have : (a != k) = true := by simpa using hak
      simp only [this, if_true, List.lookup, ih]
      by_cases e : k' = a
      · subst e; simp [hak]
      · have h2 : (k' == a) = false := by simpa using e
        simp [h2]

theorem eq_of_mem_nodup_map {α : Type} (f : α → Nat) {l : List α} (hn : (l.map f).Nodup) {a b : α}
    (ha : a ∈ l) (hb : b ∈ l) (h : f a = f b) : a = b := by
  induction l with
  | nil => cases ha
  | cons x t ih =>
    simp only [List.map_cons, List.nodup_cons] at hn
    rcases List.mem_cons.mp ha with rfl | ha' <;> rcases List.mem_cons.mp hb with rfl | hb'
    · rfl
    · exact absurd (h ▸ List.mem_map_of_mem (f := f) hb') hn.1
    · exact absurd (h ▸ List.mem_map_of_mem (f := f) ha') hn.1
    · exact ih hn.2 ha' hb'

/-- the link `add_execution` creates for exchange `e` -/
def mkLink (c : Coll) (e : Nat) : Option Link :=
  match genMap c e with
  | .ok m => some { client := e, index := m.exchange.key, map := m }
  | .error _ => none

theorem genMap_of_mem {c : Coll} {k : KExchange} (hk : k ∈ c.exchanges) :
    ∃ m, genMap c k.id = .ok m := by
  cases hg : genMap c k.id with
  | ok m => exact ⟨m, rfl⟩
  | error e =>
    have := (genMap_error_iff c k.id).mp ⟨e, hg⟩
    simp only [specHasLink, List.any_eq_false, beq_iff_eq] at this
    exact absurd rfl (this k hk)

theorem genMap_key {c : Coll} (hn : (c.exchanges.map (·.id)).Nodup) {k : KExchange}
    (hk : k ∈ c.exchanges) {m : EMap} (hm : genMap c k.id = .ok m) : m.exchange.key = k.key := by
  obtain ⟨ke, hke, rfl⟩ := genMap_ok hm
  have h1 : ke ∈ c.exchanges := List.mem_of_find?_eq_some hke
  have h2 : ke.id = k.id := by simpa using List.find?_some hke
  rw [eq_of_mem_nodup_map KExchange.id hn h1 hk h2]; rfl

theorem addExecution_ok {c : Coll} {added a : List (Nat × Link)} {ex : Nat}
    (h : addExecution c added ex = .ok a) :
    ∃ l, mkLink c ex = some l ∧ added.lookup ex = none ∧ a = added ++ [(ex, l)] := by
  unfold addExecution at h
  unfold mkLink
  cases hg : genMap c ex with
  | error e => rw [hg] at h; cases h
  | ok m =>
    rw [hg] at h
    simp only at h
    cases hl : added.lookup ex with
    | some l => rw [hl] at h; cases h
    | none =>
      rw [hl] at h
      injection h with h
      exact ⟨_, rfl, rfl, h.symm⟩

theorem addExecutions_lookup {c : Coll} {a0 a : List (Nat × Link)} {adds : List Nat}
    (h : addExecutions c a0 adds = .ok a) (e : Nat) :
    a.lookup e = match a0.lookup e with
      | some l => some l
      | none => if e ∈ adds then mkLink c e else none := by
  induction adds generalizing a0 with
  | nil =>
    simp only [addExecutions] at h
    injection h with h; subst h
    cases a0.lookup e <;> simp
  | cons ex rest ih =>
    simp only [addExecutions] at h
    cases h1 : addExecution c a0 ex with
    | error er => rw [h1] at h; cases h
    | ok a1 =>
      rw [h1] at h
      obtain ⟨l, hl, hnone, rfl⟩ := addExecution_ok h1
      rw [ih h, List.lookup_append]
      cases h0 : a0.lookup e with
      | some l0 => simp
      | none =>
        by_cases hex : e = ex
        · subst hex; simp [List.lookup, hl]
        · have : (e == ex) = false := by simpa using hex
          simp [List.lookup, this, hex]

theorem buildSlots_eq (exs : List KExchange) (hn : (exs.map (·.id)).Nodup) (added : List (Nat × Link))
    (hk : ∀ k ∈ exs, ∀ l, added.lookup k.id = some l → k.key = l.index) :
    buildSlots exs added = some (exs.map fun k => (k.id, added.lookup k.id)) := by
  induction exs generalizing added with
  | nil => rfl
  | cons k rest ih =>
    simp only [List.map_cons, List.nodup_cons] at hn
    simp only [buildSlots]
    cases hl : added.lookup k.id with
    | none =>
      simp only
      rw [ih hn.2 added (fun k' hk' => hk k' (List.mem_cons_of_mem _ hk'))]
      simp [hl]
    | some l =>
      simp only
      rw [if_pos (hk k (by simp) l hl)]
      have hrest : ∀ k' ∈ rest, (removeKey added k.id).lookup k'.id = added.lookup k'.id := by
        intro k' hk'
        rw [lookup_removeKey, if_neg]
        intro e; apply hn.1; rw [← e]; exact List.mem_map_of_mem hk'
      rw [ih hn.2 (removeKey added k.id) (fun k' hk' l' hl' =>
        hk k' (List.mem_cons_of_mem _ hk') l' (by rw [← hrest k' hk']; exact hl'))]
      simp only [Option.map_some, List.map_cons, Option.some.injEq, List.cons.injEq, hl, true_and]
      exact List.map_congr_left fun k' hk' => by simp only [hrest k' hk']

/-- The transmitter table `ExecutionBuilder::build` produces for a well-formed collection: one slot
per exchange, in exchange-index order; the slot of an exchange an execution was added for holds
that exchange's own link, every other slot is empty. -/
theorem buildTxMap_eq {c : Coll} (hW : WFX c) {adds : List Nat} {added : List (Nat × Link)}
    (h : addExecutions c [] adds = .ok added) :
    buildTxMap c added =
      some (c.exchanges.map fun k => (k.id, if k.id ∈ adds then mkLink c k.id else none)) := by
  have hlook : ∀ e, added.lookup e = if e ∈ adds then mkLink c e else none := by
    intro e; rw [addExecutions_lookup h e]; simp [List.lookup]
  unfold buildTxMap
  rw [buildSlots_eq c.exchanges hW.2 added]
  · simp only [Option.map_some, Option.some.injEq]
    rw [collectG_of_nodup]
    · exact List.map_congr_left fun k _ => by rw [hlook]
    · rw [List.map_map]; exact hW.2
  · intro k hk l hl
    rw [hlook] at hl
    split at hl
    · unfold mkLink at hl
      cases hg : genMap c k.id with
      | error e => rw [hg] at hl; cases hl
      | ok m =>
        rw [hg] at hl
        injection hl with hl; subst hl
        exact (genMap_key hW.2 hk hg).symm
    · cases hl

theorem buildExecution_ok {c : Coll} (hW : WFX c) {adds : List Nat} {r : Option TxMap}
    (h : buildExecution c adds = .ok r) :
    r = some (c.exchanges.map fun k => (k.id, if k.id ∈ adds then mkLink c k.id else none)) := by
  unfold buildExecution at h
  cases ha : addExecutions c [] adds with
  | error e => rw [ha] at h; cases h
  | ok added =>
    rw [ha] at h
    injection h with h
    rw [← h, buildTxMap_eq hW ha]

/-- `add_*` succeeds for every duplicate-free sequence of exchanges of the collection. -/
theorem addExecutions_succeeds {c : Coll} {adds : List Nat} (hn : adds.Nodup)
    (hm : ∀ e ∈ adds, ∃ k ∈ c.exchanges, k.id = e) (a0 : List (Nat × Link))
    (h0 : ∀ e ∈ adds, a0.lookup e = none) :
    ∃ a, addExecutions c a0 adds = .ok a := by
  induction adds generalizing a0 with
  | nil => exact ⟨a0, rfl⟩
  | cons ex rest ih =>
    obtain ⟨k, hk, rfl⟩ := hm ex (by simp)
    obtain ⟨m, hg⟩ := genMap_of_mem hk
    simp only [List.nodup_cons] at hn
    simp only [addExecutions, addExecution, hg, h0 k.id (by simp)]
    apply ih hn.2 (fun e he => hm e (List.mem_cons_of_mem _ he))
    intro e he
    rw [List.lookup_append, h0 e (List.mem_cons_of_mem _ he)]
    have : (e == k.id) = false := by
      simp only [beq_eq_false_iff_ne, ne_eq]; intro e'; exact hn.1 (e' ▸ he)
    simp [List.lookup, this]

/-- `MultiExchangeTxMap::find` on the built table. -/
theorem find_built {c : Coll} (adds : List Nat) (x : Nat) :
    TxMap.find (c.exchanges.map fun k => (k.id, if k.id ∈ adds then mkLink c k.id else none)) x =
      match c.exchanges[x]? with
      | none => .error .exchangeIndex
      | some k =>
        if k.id ∈ adds then
          match mkLink c k.id with
          | some l => .ok l
          | none => .error .exchangeIndex
        else .error .exchangeIndex := by
  unfold TxMap.find
  rw [List.getElem?_map]
  cases c.exchanges[x]? with
  | none => rfl
  | some k =>
    simp only [Option.map_some]
    split <;> rename_i h
    · simp only [Option.some.injEq, Prod.mk.injEq] at h
      split at h
      · rw [if_pos ‹_›, h.2]
      · cases h.2
    · by_cases hk : k.id ∈ adds
      · rw [if_pos hk]
        cases hl : mkLink c k.id with
        | none => rfl
        | some l => exact absurd (by simp [hk, hl]) (h k.id l)
      · rw [if_neg hk]

/-- the manager's outbound translation needs only `Indexed` and distinct exchange ids -/
theorem managerClientRequest_eq {c : Coll} {ex : Nat} {m : EMap} (hW : WFX c)
    (hm : genMap c ex = .ok m) (o : OEvent Nat Nat) :
    managerClientRequest m o = specOrderRequest c ex o := by
  have A := agrees_of_indexed hW.1 hm
  unfold managerClientRequest orderRequest specOrderRequest
  rw [findExchangeId_eq A hW.2, findInstrumentName_eq A]
  cases specExchangeId c ex o.key.exchange <;> cases specInstrumentName c ex o.key.instrument <;> rfl

theorem route_eq_spec {c : Coll} (hW : WFX c) {adds : List Nat} {t : TxMap}
    (hb : buildExecution c adds = .ok (some t)) (o : OEvent Nat Nat) :
    route t o = specRoute c adds o := by
  have ht := buildExecution_ok hW hb
  injection ht with ht; subst ht
  unfold route specRoute
  rw [find_built]
  cases hx : c.exchanges[o.key.exchange]? with
  | none => rfl
  | some k =>
    simp only
    by_cases hk : k.id ∈ adds
    · rw [if_pos hk, if_pos hk]
      obtain ⟨m, hg⟩ := genMap_of_mem (List.mem_of_getElem? hx)
      have hl : mkLink c k.id = some { client := k.id, index := m.exchange.key, map := m } := by
        unfold mkLink; rw [hg]
      rw [hl]
      simp only
      rw [managerClientRequest_eq hW hg]
      have hid : specExchangeId c k.id o.key.exchange = some k.id :=
        (specExchangeId_some c k.id _ k.id).mpr ⟨rfl, k, hx, rfl⟩
      unfold specOrderRequest
      rw [hid]
      cases specInstrumentName c k.id o.key.instrument <;> rfl
    · rw [if_neg hk, if_neg hk]

/-- ok-results of an `Except` read through its `toOption`. -/
theorem eq_ok_iff_toOption {ε α : Type} (r : Except ε α) (a : α) : r = .ok a ↔ r.toOption = some a := by
  cases r <;> simp [Except.toOption]

end BarterModel.ExecMap
