import BarterModel.Model.Audit
import BarterModel.Lemmas.Engine
/-! Helper lemmas for C10: `strip` commutes with exchange reports and absorbs in-flight marks. -/
namespace BarterModel.Audit
open BarterModel.Engine BarterModel.Orders

/-- inputs that come from the exchange (both engine and replica see them) -/
def Input.fromExchange : Input → Bool
  | .reportOpen _ _ => true
  | .reportFinished => true
  | .cancelOk => true
  | .cancelErr => true
  | _ => false

theorem strip_strip (st : Option Active) : strip (strip st) = strip st := by
  cases st with
  | none => rfl
  | some a => cases a with
    | inFlight => rfl
    | opn o => rfl
    | cancelInFlight x => cases x <;> rfl

/-- an exchange report acts on the stripped state exactly as on the full state -/
theorem strip_step_exchange (st : Option Active) (i : Input) (hi : Input.fromExchange i = true) :
    strip (Lifecycle.step st i) = Lifecycle.step (strip st) i := by
  cases i with
  | requestOpenSent => cases hi
  | requestCancelSent => cases hi
  | reportInFlight => cases hi
  | reportFinished => cases st <;> rfl
  | cancelOk => cases st <;> rfl
  | cancelErr =>
    cases st with
    | none => rfl
    | some a => cases a with
      | inFlight => rfl
      | opn o => rfl
      | cancelInFlight x => cases x <;> rfl
  | reportOpen o z =>
    cases z with
    | true => cases st <;> rfl
    | false =>
      cases st with
      | none => rfl
      | some a => cases a with
        | inFlight => rfl
        | opn c => by_cases h : c.t ≤ o.t <;> simp [Lifecycle.step, strip, h]
        | cancelInFlight x =>
          cases x with
          | none => rfl
          | some c => by_cases h : c.t ≤ o.t <;> simp [Lifecycle.step, strip, h]

/-- recording a sent cancel never changes the stripped state -/
theorem strip_cancel_mark (st : Option Active) :
    strip (Lifecycle.step st .requestCancelSent) = strip st := by
  cases st with
  | none => rfl
  | some a => cases a with
    | inFlight => rfl
    | opn o => rfl
    | cancelInFlight x => cases x <;> rfl

/-- recording a sent open leaves the stripped state `none` -/
theorem strip_open_mark (st : Option Active) :
    strip (Lifecycle.step st .requestOpenSent) = none := rfl

theorem exchangeReport_statesOnly (op : Op) (h : Op.exchangeReport op = true) :
    op.exchangeStatesOnly = true := by
  cases op with
  | snapshot s =>
    obtain ⟨c, q, p, st, x⟩ := s
    cases st with
    | inactive k => rfl
    | active a => cases a <;> simp [Op.exchangeReport] at h ⊢ <;> rfl
  | _ => rfl

theorem exchangeReport_input (op : Op) (c : Nat) (h : Op.exchangeReport op = true) (i : Input)
    (hi : op.input c = some i) : Input.fromExchange i = true := by
  cases op with
  | recOpen => cases h
  | recCancel => cases h
  | cancelResp c' ok =>
    simp only [Op.input] at hi
    split at hi
    · injection hi with hi; subst hi; cases ok <;> rfl
    · cases hi
  | snapshot s =>
    obtain ⟨c', q, p, st, x⟩ := s
    simp only [Op.input] at hi
    split at hi
    · cases st with
      | inactive k => simp at hi; subst hi; rfl
      | active a =>
        cases a with
        | inFlight => simp [Op.exchangeReport] at h
        | opn o => simp at hi; subst hi; rfl
        | cancelInFlight y => simp [Op.exchangeReport] at h
    · cases hi

/-- one order op applied to both tables keeps "replica = strip engine" for every id -/
theorem strip_step_tables (me mr : Orders) (op : Op) (c : Nat) (h : Op.exchangeReport op = true)
    (hs : stateOf mr c = strip (stateOf me c)) :
    stateOf (step mr op) c = strip (stateOf (step me op) c) := by
  have hx := exchangeReport_statesOnly op h
  rw [step_refines mr op c hx, step_refines me op c hx]
  unfold Lifecycle.stepOp
  cases hi : op.input c with
  | none => simpa using hs
  | some i =>
    simp only
    rw [strip_step_exchange _ _ (exchangeReport_input op c h i hi), hs]

/-- effect of an update on the tracked state of `(j, c)` -/
theorem orderState_applyUpdate_order (e : Eng) (i : Nat) (op : Op) (j c : Nat) :
    orderState (applyUpdate e (.order i op)) j c =
      if j = i then (match e.instruments[i]? with
        | some s => stateOf (step s.orders op) c
        | none => none)
      else orderState e j c := by
  unfold orderState applyUpdate
  simp only [modifyInstr_getElem?]
  by_cases hj : j = i
  · subst hj; cases e.instruments[j]? <;> simp
  · simp [hj]

theorem orderState_applyUpdate_other (e : Eng) (u : Update) (j c : Nat)
    (h : ∀ i op, u ≠ .order i op) : orderState (applyUpdate e u) j c = orderState e j c := by
  cases u with
  | order i op => exact absurd rfl (h i op)
  | position i side q =>
    unfold orderState applyUpdate; simp only [modifyInstr_getElem?]
    by_cases hj : j = i
    · subst hj; cases e.instruments[j]? <;> simp
    · simp [hj]
  | flat i =>
    unfold orderState applyUpdate; simp only [modifyInstr_getElem?]
    by_cases hj : j = i
    · subst hj; cases e.instruments[j]? <;> simp
    · simp [hj]
  | price i p =>
    unfold orderState applyUpdate; simp only [modifyInstr_getElem?]
    by_cases hj : j = i
    · subst hj; cases e.instruments[j]? <;> simp
    · simp [hj]
  | other => rfl

theorem generateStage_commanded (e : Eng) (cmd : Option ActionOut) (algoC : List CancelReq)
    (algoO : List OpenReq) (refuse : Key → Bool) :
    (generateStage e cmd algoC algoO refuse).2.commanded = cmd := by
  unfold generateStage; split <;> rfl

theorem strip_recordCancels_eq (e : Eng) (qs : List CancelReq) (i c : Nat) :
    strip (orderState (recordCancels e qs) i c) = strip (orderState e i c) := by
  induction qs generalizing e with
  | nil => rfl
  | cons q qs ih =>
    simp only [recordCancels, List.foldl_cons] at *
    rw [ih, orderState_recordCancel]
    split
    · cases ho : orderState e i c with
      | none => rfl
      | some a => simpa [Lifecycle.step] using strip_cancel_mark (some a)
    · rfl

theorem strip_recordOpens_none (e : Eng) (os : List OpenReq) (i c : Nat)
    (h : strip (orderState e i c) = none) : strip (orderState (recordOpens e os) i c) = none := by
  induction os generalizing e with
  | nil => exact h
  | cons o os ih =>
    simp only [recordOpens, List.foldl_cons]
    apply ih
    rw [orderState_recordOpen]
    split
    · rfl
    · exact h

/-- the in-flight marks of a command never turn a strip-`none` order into a confirmed one -/
theorem strip_action_none (e : Eng) (c : Command) (i cid : Nat)
    (h : strip (orderState e i cid) = none) : strip (orderState (action e c).1 i cid) = none := by
  have hs : ∀ {α : Type} (toReq : α → Req) (rs : List α),
      orderState (sendRequests e toReq rs).1 i cid = orderState e i cid := by
    intro α toReq rs; rfl
  cases c with
  | sendCancelRequests rs =>
    simp only [action]; rw [strip_recordCancels_eq]; simpa [hs] using h
  | sendOpenRequests rs =>
    simp only [action]; apply strip_recordOpens_none; simpa [hs] using h
  | closePositions f =>
    simp only [action]; apply strip_recordOpens_none
    rw [strip_recordCancels_eq]
    simpa [orderState, sendRequests] using h
  | cancelOrders f =>
    simp only [action]; rw [strip_recordCancels_eq]; simpa [hs] using h

end BarterModel.Audit
