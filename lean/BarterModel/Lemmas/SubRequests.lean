import BarterModel.Model.SubRequests
import BarterModel.Lemmas.Connectors
/-! Helper lemmas for sub-check C13Q (core Lean only). -/
namespace BarterModel.SubRequests
open BarterModel.Connectors

/-! ### splitting at a separator -/

theorem before_append (sep : Char) (a b : Str) (h : sep ∉ a) : before sep (a ++ sep :: b) = a := by
  induction a with
  | nil => simp [before]
  | cons x a ih =>
    have hx : x ≠ sep := fun e => h (by simp [e])
    have ha : sep ∉ a := fun e => h (by simp [e])
    simpa [before, hx] using ih ha

theorem fromSep_append (sep : Char) (a b : Str) (h : sep ∉ a) : fromSep sep (a ++ sep :: b) = sep :: b := by
  induction a with
  | nil => simp [fromSep]
  | cons x a ih =>
    have hx : x ≠ sep := fun e => h (by simp [e])
    have ha : sep ∉ a := fun e => h (by simp [e])
    simpa [fromSep, hx] using ih ha

theorem after_append (sep : Char) (a b : Str) (h : sep ∉ a) : after sep (a ++ sep :: b) = b := by
  simp [after, fromSep_append sep a b h]

/-! ### case mapping and `@` -/

theorem lowc_eq_at {c : Char} (h : lowc c = '@') : c = '@' := by
  unfold lowc at h
  split at h
  · rename_i hr
    have h1 := toNat_ofNat_small (c.toNat + 32) (by omega)
    have h2 : (Char.ofNat (c.toNat + 32)).toNat = 64 := by rw [h]; rfl
    omega
  · exact h

theorem upc_eq_at {c : Char} (h : upc c = '@') : c = '@' := by
  unfold upc at h
  split at h
  · rename_i hr
    have h1 := toNat_ofNat_small (c.toNat - 32) (by omega)
    have h2 : (Char.ofNat (c.toNat - 32)).toNat = 64 := by rw [h]; rfl
    omega
  · exact h

theorem at_not_mem_lower {s : Str} (h : '@' ∉ s) : '@' ∉ lower s := by
  intro hm
  obtain ⟨c, hc, he⟩ := List.mem_map.mp hm
  exact h (lowc_eq_at he ▸ hc)

theorem at_not_mem_upper {s : Str} (h : '@' ∉ s) : '@' ∉ upper s := by
  intro hm
  obtain ⟨c, hc, he⟩ := List.mem_map.mp hm
  exact h (upc_eq_at he ▸ hc)

theorem upc_upc (c : Char) : upc (upc c) = upc c := by
  by_cases h : 97 ≤ c.toNat ∧ c.toNat ≤ 122
  · have h1 := toNat_ofNat_small (c.toNat - 32) (by omega)
    have : upc c = Char.ofNat (c.toNat - 32) := by simp [upc, h]
    rw [this]; unfold upc; rw [if_neg (by omega)]
  · have : upc c = c := by simp [upc, h]
    rw [this, this]

theorem upper_upper (s : Str) : upper (upper s) = upper s := by
  simp [upper, List.map_map, Function.comp_def, upc_upc]

theorem upper_lower_upper (s : Str) : upper (lower (upper s)) = upper s := by
  rw [upper_lower]; exact upper_upper s

/-! ### what the venue reads in the frames -/

/-- Names the venue's grammar can carry: no `@` in a Binance symbol and a stream name that starts with `@`, no
`:` in a Bitmex table, no `.` in a Bybit topic name. -/
def Decodable (e : Exch) (s : ESub) : Prop :=
  match family e with
  | .binance => '@' ∉ s.market ∧ ∃ c, s.chan = '@' :: c
  | .bitmex => ':' ∉ s.chan
  | .bybit => '.' ∉ s.chan
  | _ => True

theorem flatMap_map_singleton {α β : Type} (f : α → β) (l : List α) :
    (l.map fun a => [f a]).flatten = l.map f := by
  induction l with
  | nil => rfl
  | cons a l ih => simp [ih]

/-- the eight shapes of `requests`, by implementation -/
theorem requests_of_family (e : Exch) (subs : List ESub) :
    requests e subs =
      match family e with
      | .binance => [.binance (subs.map fun s => lower s.market ++ s.chan)]
      | .bitfinex => subs.map fun s => .bitfinex s.chan s.market
      | .bitmex => [.bitmex (subs.map fun s => s.chan ++ ':' :: s.market)]
      | .bybit => [.bybit (subs.map fun s => s.chan ++ '.' :: s.market)]
      | .coinbase => subs.map fun s => .coinbase [s.market] [s.chan]
      | .gateio => subs.map fun s => .gateio s.chan [s.market]
      | .kraken => subs.map fun s => .kraken [s.market] s.chan
      | .okx => [.okx subs] := rfl

theorem readFrames_requests (e : Exch) (subs : List ESub) (h : ∀ s ∈ subs, Decodable e s) :
    readFrames (requests e subs) = specFrames e subs := by
  rw [requests_of_family]
  unfold specFrames readFrames specTopics batches specVerb requestCase
  cases hf : family e
  · -- binance
    simp only [List.map_cons, List.map_nil, Wire.verb, Wire.topics, ↓reduceIte, List.map_map]
    congr 2
    apply List.map_congr_left
    intro s hs
    have hd := h s hs
    simp only [Decodable, hf] at hd
    obtain ⟨hm, c, hc⟩ := hd
    simp only [Function.comp_def]
    rw [hc, fromSep_append '@' _ c (at_not_mem_lower hm), before_append '@' _ c (at_not_mem_lower hm)]
  · -- bybit
    simp only [List.map_cons, List.map_nil, Wire.verb, Wire.topics, ↓reduceIte, List.map_map]
    congr 2
    apply List.map_congr_left
    intro s hs
    have hd := h s hs
    simp only [Decodable, hf] at hd
    simp only [Function.comp_def]
    rw [before_append '.' _ _ hd, after_append '.' _ _ hd]
  · -- bitmex
    simp only [List.map_cons, List.map_nil, Wire.verb, Wire.topics, ↓reduceIte, List.map_map]
    congr 2
    apply List.map_congr_left
    intro s hs
    have hd := h s hs
    simp only [Decodable, hf] at hd
    simp only [Function.comp_def]
    rw [before_append ':' _ _ hd, after_append ':' _ _ hd]
  · simp [Wire.verb, Wire.topics, Function.comp_def]
  · simp [Wire.verb, Wire.topics, Function.comp_def]
  · simp [Wire.verb, Wire.topics, Function.comp_def]
  · simp [Wire.verb, Wire.topics]
  · simp [Wire.verb, Wire.topics, Function.comp_def]

theorem requested_readFrames (ws : List Wire) : requested ws = (readFrames ws).flatMap (·.2) := by
  simp [requested, readFrames, List.flatMap_map]

theorem specFrames_topics (e : Exch) (subs : List ESub) :
    (specFrames e subs).flatMap (·.2) = specTopics e subs := by
  unfold specFrames
  split
  · simp
  · simp [List.flatMap_map]

theorem requested_requests (e : Exch) (subs : List ESub) (h : ∀ s ∈ subs, Decodable e s) :
    requested (requests e subs) = specTopics e subs := by
  rw [requested_readFrames, readFrames_requests e subs h, specFrames_topics]

theorem length_requests (e : Exch) (subs : List ESub) :
    (requests e subs).length = specFrameCount e subs.length := by
  rw [requests_of_family]
  unfold specFrameCount batches
  cases hf : family e <;> simp

theorem length_flatMap_one {α β : Type} (f : α → List β) (l : List α) (h : ∀ a ∈ l, (f a).length = 1) :
    (l.flatMap f).length = l.length := by
  induction l with
  | nil => rfl
  | cons a l ih =>
    simp only [List.flatMap_cons, List.length_append, List.length_cons]
    rw [h a (by simp), ih (fun b hb => h b (by simp [hb]))]; omega

/-- the number of topics carried does not depend on decodability -/
theorem length_requested (e : Exch) (subs : List ESub) : (requested (requests e subs)).length = subs.length := by
  rw [requests_of_family]
  unfold requested
  cases hf : family e
  · simp [Wire.topics]
  · simp [Wire.topics]
  · simp [Wire.topics]
  all_goals
    simp only [List.flatMap_map]
    first
      | exact length_flatMap_one _ _ (fun a _ => by simp [Wire.topics])
      | simp [Wire.topics]

theorem verb_requests (e : Exch) (subs : List ESub) : ∀ w ∈ requests e subs, w.verb = specVerb e := by
  rw [requests_of_family]
  unfold specVerb
  cases hf : family e <;> simp [Wire.verb]

theorem docAcks_requests (e : Exch) (subs : List ESub) :
    docAcks e (requests e subs) = specAcks e subs.length := by
  unfold docAcks specAcks
  rw [length_requested, length_requests]

/-! ### the instrument map's ids -/

/-- the `SubscriptionId`s of a map, in the model's list order -/
def keysOf (m : IMap) : List Str := m.map (·.1)

theorem keysOf_insert (m : IMap) (id : Str) (k : Nat) :
    keysOf (m.insert id k) = if id ∈ keysOf m then keysOf m else keysOf m ++ [id] := by
  induction m with
  | nil => simp [IMap.insert, keysOf]
  | cons x m ih =>
    obtain ⟨i, v⟩ := x
    unfold IMap.insert
    by_cases hi : i = id
    · subst hi; simp [keysOf]
    · have hne : ¬ id = i := fun e => hi e.symm
      simp only [hi, ↓reduceIte]
      simp only [keysOf, List.map_cons, List.mem_cons, hne, false_or] at ih ⊢
      rw [ih]
      split <;> simp [*]

theorem keysOf_mapFrom (p : Pair) (s : Nat) (m : IMap) (subs : List Inst) :
    keysOf (mapFrom p s m subs) = dedup (keysOf m) (subs.map (subscriptionId p)) := by
  induction subs generalizing s m with
  | nil => rfl
  | cons i rest ih =>
    simp only [mapFrom, List.map_cons, dedup]
    rw [ih, keysOf_insert]
    split <;> rfl

theorem keysOf_mapOf (p : Pair) (subs : List Inst) :
    keysOf (mapOf p subs) = dedup [] (subs.map (subscriptionId p)) := by
  simpa [mapOf, keysOf] using keysOf_mapFrom p 0 [] subs

theorem mem_dedup (acc l : List Str) (x : Str) : x ∈ dedup acc l ↔ x ∈ acc ∨ x ∈ l := by
  induction l generalizing acc with
  | nil => simp [dedup]
  | cons y l ih =>
    unfold dedup
    split
    · rename_i hy
      rw [ih]
      constructor
      · rintro (h | h)
        · exact Or.inl h
        · exact Or.inr (List.mem_cons_of_mem _ h)
      · rintro (h | h)
        · exact Or.inl h
        · rcases List.mem_cons.mp h with rfl | h
          · exact Or.inl hy
          · exact Or.inr h
    · rw [ih]
      simp only [List.mem_append, List.mem_cons, List.not_mem_nil, or_false]
      constructor
      · rintro ((h | h) | h)
        · exact Or.inl h
        · exact Or.inr (Or.inl h)
        · exact Or.inr (Or.inr h)
      · rintro (h | h | h)
        · exact Or.inl (Or.inl h)
        · exact Or.inl (Or.inr h)
        · exact Or.inr h

theorem nodup_dedup (acc l : List Str) (h : acc.Nodup) : (dedup acc l).Nodup := by
  induction l generalizing acc with
  | nil => simpa [dedup] using h
  | cons y l ih =>
    unfold dedup
    split
    · exact ih acc h
    · rename_i hy
      apply ih
      rw [List.nodup_append]
      refine ⟨h, by simp, ?_⟩
      intro a ha b hb
      simp only [List.mem_singleton] at hb
      subst hb
      exact fun e => hy (e ▸ ha)

theorem length_dedup_le (acc l : List Str) : (dedup acc l).length ≤ acc.length + l.length := by
  induction l generalizing acc with
  | nil => simp [dedup]
  | cons y l ih =>
    unfold dedup
    split
    · have := ih acc; simp only [List.length_cons]; omega
    · have := ih (acc ++ [y]); simp only [List.length_append, List.length_cons, List.length_nil] at this ⊢; omega

theorem length_dedup_eq_iff (acc l : List Str) :
    (dedup acc l).length = acc.length + l.length ↔ l.Nodup ∧ ∀ x ∈ l, x ∉ acc := by
  induction l generalizing acc with
  | nil => simp [dedup]
  | cons y l ih =>
    unfold dedup
    split
    · rename_i hy
      have hle := length_dedup_le acc l
      constructor
      · intro h; simp only [List.length_cons] at h; omega
      · rintro ⟨_, h2⟩; exact absurd hy (h2 y (by simp))
    · rename_i hy
      have := ih (acc ++ [y])
      simp only [List.length_append, List.length_cons, List.length_nil, Nat.zero_add] at this ⊢
      rw [show acc.length + (l.length + 1) = acc.length + 1 + l.length by omega, this]
      simp only [List.nodup_cons, List.mem_append, not_or, List.mem_cons, List.not_mem_nil, or_false,
        forall_eq_or_imp]
      constructor
      · rintro ⟨hn, hx⟩
        exact ⟨⟨fun hm => (hx y hm).2 rfl, hn⟩, hy, fun x hxl => (hx x hxl).1⟩
      · rintro ⟨⟨hyl, hn⟩, _, hx⟩
        exact ⟨hn, fun x hxl => ⟨hx x hxl, fun e => hyl (e ▸ hxl)⟩⟩

theorem length_mapOf (p : Pair) (subs : List Inst) :
    (mapOf p subs).length = (dedup [] (subs.map (subscriptionId p))).length := by
  rw [← keysOf_mapOf]; simp [keysOf]

theorem length_mapOf_eq_iff (p : Pair) (subs : List Inst) :
    (mapOf p subs).length = subs.length ↔ (subs.map (subscriptionId p)).Nodup := by
  rw [length_mapOf]
  have := length_dedup_eq_iff [] (subs.map (subscriptionId p))
  simp only [List.length_nil, Nat.zero_add, List.length_map, List.not_mem_nil, not_false_eq_true,
    implies_true, and_true] at this
  exact this

theorem length_mapOf_le (p : Pair) (subs : List Inst) : (mapOf p subs).length ≤ subs.length := by
  rw [length_mapOf]
  simpa using length_dedup_le [] (subs.map (subscriptionId p))

/-! ### which instrument key an id carries: the last subscription with that id -/

theorem find_mapFrom_last (p : Pair) (s : Nat) (m : IMap) (subs : List Inst) (id : Str) :
    (mapFrom p s m subs).find id =
      match lastIndexFrom s (subs.map (subscriptionId p)) id with
      | some k => some k
      | none => m.find id := by
  induction subs generalizing s m with
  | nil => rfl
  | cons i rest ih =>
    simp only [mapFrom, List.map_cons, lastIndexFrom]
    rw [ih]
    cases lastIndexFrom (s + 1) (rest.map (subscriptionId p)) id with
    | some k => rfl
    | none =>
      simp only
      by_cases he : subscriptionId p i = id
      · subst he; simp [find_insert_self]
      · simp only [he, ↓reduceIte]
        exact find_insert_ne m _ _ s (fun e => he e.symm)

theorem find_mapOf_last (p : Pair) (subs : List Inst) (id : Str) :
    (mapOf p subs).find id = lastIndex (subs.map (subscriptionId p)) id := by
  have := find_mapFrom_last p 0 [] subs id
  rw [mapOf, this, lastIndex]
  cases lastIndexFrom 0 (subs.map (subscriptionId p)) id <;> rfl

theorem lastIndexFrom_none_iff (s : Nat) (ids : List Str) (id : Str) :
    lastIndexFrom s ids id = none ↔ id ∉ ids := by
  induction ids generalizing s with
  | nil => simp [lastIndexFrom]
  | cons x xs ih =>
    unfold lastIndexFrom
    cases hr : lastIndexFrom (s + 1) xs id with
    | some k =>
      have : id ∈ xs := by
        by_cases hm : id ∈ xs
        · exact hm
        · rw [(ih (s + 1)).mpr hm] at hr; cases hr
      simp [this]
    | none =>
      have hm := (ih (s + 1)).mp hr
      by_cases hx : x = id
      · simp [hx]
      · have : ¬ id = x := fun e => hx e.symm
        simp [hx, hm, this]

theorem lastIndexFrom_some (s : Nat) (ids : List Str) (id : Str) (k : Nat)
    (h : lastIndexFrom s ids id = some k) :
    s ≤ k ∧ ids[k - s]? = some id ∧ ∀ j, k - s < j → ids[j]? ≠ some id := by
  induction ids generalizing s with
  | nil => simp [lastIndexFrom] at h
  | cons x xs ih =>
    unfold lastIndexFrom at h
    cases hr : lastIndexFrom (s + 1) xs id with
    | some k' =>
      rw [hr] at h
      simp only [Option.some.injEq] at h
      subst h
      obtain ⟨hle, hget, hlast⟩ := ih (s + 1) hr
      refine ⟨by omega, ?_, ?_⟩
      · rw [show k' - s = (k' - (s + 1)) + 1 by omega]; simpa using hget
      · intro j hj
        cases j with
        | zero => omega
        | succ j => simpa using hlast j (by omega)
    | none =>
      rw [hr] at h
      have hm := (lastIndexFrom_none_iff (s + 1) xs id).mp hr
      by_cases hx : x = id
      · simp only [hx, ↓reduceIte, Option.some.injEq] at h
        subst h
        refine ⟨Nat.le_refl _, by simp [hx], ?_⟩
        intro j hj
        cases j with
        | zero => omega
        | succ j =>
          simp only [List.getElem?_cons_succ]
          intro hg
          exact hm (List.mem_of_getElem? hg)
      · simp [hx] at h

/-! ### ids derivable from the requested topics -/

/-- asset names a Binance stream name can carry -/
def CleanName (i : Inst) : Prop := '@' ∉ i.base ∧ '@' ∉ i.quote

theorem at_not_mem_concatMarket (i : Inst) (h : CleanName i) : '@' ∉ concatMarket i := by
  unfold concatMarket Inst.b Inst.q
  apply at_not_mem_upper
  intro hm
  rcases List.mem_append.mp hm with hm | hm
  · exact at_not_mem_lower h.1 hm
  · exact at_not_mem_lower h.2 hm

theorem decodable_exchangeSub (p : Pair) (hp : p ∈ supported) (i : Inst)
    (h : family p.exch = .binance → CleanName i) : Decodable p.exch (exchangeSub p i) := by
  obtain ⟨e, k⟩ := p
  unfold Decodable
  cases e <;> simp only [family] at h ⊢ <;> try trivial
  all_goals
    cases k <;> first
      | (exfalso; revert hp; decide)
      | exact ⟨at_not_mem_concatMarket i (h trivial), _, rfl⟩
      | simp [exchangeSub, channel]

theorem topicId_specTopic (p : Pair) (i : Inst) :
    topicId p.exch ⟨(exchangeSub p i).chan, requestCase p.exch (exchangeSub p i).market⟩ = subscriptionId p i := by
  obtain ⟨e, k⟩ := p
  cases e <;>
    simp [topicId, requestCase, family, exchangeSub, subscriptionId, market, concatMarket, upper_lower_upper]

theorem requested_ids (p : Pair) (hp : p ∈ supported) (subs : List Inst)
    (h : family p.exch = .binance → ∀ i ∈ subs, CleanName i) :
    (requested (mapper p subs).ws).map (topicId p.exch) = subs.map (subscriptionId p) := by
  have hd : ∀ s ∈ exchangeSubs p subs, Decodable p.exch s := by
    intro s hs
    obtain ⟨i, hi, rfl⟩ := List.mem_map.mp hs
    exact decodable_exchangeSub p hp i (fun hf => h hf i hi)
  simp only [mapper]
  rw [requested_requests _ _ hd]
  simp only [specTopics, exchangeSubs, List.map_map, Function.comp_def]
  apply List.map_congr_left
  intro i _
  exact topicId_specTopic p i

/-! ### expected responses against the documented acknowledgements -/

theorem expected_eq_docAcks_iff (p : Pair) (subs : List Inst) :
    (subscribe p subs).expected = docAcks p.exch (subscribe p subs).sent ↔
      match family p.exch with
      | .binance | .bybit => True
      | .bitmex => subs.length = 1
      | _ => (subs.map (subscriptionId p)).Nodup := by
  simp only [subscribe, mapper, docAcks_requests, exchangeSubs, List.length_map]
  unfold expected BarterModel.SubValidator.expectedResponses specAcks acksPerTopic specFrameCount batches
  cases hf : family p.exch <;> simp only [↓reduceIte, Bool.false_eq_true]
  · exact eq_comm
  all_goals exact length_mapOf_eq_iff p subs

/-! ### the empty subscription list -/

theorem requests_nil (e : Exch) :
    requests e [] =
      match family e with
      | .binance => [.binance []]
      | .bitmex => [.bitmex []]
      | .bybit => [.bybit []]
      | .okx => [.okx []]
      | _ => [] := by
  rw [requests_of_family]
  cases family e <;> rfl

open BarterModel.SubValidator in
theorem validate_zero_expected (f : Family) (h : expectedResponses f 0 = 0) (frames : List (Frame Resp)) :
    validateGeneric f 0 frames = .ok ([], frames) := by
  unfold validateGeneric
  rw [h]
  cases frames <;> simp [run]

open BarterModel.SubValidator in
theorem validate_one_expected_silence (f : Family) (h : expectedResponses f 0 = 1) (d : Nat) (hd : 10000 ≤ d) :
    validateGeneric f 0 [.wait d] = .error .timeout ∧ validateGeneric f 0 [] = .error .ended := by
  unfold validateGeneric
  rw [h]
  simp [run, subscriptionTimeoutMs, hd]

/-! ### JSON text -/

theorem renderList_strs (l : List Str) : renderList (l.map .str) = l.map quote := by
  induction l with
  | nil => rfl
  | cons x l ih => simp [renderList, Json.render, ih]

/-- `"key":value` -/
def field (k v : Str) : Str := quote k ++ ':' :: v
/-- `{f1,f2,..}` -/
def objText (fields : List Str) : Str := '{' :: commaSep fields ++ ['}']
/-- `[x1,x2,..]` -/
def arrText (xs : List Str) : Str := '[' :: commaSep xs ++ [']']
/-- `["s1","s2",..]` -/
def strsText (l : List Str) : Str := arrText (l.map quote)

theorem text_binance (params : List Str) :
    Wire.text (.binance params) =
      objText [field "id".toList "1".toList, field "method".toList (quote "SUBSCRIBE".toList),
               field "params".toList (strsText params)] := by
  have h : Wire.text (.binance params) =
      objText [field "id".toList "1".toList, field "method".toList (quote "SUBSCRIBE".toList),
               field "params".toList (arrText (renderList (params.map .str)))] := rfl
  rw [h, renderList_strs]; rfl

theorem text_bitfinex (c s : Str) :
    Wire.text (.bitfinex c s) =
      objText [field "channel".toList (quote c), field "event".toList (quote "subscribe".toList),
               field "symbol".toList (quote s)] := rfl

theorem text_bitmex (args : List Str) :
    Wire.text (.bitmex args) =
      objText [field "args".toList (strsText args), field "op".toList (quote "subscribe".toList)] := by
  have h : Wire.text (.bitmex args) =
      objText [field "args".toList (arrText (renderList (args.map .str))),
               field "op".toList (quote "subscribe".toList)] := rfl
  rw [h, renderList_strs]; rfl

theorem text_bybit (args : List Str) :
    Wire.text (.bybit args) =
      objText [field "args".toList (strsText args), field "op".toList (quote "subscribe".toList)] := by
  have h : Wire.text (.bybit args) =
      objText [field "args".toList (arrText (renderList (args.map .str))),
               field "op".toList (quote "subscribe".toList)] := rfl
  rw [h, renderList_strs]; rfl

theorem text_coinbase (ps cs : List Str) :
    Wire.text (.coinbase ps cs) =
      objText [field "channels".toList (strsText cs), field "product_ids".toList (strsText ps),
               field "type".toList (quote "subscribe".toList)] := by
  have h : Wire.text (.coinbase ps cs) =
      objText [field "channels".toList (arrText (renderList (cs.map .str))),
               field "product_ids".toList (arrText (renderList (ps.map .str))),
               field "type".toList (quote "subscribe".toList)] := rfl
  rw [h, renderList_strs, renderList_strs]; rfl

theorem text_gateio (c : Str) (payload : List Str) :
    Wire.text (.gateio c payload) =
      objText [field "channel".toList (quote c), field "event".toList (quote "subscribe".toList),
               field "payload".toList (strsText payload), field "time".toList "NOW".toList] := by
  have h : Wire.text (.gateio c payload) =
      objText [field "channel".toList (quote c), field "event".toList (quote "subscribe".toList),
               field "payload".toList (arrText (renderList (payload.map .str))),
               field "time".toList "NOW".toList] := rfl
  rw [h, renderList_strs]; rfl

theorem text_kraken (pair : List Str) (name : Str) :
    Wire.text (.kraken pair name) =
      objText [field "event".toList (quote "subscribe".toList), field "pair".toList (strsText pair),
               field "subscription".toList (objText [field "name".toList (quote name)])] := by
  have h : Wire.text (.kraken pair name) =
      objText [field "event".toList (quote "subscribe".toList),
               field "pair".toList (arrText (renderList (pair.map .str))),
               field "subscription".toList (objText [field "name".toList (quote name)])] := rfl
  rw [h, renderList_strs]; rfl

/-- one Okx `args` entry -/
def okxArg (a : ESub) : Str :=
  objText [field "channel".toList (quote a.chan), field "instId".toList (quote a.market)]

theorem renderList_okx (l : List ESub) :
    renderList (l.map fun a => Json.mkObj [("channel".toList, .str a.chan), ("instId".toList, .str a.market)])
      = l.map okxArg := by
  induction l with
  | nil => rfl
  | cons x l ih =>
    simp only [List.map_cons, renderList, ih]
    congr 1

theorem text_okx (args : List ESub) :
    Wire.text (.okx args) =
      objText [field "args".toList (arrText (args.map okxArg)), field "op".toList (quote "subscribe".toList)] := by
  have h : Wire.text (.okx args) =
      objText [field "args".toList (arrText (renderList (args.map fun a =>
                Json.mkObj [("channel".toList, .str a.chan), ("instId".toList, .str a.market)]))),
               field "op".toList (quote "subscribe".toList)] := rfl
  rw [h, renderList_okx]

/-! ### Added after the review of the sub-check theorems: the reader of the frame text reads what was put in -/

section ReadText


theorem lexAux_esc (s acc rest : Str) :
    lexAux (.inStr acc) (esc s ++ '"' :: rest) = .str (acc ++ s) :: lexAux .out rest := by
  induction s generalizing acc with
  | nil => simp [esc, lexAux]
  | cons c s ih =>
    have hs : esc (c :: s) = (if c = '"' then ['\\', '"'] else if c = '\\' then ['\\', '\\'] else [c]) ++ esc s := by
      simp [esc]
    rw [hs]
    by_cases h1 : c = '"'
    · subst h1
      simp only [↓reduceIte, List.cons_append, List.nil_append, lexAux]
      simp [ih]
    · by_cases h2 : c = '\\'
      · subst h2
        simp only [h1, ↓reduceIte, List.cons_append, List.nil_append, lexAux]
        simp [ih]
      · simp only [h1, h2, ↓reduceIte, List.cons_append, List.nil_append, lexAux]
        simp [ih]

theorem lexAux_quote (s rest : Str) : lexAux .out (quote s ++ rest) = .str s :: lexAux .out rest := by
  simp only [quote, List.cons_append, List.append_assoc, lexAux, ↓reduceIte]
  simpa using lexAux_esc s [] rest

theorem lexAux_sym (c : Char) (rest : Str) (h : c ≠ '"') : lexAux .out (c :: rest) = .sym c :: lexAux .out rest := by
  simp [lexAux, h]

/-- tokens of `,"s1","s2",..` -/
def tailToks (l : List Str) : List Tok := l.flatMap fun y => [.sym ',', .str y]

/-- tokens of `"s1","s2",..` -/
def strToks : List Str → List Tok
  | [] => []
  | x :: xs => .str x :: tailToks xs

theorem commaSep_cons (x : Str) (xs : List Str) :
    commaSep (x :: xs) = x ++ xs.flatMap (fun y => ',' :: y) := by
  induction xs generalizing x with
  | nil => simp [commaSep]
  | cons y ys ih => simp [commaSep, ih]

theorem lexAux_tail (l : List Str) (rest : Str) :
    lexAux .out ((l.map quote).flatMap (fun y => ',' :: y) ++ rest) = tailToks l ++ lexAux .out rest := by
  induction l with
  | nil => simp [tailToks]
  | cons y ys ih =>
    simp only [List.map_cons, List.flatMap_cons, List.cons_append, List.append_assoc, tailToks]
    rw [lexAux_sym _ _ (by decide), lexAux_quote]
    simp only [tailToks] at ih
    rw [ih]
    simp

theorem lexAux_strsText (l : List Str) (rest : Str) :
    lexAux .out (strsText l ++ rest) = .sym '[' :: (strToks l ++ .sym ']' :: lexAux .out rest) := by
  simp only [strsText, arrText, List.cons_append, List.append_assoc]
  rw [lexAux_sym _ _ (by decide)]
  cases l with
  | nil => simp [commaSep, strToks, lexAux_sym]
  | cons x xs =>
    rw [List.map_cons, commaSep_cons, List.append_assoc, lexAux_quote, lexAux_tail]
    simp [strToks, lexAux_sym]

theorem leadingStrs_tail (l : List Str) (r : List Tok) :
    leadingStrs (tailToks l ++ .sym ']' :: r) = l := by
  induction l with
  | nil => simp [tailToks, leadingStrs]
  | cons y ys ih =>
    simp only [tailToks, List.flatMap_cons, List.cons_append, List.nil_append, leadingStrs, ↓reduceIte]
    simp only [tailToks] at ih
    rw [ih]

theorem leadingStrs_strToks (l : List Str) (r : List Tok) :
    leadingStrs (strToks l ++ .sym ']' :: r) = l := by
  cases l with
  | nil => simp [strToks, leadingStrs]
  | cons x xs => simp [strToks, leadingStrs, leadingStrs_tail]

/-! unfolding `stringsAfter` / `arrayAfter` on explicit tokens -/

theorem stringsAfter_sym (k : Str) (c : Char) (rest : List Tok) :
    stringsAfter k (.sym c :: rest) = stringsAfter k rest := by
  simp [stringsAfter]

theorem stringsAfter_str_sym_str (k x v : Str) (c : Char) (rest : List Tok) :
    stringsAfter k (.str x :: .sym c :: .str v :: rest)
      = if x = k ∧ c = ':' then v :: stringsAfter k (.str v :: rest) else stringsAfter k (.str v :: rest) := by
  rw [stringsAfter]
  split <;> simp [stringsAfter_sym]

theorem stringsAfter_str_sym_sym (k x : Str) (c c2 : Char) (rest : List Tok) :
    stringsAfter k (.str x :: .sym c :: .sym c2 :: rest) = stringsAfter k rest := by
  simp [stringsAfter]

theorem stringsAfter_str_sym_nil (k x : Str) (c : Char) :
    stringsAfter k [.str x, .sym c] = [] := by
  simp [stringsAfter]

theorem stringsAfter_strToks (k : Str) (l : List Str) (c : Char) (r : List Tok) :
    stringsAfter k (strToks l ++ .sym ']' :: .sym c :: r) = stringsAfter k r := by
  cases l with
  | nil => simp [strToks, stringsAfter_sym]
  | cons x xs =>
    simp only [strToks, List.cons_append]
    induction xs generalizing x with
    | nil => simp [tailToks, stringsAfter_str_sym_sym]
    | cons y ys ih =>
      simp only [tailToks, List.flatMap_cons, List.cons_append, List.nil_append]
      rw [stringsAfter_str_sym_str]
      simp only [show ¬ ((',' : Char) = ':') by decide, and_false, ↓reduceIte]
      exact ih y

theorem arrayAfter_sym (k : Str) (c : Char) (rest : List Tok) :
    arrayAfter k (.sym c :: rest) = arrayAfter k rest := by
  simp [arrayAfter]

theorem arrayAfter_str_sym_sym (k x : Str) (c1 c2 : Char) (r : List Tok) :
    arrayAfter k (.str x :: .sym c1 :: .sym c2 :: r)
      = if x = k ∧ c1 = ':' ∧ c2 = '[' then some (leadingStrs r) else arrayAfter k r := by
  rw [arrayAfter]
  split <;> simp [arrayAfter_sym]

theorem arrayAfter_str_sym_str (k x v : Str) (c : Char) (rest : List Tok) :
    arrayAfter k (.str x :: .sym c :: .str v :: rest) = arrayAfter k (.str v :: rest) := by
  simp [arrayAfter]

theorem arrayAfter_str_sym_nil (k x : Str) (c : Char) : arrayAfter k [.str x, .sym c] = none := by
  simp [arrayAfter]

theorem arrayAfter_strToks (k : Str) (l : List Str) (c : Char) (r : List Tok) :
    arrayAfter k (strToks l ++ .sym ']' :: .sym c :: r) = arrayAfter k r := by
  cases l with
  | nil => simp [strToks, arrayAfter_sym]
  | cons x xs =>
    simp only [strToks, List.cons_append]
    induction xs generalizing x with
    | nil =>
      simp only [tailToks, List.flatMap_nil, List.nil_append]
      rw [arrayAfter_str_sym_sym]
      simp [show ¬ ((']' : Char) = ':') by decide]
    | cons y ys ih =>
      simp only [tailToks, List.flatMap_cons, List.cons_append, List.nil_append]
      rw [arrayAfter_str_sym_str]
      exact ih y


theorem lexAux_nil : lexAux .out [] = [] := by simp [lexAux]

/-! the token lists of the eight frame shapes -/

/-- tokens of one Okx `args` object -/
def okxToks (a : ESub) : List Tok :=
  [.sym '{', .str "channel".toList, .sym ':', .str a.chan, .sym ',', .str "instId".toList, .sym ':', .str a.market,
   .sym '}']

/-- tokens of `{..},{..},..` -/
def okxArgsToks : List ESub → List Tok
  | [] => []
  | a :: as => okxToks a ++ as.flatMap fun b => .sym ',' :: okxToks b

set_option linter.unusedSimpArgs false in
theorem lexAux_okxArg (a : ESub) (rest : Str) : lexAux .out (okxArg a ++ rest) = okxToks a ++ lexAux .out rest := by
  simp (disch := decide) only [okxArg, okxToks, objText, field, commaSep, List.append_assoc, List.cons_append,
    List.nil_append, lexAux_quote, lexAux_sym]

theorem lexAux_okxTail (l : List ESub) (rest : Str) :
    lexAux .out ((l.map okxArg).flatMap (fun y => ',' :: y) ++ rest)
      = (l.flatMap fun b => .sym ',' :: okxToks b) ++ lexAux .out rest := by
  induction l with
  | nil => simp
  | cons y ys ih =>
    simp only [List.map_cons, List.flatMap_cons, List.cons_append, List.append_assoc]
    rw [lexAux_sym _ _ (by decide), lexAux_okxArg, ih]

theorem lexAux_okxArgs (l : List ESub) (rest : Str) :
    lexAux .out (arrText (l.map okxArg) ++ rest) = .sym '[' :: (okxArgsToks l ++ .sym ']' :: lexAux .out rest) := by
  simp only [arrText, List.cons_append, List.append_assoc]
  rw [lexAux_sym _ _ (by decide)]
  cases l with
  | nil => simp [commaSep, okxArgsToks, lexAux_sym]
  | cons x xs =>
    rw [List.map_cons, commaSep_cons, List.append_assoc, lexAux_okxArg, lexAux_okxTail]
    simp [okxArgsToks, lexAux_sym]

set_option linter.unusedSimpArgs false

theorem lex_binance (params : List Str) :
    lex (Wire.text (.binance params)) =
      .sym '{' :: .str "id".toList :: .sym ':' :: .sym '1' :: .sym ',' :: .str "method".toList :: .sym ':' ::
        .str "SUBSCRIBE".toList :: .sym ',' :: .str "params".toList :: .sym ':' :: .sym '[' ::
        (strToks params ++ .sym ']' :: [.sym '}']) := by
  have h1 : ("1".toList : Str) = ['1'] := by decide
  rw [text_binance, h1]
  simp (disch := decide) only [lex, objText, field, commaSep, List.append_assoc, List.cons_append,
    List.nil_append, lexAux_quote, lexAux_strsText, lexAux_sym, lexAux_nil]

theorem lex_bitmex (args : List Str) :
    lex (Wire.text (.bitmex args)) =
      .sym '{' :: .str "args".toList :: .sym ':' :: .sym '[' ::
        (strToks args ++ .sym ']' :: .sym ',' :: .str "op".toList :: .sym ':' :: .str "subscribe".toList ::
          [.sym '}']) := by
  rw [text_bitmex]
  simp (disch := decide) only [lex, objText, field, commaSep, List.append_assoc, List.cons_append,
    List.nil_append, lexAux_quote, lexAux_strsText, lexAux_sym, lexAux_nil]

theorem lex_bybit (args : List Str) :
    lex (Wire.text (.bybit args)) =
      .sym '{' :: .str "args".toList :: .sym ':' :: .sym '[' ::
        (strToks args ++ .sym ']' :: .sym ',' :: .str "op".toList :: .sym ':' :: .str "subscribe".toList ::
          [.sym '}']) := by
  rw [text_bybit]
  simp (disch := decide) only [lex, objText, field, commaSep, List.append_assoc, List.cons_append,
    List.nil_append, lexAux_quote, lexAux_strsText, lexAux_sym, lexAux_nil]

theorem lex_coinbase (ps cs : List Str) :
    lex (Wire.text (.coinbase ps cs)) =
      .sym '{' :: .str "channels".toList :: .sym ':' :: .sym '[' ::
        (strToks cs ++ .sym ']' :: .sym ',' :: .str "product_ids".toList :: .sym ':' :: .sym '[' ::
          (strToks ps ++ .sym ']' :: .sym ',' :: .str "type".toList :: .sym ':' :: .str "subscribe".toList ::
            [.sym '}'])) := by
  rw [text_coinbase]
  simp (disch := decide) only [lex, objText, field, commaSep, List.append_assoc, List.cons_append,
    List.nil_append, lexAux_quote, lexAux_strsText, lexAux_sym, lexAux_nil]

theorem lex_gateio (c : Str) (payload : List Str) :
    lex (Wire.text (.gateio c payload)) =
      .sym '{' :: .str "channel".toList :: .sym ':' :: .str c :: .sym ',' :: .str "event".toList :: .sym ':' ::
        .str "subscribe".toList :: .sym ',' :: .str "payload".toList :: .sym ':' :: .sym '[' ::
        (strToks payload ++ .sym ']' :: .sym ',' :: .str "time".toList :: .sym ':' :: .sym 'N' :: .sym 'O' ::
          .sym 'W' :: [.sym '}']) := by
  have h1 : ("NOW".toList : Str) = ['N', 'O', 'W'] := by decide
  rw [text_gateio, h1]
  simp (disch := decide) only [lex, objText, field, commaSep, List.append_assoc, List.cons_append,
    List.nil_append, lexAux_quote, lexAux_strsText, lexAux_sym, lexAux_nil]

theorem lex_kraken (pair : List Str) (name : Str) :
    lex (Wire.text (.kraken pair name)) =
      .sym '{' :: .str "event".toList :: .sym ':' :: .str "subscribe".toList :: .sym ',' :: .str "pair".toList ::
        .sym ':' :: .sym '[' ::
        (strToks pair ++ .sym ']' :: .sym ',' :: .str "subscription".toList :: .sym ':' :: .sym '{' ::
          .str "name".toList :: .sym ':' :: .str name :: .sym '}' :: [.sym '}']) := by
  rw [text_kraken]
  simp (disch := decide) only [lex, objText, field, commaSep, List.append_assoc, List.cons_append,
    List.nil_append, lexAux_quote, lexAux_strsText, lexAux_sym, lexAux_nil]

theorem lex_bitfinex (c sy : Str) :
    lex (Wire.text (.bitfinex c sy)) =
      [.sym '{', .str "channel".toList, .sym ':', .str c, .sym ',', .str "event".toList, .sym ':',
       .str "subscribe".toList, .sym ',', .str "symbol".toList, .sym ':', .str sy, .sym '}'] := by
  rw [text_bitfinex]
  simp (disch := decide) only [lex, objText, field, commaSep, List.append_assoc, List.cons_append,
    List.nil_append, lexAux_quote, lexAux_strsText, lexAux_sym, lexAux_nil]

theorem lex_okx (args : List ESub) :
    lex (Wire.text (.okx args)) =
      .sym '{' :: .str "args".toList :: .sym ':' :: .sym '[' ::
        (okxArgsToks args ++ .sym ']' :: .sym ',' :: .str "op".toList :: .sym ':' :: .str "subscribe".toList ::
          [.sym '}']) := by
  rw [text_okx]
  simp (disch := decide) only [lex, objText, field, commaSep, List.append_assoc, List.cons_append,
    List.nil_append, lexAux_quote, lexAux_okxArgs, lexAux_sym, lexAux_nil]

/-! reading the token lists -/

theorem stringsAfter_str_sym (k x : Str) (c : Char) (r : List Tok) (hc : c ≠ ':') :
    stringsAfter k (.str x :: .sym c :: r) = stringsAfter k r := by
  cases r with
  | nil => simp [stringsAfter]
  | cons t r' => cases t <;> simp [stringsAfter, hc]


theorem stringsAfter_okxToks_chan (a : ESub) (r : List Tok) :
    stringsAfter "channel".toList (okxToks a ++ r) = [a.chan] ++ stringsAfter "channel".toList r := by
  simp only [okxToks, List.cons_append, List.nil_append, stringsAfter_sym, stringsAfter_str_sym_str]
  rw [stringsAfter_str_sym _ a.market '}' r (by decide)]
  simp

theorem stringsAfter_okxToks_inst (a : ESub) (r : List Tok) :
    stringsAfter "instId".toList (okxToks a ++ r) = [a.market] ++ stringsAfter "instId".toList r := by
  simp only [okxToks, List.cons_append, List.nil_append, stringsAfter_sym, stringsAfter_str_sym_str]
  rw [stringsAfter_str_sym _ a.market '}' r (by decide)]
  simp

theorem stringsAfter_okxToks_op (a : ESub) (r : List Tok) :
    stringsAfter "op".toList (okxToks a ++ r) = [] ++ stringsAfter "op".toList r := by
  simp only [okxToks, List.cons_append, List.nil_append, stringsAfter_sym, stringsAfter_str_sym_str]
  rw [stringsAfter_str_sym _ a.market '}' r (by decide)]
  simp

/-- a key that every `args` object answers with `f a`: so does the whole array -/
theorem stringsAfter_okxArgsToks (k : Str) (f : ESub → List Str)
    (hf : ∀ a r, stringsAfter k (okxToks a ++ r) = f a ++ stringsAfter k r) (l : List ESub) (r : List Tok) :
    stringsAfter k (okxArgsToks l ++ r) = l.flatMap f ++ stringsAfter k r := by
  have htail : ∀ (l : List ESub), stringsAfter k ((l.flatMap fun b => .sym ',' :: okxToks b) ++ r)
      = l.flatMap f ++ stringsAfter k r := by
    intro l
    induction l with
    | nil => simp
    | cons y ys ih =>
      simp only [List.flatMap_cons, List.cons_append, List.append_assoc, stringsAfter_sym]
      rw [hf, ih]
  cases l with
  | nil => simp [okxArgsToks]
  | cons x xs =>
    simp only [okxArgsToks, List.append_assoc, List.flatMap_cons]
    rw [hf, htail]

theorem flatMap_singleton' {α β : Type} (f : α → β) (l : List α) : (l.flatMap fun a => [f a]) = l.map f := by
  induction l with
  | nil => rfl
  | cons a l ih => simp [ih]

theorem zipWith_map_map {α β γ δ : Type} (f : β → γ → δ) (g : α → β) (h : α → γ) (l : List α) :
    List.zipWith f (l.map g) (l.map h) = l.map fun a => f (g a) (h a) := by
  induction l with
  | nil => rfl
  | cons a l ih => simp [ih]

theorem read_bitmex (args : List Str) :
    readText .bitmex (Wire.text (Wire.bitmex args)) = some ((Wire.bitmex args).verb, (Wire.bitmex args).topics) := by
  unfold readText
  rw [lex_bitmex]
  simp only [stringAfter, stringsAfter_sym, stringsAfter_str_sym_sym, stringsAfter_strToks,
    stringsAfter_str_sym_str, stringsAfter_str_sym_nil, arrayAfter_sym, arrayAfter_str_sym_sym,
    arrayAfter_str_sym_str, arrayAfter_str_sym_nil, arrayAfter_strToks, leadingStrs_strToks]
  simp
  exact ⟨rfl, rfl⟩

theorem read_bybit (args : List Str) :
    readText .bybit (Wire.text (Wire.bybit args)) = some ((Wire.bybit args).verb, (Wire.bybit args).topics) := by
  unfold readText
  rw [lex_bybit]
  simp only [stringAfter, stringsAfter_sym, stringsAfter_str_sym_sym, stringsAfter_strToks,
    stringsAfter_str_sym_str, stringsAfter_str_sym_nil, arrayAfter_sym, arrayAfter_str_sym_sym,
    arrayAfter_str_sym_str, arrayAfter_str_sym_nil, arrayAfter_strToks, leadingStrs_strToks]
  simp
  exact ⟨rfl, rfl⟩

theorem read_binance (params : List Str) :
    readText .binance (Wire.text (Wire.binance params)) = some ((Wire.binance params).verb, (Wire.binance params).topics) := by
  unfold readText
  rw [lex_binance]
  simp only [stringAfter, stringsAfter_sym, stringsAfter_str_sym_sym, stringsAfter_strToks,
    stringsAfter_str_sym_str, stringsAfter_str_sym_nil, arrayAfter_sym, arrayAfter_str_sym_sym,
    arrayAfter_str_sym_str, arrayAfter_str_sym_nil, arrayAfter_strToks, leadingStrs_strToks]
  simp
  exact ⟨rfl, rfl⟩

theorem read_coinbase (ps cs : List Str) :
    readText .coinbase (Wire.text (Wire.coinbase ps cs)) = some ((Wire.coinbase ps cs).verb, (Wire.coinbase ps cs).topics) := by
  unfold readText
  rw [lex_coinbase]
  simp only [stringAfter, stringsAfter_sym, stringsAfter_str_sym_sym, stringsAfter_strToks,
    stringsAfter_str_sym_str, stringsAfter_str_sym_nil, arrayAfter_sym, arrayAfter_str_sym_sym,
    arrayAfter_str_sym_str, arrayAfter_str_sym_nil, arrayAfter_strToks, leadingStrs_strToks]
  simp
  exact ⟨rfl, rfl⟩

theorem read_gateio (c : Str) (payload : List Str) :
    readText .gateio (Wire.text (Wire.gateio c payload)) = some ((Wire.gateio c payload).verb, (Wire.gateio c payload).topics) := by
  unfold readText
  rw [lex_gateio]
  simp only [stringAfter, stringsAfter_sym, stringsAfter_str_sym_sym, stringsAfter_strToks,
    stringsAfter_str_sym_str, stringsAfter_str_sym_nil, arrayAfter_sym, arrayAfter_str_sym_sym,
    arrayAfter_str_sym_str, arrayAfter_str_sym_nil, arrayAfter_strToks, leadingStrs_strToks]
  simp
  exact ⟨rfl, rfl⟩

theorem read_kraken (pair : List Str) (name : Str) :
    readText .kraken (Wire.text (Wire.kraken pair name)) = some ((Wire.kraken pair name).verb, (Wire.kraken pair name).topics) := by
  unfold readText
  rw [lex_kraken]
  simp only [stringAfter, stringsAfter_sym, stringsAfter_str_sym_sym, stringsAfter_strToks,
    stringsAfter_str_sym_str, stringsAfter_str_sym_nil, arrayAfter_sym, arrayAfter_str_sym_sym,
    arrayAfter_str_sym_str, arrayAfter_str_sym_nil, arrayAfter_strToks, leadingStrs_strToks]
  simp
  exact ⟨rfl, rfl⟩

theorem read_bitfinex (c sy : Str) :
    readText .bitfinex (Wire.text (Wire.bitfinex c sy)) = some ((Wire.bitfinex c sy).verb, (Wire.bitfinex c sy).topics) := by
  unfold readText
  rw [lex_bitfinex]
  simp only [stringAfter, stringsAfter_sym, stringsAfter_str_sym_sym, stringsAfter_strToks,
    stringsAfter_str_sym_str, stringsAfter_str_sym_nil, arrayAfter_sym, arrayAfter_str_sym_sym,
    arrayAfter_str_sym_str, arrayAfter_str_sym_nil, arrayAfter_strToks, leadingStrs_strToks]
  simp
  exact ⟨rfl, rfl⟩

theorem stringsAfter_okx_chan (args : List ESub) :
    stringsAfter "channel".toList (lex (Wire.text (.okx args))) = args.map (·.chan) := by
  rw [lex_okx]
  simp only [stringsAfter_sym, stringsAfter_str_sym_sym]
  rw [stringsAfter_okxArgsToks _ _ stringsAfter_okxToks_chan]
  simp only [stringsAfter_sym, stringsAfter_str_sym_str, stringsAfter_str_sym_nil, flatMap_singleton']
  simp

theorem stringsAfter_okx_inst (args : List ESub) :
    stringsAfter "instId".toList (lex (Wire.text (.okx args))) = args.map (·.market) := by
  rw [lex_okx]
  simp only [stringsAfter_sym, stringsAfter_str_sym_sym]
  rw [stringsAfter_okxArgsToks _ _ stringsAfter_okxToks_inst]
  simp only [stringsAfter_sym, stringsAfter_str_sym_str, stringsAfter_str_sym_nil, flatMap_singleton']
  simp

theorem stringsAfter_okx_op (args : List ESub) :
    stringsAfter "op".toList (lex (Wire.text (.okx args))) = ["subscribe".toList] := by
  rw [lex_okx]
  simp only [stringsAfter_sym, stringsAfter_str_sym_sym]
  rw [stringsAfter_okxArgsToks _ _ stringsAfter_okxToks_op]
  simp only [stringsAfter_sym, stringsAfter_str_sym_str, stringsAfter_str_sym_nil]
  simp

theorem read_okx (args : List ESub) :
    readText .okx (Wire.text (.okx args)) = some ((Wire.okx args).verb, (Wire.okx args).topics) := by
  unfold readText
  simp only [stringAfter, stringsAfter_okx_chan, stringsAfter_okx_inst, stringsAfter_okx_op, zipWith_map_map,
    List.head?_cons]
  rfl

/-- **The venue-side reading of the frame TEXT is the reading of the frame.** For every frame
`Connector::requests` can produce and all names (escaping of `"` and `\` included), reading the JSON text of
the frame with the venue's documented grammar gives the frame's verb and topics. -/
theorem readText_text (e : Exch) (subs : List ESub) :
    ∀ w ∈ requests e subs, readText (family e) w.text = some (w.verb, w.topics) := by
  rw [requests_of_family]
  cases hf : family e <;> simp only [List.mem_cons, List.mem_map, List.not_mem_nil, or_false]
  · rintro w rfl; exact read_binance _
  · rintro w rfl; exact read_bybit _
  · rintro w rfl; exact read_bitmex _
  · rintro w ⟨s, _, rfl⟩; exact read_coinbase _ _
  · rintro w ⟨s, _, rfl⟩; exact read_gateio _ _
  · rintro w ⟨s, _, rfl⟩; exact read_kraken _ _
  · rintro w rfl; exact read_okx _
  · rintro w ⟨s, _, rfl⟩; exact read_bitfinex _ _

end ReadText

end BarterModel.SubRequests
