import BarterModel.Lemmas.Index
/-!
# Helper lemmas for the review-2 additions of `Props/C11.lean`

`build` sorts with `List.mergeSort`, which is defined by well-founded recursion and therefore does
not reduce in the kernel. The lemmas below let a *concrete* collection be evaluated all the same:
a strictly ascending list with the same members **is** the result of `sort(); dedup()`
(uniqueness of the strictly sorted representative, `strict_ext`), so `build defs` can be rewritten
to the (kernel-reducible) traversal over explicitly given tables, whose side conditions are all
decidable. Used by the witness theorems `shared_internal_name_witness` and
`asset_two_exchange_names_witness`.
-/
namespace BarterModel.Index

/-- A strictly ascending list with the same members as `l` is `sort(); dedup()` of `l`. -/
theorem sortDedup_eq_of_strict {α : Type} [DecidableEq α] (key : α → List Nat)
    (hinj : Function.Injective key) (l l' : List α) (hs : Strict (leKey key) l')
    (h1 : ∀ x ∈ l, x ∈ l') (h2 : ∀ x ∈ l', x ∈ l) : sortDedup key l = l' :=
  strict_ext _ (leKey_antisymm key hinj) _ _ (strict_sortDedup key hinj l) hs
    (fun x => by rw [mem_sortDedup]; exact ⟨h1 x, h2 x⟩)

instance {α : Type} (le : α → α → Bool) [DecidableEq α] (l : List α) : Decidable (Strict le l) := by
  unfold Strict; infer_instance

/-- `build defs` evaluated over explicitly given sorted tables `E` (exchanges), `A` (assets), `D`
(definitions): every side condition is decidable for concrete lists. -/
theorem build_eq_of_tables (defs : List Def) (E : List Nat) (A : List ExchangeAsset) (D : List Def)
    (hE : Strict (leKey exchangeKey) E) (hE1 : ∀ x ∈ defs.map (·.exchange), x ∈ E)
    (hE2 : ∀ x ∈ E, x ∈ defs.map (·.exchange))
    (hA : Strict (leKey ExchangeAsset.sortKey) A) (hA1 : ∀ x ∈ defs.flatMap defAssets, x ∈ A)
    (hA2 : ∀ x ∈ A, x ∈ defs.flatMap defAssets)
    (hD : Strict (leKey Instrument.sortKey) D) (hD1 : ∀ x ∈ defs, x ∈ D) (hD2 : ∀ x ∈ D, x ∈ defs) :
    build defs = (traverse (indexInstrument (enumerate E) (enumerate A)) (enumerate D)).map
      (fun ins => { exchanges := enumerate E, assets := enumerate A, instruments := ins }) := by
  rw [build_eq]
  have e1 : sortedExchanges defs = E := sortDedup_eq_of_strict _ exchangeKey_inj _ _ hE hE1 hE2
  have e2 : sortedAssets defs = A := sortDedup_eq_of_strict _ ExchangeAsset.sortKey_inj _ _ hA hA1 hA2
  have e3 : sortedDefs defs = D := sortDedup_eq_of_strict _ Instrument.sortKey_inj _ _ hD hD1 hD2
  rw [e1, e2, e3]

end BarterModel.Index
