import BarterModel.Model.Channels
/-! Helper lemmas for sub-check C10C (channels, droppable transmitters, merged streams, run loops). -/
namespace BarterModel.Chan

/-! ## Channel -/

/-- `n` consecutive receiver polls; the items they yielded. -/
def pollN {α : Type} (c : Chan α) : Nat → Chan α × List α
  | 0 => (c, [])
  | n + 1 =>
    match c.pollNext with
    | (c', .item x) => let r := pollN c' n; (r.1, x :: r.2)
    | (c', _) => pollN c' n

/-- sending a list through one transmitter -/
def sendAll {α : Type} (c : Chan α) (xs : List α) : Chan α := xs.foldl (fun c x => (c.send x).1) c

theorem sendAll_alive {α : Type} (c : Chan α) (xs : List α) (h : c.rxAlive = true) :
    sendAll c xs = { c with queue := c.queue ++ xs } := by
  induction xs generalizing c with
  | nil => simp [sendAll]
  | cons x xs ih =>
    simp only [sendAll, List.foldl_cons] at *
    have : (c.send x).1 = { c with queue := c.queue ++ [x] } := by simp [Chan.send, h]
    rw [this, ih _ (by simpa using h)]
    simp

theorem pollN_queue {α : Type} (c : Chan α) (n : Nat) :
    (pollN c n).2 = c.queue.take n ∧ (pollN c n).1 = { c with queue := c.queue.drop n } := by
  induction n generalizing c with
  | zero => simp [pollN]
  | succ n ih =>
    rcases c with ⟨q, s, r⟩
    cases q with
    | nil =>
      by_cases hs : s = 0 <;> simp [pollN, Chan.pollNext, hs, ih]
    | cons x q =>
      simp [pollN, Chan.pollNext, ih]

/-! ## Droppable transmitter over any `Tx` -/

theorem dsendAll_disabled {ω α : Type} (tx : Tx ω α) (w : ω) (xs : List α) :
    dsendAll tx .disabled w xs = (.disabled, w) := by
  induction xs with
  | nil => rfl
  | cons x xs ih => simpa [dsendAll, dsend] using ih

theorem dsendAll_append {ω α : Type} (tx : Tx ω α) (d : DState) (w : ω) (xs ys : List α) :
    dsendAll tx d w (xs ++ ys) = dsendAll tx (dsendAll tx d w xs).1 (dsendAll tx d w xs).2 ys := by
  induction xs generalizing d w with
  | nil => rfl
  | cons x xs ih => simp [dsendAll, ih]

/-- every inner send of the list succeeds when done one after the other from `w` -/
def allOk {ω α : Type} (tx : Tx ω α) (w : ω) : List α → Bool
  | [] => true
  | x :: xs => (tx.send w x).2 && allOk tx (tx.send w x).1 xs

/-- the world after sending the list one after the other -/
def sendsWorld {ω α : Type} (tx : Tx ω α) (w : ω) (xs : List α) : ω := xs.foldl (fun w x => (tx.send w x).1) w

theorem dsendAll_allOk {ω α : Type} (tx : Tx ω α) (w : ω) (xs : List α) (h : allOk tx w xs = true) :
    dsendAll tx .active w xs = (.active, sendsWorld tx w xs) := by
  induction xs generalizing w with
  | nil => rfl
  | cons x xs ih =>
    simp only [allOk, Bool.and_eq_true] at h
    simp only [dsendAll, dsend, sendsWorld, List.foldl_cons]
    cases hs : tx.send w x with
    | mk w' ok =>
      rw [hs] at h
      simp only at h
      simp only [h.1]
      exact ih w' h.2

theorem dsendAll_first_fail {ω α : Type} (tx : Tx ω α) (w : ω) (pre post : List α) (x : α)
    (hpre : allOk tx w pre = true) (hx : (tx.send (sendsWorld tx w pre) x).2 = false) :
    dsendAll tx .active w (pre ++ x :: post) =
      (.disabled, tx.drop (tx.send (sendsWorld tx w pre) x).1) := by
  rw [dsendAll_append, dsendAll_allOk tx w pre hpre]
  simp only [dsendAll, dsend]
  cases hs : tx.send (sendsWorld tx w pre) x with
  | mk w' ok =>
    rw [hs] at hx
    simp only at hx
    subst hx
    simpa using dsendAll_disabled tx _ post

theorem dsendAll_state_mono {ω α : Type} (tx : Tx ω α) (d : DState) (w : ω) (xs : List α)
    (h : (dsendAll tx d w xs).1 = .active) : d = .active := by
  cases d with
  | active => rfl
  | disabled => rw [dsendAll_disabled] at h; exact h

theorem flaky_all {bad : Nat → Bool} (w : List Nat × Nat) (xs : List Nat) :
    dsendAll (flakyTx bad) .active w xs =
      if xs.all (fun x => !bad x) then (.active, (w.1 ++ xs, w.2))
      else (.disabled, (w.1 ++ xs.takeWhile (fun x => !bad x), w.2 + 1)) := by
  induction xs generalizing w with
  | nil => simp [dsendAll]
  | cons x xs ih =>
    by_cases hb : bad x = true
    · simp [dsendAll, dsend, flakyTx, hb, dsendAll_disabled]
    · simp only [Bool.not_eq_true] at hb
      have hs : (flakyTx bad).send w x = ((w.1 ++ [x], w.2), true) := by simp [flakyTx, hb]
      simp only [dsendAll, dsend, hs, List.all_cons, hb, Bool.not_false, Bool.true_and, List.takeWhile_cons]
      rw [ih]
      split <;> simp

/-! ## One droppable transmitter + receiver -/

theorem Sys.run_append {α : Type} (s : Sys α) (a b : List (Op α)) : s.run (a ++ b) = (s.run a).run b := by
  simp [Sys.run, List.foldl_append]

theorem SpecSys.run_append {α : Type} (s : SpecSys α) (a b : List (Op α)) : s.run (a ++ b) = (s.run a).run b := by
  simp [SpecSys.run, List.foldl_append]

/-- Simulation relation between the concrete system and the log-with-cursor specification. -/
structure SysRel {α : Type} (s : Sys α) (t : SpecSys α) : Prop where
  live : t.live = (s.d == .active)
  listening : t.ch.listening = s.c.rxAlive
  senders : t.ch.senders = s.c.senders
  sawEnd : t.sawEnd = s.sawEnd
  got : t.ch.got = s.got
  cursor : t.ch.cursor = s.got.length
  cursor_le : t.ch.cursor ≤ t.ch.log.length
  log : s.c.rxAlive = true → t.ch.log = s.got ++ s.c.queue
  dropped : s.c.rxAlive = false → s.c.queue = []

theorem sysRel_init {α : Type} (d : DState) : SysRel (Sys.init d : Sys α) (SpecSys.init (d == .active)) := by
  cases d <;> constructor <;> simp [Sys.init, SpecSys.init, SpecChan.new, Chan.new, SpecChan.got]

theorem take_length_append {α : Type} (a b : List α) : (a ++ b).take a.length = a := by simp

theorem take_length_succ {α : Type} (l : List α) : l.take (l.length + 1) = l :=
  List.take_of_length_le (by omega)

theorem sysRel_step {α : Type} {s : Sys α} {t : SpecSys α} (h : SysRel s t) (op : Op α) :
    SysRel (s.step op) (t.step op) := by
  obtain ⟨h1, h2, h3, h4, h5, h6, h6', h7, h8⟩ := h
  rcases s with ⟨d, ⟨q, n, rx⟩, got, se⟩
  rcases t with ⟨⟨log, cur, sn, li⟩, lv, tse⟩
  simp only at h1 h2 h3 h4 h5 h6 h6' h7 h8
  subst h2 h3 h4 h6
  cases op with
  | dsend x =>
    cases d with
    | disabled =>
      simp only [show (DState.disabled == DState.active) = false from rfl] at h1
      subst h1
      constructor <;> simp_all [Sys.step, SpecSys.step, dsend]
    | active =>
      simp only [show (DState.active == DState.active) = true from rfl] at h1
      subst h1
      cases li with
      | true =>
        have hl := h7 rfl
        subst hl
        constructor <;>
          simp_all [Sys.step, SpecSys.step, dsend, chanTx, Chan.send, SpecChan.got]
      | false =>
        constructor <;> simp_all [Sys.step, SpecSys.step, dsend, chanTx, Chan.send, Chan.dropTx, SpecChan.got]
  | disable =>
    cases d with
    | disabled =>
      simp only [show (DState.disabled == DState.active) = false from rfl] at h1
      subst h1
      constructor <;> simp_all [Sys.step, SpecSys.step, ddisable]
    | active =>
      simp only [show (DState.active == DState.active) = true from rfl] at h1
      subst h1
      constructor <;> simp_all [Sys.step, SpecSys.step, ddisable, chanTx, Chan.dropTx, SpecChan.got]
  | dropRx =>
    constructor <;> simp_all [Sys.step, SpecSys.step, Chan.dropRx, SpecChan.got]
  | recv =>
    cases li with
    | false => constructor <;> simp_all [Sys.step, SpecSys.step]
    | true =>
      have hl := h7 rfl
      subst hl
      cases q with
      | nil =>
        have hnone : (got ++ ([] : List α))[got.length]? = none := by simp
        by_cases hn : sn = 0
        · subst hn
          constructor <;>
            simp_all [Sys.step, SpecSys.step, Chan.pollNext, SpecChan.read, SpecChan.got]
        · constructor <;>
            simp_all [Sys.step, SpecSys.step, Chan.pollNext, SpecChan.read, SpecChan.got]
      | cons x q =>
        have hsome : (got ++ x :: q)[got.length]? = some x := by simp
        constructor <;>
          simp_all [Sys.step, SpecSys.step, Chan.pollNext, SpecChan.read, SpecChan.got, List.take_append, take_length_succ]

theorem sysRel_run {α : Type} (ops : List (Op α)) {s : Sys α} {t : SpecSys α} (h : SysRel s t) :
    SysRel (s.run ops) (t.run ops) := by
  induction ops generalizing s t with
  | nil => exact h
  | cons op ops ih => exact ih (sysRel_step h op)

/-! ### The specification's log is the accepted items -/

theorem SpecChan.read_fields {α : Type} (c : SpecChan α) :
    c.read.1.log = c.log ∧ c.read.1.listening = c.listening ∧ c.read.1.senders = c.senders := by
  unfold SpecChan.read; split <;> (try split) <;> simp

theorem spec_step_recv {α : Type} (t : SpecSys α) :
    (t.step .recv).live = t.live ∧ (t.step .recv).ch.log = t.ch.log ∧
      (t.step .recv).ch.listening = t.ch.listening := by
  have h := SpecChan.read_fields t.ch
  simp only [SpecSys.step]
  split
  · split <;> simp_all
  · simp

theorem spec_step_notlive {α : Type} (t : SpecSys α) (op : Op α) (h : t.live = false) :
    (t.step op).live = false ∧ (t.step op).ch.log = t.ch.log := by
  cases op with
  | recv => have := spec_step_recv t; simp_all
  | _ => simp [SpecSys.step, h]

theorem spec_run_notlive {α : Type} (ops : List (Op α)) (t : SpecSys α) (h : t.live = false) :
    (t.run ops).live = false ∧ (t.run ops).ch.log = t.ch.log := by
  induction ops generalizing t with
  | nil => simp [SpecSys.run, h]
  | cons op ops ih =>
    have hs := spec_step_notlive t op h
    have := ih (t.step op) hs.1
    simp only [SpecSys.run, List.foldl_cons] at *
    rw [this.1, this.2, hs.2]; simp

theorem spec_run_deaf {α : Type} (ops : List (Op α)) (t : SpecSys α) (h : t.ch.listening = false) :
    (t.run ops).ch.log = t.ch.log ∧ ((t.run ops).live = true → offeredOf ops = []) := by
  induction ops generalizing t with
  | nil => simp [SpecSys.run, offeredOf]
  | cons op ops ih =>
    simp only [SpecSys.run, List.foldl_cons] at *
    cases op with
    | dsend x =>
      by_cases hl : t.live = true
      · have hs : (t.step (.dsend x)).live = false := by simp [SpecSys.step, hl, h]
        have hlog : (t.step (.dsend x)).ch.log = t.ch.log := by simp [SpecSys.step, hl, h]
        have := spec_run_notlive ops _ hs
        simp only [SpecSys.run] at this
        simp [this.1, this.2, hlog]
      · simp only [Bool.not_eq_true] at hl
        have hs := spec_step_notlive t (.dsend x) hl
        have := spec_run_notlive ops _ hs.1
        simp only [SpecSys.run] at this
        simp [this.1, this.2, hs.2]
    | disable =>
      have hs : (t.step .disable).live = false := by
        simp only [SpecSys.step]; split <;> simp_all
      have hlog : (t.step .disable).ch.log = t.ch.log := by
        simp only [SpecSys.step]; split <;> simp_all
      have := spec_run_notlive ops _ hs
      simp only [SpecSys.run] at this
      simp [this.1, this.2, hlog]
    | recv =>
      have hs := spec_step_recv t
      have := ih (t.step .recv) (by rw [hs.2.2, h])
      simp only [offeredOf]
      rw [this.1, hs.2.1]
      exact ⟨rfl, this.2⟩
    | dropRx =>
      have := ih (t.step .dropRx) (by simp [SpecSys.step])
      simp only [offeredOf]
      rw [this.1]
      exact ⟨by simp [SpecSys.step], this.2⟩

/-- From a state in which the transmitter is on and somebody listens: the log grows by exactly the items
offered before the first cut; if the transmitter is still on at the end, nothing was refused. -/
theorem spec_run_live {α : Type} (ops : List (Op α)) (t : SpecSys α) (hl : t.live = true)
    (hli : t.ch.listening = true) :
    (t.run ops).ch.log = t.ch.log ++ acceptedOf ops ∧
      ((t.run ops).live = true → acceptedOf ops = offeredOf ops) := by
  induction ops generalizing t with
  | nil => simp [SpecSys.run, acceptedOf, offeredOf]
  | cons op ops ih =>
    simp only [SpecSys.run, List.foldl_cons] at *
    cases op with
    | dsend x =>
      have := ih (t.step (.dsend x)) (by simp [SpecSys.step, hl, hli]) (by simp [SpecSys.step, hl, hli])
      simp only [acceptedOf, offeredOf]
      rw [this.1]
      refine ⟨by simp [SpecSys.step, hl, hli], fun h => ?_⟩
      rw [this.2 h]
    | disable =>
      have hs : (t.step .disable).live = false := by simp [SpecSys.step, hl]
      have hlog : (t.step .disable).ch.log = t.ch.log := by simp [SpecSys.step, hl]
      have := spec_run_notlive ops _ hs
      simp only [SpecSys.run] at this
      simp [this.1, this.2, hlog, acceptedOf]
    | recv =>
      have hs := spec_step_recv t
      have := ih (t.step .recv) (by rw [hs.1, hl]) (by rw [hs.2.2, hli])
      simp only [acceptedOf, offeredOf]
      rw [this.1, hs.2.1]
      exact ⟨rfl, this.2⟩
    | dropRx =>
      have := spec_run_deaf ops (t.step .dropRx) (by simp [SpecSys.step])
      simp only [SpecSys.run] at this
      simp only [acceptedOf, offeredOf]
      rw [this.1]
      refine ⟨by simp [SpecSys.step], fun h => ?_⟩
      rw [this.2 h]

theorem accepted_prefix_offered {α : Type} (ops : List (Op α)) : acceptedOf ops <+: offeredOf ops := by
  induction ops with
  | nil => simp [acceptedOf, offeredOf]
  | cons op ops ih =>
    cases op with
    | dsend x => simpa [acceptedOf, offeredOf] using ih
    | recv => simpa [acceptedOf, offeredOf] using ih
    | disable => simp [acceptedOf]
    | dropRx => simp [acceptedOf]

/-! ## `merge` over two receivers -/

def MSt.live {β : Type} (cL cR : Chan β) (af : Bool) : MSt β :=
  some (⟨some (some cL, some none), some (some cR, some none), af⟩, false)

/-- `merge` over two live receivers, flattened. -/
def flatPoll {β : Type} (cL cR : Chan β) (af : Bool) : MSt β × Poll β :=
  if af then
    match cL.queue with
    | x :: q => (MSt.live { cL with queue := q } cR false, .item x)
    | [] =>
      if cL.senders = 0 then (none, .done) else
      match cR.queue with
      | y :: q => (MSt.live cL { cR with queue := q } false, .item y)
      | [] => if cR.senders = 0 then (none, .done) else (MSt.live cL cR false, .pending)
  else
    match cR.queue with
    | y :: q => (MSt.live cL { cR with queue := q } true, .item y)
    | [] =>
      if cR.senders = 0 then (none, .done) else
      match cL.queue with
      | x :: q => (MSt.live { cL with queue := q } cR true, .item x)
      | [] => if cL.senders = 0 then (none, .done) else (MSt.live cL cR true, .pending)

theorem poll_live {β : Type} (cL cR : Chan β) (af : Bool) :
    MSt.poll (MSt.live cL cR af) = flatPoll cL cR af := by
  rcases cL with ⟨ql, sl, rl⟩
  rcases cR with ⟨qr, sr, rr⟩
  cases af <;> cases ql <;> cases qr <;> by_cases h1 : sl = 0 <;> by_cases h2 : sr = 0 <;>
    simp [MSt.poll, merged, Strm.fuse, Strm.mapWhile, Strm.merge, pollPair, pollSecond, side, Strm.chain,
      Strm.map, once, Chan.pollNext, MSt.live, flatPoll, h1, h2]

theorem poll_none {β : Type} : MSt.poll (none : MSt β) = (none, .done) := rfl

theorem chan_live {β : Type} (cL cR : Chan β) (af : Bool) (left : Bool) :
    (MSt.live cL cR af).chan left = some (if left then cL else cR) := by
  cases left <;> simp [MSt.chan, MSt.live]

theorem setChan_live {β : Type} (cL cR c : Chan β) (af : Bool) (left : Bool) :
    (MSt.live cL cR af).setChan left c = if left then MSt.live c cR af else MSt.live cL c af := by
  cases left <;> simp [MSt.setChan, MSt.live]

/-- What one poll of a live merged stream can do (the five outcomes). -/
theorem flatPoll_cases {β : Type} (cL cR : Chan β) (af : Bool) :
    (∃ x q, cL.queue = x :: q ∧ flatPoll cL cR af = (MSt.live { cL with queue := q } cR (!af), .item x)) ∨
    (∃ y q, cR.queue = y :: q ∧ flatPoll cL cR af = (MSt.live cL { cR with queue := q } (!af), .item y)) ∨
    (cL.queue = [] ∧ cL.senders = 0 ∧ flatPoll cL cR af = (none, .done)) ∨
    (cR.queue = [] ∧ cR.senders = 0 ∧ flatPoll cL cR af = (none, .done)) ∨
    (cL.queue = [] ∧ cR.queue = [] ∧ cL.senders ≠ 0 ∧ cR.senders ≠ 0 ∧
      flatPoll cL cR af = (MSt.live cL cR (!af), .pending)) := by
  rcases cL with ⟨ql, sl, rl⟩
  rcases cR with ⟨qr, sr, rr⟩
  cases af <;> cases ql <;> cases qr <;> by_cases h1 : sl = 0 <;> by_cases h2 : sr = 0 <;>
    simp [flatPoll, h1, h2] <;>
    (try (first
      | exact ⟨_, _, ⟨rfl, rfl⟩, rfl, rfl⟩
      | exact Or.inl ⟨_, _, ⟨rfl, rfl⟩, rfl, rfl⟩
      | exact Or.inr ⟨_, _, ⟨rfl, rfl⟩, rfl, rfl⟩
      | exact Or.inr (Or.inl ⟨_, _, ⟨rfl, rfl⟩, rfl, rfl⟩)))

end BarterModel.Chan
