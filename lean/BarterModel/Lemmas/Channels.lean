import BarterModel.Model.Channels
import BarterModel.Model.Streams
/-! Helper lemmas for sub-check C10C (channels, droppable transmitters, merged streams, run loops). -/
namespace BarterModel.Chan

/-! ## Channel -/

/-- `n` consecutive receiver polls; the items they yielded. -/
def pollN {α : Type} (c : Chan α) : Nat → Chan α × List α
  | 0 => (c, [])
  | n + 1 =>
    match c.pollNext with
    | (c', .item x) => let r := pollN c' n; (r.1, x :: r.2)
    | (c', _) => pollN c' n

/-- sending a list through one transmitter -/
def sendAll {α : Type} (c : Chan α) (xs : List α) : Chan α := xs.foldl (fun c x => (c.send x).1) c

theorem sendAll_alive {α : Type} (c : Chan α) (xs : List α) (h : c.rxAlive = true) :
    sendAll c xs = { c with queue := c.queue ++ xs } := by
  induction xs generalizing c with
  | nil => simp [sendAll]
  | cons x xs ih =>
    simp only [sendAll, List.foldl_cons] at *
    have : (c.send x).1 = { c with queue := c.queue ++ [x] } := by simp [Chan.send, h]
    rw [this, ih _ (by simpa using h)]
    simp

theorem pollN_queue {α : Type} (c : Chan α) (n : Nat) :
    (pollN c n).2 = c.queue.take n ∧ (pollN c n).1 = { c with queue := c.queue.drop n } := by
  induction n generalizing c with
  | zero => simp [pollN]
  | succ n ih =>
    rcases c with ⟨q, s, r⟩
    cases q with
    | nil =>
      by_cases hs : s = 0 <;> simp [pollN, Chan.pollNext, hs, ih]
    | cons x q =>
      simp [pollN, Chan.pollNext, ih]

/-! ## Droppable transmitter over any `Tx` -/

theorem dsendAll_disabled {ω α : Type} (tx : Tx ω α) (w : ω) (xs : List α) :
    dsendAll tx .disabled w xs = (.disabled, w) := by
  induction xs with
  | nil => rfl
  | cons x xs ih => simpa [dsendAll, dsend] using ih

theorem dsendAll_append {ω α : Type} (tx : Tx ω α) (d : DState) (w : ω) (xs ys : List α) :
    dsendAll tx d w (xs ++ ys) = dsendAll tx (dsendAll tx d w xs).1 (dsendAll tx d w xs).2 ys := by
  induction xs generalizing d w with
  | nil => rfl
  | cons x xs ih => simp [dsendAll, ih]

/-- every inner send of the list succeeds when done one after the other from `w` -/
def allOk {ω α : Type} (tx : Tx ω α) (w : ω) : List α → Bool
  | [] => true
  | x :: xs => (tx.send w x).2 && allOk tx (tx.send w x).1 xs

/-- the world after sending the list one after the other -/
def sendsWorld {ω α : Type} (tx : Tx ω α) (w : ω) (xs : List α) : ω := xs.foldl (fun w x => (tx.send w x).1) w

theorem dsendAll_allOk {ω α : Type} (tx : Tx ω α) (w : ω) (xs : List α) (h : allOk tx w xs = true) :
    dsendAll tx .active w xs = (.active, sendsWorld tx w xs) := by
  induction xs generalizing w with
  | nil => rfl
  | cons x xs ih =>
    simp only [allOk, Bool.and_eq_true] at h
    simp only [dsendAll, dsend, sendsWorld, List.foldl_cons]
    cases hs : tx.send w x with
    | mk w' ok =>
      rw [hs] at h
      simp only at h
      simp only [h.1]
      exact ih w' h.2

theorem dsendAll_first_fail {ω α : Type} (tx : Tx ω α) (w : ω) (pre post : List α) (x : α)
    (hpre : allOk tx w pre = true) (hx : (tx.send (sendsWorld tx w pre) x).2 = false) :
    dsendAll tx .active w (pre ++ x :: post) =
      (.disabled, tx.drop (tx.send (sendsWorld tx w pre) x).1) := by
  rw [dsendAll_append, dsendAll_allOk tx w pre hpre]
  simp only [dsendAll, dsend]
  cases hs : tx.send (sendsWorld tx w pre) x with
  | mk w' ok =>
    rw [hs] at hx
    simp only at hx
    subst hx
    simpa using dsendAll_disabled tx _ post

theorem dsendAll_state_mono {ω α : Type} (tx : Tx ω α) (d : DState) (w : ω) (xs : List α)
    (h : (dsendAll tx d w xs).1 = .active) : d = .active := by
  cases d with
  | active => rfl
  | disabled => rw [dsendAll_disabled] at h; exact h

theorem flaky_all {bad : Nat → Bool} (w : List Nat × Nat) (xs : List Nat) :
    dsendAll (flakyTx bad) .active w xs =
      if xs.all (fun x => !bad x) then (.active, (w.1 ++ xs, w.2))
      else (.disabled, (w.1 ++ xs.takeWhile (fun x => !bad x), w.2 + 1)) := by
  induction xs generalizing w with
  | nil => simp [dsendAll]
  | cons x xs ih =>
    by_cases hb : bad x = true
    · simp [dsendAll, dsend, flakyTx, hb, dsendAll_disabled]
    · simp only [Bool.not_eq_true] at hb
      have hs : (flakyTx bad).send w x = ((w.1 ++ [x], w.2), true) := by simp [flakyTx, hb]
      simp only [dsendAll, dsend, hs, List.all_cons, hb, Bool.not_false, Bool.true_and, List.takeWhile_cons]
      rw [ih]
      split <;> simp

/-! ## One droppable transmitter + receiver -/

theorem Sys.run_append {α : Type} (s : Sys α) (a b : List (Op α)) : s.run (a ++ b) = (s.run a).run b := by
  simp [Sys.run, List.foldl_append]

theorem SpecSys.run_append {α : Type} (s : SpecSys α) (a b : List (Op α)) : s.run (a ++ b) = (s.run a).run b := by
  simp [SpecSys.run, List.foldl_append]

/-- Simulation relation between the concrete system and the log-with-cursor specification. -/
structure SysRel {α : Type} (s : Sys α) (t : SpecSys α) : Prop where
  live : t.live = (s.d == .active && !s.gone)
  listening : t.ch.listening = s.c.rxAlive
  senders : t.ch.senders = s.c.senders
  sawEnd : t.sawEnd = s.sawEnd
  got : t.ch.got = s.got
  cursor : t.ch.cursor = s.got.length
  cursor_le : t.ch.cursor ≤ t.ch.log.length
  log : s.c.rxAlive = true → t.ch.log = s.got ++ s.c.queue
  dropped : s.c.rxAlive = false → s.c.queue = []

@[simp] theorem dstate_beq_aa : (DState.active == DState.active) = true := rfl
@[simp] theorem dstate_beq_da : (DState.disabled == DState.active) = false := rfl

theorem sysRel_init {α : Type} (d : DState) : SysRel (Sys.init d : Sys α) (SpecSys.init (d == .active)) := by
  cases d <;> constructor <;> simp [Sys.init, SpecSys.init, SpecChan.new, Chan.new, SpecChan.got]

theorem take_length_append {α : Type} (a b : List α) : (a ++ b).take a.length = a := by simp

theorem take_length_succ {α : Type} (l : List α) : l.take (l.length + 1) = l :=
  List.take_of_length_le (by omega)

theorem sysRel_step {α : Type} {s : Sys α} {t : SpecSys α} (h : SysRel s t) (op : Op α) :
    SysRel (s.step op) (t.step op) := by
  obtain ⟨h1, h2, h3, h4, h5, h6, h6', h7, h8⟩ := h
  rcases s with ⟨d, ⟨q, n, rx⟩, got, se, gn⟩
  rcases t with ⟨⟨log, cur, sn, li⟩, lv, tse⟩
  simp only at h1 h2 h3 h4 h5 h6 h6' h7 h8
  subst h2 h3 h4 h6
  cases op with
  | dsend x =>
    cases gn with
    | true =>
      have : lv = false := by rw [h1]; cases d <;> rfl
      subst this
      clear h1
      constructor <;> simp_all [Sys.step, SpecSys.step]
    | false =>
    cases d with
    | disabled =>
      have : lv = false := h1
      subst this
      clear h1
      constructor <;> simp_all [Sys.step, SpecSys.step, dsend]
    | active =>
      have : lv = true := h1
      subst this
      clear h1
      cases li with
      | true =>
        have hl := h7 rfl
        subst hl
        constructor <;>
          simp_all [Sys.step, SpecSys.step, dsend, chanTx, Chan.send, SpecChan.got]
      | false =>
        constructor <;> simp_all [Sys.step, SpecSys.step, dsend, chanTx, Chan.send, Chan.dropTx, SpecChan.got]
  | disable =>
    cases gn with
    | true =>
      have : lv = false := by rw [h1]; cases d <;> rfl
      subst this
      clear h1
      constructor <;> simp_all [Sys.step, SpecSys.step]
    | false =>
    cases d with
    | disabled =>
      have : lv = false := h1
      subst this
      clear h1
      constructor <;> simp_all [Sys.step, SpecSys.step, ddisable]
    | active =>
      have : lv = true := h1
      subst this
      clear h1
      constructor <;> simp_all [Sys.step, SpecSys.step, ddisable, chanTx, Chan.dropTx, SpecChan.got]
  | dropTx =>
    cases gn with
    | true =>
      have : lv = false := by rw [h1]; cases d <;> rfl
      subst this
      clear h1
      constructor <;> simp_all [Sys.step, SpecSys.step]
    | false =>
    cases d with
    | disabled =>
      have : lv = false := h1
      subst this
      clear h1
      constructor <;> simp_all [Sys.step, SpecSys.step, ddrop]
    | active =>
      have : lv = true := h1
      subst this
      clear h1
      constructor <;> simp_all [Sys.step, SpecSys.step, ddrop, chanTx, Chan.dropTx, SpecChan.got]
  | dropRx =>
    constructor <;> simp_all [Sys.step, SpecSys.step, Chan.dropRx, SpecChan.got]
  | recv =>
    cases li with
    | false => constructor <;> simp_all [Sys.step, SpecSys.step]
    | true =>
      have hl := h7 rfl
      subst hl
      cases q with
      | nil =>
        have hnone : (got ++ ([] : List α))[got.length]? = none := by simp
        by_cases hn : sn = 0
        · subst hn
          constructor <;>
            simp_all [Sys.step, SpecSys.step, Chan.pollNext, SpecChan.read, SpecChan.got]
        · constructor <;>
            simp_all [Sys.step, SpecSys.step, Chan.pollNext, SpecChan.read, SpecChan.got]
      | cons x q =>
        have hsome : (got ++ x :: q)[got.length]? = some x := by simp
        constructor <;>
          simp_all [Sys.step, SpecSys.step, Chan.pollNext, SpecChan.read, SpecChan.got, List.take_append, take_length_succ]

theorem sysRel_run {α : Type} (ops : List (Op α)) {s : Sys α} {t : SpecSys α} (h : SysRel s t) :
    SysRel (s.run ops) (t.run ops) := by
  induction ops generalizing s t with
  | nil => exact h
  | cons op ops ih => exact ih (sysRel_step h op)

/-! ### The specification's log is the accepted items -/

theorem SpecChan.read_fields {α : Type} (c : SpecChan α) :
    c.read.1.log = c.log ∧ c.read.1.listening = c.listening ∧ c.read.1.senders = c.senders := by
  unfold SpecChan.read; split <;> (try split) <;> simp

theorem spec_step_recv {α : Type} (t : SpecSys α) :
    (t.step .recv).live = t.live ∧ (t.step .recv).ch.log = t.ch.log ∧
      (t.step .recv).ch.listening = t.ch.listening := by
  have h := SpecChan.read_fields t.ch
  simp only [SpecSys.step]
  split
  · split <;> simp_all
  · simp

theorem spec_step_notlive {α : Type} (t : SpecSys α) (op : Op α) (h : t.live = false) :
    (t.step op).live = false ∧ (t.step op).ch.log = t.ch.log := by
  cases op with
  | recv => have := spec_step_recv t; simp_all
  | _ => simp [SpecSys.step, h]

theorem spec_run_notlive {α : Type} (ops : List (Op α)) (t : SpecSys α) (h : t.live = false) :
    (t.run ops).live = false ∧ (t.run ops).ch.log = t.ch.log := by
  induction ops generalizing t with
  | nil => simp [SpecSys.run, h]
  | cons op ops ih =>
    have hs := spec_step_notlive t op h
    have := ih (t.step op) hs.1
    simp only [SpecSys.run, List.foldl_cons] at *
    rw [this.1, this.2, hs.2]; simp

theorem spec_run_deaf {α : Type} (ops : List (Op α)) (t : SpecSys α) (h : t.ch.listening = false) :
    (t.run ops).ch.log = t.ch.log ∧ ((t.run ops).live = true → offeredOf ops = []) := by
  induction ops generalizing t with
  | nil => simp [SpecSys.run, offeredOf]
  | cons op ops ih =>
    simp only [SpecSys.run, List.foldl_cons] at *
    cases op with
    | dsend x =>
      by_cases hl : t.live = true
      · have hs : (t.step (.dsend x)).live = false := by simp [SpecSys.step, hl, h]
        have hlog : (t.step (.dsend x)).ch.log = t.ch.log := by simp [SpecSys.step, hl, h]
        have := spec_run_notlive ops _ hs
        simp only [SpecSys.run] at this
        simp [this.1, this.2, hlog]
      · simp only [Bool.not_eq_true] at hl
        have hs := spec_step_notlive t (.dsend x) hl
        have := spec_run_notlive ops _ hs.1
        simp only [SpecSys.run] at this
        simp [this.1, this.2, hs.2]
    | disable =>
      have hs : (t.step .disable).live = false := by
        simp only [SpecSys.step]; split <;> simp_all
      have hlog : (t.step .disable).ch.log = t.ch.log := by
        simp only [SpecSys.step]; split <;> simp_all
      have := spec_run_notlive ops _ hs
      simp only [SpecSys.run] at this
      simp [this.1, this.2, hlog]
    | dropTx =>
      have hs : (t.step .dropTx).live = false := by
        simp only [SpecSys.step]; split <;> simp_all
      have hlog : (t.step .dropTx).ch.log = t.ch.log := by
        simp only [SpecSys.step]; split <;> simp_all
      have := spec_run_notlive ops _ hs
      simp only [SpecSys.run] at this
      simp [this.1, this.2, hlog]
    | recv =>
      have hs := spec_step_recv t
      have := ih (t.step .recv) (by rw [hs.2.2, h])
      simp only [offeredOf]
      rw [this.1, hs.2.1]
      exact ⟨rfl, this.2⟩
    | dropRx =>
      have := ih (t.step .dropRx) (by simp [SpecSys.step])
      simp only [offeredOf]
      rw [this.1]
      exact ⟨by simp [SpecSys.step], this.2⟩

/-- From a state in which the transmitter is on and somebody listens: the log grows by exactly the items
offered before the first cut; if the transmitter is still on at the end, nothing was refused. -/
theorem spec_run_live {α : Type} (ops : List (Op α)) (t : SpecSys α) (hl : t.live = true)
    (hli : t.ch.listening = true) :
    (t.run ops).ch.log = t.ch.log ++ acceptedOf ops ∧
      ((t.run ops).live = true → acceptedOf ops = offeredOf ops) := by
  induction ops generalizing t with
  | nil => simp [SpecSys.run, acceptedOf, offeredOf]
  | cons op ops ih =>
    simp only [SpecSys.run, List.foldl_cons] at *
    cases op with
    | dsend x =>
      have := ih (t.step (.dsend x)) (by simp [SpecSys.step, hl, hli]) (by simp [SpecSys.step, hl, hli])
      simp only [acceptedOf, offeredOf]
      rw [this.1]
      refine ⟨by simp [SpecSys.step, hl, hli], fun h => ?_⟩
      rw [this.2 h]
    | disable =>
      have hs : (t.step .disable).live = false := by simp [SpecSys.step, hl]
      have hlog : (t.step .disable).ch.log = t.ch.log := by simp [SpecSys.step, hl]
      have := spec_run_notlive ops _ hs
      simp only [SpecSys.run] at this
      simp [this.1, this.2, hlog, acceptedOf]
    | dropTx =>
      have hs : (t.step .dropTx).live = false := by simp [SpecSys.step, hl]
      have hlog : (t.step .dropTx).ch.log = t.ch.log := by simp [SpecSys.step, hl]
      have := spec_run_notlive ops _ hs
      simp only [SpecSys.run] at this
      simp [this.1, this.2, hlog, acceptedOf]
    | recv =>
      have hs := spec_step_recv t
      have := ih (t.step .recv) (by rw [hs.1, hl]) (by rw [hs.2.2, hli])
      simp only [acceptedOf, offeredOf]
      rw [this.1, hs.2.1]
      exact ⟨rfl, this.2⟩
    | dropRx =>
      have := spec_run_deaf ops (t.step .dropRx) (by simp [SpecSys.step])
      simp only [SpecSys.run] at this
      simp only [acceptedOf, offeredOf]
      rw [this.1]
      refine ⟨by simp [SpecSys.step], fun h => ?_⟩
      rw [this.2 h]

theorem accepted_prefix_offered {α : Type} (ops : List (Op α)) : acceptedOf ops <+: offeredOf ops := by
  induction ops with
  | nil => simp [acceptedOf, offeredOf]
  | cons op ops ih =>
    cases op with
    | dsend x => simpa [acceptedOf, offeredOf] using ih
    | recv => simpa [acceptedOf, offeredOf] using ih
    | disable => simp [acceptedOf]
    | dropRx => simp [acceptedOf]
    | dropTx => simp [acceptedOf]

/-! ## `merge` over two receivers -/

def MSt.live {β : Type} (cL cR : Chan β) (af : Bool) : MSt β :=
  some (⟨some (some cL, some none), some (some cR, some none), af⟩, false)

/-- `merge` over two live receivers, flattened. -/
def flatPoll {β : Type} (cL cR : Chan β) (af : Bool) : MSt β × Poll β :=
  if af then
    match cL.queue with
    | x :: q => (MSt.live { cL with queue := q } cR false, .item x)
    | [] =>
      if cL.senders = 0 then (none, .done) else
      match cR.queue with
      | y :: q => (MSt.live cL { cR with queue := q } false, .item y)
      | [] => if cR.senders = 0 then (none, .done) else (MSt.live cL cR false, .pending)
  else
    match cR.queue with
    | y :: q => (MSt.live cL { cR with queue := q } true, .item y)
    | [] =>
      if cR.senders = 0 then (none, .done) else
      match cL.queue with
      | x :: q => (MSt.live { cL with queue := q } cR true, .item x)
      | [] => if cL.senders = 0 then (none, .done) else (MSt.live cL cR true, .pending)

theorem poll_live {β : Type} (cL cR : Chan β) (af : Bool) :
    MSt.poll (MSt.live cL cR af) = flatPoll cL cR af := by
  rcases cL with ⟨ql, sl, rl⟩
  rcases cR with ⟨qr, sr, rr⟩
  cases af <;> cases ql <;> cases qr <;> by_cases h1 : sl = 0 <;> by_cases h2 : sr = 0 <;>
    simp [MSt.poll, merged, Strm.fuse, Strm.mapWhile, Strm.merge, pollPair, pollSecond, side, Strm.chain,
      Strm.map, once, Chan.pollNext, MSt.live, flatPoll, h1, h2]

theorem poll_none {β : Type} : MSt.poll (none : MSt β) = (none, .done) := rfl

theorem chan_live {β : Type} (cL cR : Chan β) (af : Bool) (left : Bool) :
    (MSt.live cL cR af).chan left = some (if left then cL else cR) := by
  cases left <;> simp [MSt.chan, MSt.live]

theorem setChan_live {β : Type} (cL cR c : Chan β) (af : Bool) (left : Bool) :
    (MSt.live cL cR af).setChan left c = if left then MSt.live c cR af else MSt.live cL c af := by
  cases left <;> simp [MSt.setChan, MSt.live]

/-- What one poll of a live merged stream can do (the five outcomes). -/
theorem flatPoll_cases {β : Type} (cL cR : Chan β) (af : Bool) :
    (∃ x q, cL.queue = x :: q ∧ flatPoll cL cR af = (MSt.live { cL with queue := q } cR (!af), .item x)) ∨
    (∃ y q, cR.queue = y :: q ∧ flatPoll cL cR af = (MSt.live cL { cR with queue := q } (!af), .item y)) ∨
    (cL.queue = [] ∧ cL.senders = 0 ∧ flatPoll cL cR af = (none, .done)) ∨
    (cR.queue = [] ∧ cR.senders = 0 ∧ flatPoll cL cR af = (none, .done)) ∨
    (cL.queue = [] ∧ cR.queue = [] ∧ cL.senders ≠ 0 ∧ cR.senders ≠ 0 ∧
      flatPoll cL cR af = (MSt.live cL cR (!af), .pending)) := by
  rcases cL with ⟨ql, sl, rl⟩
  rcases cR with ⟨qr, sr, rr⟩
  cases af <;> cases ql <;> cases qr <;> by_cases h1 : sl = 0 <;> by_cases h2 : sr = 0 <;>
    simp [flatPoll, h1, h2] <;>
    (try (first
      | exact ⟨_, _, ⟨rfl, rfl⟩, rfl, rfl⟩
      | exact Or.inl ⟨_, _, ⟨rfl, rfl⟩, rfl, rfl⟩
      | exact Or.inr ⟨_, _, ⟨rfl, rfl⟩, rfl, rfl⟩
      | exact Or.inr (Or.inl ⟨_, _, ⟨rfl, rfl⟩, rfl, rfl⟩)))

abbrev tagL {α : Type} (x : α) : Bool × α := (true, x)
abbrev tagR {α : Type} (x : α) : Bool × α := (false, x)

/-- The two shapes a run of the merged stream can be in. -/
inductive MShape {α : Type} (r : MRun α) : Prop where
  | live (cL cR : Chan (Bool × α)) (af : Bool)
      (hst : r.st = MSt.live cL cR af) (hend : r.ended = false)
      (hL : r.out.filter (·.1 == true) ++ cL.queue = r.accL.map tagL)
      (hR : r.out.filter (·.1 == false) ++ cR.queue = r.accR.map tagR)
      (hrl : cL.rxAlive = true) (hrr : cR.rxAlive = true)
      (hsl : cL.senders = if r.closedL then 0 else 1)
      (hsr : cR.senders = if r.closedR then 0 else 1)
  | ended (hst : r.st = none) (hend : r.ended = true)
      (hL : r.out.filter (·.1 == true) <+: r.accL.map tagL)
      (hR : r.out.filter (·.1 == false) <+: r.accR.map tagR)
      (hwhy : (r.closedL = true ∧ r.out.filter (·.1 == true) = r.accL.map tagL) ∨
              (r.closedR = true ∧ r.out.filter (·.1 == false) = r.accR.map tagR))

theorem mshape_init {α : Type} : MShape (MRun.init : MRun α) :=
  .live Chan.new Chan.new true rfl rfl (by simp [MRun.init, Chan.new]) (by simp [MRun.init, Chan.new])
    rfl rfl (by simp [MRun.init, Chan.new]) (by simp [MRun.init, Chan.new])

theorem head_tag {α : Type} {b : Bool} {pre q : List (Bool × α)} {x : Bool × α} {acc : List α}
    (h : pre ++ x :: q = acc.map (fun y => (b, y))) : x.1 = b := by
  have : x ∈ acc.map (fun y => (b, y)) := by rw [← h]; simp
  obtain ⟨y, _, rfl⟩ := List.mem_map.mp this
  rfl

theorem mshape_step {α : Type} {r : MRun α} (h : MShape r) (op : MOp α) : MShape (r.step op) := by
  rcases r with ⟨st, accL, accR, cl, cr, out, en, last⟩
  cases h with
  | ended hst hend hL hR hwhy =>
    simp only at hst hend hL hR hwhy
    subst hst hend
    cases op with
    | send left x =>
      have : MRun.step ⟨none, accL, accR, cl, cr, out, true, last⟩ (.send left x) =
          ⟨none, accL, accR, cl, cr, out, true, last⟩ := by
        simp [MRun.step, MSt.chan]
      rw [this]; exact .ended rfl rfl hL hR hwhy
    | close left =>
      cases left <;> cases cl <;> cases cr <;>
        simp only [MRun.step, MRun.closed, MSt.chan, ↓reduceIte, Bool.false_eq_true] <;>
        refine .ended rfl rfl hL hR ?_ <;> simp_all
    | poll =>
      simp only [MRun.step, poll_none]
      exact .ended rfl rfl hL hR hwhy
  | live cL cR af hst hend hL hR hrl hrr hsl hsr =>
    simp only at hst hend hL hR hsl hsr
    subst hst hend
    cases op with
    | send left x =>
      cases left with
      | true =>
        cases cl with
        | true => simpa [MRun.step, MRun.closed] using MShape.live cL cR af rfl rfl hL hR hrl hrr hsl hsr
        | false =>
          simp only [MRun.step, MRun.closed, ↓reduceIte, Bool.false_eq_true, chan_live, Chan.send, hrl,
            setChan_live]
          refine .live _ cR af rfl rfl ?_ hR rfl hrr hsl hsr
          show _ ++ (cL.queue ++ _) = _
          rw [← List.append_assoc, hL]; simp
      | false =>
        cases cr with
        | true => simpa [MRun.step, MRun.closed] using MShape.live cL cR af rfl rfl hL hR hrl hrr hsl hsr
        | false =>
          simp only [MRun.step, MRun.closed, ↓reduceIte, Bool.false_eq_true, chan_live, Chan.send, hrr,
            setChan_live]
          refine .live cL _ af rfl rfl hL ?_ hrl rfl hsl hsr
          show _ ++ (cR.queue ++ _) = _
          rw [← List.append_assoc, hR]; simp
    | close left =>
      cases left with
      | true =>
        cases cl with
        | true => simpa [MRun.step, MRun.closed] using MShape.live cL cR af rfl rfl hL hR hrl hrr hsl hsr
        | false =>
          simp only [MRun.step, MRun.closed, ↓reduceIte, Bool.false_eq_true, chan_live, setChan_live]
          exact .live cL.dropTx cR af rfl rfl hL hR hrl hrr (by simp [Chan.dropTx, hsl]) hsr
      | false =>
        cases cr with
        | true => simpa [MRun.step, MRun.closed] using MShape.live cL cR af rfl rfl hL hR hrl hrr hsl hsr
        | false =>
          simp only [MRun.step, MRun.closed, ↓reduceIte, Bool.false_eq_true, chan_live, setChan_live]
          exact .live cL cR.dropTx af rfl rfl hL hR hrl hrr hsl (by simp [Chan.dropTx, hsr])
    | poll =>
      simp only [MRun.step, poll_live]
      rcases flatPoll_cases cL cR af with ⟨x, q, hq, hp⟩ | ⟨y, q, hq, hp⟩ | ⟨hq, hs, hp⟩ | ⟨hq, hs, hp⟩ |
        ⟨hq1, hq2, hs1, hs2, hp⟩
      · rw [hp]
        rw [hq] at hL
        have hx := head_tag hL
        refine .live { cL with queue := q } cR (!af) rfl rfl ?_ ?_ hrl hrr hsl hsr
        · simp [List.filter_append, hx, ← hL]
        · simp [List.filter_append, hx, ← hR]
      · rw [hp]
        rw [hq] at hR
        have hy := head_tag hR
        refine .live cL { cR with queue := q } (!af) rfl rfl ?_ ?_ hrl hrr hsl hsr
        · simp [List.filter_append, hy, ← hL]
        · simp [List.filter_append, hy, ← hR]
      · rw [hp]
        rw [hq] at hL
        simp only [List.append_nil] at hL
        refine .ended rfl rfl (by rw [hL]; exact List.prefix_refl _) (by simp [← hR]) (Or.inl ⟨?_, hL⟩)
        cases cl <;> simp_all
      · rw [hp]
        rw [hq] at hR
        simp only [List.append_nil] at hR
        refine .ended rfl rfl (by simp [← hL]) (by rw [hR]; exact List.prefix_refl _) (Or.inr ⟨?_, hR⟩)
        cases cr <;> simp_all
      · rw [hp]
        exact .live cL cR (!af) rfl rfl hL hR hrl hrr hsl hsr

theorem mshape_run {α : Type} (ops : List (MOp α)) {r : MRun α} (h : MShape r) : MShape (r.run ops) := by
  induction ops generalizing r with
  | nil => exact h
  | cons op ops ih => exact ih (mshape_step h op)

theorem MRun.run_append {α : Type} (r : MRun α) (a b : List (MOp α)) : r.run (a ++ b) = (r.run a).run b := by
  simp [MRun.run, List.foldl_append]

theorem outOf_eq {α : Type} (b : Bool) (out : List (Bool × α)) :
    outOf b out = (out.filter (·.1 == b)).map (·.2) := rfl

theorem map_tag_snd {α : Type} (b : Bool) (l : List α) : (l.map (fun x => (b, x))).map (·.2) = l := by
  simp [List.map_map, Function.comp_def]

theorem snd_comp_tag {α : Type} (b : Bool) : ((fun x : Bool × α => x.snd) ∘ fun x => (b, x)) = id := rfl
theorem snd_comp_tagL {α : Type} : ((fun x : Bool × α => x.snd) ∘ tagL) = id := rfl
theorem snd_comp_tagR {α : Type} : ((fun x : Bool × α => x.snd) ∘ tagR) = id := rfl

/-- untagging an interleaving -/
theorem interleave_tags {α : Type} (out : List (Bool × α)) :
    Interleave (outOf true out) (outOf false out) (out.map (·.2)) := by
  induction out with
  | nil => exact .nil
  | cons p out ih =>
    rcases p with ⟨b, x⟩
    cases b
    · simpa [outOf] using Interleave.right (x := x) ih
    · simpa [outOf] using Interleave.left (x := x) ih

theorem Interleave.length {α : Type} {l r o : List α} (h : Interleave l r o) : o.length = l.length + r.length := by
  induction h with
  | nil => rfl
  | left _ ih => simp [ih]; omega
  | right _ ih => simp [ih]; omega

theorem Interleave.mem_iff {α : Type} {l r o : List α} (h : Interleave l r o) (x : α) :
    x ∈ o ↔ x ∈ l ∨ x ∈ r := by
  induction h with
  | nil => simp
  | left _ ih => simp [ih, or_assoc]
  | right _ ih => simp [ih]; grind

theorem prefix_map_snd {α : Type} {b : Bool} {a : List (Bool × α)} {l : List α}
    (h : a <+: l.map (fun x => (b, x))) : a.map (·.2) <+: l := by
  obtain ⟨t, ht⟩ := h
  refine ⟨t.map (·.2), ?_⟩
  have := congrArg (List.map (·.2)) ht
  simpa [snd_comp_tag] using this

/-- Everything the shape invariant says, in terms of `outOf` / `acc`. -/
theorem mshape_facts {α : Type} {r : MRun α} (h : MShape r) :
    outOf true r.out <+: r.accL ∧ outOf false r.out <+: r.accR ∧
    (r.ended = true → (r.closedL = true ∧ outOf true r.out = r.accL) ∨
                       (r.closedR = true ∧ outOf false r.out = r.accR)) ∧
    (r.ended = false → ∀ left c, r.st.chan left = some c →
        outOf left r.out ++ c.queue.map (·.2) = r.acc left ∧ c.rxAlive = true ∧
        c.senders = if r.closed left then 0 else 1) ∧
    (r.ended = true ↔ r.st = none) := by
  cases h with
  | ended hst hend hL hR hwhy =>
    refine ⟨prefix_map_snd hL, prefix_map_snd hR, fun _ => ?_, fun h => by simp [hend] at h, by simp [hst, hend]⟩
    rcases hwhy with ⟨h1, h2⟩ | ⟨h1, h2⟩
    · exact Or.inl ⟨h1, by rw [outOf_eq, h2, map_tag_snd]⟩
    · exact Or.inr ⟨h1, by rw [outOf_eq, h2, map_tag_snd]⟩
  | live cL cR af hst hend hL hR hrl hrr hsl hsr =>
    have eL : outOf true r.out ++ cL.queue.map (·.2) = r.accL := by
      have := congrArg (List.map (·.2)) hL
      simpa [snd_comp_tagL, snd_comp_tagR, outOf_eq] using this
    have eR : outOf false r.out ++ cR.queue.map (·.2) = r.accR := by
      have := congrArg (List.map (·.2)) hR
      simpa [snd_comp_tagL, snd_comp_tagR, outOf_eq] using this
    refine ⟨⟨_, eL⟩, ⟨_, eR⟩, fun h => by simp [hend] at h, fun _ left c hc => ?_, by simp [hst, hend, MSt.live]⟩
    rw [hst, chan_live] at hc
    cases left
    · simp only [Bool.false_eq_true, ↓reduceIte, Option.some.injEq] at hc; subst hc
      exact ⟨eR, hrr, hsr⟩
    · simp only [↓reduceIte, Option.some.injEq] at hc; subst hc
      exact ⟨eL, hrl, hsl⟩

/-! ### polls of a run in live / ended shape -/

theorem step_poll_ended {α : Type} (r : MRun α) (h : r.st = none) :
    r.step .poll = { r with ended := true, last := some .done } := by
  simp [MRun.step, h, poll_none]

theorem step_poll_live {α : Type} (r : MRun α) (cL cR : Chan (Bool × α)) (af : Bool)
    (h : r.st = MSt.live cL cR af) :
    r.step .poll =
      match flatPoll cL cR af with
      | (st', .pending) => { r with st := st', last := some .pending }
      | (st', .done) => { r with st := st', ended := true, last := some .done }
      | (st', .item x) => { r with st := st', out := r.out ++ [x], last := some (.item x) } := by
  simp only [MRun.step, h, poll_live]
  rfl

/-- membership in the executable outcome set -/
theorem mem_allowedOutcomes {α : Type} (l r a b : List α) (cl cr : Bool) :
    (a, b) ∈ allowedOutcomes l r cl cr ↔
      a <+: l ∧ b <+: r ∧ ((cl = true ∧ a.length = l.length) ∨ (cr = true ∧ b.length = r.length)) := by
  simp only [allowedOutcomes, List.mem_filter, List.mem_flatMap, List.mem_map, List.mem_range, Prod.mk.injEq,
    Bool.or_eq_true, Bool.and_eq_true, beq_iff_eq]
  constructor
  · rintro ⟨⟨i, hi, j, hj, rfl, rfl⟩, h⟩
    exact ⟨List.take_prefix _ _, List.take_prefix _ _, h⟩
  · rintro ⟨ha, hb, h⟩
    refine ⟨⟨a.length, ?_, b.length, ?_, ?_, ?_⟩, h⟩
    · have := ha.length_le; omega
    · have := hb.length_le; omega
    · exact (List.prefix_iff_eq_take.mp ha).symm
    · exact (List.prefix_iff_eq_take.mp hb).symm

/-! ## Run loops -/

theorem runAudited_engine {ε ι κ ω : Type} (E : Runner ε ι κ) (tx : Tx ω κ) (env : Nat → ω → ω)
    (k : Nat) (e : ε) (d : DState) (w : ω) (feed : List ι) :
    (runAudited E tx env k e d w feed).engine = (runPlain E e feed).1 ∧
    (runAudited E tx env k e d w feed).shutdown = (runPlain E e feed).2 := by
  induction feed generalizing k e d w with
  | nil => simp [runAudited, runPlain]
  | cons ev rest ih =>
    simp only [runAudited, runPlain]
    split
    · simp
    · exact ih _ _ _ _

theorem runTicks_ne_nil {ε ι κ : Type} (E : Runner ε ι κ) (e : ε) (feed : List ι) : runTicks E e feed ≠ [] := by
  cases feed with
  | nil => simp [runTicks]
  | cons ev rest => simp only [runTicks]; split <;> simp

theorem runTicks_length_pos {ε ι κ : Type} (E : Runner ε ι κ) (e : ε) (feed : List ι) :
    0 < (runTicks E e feed).length :=
  List.length_pos_iff.mpr (runTicks_ne_nil E e feed)

theorem runTicks_getLast {ε ι κ : Type} (E : Runner ε ι κ) (e : ε) (feed : List ι) :
    (runTicks E e feed).getLast? = some (runPlain E e feed).2 := by
  induction feed generalizing e with
  | nil => simp [runTicks, runPlain]
  | cons ev rest ih =>
    simp only [runTicks, runPlain]
    split
    · simp
    · have hne := runTicks_ne_nil E (E.proc e ev).1 rest
      rw [List.getLast?_cons_of_ne_nil hne]  
      exact ih _

/-- a disabled transmitter leaves the world to the environment -/
theorem runAudited_disabled {ε ι κ ω : Type} (E : Runner ε ι κ) (tx : Tx ω κ) (env : Nat → ω → ω)
    (k : Nat) (e : ε) (w : ω) (feed : List ι) :
    (runAudited E tx env k e .disabled w feed).tx = .disabled ∧
    (runAudited E tx (fun _ w => w) k e .disabled w feed).world = w := by
  induction feed generalizing k e w with
  | nil => simp [runAudited, dsend]
  | cons ev rest ih =>
    simp only [runAudited, dsend]
    split
    · simp
    · exact ⟨(ih _ _ _).1, (ih _ _ _).2⟩

theorem dsend_world_alive {κ : Type} (c : Chan κ) (g : List κ) (x : κ) (h : c.rxAlive = true) :
    dsend worldTx .active (c, g) x = (.active, ({ c with queue := c.queue ++ [x] }, g)) := by
  simp [dsend, worldTx, Chan.send, h]

theorem dsend_world_dead {κ : Type} (c : Chan κ) (g : List κ) (x : κ) (h : c.rxAlive = false) :
    dsend worldTx .active (c, g) x = (.disabled, (c.dropTx, g)) := by
  simp [dsend, worldTx, Chan.send, h]

theorem dsend_off {ω κ : Type} (tx : Tx ω κ) (w : ω) (x : κ) : dsend tx .disabled w x = (.disabled, w) := rfl

/-- after the receiver is gone (and the queue with it): nothing is received any more, and the first send
turns the transmitter off -/
theorem runAudited_after_drop {ε ι κ : Type} (E : Runner ε ι κ) (K k : Nat) (hk : K < k) (e : ε) (d : DState)
    (c : Chan κ) (g : List κ) (feed : List ι) (hrx : c.rxAlive = false) (hq : c.queue = []) :
    let a := runAudited E worldTx (dropEnv K) k e d (c, g) feed
    a.tx = .disabled ∧ a.world.2 = g ∧ a.world.1.queue = [] := by
  induction feed generalizing k e d c with
  | nil =>
    have hne : (k == K) = false := by simp; omega
    cases d
    · simp [runAudited, dropEnv, hne, dsend_world_dead _ _ _ hrx, Chan.dropTx, hq]
    · simp [runAudited, dropEnv, hne, dsend_off, hq]
  | cons ev rest ih =>
    have hne : (k == K) = false := by simp; omega
    simp only [runAudited, dropEnv, hne]
    split
    · cases d
      · simp [dsend_world_dead _ _ _ hrx, Chan.dropTx, hq]
      · simp [dsend_off, hq]
    · cases d with
      | disabled => simpa [dsend_off] using ih (k + 1) (by omega) _ .disabled c hrx hq
      | active =>
        simpa [dsend_world_dead _ _ _ hrx] using
          ih (k + 1) (by omega) _ .disabled c.dropTx (by simp [Chan.dropTx, hrx]) (by simp [Chan.dropTx, hq])

/-- The run loop against the drain-then-drop consumer, generalised over the loop position. -/
theorem runAudited_dropEnv {ε ι κ : Type} (E : Runner ε ι κ) (K k : Nat) (hk : k ≤ K) (e : ε)
    (c : Chan κ) (g : List κ) (feed : List ι) (hrx : c.rxAlive = true) :
    let a := runAudited E worldTx (dropEnv K) k e .active (c, g) feed
    a.world.2 ++ a.world.1.queue = g ++ c.queue ++ (runTicks E e feed).take (K - k) ∧
    a.tx = (if K - k < (runTicks E e feed).length then .disabled else .active) := by
  have hdead : (c.dropRx).rxAlive = false := rfl
  induction feed generalizing k e c g with
  | nil =>
    by_cases hkK : k = K
    · subst hkK
      simp [runAudited, dropEnv, dsend_world_dead, Chan.dropRx, Chan.dropTx, runTicks]
    · have hne : (k == K) = false := by simp; omega
      have h2 : ¬ (K - k < 1) := by omega
      have h3 : 1 ≤ K - k := by omega
      simp [runAudited, dropEnv, hne, dsend_world_alive _ _ _ hrx, runTicks, h2, List.take_of_length_le, h3]
  | cons ev rest ih =>
    by_cases hkK : k = K
    · subst hkK
      simp only [runAudited, dropEnv, beq_self_eq_true, ↓reduceIte, Nat.sub_self, List.take_zero,
        List.append_nil, runTicks]
      have hpos := runTicks_length_pos E (E.proc e ev).1 rest
      have hd : (c.dropRx).rxAlive = false := rfl
      split
      · simp [dsend_world_dead, Chan.dropRx, Chan.dropTx]
      · have := runAudited_after_drop E k (k + 1) (by omega) (E.proc e ev).1 .disabled
          (c.dropRx.dropTx) (g ++ c.queue) rest (by simp [Chan.dropRx, Chan.dropTx])
          (by simp [Chan.dropRx, Chan.dropTx])
        simp only [dsend_world_dead _ _ _ hd]
        simp [this.1, this.2.1, this.2.2]
    · have hne : (k == K) = false := by simp; omega
      have hsub : K - k = (K - (k + 1)) + 1 := by omega
      simp only [runAudited, dropEnv, hne, runTicks]
      split
      · have h2 : ¬ (K - k < 1) := by omega
        have h3 : 1 ≤ K - k := by omega
        simp [dsend_world_alive _ _ _ hrx, h2, List.take_of_length_le, h3]
      · have := ih (k + 1) (by omega) (E.proc e ev).1 { c with queue := c.queue ++ [(E.proc e ev).2] } g
          (by simpa using hrx) rfl
        simp only [Bool.false_eq_true, ↓reduceIte, dsend_world_alive _ _ _ hrx]
        rw [hsub, List.take_succ_cons, List.length_cons]
        simp only [Nat.add_lt_add_iff_right]
        refine ⟨?_, this.2⟩
        rw [this.1]; simp

open BarterModel.Audit in
theorem auditRunner_agrees (s : EngA) (feed : List (Engine.Event × Ask)) :
    runTicks auditRunner s feed = (runWithAudit s feed).2 ∧
    (runPlain auditRunner s feed).1 = (runWithAudit s feed).1 := by
  induction feed generalizing s with
  | nil => simp [runTicks, runPlain, runWithAudit, auditRunner]
  | cons ia rest ih =>
    rcases ia with ⟨ev, ask⟩
    have hp : auditRunner.proc s (ev, ask) = processWithAudit s ev ask := rfl
    have ht : auditRunner.terminal = Tick.terminal := rfl
    by_cases h : (processWithAudit s ev ask).2.terminal = true
    · simp [runTicks, runPlain, runWithAudit, hp, ht, h]
    · simp [runTicks, runPlain, runWithAudit, hp, ht, h, ih]

/-! ### fairness and promptness of the merged stream -/

theorem flatPoll_item_left {β : Type} (cL cR : Chan β) (x : β) (q : List β) (h : cL.queue = x :: q) :
    flatPoll cL cR true = (MSt.live { cL with queue := q } cR false, .item x) := by
  simp [flatPoll, h]

theorem flatPoll_item_right {β : Type} (cL cR : Chan β) (y : β) (q : List β) (h : cR.queue = y :: q) :
    flatPoll cL cR false = (MSt.live cL { cR with queue := q } true, .item y) := by
  simp [flatPoll, h]

theorem flatPoll_marker_left {β : Type} (cL cR : Chan β) (hq : cL.queue = []) (hs : cL.senders = 0) :
    flatPoll cL cR true = (none, .done) := by
  simp [flatPoll, hq, hs]

theorem flatPoll_marker_right {β : Type} (cL cR : Chan β) (hq : cR.queue = []) (hs : cR.senders = 0) :
    flatPoll cL cR false = (none, .done) := by
  simp [flatPoll, hq, hs]

/-- the left input is closed and used up, the right one is polled first and has nothing: the end -/
theorem flatPoll_marker_left' {β : Type} (cL cR : Chan β) (hq : cL.queue = []) (hs : cL.senders = 0)
    (hr : cR.queue = []) : flatPoll cL cR false = (none, .done) := by
  by_cases h : cR.senders = 0 <;> simp [flatPoll, hq, hs, hr, h]

theorem flatPoll_marker_right' {β : Type} (cL cR : Chan β) (hq : cR.queue = []) (hs : cR.senders = 0)
    (hl : cL.queue = []) : flatPoll cL cR true = (none, .done) := by
  by_cases h : cL.senders = 0 <;> simp [flatPoll, hq, hs, hl, h]

theorem queue_ne_nil_of {α : Type} {b : Bool} {out q : List (Bool × α)} {acc : List α}
    (h : out.filter (·.1 == b) ++ q = acc.map (fun x => (b, x))) (hne : outOf b out ≠ acc) : q ≠ [] := by
  intro hq
  subst hq
  apply hne
  rw [outOf_eq]
  simp only [List.append_nil] at h
  rw [h, map_tag_snd]

/-- Fairness: while both inputs have something the merged stream has not handed over yet, two
consecutive polls hand over one item of each input. -/
theorem mrun_fair {α : Type} {r : MRun α} (h : MShape r) (hne : r.ended = false)
    (hl : outOf true r.out ≠ r.accL) (hr : outOf false r.out ≠ r.accR) :
    ∃ a b, ((r.step .poll).step .poll).out = r.out ++ [a, b] ∧ a.1 ≠ b.1 ∧
      ((r.step .poll).step .poll).ended = false := by
  cases h with
  | ended hst hend _ _ _ => simp [hend] at hne
  | live cL cR af hst hend hL hR hrl hrr hsl hsr =>
    have hql := queue_ne_nil_of hL hl
    have hqr := queue_ne_nil_of hR hr
    obtain ⟨x, ql, hxl⟩ := List.exists_cons_of_ne_nil hql
    obtain ⟨y, qr, hyr⟩ := List.exists_cons_of_ne_nil hqr
    have hx : x.1 = true := by rw [hxl] at hL; exact head_tag hL
    have hy : y.1 = false := by rw [hyr] at hR; exact head_tag hR
    cases af with
    | true =>
      refine ⟨x, y, ?_, by simp [hx, hy], ?_⟩ <;>
      · rw [step_poll_live r cL cR true hst, flatPoll_item_left cL cR x ql hxl]
        simp only
        rw [step_poll_live _ { cL with queue := ql } cR false rfl, flatPoll_item_right _ cR y qr hyr]
        simp [hend]
    | false =>
      refine ⟨y, x, ?_, by simp [hx, hy], ?_⟩ <;>
      · rw [step_poll_live r cL cR false hst, flatPoll_item_right cL cR y qr hyr]
        simp only
        rw [step_poll_live _ cL { cR with queue := qr } true rfl, flatPoll_item_left cL _ x ql hxl]
        simp [hend]

/-- Promptness: once an input is closed and everything it sent has been handed over, the merged
stream ends within two polls, handing over at most one more item (of the other input). -/
theorem mrun_prompt {α : Type} {r : MRun α} (h : MShape r) (left : Bool) (hne : r.ended = false)
    (hc : r.closed left = true) (hall : outOf left r.out = r.acc left) :
    ((r.step .poll).step .poll).ended = true ∧
    (((r.step .poll).step .poll).out = r.out ∨
      ∃ y, y.1 = !left ∧ ((r.step .poll).step .poll).out = r.out ++ [y]) := by
  cases h with
  | ended hst hend _ _ _ => simp [hend] at hne
  | live cL cR af hst hend hL hR hrl hrr hsl hsr =>
    cases left with
    | true =>
      simp only [MRun.closed, MRun.acc, ↓reduceIte] at hc hall
      have hq : cL.queue = [] := by
        have h1 := congrArg (List.map (·.2)) hL
        simp only [List.map_append, ← outOf_eq, hall, snd_comp_tagL, List.map_map, List.map_id] at h1
        simpa using h1
      have hs : cL.senders = 0 := by simp [hsl, hc]
      cases af with
      | true =>
        rw [step_poll_live r cL cR true hst, flatPoll_marker_left cL cR hq hs]
        simp [step_poll_ended]
      | false =>
        cases hqr : cR.queue with
        | nil =>
          rw [step_poll_live r cL cR false hst, flatPoll_marker_left' cL cR hq hs hqr]
          simp [step_poll_ended]
        | cons y qr =>
          have hy : y.1 = false := by rw [hqr] at hR; exact head_tag hR
          rw [step_poll_live r cL cR false hst, flatPoll_item_right cL cR y qr hqr]
          simp only
          rw [step_poll_live _ cL { cR with queue := qr } true rfl, flatPoll_marker_left cL _ hq hs]
          exact ⟨rfl, Or.inr ⟨y, by simp [hy], rfl⟩⟩
    | false =>
      simp only [MRun.closed, MRun.acc, Bool.false_eq_true, ↓reduceIte] at hc hall
      have hq : cR.queue = [] := by
        have h1 := congrArg (List.map (·.2)) hR
        simp only [List.map_append, ← outOf_eq, hall, snd_comp_tagR, List.map_map, List.map_id] at h1
        simpa using h1
      have hs : cR.senders = 0 := by simp [hsr, hc]
      cases af with
      | false =>
        rw [step_poll_live r cL cR false hst, flatPoll_marker_right cL cR hq hs]
        simp [step_poll_ended]
      | true =>
        cases hql : cL.queue with
        | nil =>
          rw [step_poll_live r cL cR true hst, flatPoll_marker_right' cL cR hq hs hql]
          simp [step_poll_ended]
        | cons x ql =>
          have hx : x.1 = true := by rw [hql] at hL; exact head_tag hL
          rw [step_poll_live r cL cR true hst, flatPoll_item_left cL cR x ql hql]
          simp only
          rw [step_poll_live _ { cL with queue := ql } cR false rfl, flatPoll_marker_right _ cR hq hs]
          exact ⟨rfl, Or.inr ⟨x, by simp [hx], rfl⟩⟩

/-- A poll stays pending exactly when there is nothing to hand over and nobody has closed. -/
theorem mrun_pending_iff {α : Type} {r : MRun α} (h : MShape r) :
    (r.step .poll).last = some .pending ↔
      r.ended = false ∧ outOf true r.out = r.accL ∧ outOf false r.out = r.accR ∧
        r.closedL = false ∧ r.closedR = false := by
  cases h with
  | ended hst hend _ _ _ => simp [step_poll_ended r hst, hend]
  | live cL cR af hst hend hL hR hrl hrr hsl hsr =>
    have eL : outOf true r.out ++ cL.queue.map (·.2) = r.accL := by
      have := congrArg (List.map (·.2)) hL
      simpa [snd_comp_tagL, outOf_eq] using this
    have eR : outOf false r.out ++ cR.queue.map (·.2) = r.accR := by
      have := congrArg (List.map (·.2)) hR
      simpa [snd_comp_tagR, outOf_eq] using this
    have hcl : cL.senders = 0 ↔ r.closedL = true := by rw [hsl]; cases r.closedL <;> simp
    have hcr : cR.senders = 0 ↔ r.closedR = true := by rw [hsr]; cases r.closedR <;> simp
    rw [step_poll_live r cL cR af hst]
    rcases flatPoll_cases cL cR af with ⟨x, q, hq, hp⟩ | ⟨y, q, hq, hp⟩ | ⟨hq, hs, hp⟩ | ⟨hq, hs, hp⟩ |
      ⟨hq1, hq2, hs1, hs2, hp⟩
    · rw [hp]; simp only [hend]
      constructor
      · intro h; cases h
      · rintro ⟨_, h1, _⟩; rw [hq] at eL; rw [h1] at eL; simp at eL
    · rw [hp]; simp only [hend]
      constructor
      · intro h; cases h
      · rintro ⟨_, _, h1, _⟩; rw [hq] at eR; rw [h1] at eR; simp at eR
    · rw [hp]; simp only [hend]
      constructor
      · intro h; cases h
      · rintro ⟨_, _, _, h1, _⟩; have := hcl.mp hs; simp [h1] at this
    · rw [hp]; simp only [hend]
      constructor
      · intro h; cases h
      · rintro ⟨_, _, _, _, h1⟩; have := hcr.mp hs; simp [h1] at this
    · rw [hp]; simp only [hend, true_and]
      refine ⟨fun _ => ⟨?_, ?_, ?_, ?_⟩, fun _ => trivial⟩
      · rw [hq1] at eL; simpa using eL
      · rw [hq2] at eR; simpa using eR
      · cases hc : r.closedL <;> simp_all
      · cases hc : r.closedR <;> simp_all

/-! ### audited run = operation history -/

/-- the consumer only reads or drops its receiver -/
def ConsumerOnly {κ : Type} (ops : List (Op κ)) : Prop := ∀ op ∈ ops, op = .recv ∨ op = .dropRx

def sync {κ : Type} (d : DState) (s : Sys κ) : Sys κ := { s with d := d }

theorem sync_step_consumer {κ : Type} (d : DState) (s : Sys κ) (op : Op κ) (h : op = .recv ∨ op = .dropRx) :
    sync d (s.step op) = (sync d s).step op := by
  rcases h with rfl | rfl
  · rcases s with ⟨d0, c, g, se⟩
    simp only [Sys.step, sync]
    by_cases hrx : c.rxAlive = true
    · simp only [hrx, ↓reduceIte]
      split <;> simp_all
    · simp [hrx]
  · rfl

theorem sync_run_consumer {κ : Type} (d : DState) (ops : List (Op κ)) (s : Sys κ) (h : ConsumerOnly ops) :
    sync d (s.run ops) = (sync d s).run ops := by
  induction ops generalizing s with
  | nil => rfl
  | cons op ops ih =>
    simp only [Sys.run, List.foldl_cons] at *
    rw [ih (s.step op) (fun o ho => h o (by simp [ho])), sync_step_consumer d s op (h op (by simp))]

theorem sync_dsend {κ : Type} (d : DState) (s : Sys κ) (x : κ) (hg : s.gone = false) :
    sync (dsend sysTx d s x).1 (dsend sysTx d s x).2 = (sync d s).step (.dsend x) := by
  rcases s with ⟨d0, ⟨q, n, rx⟩, g, se, gn⟩
  simp only at hg
  subst hg
  cases d <;> cases rx <;> simp [dsend, sysTx, sync, Sys.step, chanTx, Chan.send, Chan.dropTx]

/-- the consumer's operations and the run loop's sends never drop the `ChannelTxDroppable` -/
theorem gone_step_consumer {κ : Type} (s : Sys κ) (op : Op κ) (h : op = .recv ∨ op = .dropRx) :
    (s.step op).gone = s.gone := by
  rcases h with rfl | rfl
  · simp only [Sys.step]
    split
    · split <;> rfl
    · rfl
  · rfl

theorem gone_run_consumer {κ : Type} (ops : List (Op κ)) (s : Sys κ) (h : ConsumerOnly ops) :
    (s.run ops).gone = s.gone := by
  induction ops generalizing s with
  | nil => rfl
  | cons op ops ih =>
    simp only [Sys.run, List.foldl_cons] at *
    rw [ih (s.step op) (fun o ho => h o (by simp [ho])), gone_step_consumer s op (h op (by simp))]

theorem gone_dsend_sysTx {κ : Type} (d : DState) (s : Sys κ) (x : κ) : (dsend sysTx d s x).2.gone = s.gone := by
  cases d
  · simp only [dsend, sysTx]
    cases (s.c.send x).2 <;> rfl
  · rfl

theorem offeredOf_append {κ : Type} (a b : List (Op κ)) : offeredOf (a ++ b) = offeredOf a ++ offeredOf b := by
  induction a with
  | nil => rfl
  | cons op a ih => cases op <;> simp [offeredOf, ih]

theorem offeredOf_consumer {κ : Type} (ops : List (Op κ)) (h : ConsumerOnly ops) : offeredOf ops = [] := by
  induction ops with
  | nil => rfl
  | cons op ops ih =>
    have := h op (by simp)
    rcases this with rfl | rfl <;> simpa [offeredOf] using ih (fun o ho => h o (by simp [ho]))

theorem offeredOf_schedule {κ : Type} (cons : Nat → List (Op κ)) (h : ∀ k, ConsumerOnly (cons k)) (k : Nat)
    (ts : List κ) : offeredOf (schedule cons k ts) = ts := by
  induction ts generalizing k with
  | nil => rfl
  | cons t ts ih => simp [schedule, offeredOf_append, offeredOf_consumer _ (h k), offeredOf, ih]

/-- An audited run over a channel is the operation history `schedule cons k ticks` of the
transmitter + receiver system. -/
theorem runAudited_eq_sys {ε ι κ : Type} (E : Runner ε ι κ) (cons : Nat → List (Op κ))
    (hc : ∀ k, ConsumerOnly (cons k)) (k : Nat) (e : ε) (d : DState) (s : Sys κ) (feed : List ι)
    (hg : s.gone = false) :
    let a := runAudited E sysTx (consumerEnv cons) k e d s feed
    sync a.tx a.world = (sync d s).run (schedule cons k (runTicks E e feed)) ∧ a.world.gone = false := by
  have hg' : (s.run (cons k)).gone = false := by rw [gone_run_consumer _ s (hc k), hg]
  induction feed generalizing k e d s with
  | nil =>
    simp only [runAudited, runTicks, schedule, consumerEnv, List.append_nil]
    rw [sync_dsend _ _ _ hg', Sys.run_append, sync_run_consumer d _ s (hc k)]
    exact ⟨rfl, by rw [gone_dsend_sysTx, hg']⟩
  | cons ev rest ih =>
    simp only [runAudited, runTicks, consumerEnv]
    split
    · simp only [schedule, List.append_nil]
      rw [sync_dsend _ _ _ hg', Sys.run_append, sync_run_consumer d _ s (hc k)]
      exact ⟨rfl, by rw [gone_dsend_sysTx, hg']⟩
    · simp only [schedule]
      have hg2 : (dsend sysTx d (s.run (cons k)) (E.proc e ev).2).2.gone = false := by
        rw [gone_dsend_sysTx, hg']
      have := ih (k + 1) (E.proc e ev).1 (dsend sysTx d (s.run (cons k)) (E.proc e ev).2).1
        (dsend sysTx d (s.run (cons k)) (E.proc e ev).2).2 hg2
        (by rw [gone_run_consumer _ _ (hc (k + 1)), hg2])
      refine ⟨?_, this.2⟩
      rw [this.1, sync_dsend _ _ _ hg', Sys.run_append, Sys.run_append, sync_run_consumer d _ s (hc k)]
      rfl

/-- no operation of the history cuts the transmitter off -/
def NoCut {κ : Type} (ops : List (Op κ)) : Prop := ∀ op ∈ ops, op ≠ .disable ∧ op ≠ .dropRx ∧ op ≠ .dropTx

theorem acceptedOf_noCut {κ : Type} (ops : List (Op κ)) (h : NoCut ops) : acceptedOf ops = offeredOf ops := by
  induction ops with
  | nil => rfl
  | cons op ops ih =>
    have h' : NoCut ops := fun o ho => h o (by simp [ho])
    have := h op (by simp)
    cases op with
    | dsend x => simp [acceptedOf, offeredOf, ih h']
    | recv => simp [acceptedOf, offeredOf, ih h']
    | disable => simp at this
    | dropRx => simp at this
    | dropTx => simp at this

theorem step_noCut {κ : Type} (s : Sys κ) (op : Op κ) (h : op ≠ .disable ∧ op ≠ .dropRx ∧ op ≠ .dropTx)
    (hd : s.d = .active) (hrx : s.c.rxAlive = true) (hg : s.gone = false) :
    (s.step op).d = .active ∧ (s.step op).c.rxAlive = true ∧ (s.step op).gone = false := by
  rcases s with ⟨d, ⟨q, n, rx⟩, g, se, gn⟩
  simp only at hd hrx hg
  subst hd hrx hg
  cases op with
  | dsend x => simp [Sys.step, dsend, chanTx, Chan.send]
  | recv =>
    cases q with
    | nil => by_cases hn : n = 0 <;> simp [Sys.step, Chan.pollNext, hn]
    | cons x q => simp [Sys.step, Chan.pollNext]
  | disable => simp at h
  | dropRx => simp at h
  | dropTx => simp at h

theorem run_noCut {κ : Type} (ops : List (Op κ)) (s : Sys κ) (h : NoCut ops)
    (hd : s.d = .active) (hrx : s.c.rxAlive = true) (hg : s.gone = false) :
    (s.run ops).d = .active ∧ (s.run ops).c.rxAlive = true ∧ (s.run ops).gone = false := by
  induction ops generalizing s with
  | nil => exact ⟨hd, hrx, hg⟩
  | cons op ops ih =>
    have hs := step_noCut s op (h op (by simp)) hd hrx hg
    exact ih (s.step op) (fun o ho => h o (by simp [ho])) hs.1 hs.2.1 hs.2.2

theorem noCut_schedule {κ : Type} (cons : Nat → List (Op κ)) (h : ∀ k, ∀ op ∈ cons k, op = .recv) (k : Nat)
    (ts : List κ) : NoCut (schedule cons k ts) := by
  induction ts generalizing k with
  | nil => intro op ho; simp [schedule] at ho
  | cons t ts ih =>
    intro op ho
    simp only [schedule, List.mem_append, List.mem_singleton] at ho
    rcases ho with (ho | rfl) | ho
    · rw [h k op ho]; simp
    · simp
    · exact ih (k + 1) op ho

/-- Facts about every history from the initial state with an enabled transmitter. -/
theorem sys_facts {κ : Type} (ops : List (Op κ)) :
    let s := (Sys.init .active : Sys κ).run ops
    s.got <+: acceptedOf ops ∧
    (s.c.rxAlive = true → s.got ++ s.c.queue = acceptedOf ops) ∧
    (s.c.rxAlive = false → s.c.queue = []) ∧
    (s.d = .active → s.gone = false → acceptedOf ops = offeredOf ops) := by
  have hrel : SysRel ((Sys.init .active : Sys κ).run ops) ((SpecSys.init true).run ops) :=
    sysRel_run ops (sysRel_init (α := κ) .active)
  have hlive := spec_run_live ops (SpecSys.init (α := κ) true) rfl rfl
  have hlog : ((SpecSys.init true : SpecSys κ).run ops).ch.log = acceptedOf ops := by
    have := hlive.1
    rwa [show (SpecSys.init (α := κ) true).ch.log = [] from rfl, List.nil_append] at this
  obtain ⟨h1, h2, h3, h4, h5, h6, h6', h7, h8⟩ := hrel
  refine ⟨?_, ?_, h8, ?_⟩
  · rw [← h5, SpecChan.got, hlog]; exact List.take_prefix _ _
  · intro hrx
    rw [← h7 hrx]; exact hlog
  · intro hd hg
    apply hlive.2
    rw [h1, hd, hg]; rfl

theorem take_range'' (s n k : Nat) : (List.range' s n).take k = List.range' s (min k n) := by
  induction k generalizing s n with
  | zero => simp
  | succ k ih =>
    cases n with
    | zero => simp
    | succ n =>
      simp only [List.range'_succ, List.take_succ_cons, ih]
      rw [show min (k + 1) (n + 1) = min k n + 1 by omega, List.range'_succ]

/-! ### the bare channel against the log-with-cursor stream, operation by operation -/

/-- `t` describes channel `c` whose receiver has taken `got` so far. -/
structure ChanRel {α : Type} (c : Chan α) (got : List α) (t : SpecChan α) : Prop where
  listening : t.listening = c.rxAlive
  senders : t.senders = c.senders
  cursor : t.cursor = got.length
  log : c.rxAlive = true → t.log = got ++ c.queue
  got_eq : t.got = got

theorem chanRel_new {α : Type} : ChanRel (Chan.new : Chan α) [] SpecChan.new := by
  constructor <;> simp [Chan.new, SpecChan.new, SpecChan.got]

theorem chanRel_send {α : Type} {c : Chan α} {got : List α} {t : SpecChan α} (h : ChanRel c got t) (x : α) :
    ChanRel (c.send x).1 got (t.send x).1 ∧ (c.send x).2 = (t.send x).2 := by
  obtain ⟨h1, h2, h3, h4, h5⟩ := h
  rcases c with ⟨q, n, rx⟩
  rcases t with ⟨log, cur, sn, li⟩
  simp only at h1 h2 h3 h4 h5
  subst h1 h2 h3
  cases li with
  | false => exact ⟨⟨rfl, rfl, rfl, by simp [Chan.send], by simpa [SpecChan.send, SpecChan.got] using h5⟩, rfl⟩
  | true =>
    have := h4 rfl
    subst this
    refine ⟨⟨rfl, rfl, rfl, by simp [Chan.send, SpecChan.send], ?_⟩, rfl⟩
    simp [SpecChan.send, SpecChan.got]

theorem chanRel_handles {α : Type} {c : Chan α} {got : List α} {t : SpecChan α} (h : ChanRel c got t) :
    ChanRel c.cloneTx got { t with senders := t.senders + 1 } ∧
    ChanRel c.dropTx got { t with senders := t.senders - 1 } ∧
    ChanRel c.dropRx got { t with listening := false } := by
  obtain ⟨h1, h2, h3, h4, h5⟩ := h
  refine ⟨⟨h1, by simp [Chan.cloneTx, h2], h3, h4, h5⟩, ⟨h1, by simp [Chan.dropTx, h2], h3, h4, h5⟩,
    ⟨rfl, h2, h3, by simp [Chan.dropRx], h5⟩⟩

theorem chanRel_recv {α : Type} {c : Chan α} {got : List α} {t : SpecChan α} (h : ChanRel c got t)
    (hrx : c.rxAlive = true) :
    c.pollNext.2 = t.read.2 ∧
    ChanRel c.pollNext.1 (match c.pollNext.2 with | .item x => got ++ [x] | _ => got) t.read.1 := by
  obtain ⟨h1, h2, h3, h4, h5⟩ := h
  rcases c with ⟨q, n, rx⟩
  rcases t with ⟨log, cur, sn, li⟩
  simp only at h1 h2 h3 h4 h5 hrx
  subst h1 h2 h3 hrx
  have := h4 rfl
  subst this
  cases q with
  | nil =>
    have hnone : (got ++ ([] : List α))[got.length]? = none := by simp
    by_cases hn : sn = 0
    · subst hn
      refine ⟨by simp [Chan.pollNext, SpecChan.read], ?_⟩
      constructor <;> simp_all [Chan.pollNext, SpecChan.read, SpecChan.got]
    · refine ⟨by simp [Chan.pollNext, SpecChan.read, hn], ?_⟩
      constructor <;> simp_all [Chan.pollNext, SpecChan.read, SpecChan.got]
  | cons x q =>
    have hsome : (got ++ x :: q)[got.length]? = some x := by simp
    refine ⟨by simp [Chan.pollNext, SpecChan.read], ?_⟩
    constructor <;> simp_all [Chan.pollNext, SpecChan.read, SpecChan.got, List.take_append, take_length_succ]

/-- Invariant of the specification along histories from `SpecSys.init`: the droppable transmitter is the
only one; the cursor never passes the log; the listener has seen the end only after the transmitter went
off and everything delivered was read. -/
structure SpecInv {α : Type} (t : SpecSys α) : Prop where
  senders : t.ch.senders = if t.live then 1 else 0
  cursor_le : t.ch.cursor ≤ t.ch.log.length
  ended : t.sawEnd = true → t.live = false ∧ t.ch.cursor = t.ch.log.length

theorem specInv_init {α : Type} (b : Bool) : SpecInv (SpecSys.init b : SpecSys α) := by
  cases b <;> constructor <;> simp [SpecSys.init, SpecChan.new]

theorem specInv_step {α : Type} {t : SpecSys α} (h : SpecInv t) (op : Op α) : SpecInv (t.step op) := by
  obtain ⟨h1, h2, h3⟩ := h
  rcases t with ⟨⟨log, cur, sn, li⟩, lv, se⟩
  simp only at h1 h2 h3
  cases op with
  | dsend x =>
    cases lv <;> cases li <;> constructor <;> simp_all [SpecSys.step] <;> omega
  | disable =>
    cases lv <;> constructor <;> simp_all [SpecSys.step]
  | dropTx =>
    cases lv <;> constructor <;> simp_all [SpecSys.step]
  | dropRx => constructor <;> simp_all [SpecSys.step]
  | recv =>
    cases li with
    | false => constructor <;> simp_all [SpecSys.step]
    | true =>
      by_cases hc : cur < log.length
      · have hsome : log[cur]? = some log[cur] := by simp [hc]
        constructor <;> simp_all [SpecSys.step, SpecChan.read] <;> omega
      · have hnone : log[cur]? = none := by simp; omega
        cases lv <;> constructor <;> simp_all [SpecSys.step, SpecChan.read] <;> omega

theorem specInv_run {α : Type} (ops : List (Op α)) {t : SpecSys α} (h : SpecInv t) : SpecInv (t.run ops) := by
  induction ops generalizing t with
  | nil => exact h
  | cons op ops ih => exact ih (specInv_step h op)

theorem runTicks_length_le {ε ι κ : Type} (E : Runner ε ι κ) (e : ε) (feed : List ι) :
    (runTicks E e feed).length ≤ feed.length + 1 := by
  induction feed generalizing e with
  | nil => simp [runTicks]
  | cons ev rest ih =>
    simp only [runTicks]
    split
    · simp
    · have := ih (E.proc e ev).1
      simp only [List.length_cons]; omega

/-! ### link to C12's flat merge model -/

open BarterModel in
/-- C12's hand-flattened merge state (`Model/Streams.lean`) describing a combinator-level state. -/
inductive C12Rel : MSt Nat → Streams.MergeSt → Prop where
  | live (cL cR : Chan Nat) (af : Bool) (a b : Streams.Side)
      (ha : a = ⟨cL.queue, decide (cL.senders = 0), false⟩)
      (hb : b = ⟨cR.queue, decide (cR.senders = 0), false⟩)
      (hrl : cL.rxAlive = true) (hrr : cR.rxAlive = true) (hsl : cL.senders ≤ 1) (hsr : cR.senders ≤ 1) :
      C12Rel (MSt.live cL cR af) ⟨a, b, af, false⟩
  | ended (m : Streams.MergeSt) (h : m.done = true) : C12Rel none m

/-- forgetting which input an item came from -/
def untag : Streams.MOut → Poll Nat
  | .pending => .pending
  | .item _ x => .item x
  | .ended => .done

theorem c12_init : C12Rel (MergedSt.new Chan.new Chan.new) Streams.MergeSt.init :=
  .live Chan.new Chan.new true _ _ rfl rfl rfl rfl (by simp [Chan.new]) (by simp [Chan.new])

theorem c12_poll {st : MSt Nat} {m : Streams.MergeSt} (h : C12Rel st m) :
    (MSt.poll st).2 = untag m.poll.2 ∧ C12Rel (MSt.poll st).1 m.poll.1 := by
  cases h with
  | ended m h =>
    simp [poll_none, Streams.MergeSt.poll, Streams.MergeSt.pollWith, h, untag]
    exact .ended m h
  | live cL cR af a b ha hb hrl hrr hsl hsr =>
    subst ha hb
    rw [poll_live]
    rcases cL with ⟨ql, sl, rl⟩
    rcases cR with ⟨qr, sr, rr⟩
    cases af <;> cases ql <;> cases qr <;> by_cases h1 : sl = 0 <;> by_cases h2 : sr = 0 <;>
      simp [flatPoll, Streams.MergeSt.poll, Streams.MergeSt.pollWith, Streams.Side.poll, untag, h1, h2] <;>
      first
        | exact .ended _ rfl
        | exact C12Rel.live _ _ _ _ _ (by simp [h1]) (by simp [h2]) (by simpa using hrl) (by simpa using hrr)
            (by simp_all) (by simp_all)
        | skip

/-- a send on an input that has not been closed -/
theorem c12_send {st : MSt Nat} {m : Streams.MergeSt} (h : C12Rel st m) (left : Bool) (x : Nat)
    (hopen : (m.side left).closed = false) :
    C12Rel (match st.chan left with | some c => st.setChan left (c.send x).1 | none => st)
      (m.step (.send left x)).1 := by
  cases h with
  | ended m h => simpa [MSt.chan, Streams.MergeSt.step, hopen, h] using C12Rel.ended m h
  | live cL cR af a b ha hb hrl hrr hsl hsr =>
    subst ha hb
    cases left <;>
      simp only [chan_live, setChan_live, Streams.MergeSt.step, Streams.MergeSt.side, Streams.MergeSt.setSide,
        Bool.false_eq_true, ↓reduceIte, Chan.send, hrl, hrr] at hopen ⊢ <;>
      simp only [hopen, Bool.false_eq_true, ↓reduceIte] <;>
      exact C12Rel.live _ _ _ _ _ (by simp_all) (by simp_all) (by simp_all) (by simp_all) hsl hsr

/-- dropping the (only) transmitter of an input -/
theorem c12_close {st : MSt Nat} {m : Streams.MergeSt} (h : C12Rel st m) (left : Bool) :
    C12Rel (match st.chan left with | some c => st.setChan left c.dropTx | none => st)
      (m.step (.close left)).1 := by
  cases h with
  | ended m h => cases left <;> exact .ended _ (by simpa [Streams.MergeSt.step, Streams.MergeSt.setSide] using h)
  | live cL cR af a b ha hb hrl hrr hsl hsr =>
    subst ha hb
    cases left <;>
      simp only [chan_live, setChan_live, Streams.MergeSt.step, Streams.MergeSt.side, Streams.MergeSt.setSide,
        Bool.false_eq_true, ↓reduceIte]
    · exact C12Rel.live _ _ _ _ _ rfl (by simp [Chan.dropTx]; exact decide_eq_true (by omega)) hrl hrr hsl
        (by simp [Chan.dropTx]; omega)
    · exact C12Rel.live _ _ _ _ _ (by simp [Chan.dropTx]; exact decide_eq_true (by omega)) rfl hrl hrr
        (by simp [Chan.dropTx]; omega) hsr

/-! ### after the receiver is gone nothing is received any more -/

theorem step_dead {α : Type} (s : Sys α) (op : Op α) (h : s.c.rxAlive = false) :
    (s.step op).c.rxAlive = false ∧ (s.step op).got = s.got := by
  cases op with
  | dsend x =>
    cases hg : s.gone <;> cases hd : s.d <;> simp [Sys.step, dsend, chanTx, Chan.send, Chan.dropTx, hd, h, hg]
  | disable => cases hg : s.gone <;> cases hd : s.d <;> simp [Sys.step, ddisable, chanTx, Chan.dropTx, hd, h, hg]
  | dropTx => cases hg : s.gone <;> cases hd : s.d <;> simp [Sys.step, ddrop, chanTx, Chan.dropTx, hd, h, hg]
  | recv => simp [Sys.step, h]
  | dropRx => simp [Sys.step, Chan.dropRx]

theorem run_dead {α : Type} (ops : List (Op α)) (s : Sys α) (h : s.c.rxAlive = false) :
    (s.run ops).got = s.got := by
  induction ops generalizing s with
  | nil => rfl
  | cons op ops ih =>
    have hs := step_dead s op h
    have := ih (s.step op) hs.1
    simp only [Sys.run, List.foldl_cons] at *
    rw [this, hs.2]

/-! ### the droppable transmitter is the only one; a receiver that reads on -/

/-- along every history from `Sys.init`: the channel has one transmitter exactly while the
`ChannelTxDroppable` exists and is `Active`, none otherwise; the end is only seen once there is none -/
theorem sys_senders {α : Type} (d0 : DState) (ops : List (Op α)) :
    let s := (Sys.init d0 : Sys α).run ops
    s.c.senders = (if (s.d == .active && !s.gone) then 1 else 0) ∧
    (s.sawEnd = true → (s.d == .active && !s.gone) = false) := by
  have r := sysRel_run ops (sysRel_init (α := α) d0)
  have hinv := specInv_run ops (specInv_init (α := α) (d0 == .active))
  refine ⟨?_, fun h => ?_⟩
  · rw [← r.senders, hinv.senders, r.live]
  · rw [← r.live]; exact (hinv.ended (by rw [r.sawEnd]; exact h)).1

/-- `n` reads in a row by a live receiver whose channel has no transmitter left: one queued item per
read, in order; the read after the last item reports the end of the stream, not before. -/
theorem run_recvs {α : Type} (n : Nat) (s : Sys α) (hrx : s.c.rxAlive = true) (hs : s.c.senders = 0) :
    let s' := s.run (List.replicate n .recv)
    s'.got = s.got ++ s.c.queue.take n ∧ s'.c.queue = s.c.queue.drop n ∧
    s'.sawEnd = (s.sawEnd || decide (s.c.queue.length < n)) ∧
    s'.d = s.d ∧ s'.gone = s.gone ∧ s'.c.senders = 0 ∧ s'.c.rxAlive = true := by
  induction n generalizing s with
  | zero => simp [Sys.run, hs, hrx]
  | succ n ih =>
    rcases s with ⟨d, ⟨q, sn, rx⟩, got, se, gn⟩
    simp only at hrx hs
    subst hrx hs
    simp only [List.replicate_succ, Sys.run, List.foldl_cons]
    cases q with
    | nil =>
      have := ih ⟨d, ⟨[], 0, true⟩, got, true, gn⟩ rfl rfl
      simp only [Sys.run] at this
      simp [Sys.step, Chan.pollNext, this]
    | cons x q =>
      have := ih ⟨d, ⟨q, 0, true⟩, got ++ [x], se, gn⟩ rfl rfl
      simp only [Sys.run] at this
      simp [Sys.step, Chan.pollNext, this]

/-! ### `engine.shutdown()` -/

theorem shutdownBroadcast_eq_map {χ ρ : Type} (xtx : Tx χ (XReq ρ)) (l : List (Option χ)) :
    shutdownBroadcast xtx l = l.map (Option.map fun w => (xtx.send w .shutdown).1) := by
  induction l with
  | nil => rfl
  | cons a l ih => cases a <;> simp [shutdownBroadcast, ih]

theorem shutdownBroadcast_append {χ ρ : Type} (xtx : Tx χ (XReq ρ)) (a b : List (Option χ)) :
    shutdownBroadcast xtx (a ++ b) = shutdownBroadcast xtx a ++ shutdownBroadcast xtx b := by
  simp [shutdownBroadcast_eq_map]

/-! ### the run closure as a joint history -/

theorem JW.run_append {κ χ ρ : Type} (xtx : Tx χ (XReq ρ)) (w : JW κ χ) (a b : List (JOp κ)) :
    JW.run xtx w (a ++ b) = JW.run xtx (JW.run xtx w a) b := by
  simp [JW.run, List.foldl_append]

theorem JW.run_sys {κ χ ρ : Type} (xtx : Tx χ (XReq ρ)) (w : JW κ χ) (l : List (Op κ)) :
    JW.run xtx w (l.map .sys) = ⟨w.sys.run l, w.links⟩ := by
  induction l generalizing w with
  | nil => rfl
  | cons op l ih =>
    simp only [List.map_cons, JW.run, List.foldl_cons] at *
    rw [ih]
    simp [JW.step, Sys.run]

theorem sysOps_append {κ : Type} (a b : List (JOp κ)) : sysOps (a ++ b) = sysOps a ++ sysOps b := by
  induction a with
  | nil => rfl
  | cons op a ih => cases op <;> simp [sysOps, ih]

theorem sysOps_map_sys {κ : Type} (l : List (Op κ)) : sysOps (l.map .sys) = l := by
  induction l with
  | nil => rfl
  | cons op l ih => simp [sysOps, ih]

theorem shutdown_not_mem_map_sys {κ : Type} (l : List (Op κ)) : (JOp.shutdown : JOp κ) ∉ l.map .sys := by
  simp

/-- the audit-side view of a joint history -/
theorem JW.run_sysOps {κ χ ρ : Type} (xtx : Tx χ (XReq ρ)) (w : JW κ χ) (ops : List (JOp κ)) :
    (JW.run xtx w ops).sys = w.sys.run (sysOps ops) := by
  induction ops generalizing w with
  | nil => rfl
  | cons op ops ih =>
    simp only [JW.run, List.foldl_cons] at *
    rw [ih]
    cases op <;> simp [JW.step, sysOps, Sys.run]

/-- the run loop's last record is terminal as soon as the engine's `FeedEnded` record is -/
theorem runPlain_terminal {ε ι κ : Type} (E : Runner ε ι κ) (hfe : ∀ e, E.terminal (E.feedEnded e).2 = true)
    (e : ε) (feed : List ι) : E.terminal (runPlain E e feed).2 = true := by
  induction feed generalizing e with
  | nil => exact hfe e
  | cons ev rest ih =>
    simp only [runPlain]
    split
    · assumption
    · exact ih _

/-! ### disabled stays disabled; the closure of `SystemBuilder::init` as a history -/

theorem step_disabled {α : Type} (s : Sys α) (op : Op α) (h : s.d = .disabled) : (s.step op).d = .disabled := by
  rcases s with ⟨d, ⟨q, n, rx⟩, g, se, gn⟩
  simp only at h
  subst h
  cases op with
  | dsend x => cases gn <;> simp [Sys.step, dsend]
  | disable => cases gn <;> simp [Sys.step, ddisable]
  | dropTx => cases gn <;> simp [Sys.step]
  | dropRx => rfl
  | recv =>
    simp only [Sys.step]
    split
    · split <;> rfl
    · rfl

theorem run_disabled {α : Type} (ops : List (Op α)) (s : Sys α) (h : s.d = .disabled) : (s.run ops).d = .disabled := by
  induction ops generalizing s with
  | nil => exact h
  | cons op ops ih => exact ih (s.step op) (step_disabled s op h)

theorem dropTx_not_mem_schedule {κ : Type} (cons : Nat → List (Op κ)) (h : ∀ k, ConsumerOnly (cons k)) (k : Nat)
    (ts : List κ) : Op.dropTx ∉ schedule cons k ts := by
  induction ts generalizing k with
  | nil => simp [schedule]
  | cons t ts ih =>
    simp only [schedule, List.mem_append, List.mem_singleton, not_or]
    refine ⟨⟨fun hm => ?_, by simp⟩, ih (k + 1)⟩
    rcases h k _ hm with h1 | h1 <;> cases h1

/-- The run closure over a channel: the audit transmitter + receiver system has gone through the history
`schedule cons 0 ticks ++ [.dropTx]` (its `d` is the state the transmitter was dropped in). -/
theorem runClosure_eq_sys {ε ι κ χ ρ : Type} (E : Runner ε ι κ) (cons : Nat → List (Op κ))
    (hc : ∀ k, ConsumerOnly (cons k)) (xtx : Tx χ (XReq ρ)) (linksOf : ε → List (Option χ)) (e : ε) (feed : List ι) :
    let r := runClosure E sysTx (consumerEnv cons) xtx linksOf e (Sys.init .active) feed
    ({ r.world with d := r.tx, gone := true } : Sys κ) =
      (Sys.init .active : Sys κ).run (schedule cons 0 (runTicks E e feed) ++ [.dropTx]) := by
  have h := runAudited_eq_sys E cons hc 0 e .active (Sys.init .active) feed rfl
  simp only at h
  rw [show sync .active (Sys.init .active : Sys κ) = Sys.init .active from rfl] at h
  simp only [runClosure]
  generalize (runAudited E sysTx (consumerEnv cons) 0 e .active (Sys.init .active) feed) = a at h ⊢
  rw [Sys.run_append, ← h.1]
  rcases a with ⟨en, sh, d, ⟨d0, c, g, se, gn⟩⟩
  have hg : gn = false := h.2
  subst hg
  cases d <;> simp [ddrop, sysTx, sync, Sys.run, Sys.step, chanTx]

/-- the joint history of a run closure: the audit side goes through `schedule ++ [.dropTx]`, the execution
transmitters get the one broadcast -/
theorem closureOps_run {κ χ ρ : Type} (xtx : Tx χ (XReq ρ)) (cons : Nat → List (Op κ)) (ticks : List κ)
    (s : Sys κ) (links : List (Option χ)) :
    JW.run xtx ⟨s, links⟩ (closureOps cons ticks) =
      ⟨s.run (schedule cons 0 ticks ++ [.dropTx]), shutdownBroadcast xtx links⟩ := by
  simp only [closureOps, JW.run_append, JW.run_sys, Sys.run_append]
  simp [JW.run, JW.step, Sys.run]

/-- program order of a run closure: the broadcast comes after every record has been offered, the drop
after the broadcast -/
theorem closureOps_order {κ : Type} (cons : Nat → List (Op κ)) (hc : ∀ k, ConsumerOnly (cons k)) (ticks : List κ)
    (p : List (JOp κ)) (hp : p <+: closureOps cons ticks) :
    (JOp.shutdown ∈ p → offeredOf (sysOps p) = ticks) ∧ (JOp.sys .dropTx ∈ p → JOp.shutdown ∈ p) := by
  have hoff := offeredOf_schedule cons hc 0 ticks
  have hnd := dropTx_not_mem_schedule cons hc 0 ticks
  have hcl : closureOps cons ticks = ((schedule cons 0 ticks).map .sys ++ [.shutdown]) ++ [.sys .dropTx] := by
    simp [closureOps]
  rw [hcl] at hp
  rcases List.prefix_concat_iff.mp hp with rfl | hp
  · refine ⟨fun _ => ?_, fun _ => by simp⟩
    simp [sysOps_append, sysOps_map_sys, sysOps, offeredOf_append, hoff, offeredOf]
  · rcases List.prefix_concat_iff.mp hp with rfl | hp
    · refine ⟨fun _ => ?_, fun _ => by simp⟩
      simp [sysOps_append, sysOps_map_sys, sysOps, hoff]
    · refine ⟨fun hm => ?_, fun hm => ?_⟩
      · exact absurd (hp.subset hm) (shutdown_not_mem_map_sys _)
      · have := hp.subset hm
        simp only [List.mem_map, JOp.sys.injEq, exists_eq_right] at this
        exact absurd this hnd

end BarterModel.Chan
