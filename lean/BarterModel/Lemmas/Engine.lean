import BarterModel.Model.Engine
import BarterModel.Lemmas.Orders
/-! Helper lemmas for C03 / C19. -/
namespace BarterModel.Engine
open BarterModel.Orders

theorem modifyInstr_length (l : List Instr) (i : Nat) (f : Instr → Instr) :
    (modifyInstr l i f).length = l.length := by
  unfold modifyInstr; split <;> simp

theorem modifyInstr_getElem? (l : List Instr) (i j : Nat) (f : Instr → Instr) :
    (modifyInstr l i f)[j]? = if j = i then l[i]?.map f else l[j]? := by
  unfold modifyInstr
  split
  · rename_i x hx
    have hi : i < l.length := (List.getElem?_eq_some_iff.mp hx).1
    by_cases h : j = i
    · subst h
      have : l[j] = x := (List.getElem?_eq_some_iff.mp hx).2
      simp [hi, this]
    · simp [h, Ne.symm h]
  · rename_i hx
    by_cases h : j = i
    · subst h; simp [hx]
    · simp [h]

theorem sendRequests_fst {α : Type} (e : Eng) (toReq : α → Req) (rs : List α) :
    (sendRequests e toReq rs).1 = { e with log := e.log ++ (sendRequests e toReq rs).2.sent.map toReq } := rfl

theorem sendRequests_instruments {α : Type} (e : Eng) (toReq : α → Req) (rs : List α) :
    (sendRequests e toReq rs).1.instruments = e.instruments ∧
    (sendRequests e toReq rs).1.links = e.links ∧
    (sendRequests e toReq rs).1.enabled = e.enabled := ⟨rfl, rfl, rfl⟩

theorem recordOpen_log (e : Eng) (r : OpenReq) : (recordOpen e r).log = e.log ∧
    (recordOpen e r).links = e.links ∧ (recordOpen e r).enabled = e.enabled := ⟨rfl, rfl, rfl⟩
theorem recordCancel_log (e : Eng) (r : CancelReq) : (recordCancel e r).log = e.log ∧
    (recordCancel e r).links = e.links ∧ (recordCancel e r).enabled = e.enabled := ⟨rfl, rfl, rfl⟩

theorem recordOpens_log (e : Eng) (rs : List OpenReq) : (recordOpens e rs).log = e.log ∧
    (recordOpens e rs).links = e.links ∧ (recordOpens e rs).enabled = e.enabled := by
  induction rs generalizing e with
  | nil => exact ⟨rfl, rfl, rfl⟩
  | cons r rs ih =>
    simp only [recordOpens, List.foldl_cons] at *
    have := ih (recordOpen e r)
    simpa [recordOpen] using this

theorem recordCancels_log (e : Eng) (rs : List CancelReq) : (recordCancels e rs).log = e.log ∧
    (recordCancels e rs).links = e.links ∧ (recordCancels e rs).enabled = e.enabled := by
  induction rs generalizing e with
  | nil => exact ⟨rfl, rfl, rfl⟩
  | cons r rs ih =>
    simp only [recordCancels, List.foldl_cons] at *
    have := ih (recordCancel e r)
    simpa [recordCancel] using this

/-- effect of recording one open on the tracked state of any `(i, c)` -/
theorem orderState_recordOpen (e : Eng) (r : OpenReq) (i c : Nat) :
    orderState (recordOpen e r) i c =
      if i = r.key.instrument ∧ c = r.key.cid ∧ i < e.instruments.length then some .inFlight
      else orderState e i c := by
  unfold orderState recordOpen
  simp only [modifyInstr_getElem?]
  by_cases hi : i = r.key.instrument
  · subst hi
    cases hs : e.instruments[r.key.instrument]? with
    | none =>
      have : ¬ r.key.instrument < e.instruments.length := by
        intro h; simp [List.getElem?_eq_getElem h] at hs
      simp [this]
    | some s =>
      have hl : r.key.instrument < e.instruments.length := (List.getElem?_eq_some_iff.mp hs).1
      by_cases hc : c = r.key.cid
      · subst hc; simp [hl, stateOf, recordInFlightOpen, lookup_insert_self]
      · simp [hc, stateOf, recordInFlightOpen, lookup_insert_ne _ _ _ _ hc]
  · simp [hi]

/-- effect of recording one cancel on the tracked state of any `(i, c)` -/
theorem orderState_recordCancel (e : Eng) (r : CancelReq) (i c : Nat) :
    orderState (recordCancel e r) i c =
      if i = r.key.instrument ∧ c = r.key.cid then
        (orderState e i c).map (fun a => .cancelInFlight a.openMeta)
      else orderState e i c := by
  unfold orderState recordCancel
  simp only [modifyInstr_getElem?]
  by_cases hi : i = r.key.instrument
  · subst hi
    cases hs : e.instruments[r.key.instrument]? with
    | none => simp
    | some s =>
      by_cases hc : c = r.key.cid
      · subst hc
        simp only [↓reduceIte, Option.map_some, and_self, stateOf, recordInFlightCancel]
        cases hl : lookup s.orders r.key.cid with
        | none => simp [hl]
        | some cur => simp [lookup_setState_self]
      · simp only [↓reduceIte, Option.map_some, hc, and_false, stateOf, recordInFlightCancel]
        cases hl : lookup s.orders r.key.cid with
        | none => rfl
        | some cur => simp [lookup_setState_ne _ _ _ _ _ hc]
  · simp [hi]

theorem recordOpen_length (e : Eng) (r : OpenReq) :
    (recordOpen e r).instruments.length = e.instruments.length := by
  simp [recordOpen, modifyInstr_length]

theorem recordOpens_length (e : Eng) (rs : List OpenReq) :
    (recordOpens e rs).instruments.length = e.instruments.length := by
  induction rs generalizing e with
  | nil => rfl
  | cons r rs ih =>
    simp only [recordOpens, List.foldl_cons] at *
    rw [ih, recordOpen_length]

theorem recordCancel_length (e : Eng) (r : CancelReq) :
    (recordCancel e r).instruments.length = e.instruments.length := by
  simp [recordCancel, modifyInstr_length]

theorem recordCancels_length (e : Eng) (rs : List CancelReq) :
    (recordCancels e rs).instruments.length = e.instruments.length := by
  induction rs generalizing e with
  | nil => rfl
  | cons r rs ih =>
    simp only [recordCancels, List.foldl_cons] at *
    rw [ih, recordCancel_length]

/-- after recording a list of opens, an `(i,c)` not named by any of them is untouched -/
theorem orderState_recordOpens_other (e : Eng) (rs : List OpenReq) (i c : Nat)
    (h : ∀ r ∈ rs, ¬ (r.key.instrument = i ∧ r.key.cid = c)) :
    orderState (recordOpens e rs) i c = orderState e i c := by
  induction rs generalizing e with
  | nil => rfl
  | cons r rs ih =>
    simp only [recordOpens, List.foldl_cons] at *
    rw [ih _ (fun x hx => h x (by simp [hx])), orderState_recordOpen]
    have := h r (by simp)
    split
    · rename_i hh; exact absurd ⟨hh.1.symm, hh.2.1.symm⟩ this
    · rfl

/-- every recorded open is shown in flight afterwards -/
theorem orderState_recordOpens_mem (e : Eng) (rs : List OpenReq) (r : OpenReq) (hr : r ∈ rs)
    (hi : r.key.instrument < e.instruments.length) :
    orderState (recordOpens e rs) r.key.instrument r.key.cid = some .inFlight := by
  -- generalise: once in flight, recording more opens keeps it in flight
  have keep : ∀ (rs : List OpenReq) (e : Eng), orderState e r.key.instrument r.key.cid = some .inFlight →
      orderState (recordOpens e rs) r.key.instrument r.key.cid = some .inFlight := by
    intro rs
    induction rs with
    | nil => intro e h; exact h
    | cons a rs ih =>
      intro e h
      simp only [recordOpens, List.foldl_cons]
      apply ih
      rw [orderState_recordOpen]; split <;> simp [h]
  induction rs generalizing e with
  | nil => cases hr
  | cons a rs ih =>
    simp only [recordOpens, List.foldl_cons]
    rcases List.mem_cons.mp hr with rfl | hr'
    · apply keep
      rw [orderState_recordOpen]; simp [hi]
    · exact ih (recordOpen e a) hr' (by rw [recordOpen_length]; exact hi)

/-- every recorded cancel of a tracked order leaves it cancel-in-flight -/
theorem orderState_recordCancels_mem (e : Eng) (rs : List CancelReq) (r : CancelReq) (hr : r ∈ rs)
    (a : Active) (ha : orderState e r.key.instrument r.key.cid = some a) :
    ∃ x, orderState (recordCancels e rs) r.key.instrument r.key.cid = some (.cancelInFlight x) := by
  have keep : ∀ (rs : List CancelReq) (e : Eng) (x : Option Open),
      orderState e r.key.instrument r.key.cid = some (.cancelInFlight x) →
      orderState (recordCancels e rs) r.key.instrument r.key.cid = some (.cancelInFlight x) := by
    intro rs
    induction rs with
    | nil => intro e x h; exact h
    | cons b rs ih =>
      intro e x h
      simp only [recordCancels, List.foldl_cons]
      apply ih
      rw [orderState_recordCancel]; split <;> simp [h, Active.openMeta]
  induction rs generalizing e a with
  | nil => cases hr
  | cons b rs ih =>
    simp only [recordCancels, List.foldl_cons]
    rcases List.mem_cons.mp hr with rfl | hr'
    · refine ⟨a.openMeta, ?_⟩
      apply keep
      rw [orderState_recordCancel]; simp [ha]
    · -- b may or may not name the same order; either way it stays tracked
      have hb := orderState_recordCancel e b r.key.instrument r.key.cid
      by_cases hsame : r.key.instrument = b.key.instrument ∧ r.key.cid = b.key.cid
      · rw [if_pos hsame, ha] at hb
        exact ih (recordCancel e b) hr' _ hb
      · rw [if_neg hsame, ha] at hb
        exact ih (recordCancel e b) hr' _ hb

/-- untracked stays untracked under cancel recording -/
theorem orderState_recordCancels_none (e : Eng) (rs : List CancelReq) (i c : Nat)
    (h : orderState e i c = none) : orderState (recordCancels e rs) i c = none := by
  induction rs generalizing e with
  | nil => exact h
  | cons b rs ih =>
    simp only [recordCancels, List.foldl_cons]
    apply ih
    rw [orderState_recordCancel]; split <;> simp [h]

end BarterModel.Engine
