import BarterModel.Lemmas.L2Pipeline
/-!
The lifted C06 guarantee for REST snapshots of LIMITED depth (review of the sub-check theorems,
`audit/sub/report_A.md` #1): the invariant `ConnSyncedOn` of `Lemmas/PartialDepth.lean` carried through
the pipeline's state machine. The parameters of the invariant (per subscription: the snapshot id and the
prices the snapshot covers) are those of the connection the state belongs to, so the state machine is
run together with a ghost component: the snapshots of the last connection that came up.
-/
namespace BarterModel.L2Pipeline
open BarterModel.Book BarterModel.BinanceL2 BarterModel.ExStream

/-- the snapshot id subscription `a` starts from in a connection whose initial events are `g` -/
def subSeq (cfg : Config) (g : List MarketEv) (a : Nat) : Nat :=
  match cfg.instrumentMap.lookup a with
  | some key => snapSeq g key
  | none => 0

/-- the prices the snapshot of subscription `a` covers in a connection whose initial events are `g`,
for a coverage function `cover a snapshot` (e.g. `fun _ b sd p => coveredBy 100 sd (sideOf b sd) p`) -/
def subCover (cfg : Config) (cover : Nat → OrderBook → Side → Rat → Prop) (g : List MarketEv) (a : Nat) :
    Side → Rat → Prop :=
  match cfg.instrumentMap.lookup a with
  | some key =>
    match firstSnapshot g key with
    | some b0 => cover a b0
    | none => fun _ _ => False
  | none => fun _ _ => False

theorem lookup_map_pairs {β : Type} (l : List (Nat × Nat)) (g : Nat × Nat → β) (a : Nat) (y : β)
    (h : (l.map fun x => (x.1, g x)).lookup a = some y) : ∃ key, l.lookup a = some key ∧ y = g (a, key) := by
  induction l with
  | nil => simp at h
  | cons x xs ih =>
    obtain ⟨s, k⟩ := x
    simp only [List.map_cons, List.lookup] at h ⊢
    by_cases ha : a = s
    · subst ha
      simp only [beq_self_eq_true, Option.some.injEq] at h ⊢
      exact ⟨k, rfl, h.symm⟩
    · have : (a == s) = false := by simpa using ha
      rw [this] at h ⊢
      exact ih h

/-- the REST snapshots of one connection are genuine ON the prices they cover: one initial event per
instrument, and the snapshot of every subscribed instrument is strictly ordered and agrees with its
venue's book at its id on `cover sub snapshot` -/
structure SnapshotsGenuineOn (cfg : Config) (venues : Nat → Venue)
    (cover : Nat → OrderBook → Side → Rat → Prop) (snaps : List MarketEv) : Prop where
  keys : (snaps.map (·.1)).Nodup
  genuine : ∀ x ∈ cfg.instrumentMap, ∀ b, firstSnapshot snaps x.2 = some b →
    SortedBook b ∧ GenuineSnapshotOn (venues x.1) b.sequence b (cover x.1 b)

/-- the full-depth hypothesis is the case `cover = everything` -/
theorem snapshotsGenuine_iff_on_all (cfg : Config) (venues : Nat → Venue) (snaps : List MarketEv) :
    SnapshotsGenuine cfg venues snaps ↔ SnapshotsGenuineOn cfg venues (fun _ _ _ _ => True) snaps := by
  constructor
  · intro h
    exact ⟨h.keys, fun x hx b hb => ⟨(h.genuine x hx b hb).1,
      (genuineSnapshot_iff_on_all _ _ _).mp (h.genuine x hx b hb).2⟩⟩
  · intro h
    exact ⟨h.keys, fun x hx b hb => ⟨(h.genuine x hx b hb).1,
      (genuineSnapshot_iff_on_all _ _ _).mpr (h.genuine x hx b hb).2⟩⟩

/-- a freshly initialised connection on persisting books satisfies the partial-depth invariant with the
parameters of its own snapshots — whatever the books held before -/
theorem open_syncedOn (cfg : Config) (venues : Nat → Venue) (cover : Nat → OrderBook → Side → Rat → Prop)
    (books : Books) (snaps : List MarketEv) (t : Transformer) (alive : Bool)
    (hkeys : (cfg.instrumentMap.map (·.2)).Nodup) (hbooks : HasBooks cfg books)
    (hs : SnapshotsGenuineOn cfg venues cover snaps) (hi : Transformer.init cfg.instrumentMap snaps = .ok t) :
    ConnSyncedOn venues (subSeq cfg snaps) (subCover cfg cover snaps) ⟨t, applySnapshots books snaps, alive⟩ := by
  obtain ⟨hmap, hsome⟩ := init_ok cfg.instrumentMap snaps t hi
  constructor
  · intro a a' im im' h1 h2 hk
    simp only [hmap] at h1 h2
    obtain ⟨x, hx, hxa, hxm⟩ := lookup_map_some cfg.instrumentMap (·.1) _ a im h1
    obtain ⟨y, hy, hya, hym⟩ := lookup_map_some cfg.instrumentMap (·.1) _ a' im' h2
    have hxy : x = y := eq_of_nodup_map cfg.instrumentMap (·.2) hkeys x y hx hy (by
      rw [← hxm, ← hym] at hk; exact hk)
    rw [← hxa, ← hya, hxy]
  · intro a im h1
    simp only [hmap] at h1
    obtain ⟨key, hlk, him⟩ := lookup_map_pairs cfg.instrumentMap _ a im h1
    have hx : (a, key) ∈ cfg.instrumentMap := mem_of_lookup _ _ _ hlk
    have hfs := hsome (a, key) hx
    cases hb : firstSnapshot snaps key with
    | none => simp [hb] at hfs
    | some b =>
      obtain ⟨hsorted, hgen⟩ := hs.genuine (a, key) hx b hb
      have hbk := hbooks (a, key) hx
      cases hb0 : books.lookup key with
      | none => simp [hb0] at hbk
      | some b0 =>
        refine ⟨b, ?_, ?_⟩
        · rw [him]
          simp only
          rw [applySnapshots_lookup, hb0]
          simp [applyFor_unique key snaps b0 b hs.keys (firstSnapshot_mem snaps key b hb)]
        · rw [him]
          have := start_syncedOn (venues a) b.sequence b (cover a b) hsorted hgen
          simp only [subSeq, subCover, hlk, snapSeq, hb]
          exact this

/-- the venue contract for one connection with snapshots of limited depth: `Contract` with
`SnapshotsGenuine` weakened to `SnapshotsGenuineOn … cover` -/
structure ContractOn (cfg : Config) (venues : Nat → Venue) (cover : Nat → OrderBook → Side → Rat → Prop)
    (c : ConnInput) : Prop where
  noBuffered : c.buffered = []
  snapshots : SnapshotsGenuineOn cfg venues cover c.snapshots
  frames : ∀ f ∈ c.frames, ∀ m, ExStream.parse cfg.de f = some (.ok m) →
    (cfg.instrumentMap.lookup m.sub).isSome → IsGenuine cfg.rules (venues m.sub) m

theorem contract_iff_on_all (cfg : Config) (venues : Nat → Venue) (c : ConnInput) :
    Contract cfg venues c ↔ ContractOn cfg venues (fun _ _ _ _ => True) c :=
  ⟨fun h => ⟨h.noBuffered, (snapshotsGenuine_iff_on_all _ _ _).mp h.snapshots, h.frames⟩,
   fun h => ⟨h.noBuffered, (snapshotsGenuine_iff_on_all _ _ _).mpr h.snapshots, h.frames⟩⟩

/-- the invariant along one connection's messages (every message of a subscribed instrument genuine) -/
theorem connSyncedOn_run {r : Rules} {venues : Nat → Venue} {s : Nat → Nat} {P : Nat → Side → Rat → Prop}
    {c : Conn} {ms : List Update} (hc : ConnSyncedOn venues s P c)
    (hg : ∀ m ∈ ms, (c.transformer.instrumentMap.lookup m.sub).isSome → IsGenuine r (venues m.sub) m) :
    ConnSyncedOn venues s P (c.run r ms) := by
  induction ms generalizing c with
  | nil => exact hc
  | cons m ms ih =>
    simp only [Conn.run, List.foldl_cons]
    refine ih (connSyncedOn_step' hc (fun im him _ => hg m (by simp) (by simp [him]))) ?_
    intro x hx hsome
    exact hg x (by simp [hx]) (by rw [← step_subscribed r c m x.sub]; exact hsome)

/-- a connection that comes up under the partial-depth contract ends in a state satisfying the
invariant with the parameters of its own snapshots -/
theorem openConn_syncedOn (cfg : Config) (venues : Nat → Venue) (cover : Nat → OrderBook → Side → Rat → Prop)
    (books : Books) (c : ConnInput) (st : Conn)
    (hkeys : (cfg.instrumentMap.map (·.2)).Nodup) (hbooks : HasBooks cfg books)
    (hc : ContractOn cfg venues cover c) (ho : openConn cfg books c = some st) :
    ConnSyncedOn venues (subSeq cfg c.snapshots) (subCover cfg cover c.snapshots) st := by
  unfold openConn at ho
  cases hi : Transformer.init cfg.instrumentMap c.snapshots with
  | error e => simp [hi] at ho
  | ok t =>
    simp only [hi, Option.some.injEq] at ho
    subst ho
    have h0 := open_syncedOn cfg venues cover books c.snapshots t true hkeys hbooks hc.snapshots hi
    have hrun : ConnSyncedOn venues (subSeq cfg c.snapshots) (subCover cfg cover c.snapshots)
        (c.frames.foldl (frameStep cfg) ⟨t, applySnapshots books c.snapshots, true⟩) := by
      rw [updatesOf_fold]
      apply connSyncedOn_run h0
      intro m hm hsub
      obtain ⟨f, hf, hp⟩ := mem_updatesOf cfg.de c.frames m hm
      simp only at hsub
      rw [init_subscribed cfg.instrumentMap c.snapshots t hi] at hsub
      exact hc.frames f hf m hp hsub
    exact ⟨hrun.keysInj, hrun.inv⟩

/-! ## the state machine with its ghost: the snapshots of the last connection that came up -/

/-- `runConns` together with the initial events of the connection the resulting state belongs to -/
def runConnsG (cfg : Config) : Conn × List MarketEv → List ConnInput → Conn × List MarketEv
  | sg, [] => sg
  | (st, g), c :: cs =>
    match openConn cfg st.books c with
    | none => runConnsG cfg (st, g) cs
    | some st' => if st'.alive then (st', c.snapshots) else runConnsG cfg (st', c.snapshots) cs

theorem runConnsG_fst (cfg : Config) (st : Conn) (g : List MarketEv) (conns : List ConnInput) :
    (runConnsG cfg (st, g) conns).1 = runConns cfg st conns := by
  induction conns generalizing st g with
  | nil => rfl
  | cons c cs ih =>
    simp only [runConnsG, runConns]
    cases ho : openConn cfg st.books c with
    | none => exact ih st g
    | some st' =>
      simp only
      split
      · rfl
      · exact ih st' c.snapshots

/-- the initial events (REST snapshots) of the connection the pipeline's state belongs to: those of the
last connection that came up (`[]` before the first) -/
def currentSnapshots (cfg : Config) (books : Books) : List ConnInput → List MarketEv
  | [] => []
  | c :: cs =>
    match openConn cfg books c with
    | none => []
    | some _ => (runConnsG cfg (⟨⟨[]⟩, books, false⟩, []) (c :: cs)).2

/-- **the partial-depth invariant along the whole input**, with the parameters of the current connection -/
theorem runConnsG_syncedOn (cfg : Config) (venues : Nat → Venue) (cover : Nat → OrderBook → Side → Rat → Prop)
    (st : Conn) (g : List MarketEv) (conns : List ConnInput)
    (hkeys : (cfg.instrumentMap.map (·.2)).Nodup) (hbooks : HasBooks cfg st.books)
    (hst : ConnSyncedOn venues (subSeq cfg g) (subCover cfg cover g) st)
    (hc : ∀ c ∈ conns, ContractOn cfg venues cover c) :
    ConnSyncedOn venues (subSeq cfg (runConnsG cfg (st, g) conns).2)
      (subCover cfg cover (runConnsG cfg (st, g) conns).2) (runConnsG cfg (st, g) conns).1 := by
  induction conns generalizing st g with
  | nil => exact hst
  | cons c cs ih =>
    have hcs : ∀ c ∈ cs, ContractOn cfg venues cover c := fun x hx => hc x (by simp [hx])
    simp only [runConnsG]
    cases ho : openConn cfg st.books c with
    | none => exact ih st g hbooks hst hcs
    | some st' =>
      have hs' := openConn_syncedOn cfg venues cover st.books c st' hkeys hbooks (hc c (by simp)) ho
      simp only
      split
      · exact hs'
      · exact ih st' c.snapshots (openConn_hasBooks cfg st.books c st' hbooks ho) hs' hcs

/-- the empty state satisfies every connection invariant -/
theorem connSyncedOn_empty (venues : Nat → Venue) (s : Nat → Nat) (P : Nat → Side → Rat → Prop) (books : Books)
    (alive : Bool) : ConnSyncedOn venues s P ⟨⟨[]⟩, books, alive⟩ :=
  ⟨fun a a' im im' h => by simp at h, fun a im h => by simp at h⟩

/-- the invariant for the pipeline's state, parameters = those of `currentSnapshots` -/
theorem pipelineState_syncedOn (cfg : Config) (venues : Nat → Venue) (cover : Nat → OrderBook → Side → Rat → Prop)
    (books : Books) (conns : List ConnInput)
    (hkeys : (cfg.instrumentMap.map (·.2)).Nodup) (hbooks : HasBooks cfg books)
    (hc : ∀ c ∈ conns, ContractOn cfg venues cover c) :
    ConnSyncedOn venues (subSeq cfg (currentSnapshots cfg books conns))
      (subCover cfg cover (currentSnapshots cfg books conns)) (pipelineState cfg books conns) := by
  cases conns with
  | nil => exact connSyncedOn_empty _ _ _ _ _
  | cons c cs =>
    simp only [pipelineState, currentSnapshots]
    cases ho : openConn cfg books c with
    | none => exact connSyncedOn_empty _ _ _ _ _
    | some st0 =>
      simp only
      rw [← runConnsG_fst cfg ⟨⟨[]⟩, books, false⟩ [] (c :: cs)]
      exact runConnsG_syncedOn cfg venues cover ⟨⟨[]⟩, books, false⟩ [] (c :: cs) hkeys hbooks
        (connSyncedOn_empty _ _ _ _ _) hc

/-- what `currentSnapshots` is: when the last connection of the input comes up and everything before it is
over (so that it is reached), the current snapshots are that connection's -/
theorem currentSnapshots_last (cfg : Config) (books : Books) (pre : List ConnInput) (c : ConnInput)
    (hfirst : specFin cfg (pre ++ [c]) = .pending) (hnb : ∀ x ∈ pre, x.buffered = [])
    (hpre : allOver cfg pre = true) (hopen : (connItems cfg c).isSome) :
    currentSnapshots cfg books (pre ++ [c]) = c.snapshots := by
  have key : ∀ (st : Conn) (g : List MarketEv) (l : List ConnInput), st.alive = false →
      (∀ x ∈ l, x.buffered = []) → allOver cfg l = true →
      (runConnsG cfg (st, g) (l ++ [c])).2 = c.snapshots := by
    intro st g l
    induction l generalizing st g with
    | nil =>
      intro _ _ _
      have hsome := openConn_isSome cfg st.books c
      rw [hopen] at hsome
      simp only [List.nil_append, runConnsG]
      cases ho : openConn cfg st.books c with
      | none => simp [ho] at hsome
      | some st' => simp only; split <;> rfl
    | cons x xs ih =>
      intro hst hnb' hov
      simp only [List.cons_append, runConnsG]
      have hxs : ∀ y ∈ xs, y.buffered = [] := fun y hy => hnb' y (by simp [hy])
      cases ho : openConn cfg st.books x with
      | none =>
        have hov' : allOver cfg xs = true := by
          have hsome := openConn_isSome cfg st.books x
          rw [ho] at hsome
          cases hi : connItems cfg x with
          | none => simpa [allOver, hi] using hov
          | some items => simp [hi] at hsome
        exact ih st g hst hxs hov'
      | some st' =>
        have hv := openConn_view cfg st.books x (hnb' x (by simp))
        cases hi : connItems cfg x with
        | none => simp [hi, ho] at hv
        | some items =>
          simp only [hi, ho] at hv
          simp only [allOver, hi, Bool.and_eq_true] at hov
          have hdead : st'.alive = false := by rw [hv.2]; simp [hov.1]
          simp only [hdead, Bool.false_eq_true, ↓reduceIte]
          exact ih st' x.snapshots hdead hxs hov.2
  cases pre with
  | nil =>
    have hsome := openConn_isSome cfg books c
    rw [hopen] at hsome
    simp only [List.nil_append, currentSnapshots]
    cases ho : openConn cfg books c with
    | none => simp [ho] at hsome
    | some st' =>
      simp only [runConnsG, ho]
      split <;> rfl
  | cons p ps =>
    have hsome := openConn_isSome cfg books p
    have hp : (connItems cfg p).isSome := by
      cases hi : connItems cfg p with
      | none => simp [specFin, hi] at hfirst
      | some _ => rfl
    rw [hp] at hsome
    simp only [List.cons_append, currentSnapshots]
    cases ho : openConn cfg books p with
    | none => simp [ho] at hsome
    | some st' =>
      simp only
      exact key ⟨⟨[]⟩, books, false⟩ [] (p :: ps) rfl hnb hpre

/-! ## the manager's cells with the code's binary search (report_A C06E-3) -/

theorem updateBS_eq {b : OrderBook} (ev : Event) (h : SortedBook b) : updateBS b ev = b.update ev := by
  cases ev with
  | snapshot s => rfl
  | update u =>
    simp only [updateBS, OrderBook.update]
    rw [BookManager.upsertBS_eq_scan _ h.bids, BookManager.upsertBS_eq_scan _ h.asks]

theorem managerStepBS_eq (books : Books) (ev : StreamEvent) (hb : ∀ kb ∈ books, SortedBook kb.2) :
    managerStepBS books ev = managerStep books ev := by
  cases ev with
  | reconnecting => rfl
  | item k e =>
    simp only [managerStepBS, managerStep]
    apply List.map_congr_left
    intro kb hkb
    obtain ⟨k', b⟩ := kb
    by_cases h : k' = k
    · simp only [h, ↓reduceIte]; rw [updateBS_eq e (hb _ hkb)]
    · simp only [h, ↓reduceIte]

theorem managerStep_sorted (books : Books) (ev : StreamEvent) (hb : ∀ kb ∈ books, SortedBook kb.2)
    (hs : ∀ k sn, ev = .item k (.snapshot sn) → SortedBook sn) :
    ∀ kb ∈ managerStep books ev, SortedBook kb.2 := by
  cases ev with
  | reconnecting => exact hb
  | item k e =>
    intro kb hkb
    simp only [managerStep, List.mem_map] at hkb
    obtain ⟨⟨k', b⟩, hmem, heq⟩ := hkb
    by_cases h : k' = k
    · simp only [h, ↓reduceIte] at heq
      subst heq
      exact sortedBook_update (hb _ hmem) (fun sn he => hs k sn (by rw [he]))
    · simp only [h, ↓reduceIte] at heq
      subst heq
      exact hb _ hmem

/-- with strictly ordered initial books and strictly ordered snapshot payloads, the run with the code's
binary search is the run with the scan of `Model/Book.lean` -/
theorem managerRunBS_eq (books : Books) (evs : List StreamEvent) (hb : ∀ kb ∈ books, SortedBook kb.2)
    (hs : ∀ k sn, StreamEvent.item k (.snapshot sn) ∈ evs → SortedBook sn) :
    managerRunBS books evs = managerRun books evs := by
  induction evs generalizing books with
  | nil => rfl
  | cons ev evs ih =>
    simp only [managerRunBS, managerRun, List.foldl_cons]
    rw [managerStepBS_eq books ev hb]
    exact ih (managerStep books ev)
      (managerStep_sorted books ev hb (fun k sn he => hs k sn (by simp [he])))
      (fun k sn he => hs k sn (by simp [he]))

end BarterModel.L2Pipeline
