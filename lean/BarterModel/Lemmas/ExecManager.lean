import BarterModel.Model.ExecManager
/-! Helper lemmas for C07: the bookkeeping invariant of the execution-manager transition system. -/
namespace BarterModel.ExecManager

/-! ### list plumbing -/

theorem perm_move {α : Type} {A P D X : List α} (h : (A ++ P ++ D).Perm X) :
    (A ++ [] ++ (D ++ P)).Perm X := by
  refine List.Perm.trans ?_ h
  simp only [List.append_nil, List.append_assoc]
  exact List.Perm.append_left A List.perm_append_comm

theorem perm_accept {α : Type} {A P D X : List α} (r : α) (h : (A ++ P ++ D).Perm X) :
    (A ++ (P ++ [r]) ++ D).Perm (X ++ [r]) := by
  have h1 : (A ++ (P ++ [r]) ++ D).Perm (A ++ P ++ D ++ [r]) := by
    simp only [List.append_assoc]
    exact List.Perm.append_left A (List.Perm.append_left P List.perm_append_comm)
  exact h1.trans (List.Perm.append_right [r] h)

theorem perm_resolve {α : Type} [DecidableEq α] {A P D X : List α} {r : α} (hr : r ∈ P)
    (h : (A ++ P ++ D).Perm X) : (A ++ [r] ++ P.erase r ++ D).Perm X := by
  refine List.Perm.trans ?_ h
  simp only [List.append_assoc, List.singleton_append]
  exact List.Perm.append_left A (List.Perm.append_right D (List.perm_cons_erase hr).symm)

theorem eq_of_nodup_map {α β : Type} (f : α → β) :
    ∀ {l : List α}, (l.map f).Nodup → ∀ {a b : α}, a ∈ l → b ∈ l → f a = f b → a = b
  | [], _, _, _, ha, _, _ => by cases ha
  | x :: l, hn, a, b, ha, hb, hab => by
    simp only [List.map_cons, List.nodup_cons, List.mem_map, not_exists, not_and] at hn
    rcases List.mem_cons.mp ha with rfl | ha' <;> rcases List.mem_cons.mp hb with rfl | hb'
    · rfl
    · exact absurd hab.symm (hn.1 b hb')
    · exact absurd hab (hn.1 a ha')
    · exact eq_of_nodup_map f hn.2 ha' hb' hab

theorem nodup_of_map {α β : Type} (f : α → β) : ∀ (l : List α), (l.map f).Nodup → l.Nodup
  | [], _ => List.nodup_nil
  | x :: l, h => by
    simp only [List.map_cons, List.nodup_cons, List.mem_map, not_exists, not_and] at h
    exact List.nodup_cons.mpr ⟨fun hx => h.1 x hx rfl, nodup_of_map f l h.2⟩

/-! ### the invariant -/

structure Inv (c : Cfg) (s : State) : Prop where
  /-- every accepted request is in exactly one of: resolved, in flight, dropped -/
  part : (s.resolved.map (·.req) ++ s.pending ++ s.dropped).Perm s.accepted
  /-- request ids are the intake positions -/
  rids : s.accepted.map (·.rid) = List.range s.accepted.length
  /-- the channel carries exactly the events of the resolutions, in order -/
  out : s.out = s.resolved.filterMap (fun x => eventOf c x.req x.fate)
  /-- each resolution's fate is what one `Timeout` poll at the logged time yields -/
  fate : ∀ x ∈ s.resolved, pollReq c x.req x.time = some x.fate ∧ x.time ≤ s.now
  running : s.status = .running → s.dropped = []
  conf : ∀ r ∈ s.accepted, c.configured r.spec.key = true ∧ r.t0 ≤ s.now

theorem inv_init (c : Cfg) : Inv c init := by
  refine ⟨?_, ?_, ?_, ?_, ?_, ?_⟩ <;> simp [init]

theorem find_mem {s : State} {rid : Nat} {r : Req}
    (h : s.pending.find? (fun r => r.rid == rid) = some r) : r ∈ s.pending ∧ r.rid = rid := by
  refine ⟨List.mem_of_find?_eq_some h, ?_⟩
  have := List.find?_some h
  simpa using this

theorem inv_step (c : Cfg) (s : State) (a : Action) (h : Inv c s) : Inv c (step c s a) := by
  cases a with
  | tick dt =>
    refine ⟨h.part, h.rids, h.out, ?_, h.running, ?_⟩
    · intro x hx; have := h.fate x hx; exact ⟨this.1, Nat.le_trans this.2 (Nat.le_add_right _ _)⟩
    · intro r hr; have := h.conf r hr; exact ⟨this.1, Nat.le_trans this.2 (Nat.le_add_right _ _)⟩
  | intake q =>
    simp only [step]
    split
    · exact h
    · split
      · refine ⟨perm_move h.part, h.rids, h.out, h.fate, ?_, h.conf⟩
        intro hs; cases hs
      · rename_i hrun hconf
        refine ⟨perm_accept _ h.part, ?_, h.out, h.fate, ?_, ?_⟩
        · simp [h.rids, List.range_succ]
        · intro hs; exact h.running hs
        · intro r hr
          rcases List.mem_append.mp hr with hr | hr
          · exact h.conf r hr
          · simp only [List.mem_singleton] at hr
            subst hr
            exact ⟨by simpa using hconf, Nat.le_refl _⟩
  | poll rid =>
    simp only [step]
    split
    · exact h
    · split
      · exact h
      · rename_i r hfind
        have hm := (find_mem hfind).1
        split
        · exact h
        · rename_i f hf
          refine ⟨?_, h.rids, ?_, ?_, h.running, h.conf⟩
          · simpa using perm_resolve hm h.part
          · simp only [List.filterMap_append, List.filterMap_cons, List.filterMap_nil, ← h.out]
            cases eventOf c r f <;> simp
          · intro x hx
            rcases List.mem_append.mp hx with hx | hx
            · exact h.fate x hx
            · simp only [List.mem_singleton] at hx
              subst hx
              exact ⟨hf, Nat.le_refl _⟩
  | shutdown =>
    simp only [step]
    split
    · exact h
    · refine ⟨perm_move h.part, h.rids, h.out, h.fate, ?_, h.conf⟩
      intro hs; cases hs

theorem inv_run (c : Cfg) (as : List Action) : ∀ (s : State), Inv c s → Inv c (run c s as) := by
  induction as with
  | nil => intro s h; exact h
  | cons a as ih => intro s h; exact ih _ (inv_step c s a h)

theorem inv_reach (c : Cfg) (as : List Action) : Inv c (run c init as) :=
  inv_run c as init (inv_init c)

/-! ### where accepted requests come from -/

theorem accepted_step (c : Cfg) (s : State) (a : Action) :
    ∀ r ∈ (step c s a).accepted, r ∈ s.accepted ∨ a = .intake r.spec := by
  intro r hr
  cases a with
  | tick dt => exact Or.inl hr
  | intake q =>
    simp only [step] at hr
    split at hr
    · exact Or.inl hr
    · split at hr
      · exact Or.inl hr
      · rcases List.mem_append.mp hr with hr | hr
        · exact Or.inl hr
        · simp only [List.mem_singleton] at hr
          subst hr; exact Or.inr rfl
  | poll rid =>
    simp only [step] at hr
    split at hr
    · exact Or.inl hr
    · split at hr
      · exact Or.inl hr
      · split at hr <;> exact Or.inl hr
  | shutdown =>
    simp only [step] at hr
    split at hr <;> exact Or.inl hr

theorem accepted_run (c : Cfg) (as : List Action) :
    ∀ (s : State), ∀ r ∈ (run c s as).accepted, r ∈ s.accepted ∨ Action.intake r.spec ∈ as := by
  induction as with
  | nil => intro s r hr; exact Or.inl hr
  | cons a as ih =>
    intro s r hr
    rcases ih (step c s a) r hr with h | h
    · rcases accepted_step c s a r h with h | h
      · exact Or.inl h
      · exact Or.inr (by simp [h])
    · exact Or.inr (by simp [h])

/-! ### a faithful client's answer is indexed to the request's own key -/

theorem eventOf_echo (c : Cfg) (r : Req) (f : Fate) (hc : c.configured r.spec.key = true)
    (he : echoes c r.spec = true) : eventOf c r f = some (specEvent r.spec f) := by
  obtain ⟨rid, t0, ⟨kind, key, body, ⟨delay, reply, fills, echo, echoBody⟩⟩⟩ := r
  simp only [echoes, Bool.and_eq_true, beq_iff_eq, Bool.or_eq_true, bne_iff_ne, ne_eq] at he
  obtain ⟨⟨hk, hb⟩, hr⟩ := he
  simp only at hc hk hb hr
  subst hk
  cases f <;> cases kind <;>
    simp only [eventOf, processOpenResponse, processCancelResponse, processOpenTimeout,
      processCancelTimeout, indexKey, hc, specEvent, specResponseEvent, specTimeoutEvent,
      openOutcome, if_true, reduceCtorEq, if_false, false_and, true_and]
  · -- response, open
    have hb' : echoBody = body := by simpa using hb
    subst hb'
    rcases reply with _ | _ | i | (_ | _ | _) | a | a | k <;> simp_all [indexReply, findAssetIndex]
  · -- response, cancel
    rcases reply with _ | _ | i | (_ | _ | _) | a | a | k <;> simp_all [indexReply, findAssetIndex]

theorem specEvent_ident (q : ReqSpec) (f : Fate) : (specEvent q f).ident = (q.kind, q.key) := by
  cases f <;> rfl

/-! ### fate -/

/-- `pollReq` spelled out on the script: the answer wins whenever it is there. -/
theorem pollReq_eq (c : Cfg) (r : Req) (t : Nat) :
    pollReq c r t =
      match r.spec.script.delay with
      | some d => if r.t0 + d ≤ t then some .response
                  else if r.t0 + c.timeout ≤ t then some .timeout else none
      | none => if r.t0 + c.timeout ≤ t then some .timeout else none := by
  unfold pollReq Req.respReady Req.respAt Cfg.deadline
  cases r.spec.script.delay <;> simp

theorem readyAt_eq (c : Cfg) (r : Req) :
    c.readyAt r =
      match r.spec.script.delay with
      | some d => r.t0 + min d c.timeout
      | none => r.t0 + c.timeout := by
  unfold Cfg.readyAt Req.respAt Cfg.deadline
  cases r.spec.script.delay with
  | none => simp
  | some d => simp only [Option.map_some]; omega

theorem pollReq_response_iff (c : Cfg) (r : Req) (t : Nat) (f : Fate) (h : pollReq c r t = some f) :
    (f = .response ↔ ∃ d, r.spec.script.delay = some d ∧ r.t0 + d ≤ t) ∧
      (f = .timeout → r.t0 + c.timeout ≤ t) ∧ c.readyAt r ≤ t := by
  rw [pollReq_eq] at h
  rw [readyAt_eq]
  cases hd : r.spec.script.delay with
  | none =>
    simp only [hd] at h
    split at h
    · cases h; simp_all
    · cases h
  | some d =>
    simp only [hd] at h
    split at h
    · cases h
      refine ⟨?_, ?_, ?_⟩
      · simp_all
      · intro h; cases h
      · simp only; omega
    · split at h
      · cases h
        refine ⟨?_, ?_, ?_⟩
        · simp_all
        · intro _; assumption
        · simp only; omega
      · cases h

/-- Polled at the first instant it can complete, a future's fate is the one the property text
prescribes (response iff it arrives within the timeout). -/
theorem pollReq_prompt (c : Cfg) (r : Req) :
    pollReq c r (c.readyAt r) = some (specFate c.timeout r.spec) := by
  rw [pollReq_eq, readyAt_eq]
  unfold specFate
  cases hd : r.spec.script.delay with
  | none => simp
  | some d =>
    simp only
    by_cases h : d ≤ c.timeout
    · have h1 : r.t0 + d ≤ r.t0 + min d c.timeout := by omega
      simp [h]
    · have h1 : ¬ r.t0 + d ≤ r.t0 + min d c.timeout := by omega
      have h2 : r.t0 + c.timeout ≤ r.t0 + min d c.timeout := by omega
      simp [h1, h2, h]

/-- the only way to deviate from the prescribed fate: a late poll of a late response -/
theorem pollReq_spec_or_late (c : Cfg) (r : Req) (t : Nat) (f : Fate) (h : pollReq c r t = some f) :
    f = specFate c.timeout r.spec ∨
      (f = .response ∧ ∃ d, r.spec.script.delay = some d ∧ c.timeout < d ∧ r.t0 + d ≤ t) := by
  rw [pollReq_eq] at h
  unfold specFate
  cases hd : r.spec.script.delay with
  | none =>
    simp only [hd] at h
    split at h
    · cases h; left; rfl
    · cases h
  | some d =>
    simp only [hd] at h
    split at h
    · cases h
      by_cases hdt : d ≤ c.timeout
      · left; simp [hdt]
      · right; exact ⟨rfl, d, rfl, by omega, by assumption⟩
    · split at h
      · cases h
        left
        have : ¬ d ≤ c.timeout := by omega
        simp [this]
      · cases h

theorem pollReq_ready (c : Cfg) (r : Req) (t : Nat) (h : c.readyAt r ≤ t) :
    ∃ f, pollReq c r t = some f := by
  rw [pollReq_eq]
  rw [readyAt_eq] at h
  cases hd : r.spec.script.delay with
  | none =>
    simp only [hd] at h
    simp [h]
  | some d =>
    simp only [hd] at h
    by_cases h1 : r.t0 + d ≤ t
    · exact ⟨.response, by simp [h1]⟩
    · have h2 : r.t0 + c.timeout ≤ t := by omega
      exact ⟨.timeout, by simp [h1, h2]⟩

theorem deadline_ready (c : Cfg) (r : Req) : c.readyAt r ≤ c.deadline r := by
  rw [readyAt_eq]; unfold Cfg.deadline
  cases r.spec.script.delay with
  | none => simp
  | some d => simp only; omega

/-! ### consequences of the invariant -/

theorem filterMap_eq_map {α β : Type} (f : α → Option β) (g : α → β) :
    ∀ (l : List α), (∀ x ∈ l, f x = some (g x)) → l.filterMap f = l.map g
  | [], _ => rfl
  | x :: l, h => by
    rw [List.filterMap_cons, h x (by simp), List.map_cons, filterMap_eq_map f g l]
    intro y hy; exact h y (by simp [hy])

theorem resolved_accepted {c : Cfg} {s : State} (h : Inv c s) :
    ∀ x ∈ s.resolved, x.req ∈ s.accepted := by
  intro x hx
  apply h.part.subset
  simp only [List.append_assoc, List.mem_append, List.mem_map]
  exact Or.inl ⟨x, hx, rfl⟩

theorem pending_accepted {c : Cfg} {s : State} (h : Inv c s) : ∀ r ∈ s.pending, r ∈ s.accepted := by
  intro r hr
  apply h.part.subset
  simp only [List.append_assoc, List.mem_append]
  exact Or.inr (Or.inl hr)

theorem accepted_nodup {c : Cfg} {s : State} (h : Inv c s) : (s.accepted.map (·.rid)).Nodup := by
  rw [h.rids]; exact List.nodup_range

theorem pending_nodup {c : Cfg} {s : State} (h : Inv c s) : (s.pending.map (·.rid)).Nodup := by
  have h1 := (h.part.map (·.rid)).nodup_iff.mpr (accepted_nodup h)
  have hsub : List.Sublist s.pending (s.resolved.map (·.req) ++ s.pending ++ s.dropped) :=
    (List.sublist_append_right _ _).trans (List.sublist_append_left _ _)
  exact (hsub.map _).nodup h1

theorem find_self {c : Cfg} {s : State} (h : Inv c s) {r : Req} (hr : r ∈ s.pending) :
    s.pending.find? (fun x => x.rid == r.rid) = some r := by
  cases hf : s.pending.find? (fun x => x.rid == r.rid) with
  | none =>
    have := List.find?_eq_none.mp hf r hr
    simp at this
  | some r' =>
    have ⟨hm, hid⟩ := find_mem hf
    rw [eq_of_nodup_map (·.rid) (pending_nodup h) hm hr hid]

/-- Polling a request that is in flight and ready removes exactly it, logs exactly one resolution
and sends at most one event (exactly the indexed one). -/
theorem poll_resolves {c : Cfg} {s : State} (h : Inv c s) (hrun : s.status = .running) {r : Req}
    (hr : r ∈ s.pending) (hready : c.readyAt r ≤ s.now) :
    ∃ f, pollReq c r s.now = some f ∧
      step c s (.poll r.rid) =
        { s with pending := s.pending.erase r, resolved := s.resolved ++ [⟨r, f, s.now⟩],
                 out := match eventOf c r f with
                   | some e => s.out ++ [e]
                   | none => s.out } := by
  obtain ⟨f, hf⟩ := pollReq_ready c r s.now hready
  refine ⟨f, hf, ?_⟩
  simp only [step, hrun, find_self h hr, hf, ne_eq, not_true_eq_false, if_false]
  cases eventOf c r f <;> rfl

theorem not_mem_erase_self {c : Cfg} {s : State} (h : Inv c s) (r : Req) : r ∉ s.pending.erase r := by
  have hn : s.pending.Nodup := by
    have := pending_nodup h
    exact nodup_of_map _ _ this
  intro hm
  exact ((hn.mem_erase_iff).mp hm).1 rfl

theorem poll_frame (c : Cfg) (s : State) (rid : Nat) :
    (step c s (.poll rid)).status = s.status ∧ (step c s (.poll rid)).now = s.now ∧
      (step c s (.poll rid)).accepted = s.accepted ∧
      ∀ r ∈ (step c s (.poll rid)).pending, r ∈ s.pending := by
  simp only [step]
  split
  · exact ⟨rfl, rfl, rfl, fun _ h => h⟩
  · split
    · exact ⟨rfl, rfl, rfl, fun _ h => h⟩
    · split
      · exact ⟨rfl, rfl, rfl, fun _ h => h⟩
      · exact ⟨rfl, rfl, rfl, fun _ h => List.mem_of_mem_erase h⟩

/-- Polling a list of requests that are ready leaves none of them in flight. -/
theorem run_polls (c : Cfg) : ∀ (L : List Req) (s : State), Inv c s → s.status = .running →
    (∀ r ∈ L, r ∈ s.pending → c.readyAt r ≤ s.now) →
    let s' := run c s (L.map fun r => .poll r.rid)
    s'.status = .running ∧ s'.now = s.now ∧ s'.accepted = s.accepted ∧
      ∀ r ∈ s'.pending, r ∈ s.pending ∧ r ∉ L := by
  intro L
  induction L with
  | nil => intro s _ hrun _; exact ⟨hrun, rfl, rfl, fun r hr => ⟨hr, by simp⟩⟩
  | cons x L ih =>
    intro s hinv hrun hready
    have hf := poll_frame c s x.rid
    have hinv1 := inv_step c s (.poll x.rid) hinv
    have hx : x ∉ (step c s (.poll x.rid)).pending := by
      by_cases hxp : x ∈ s.pending
      · obtain ⟨f, _, hstep⟩ := poll_resolves hinv hrun hxp (hready x (by simp) hxp)
        rw [hstep]; exact not_mem_erase_self hinv x
      · intro hm; exact hxp (hf.2.2.2 x hm)
    have := ih (step c s (.poll x.rid)) hinv1 (by rw [hf.1]; exact hrun)
      (by
        intro r hr hrp
        rw [hf.2.1]
        exact hready r (by simp [hr]) (hf.2.2.2 r hrp))
    simp only [List.map_cons, run, List.foldl_cons] at this ⊢
    refine ⟨this.1, by rw [this.2.1, hf.2.1], by rw [this.2.2.1, hf.2.2.1], ?_⟩
    intro r hr
    have h1 := this.2.2.2 r hr
    refine ⟨hf.2.2.2 r h1.1, ?_⟩
    intro hm
    rcases List.mem_cons.mp hm with rfl | hm
    · exact hx h1.1
    · exact h1.2 hm

end BarterModel.ExecManager
