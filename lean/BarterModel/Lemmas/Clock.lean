import BarterModel.Model.Clock
/-! Helper lemmas for C20K (engine clocks). -/
namespace BarterModel.Clock

/-! ### chrono truncation -/

theorem numMilliseconds_nonneg_iff (d : Int) : numMilliseconds d ≥ 0 ↔ d > -1000000 := by
  unfold numMilliseconds
  by_cases hd : 0 ≤ d
  · rw [Int.tdiv_eq_ediv_of_nonneg hd]; omega
  · have hneg : d = -(-d) := by omega
    have hpos : 0 ≤ -d := by omega
    rw [hneg, Int.neg_tdiv, Int.tdiv_eq_ediv_of_nonneg hpos]; omega

/-! ### `HistoricalClock::time` -/

theorem time_def (c : HistoricalClock) (now : Int) :
    c.time now =
      if now - c.timeLiveLastEvent > -1000000 then c.timeExchangeLast + (now - c.timeLiveLastEvent)
      else c.timeExchangeLast := by
  unfold HistoricalClock.time
  simp only [numMilliseconds_nonneg_iff]

theorem time_of_ge (c : HistoricalClock) (now : Int) (h : c.timeLiveLastEvent ≤ now) :
    c.time now = c.timeExchangeLast + (now - c.timeLiveLastEvent) := by
  rw [time_def]; split <;> omega

/-! ### `process` -/

theorem process_none (c : HistoricalClock) (now : Int) : (c.process none now).1 = c := rfl

theorem process_accept (c : HistoricalClock) (t now : Int) (h : c.timeExchangeLast ≤ t) :
    (c.process (some t) now).1 = { timeExchangeLast := t, timeLiveLastEvent := now } := by
  simp [HistoricalClock.process, h]

theorem process_older (c : HistoricalClock) (t now : Int) (h : t < c.timeExchangeLast) :
    (c.process (some t) now).1 = c := by
  have : ¬ (c.timeExchangeLast ≤ t) := by omega
  simp [HistoricalClock.process, this]

theorem process_last (c : HistoricalClock) (te : Option Int) (now : Int) :
    (c.process te now).1.timeExchangeLast =
      match te with
      | none => c.timeExchangeLast
      | some t => max t c.timeExchangeLast := by
  cases te with
  | none => rfl
  | some t =>
    by_cases h : c.timeExchangeLast ≤ t
    · rw [process_accept c t now h]; simp only; omega
    · rw [process_older c t now (by omega)]; simp only; omega

theorem run_append (c : HistoricalClock) (a b : List Call) :
    c.run (a ++ b) = (c.run a).run b := by
  simp [HistoricalClock.run, List.foldl_append]

theorem run_cons (c : HistoricalClock) (x : Call) (rest : List Call) :
    c.run (x :: rest) = (c.step x).run rest := rfl

theorem step_last_le (c : HistoricalClock) (x : Call) :
    c.timeExchangeLast ≤ (c.step x).timeExchangeLast := by
  cases x with
  | read now => simp [HistoricalClock.step]
  | process te now =>
    simp only [HistoricalClock.step, process_last]
    cases te with
    | none => simp
    | some t => simp only; omega

theorem run_last_le (c : HistoricalClock) (calls : List Call) :
    c.timeExchangeLast ≤ (c.run calls).timeExchangeLast := by
  induction calls generalizing c with
  | nil => simp [HistoricalClock.run]
  | cons x rest ih =>
    rw [run_cons]
    exact Int.le_trans (step_last_le c x) (ih _)

/-- The anchor after a step is the old anchor or the wall reading of the step. -/
theorem step_anchor (c : HistoricalClock) (x : Call) :
    (c.step x).timeLiveLastEvent = c.timeLiveLastEvent ∨ (c.step x).timeLiveLastEvent = x.now := by
  cases x with
  | read now => left; rfl
  | process te now =>
    cases te with
    | none => left; rfl
    | some t =>
      by_cases h : c.timeExchangeLast ≤ t
      · right; simp [HistoricalClock.step, process_accept c t now h, Call.now]
      · left; simp [HistoricalClock.step, process_older c t now (by omega)]

theorem run_anchor (c : HistoricalClock) (calls : List Call) :
    (c.run calls).timeLiveLastEvent = c.timeLiveLastEvent ∨
      ∃ x ∈ calls, (c.run calls).timeLiveLastEvent = x.now := by
  induction calls generalizing c with
  | nil => left; rfl
  | cons x rest ih =>
    rw [run_cons]
    rcases ih (c.step x) with h | ⟨y, hy, h⟩
    · rcases step_anchor c x with h2 | h2
      · left; rw [h, h2]
      · right; exact ⟨x, by simp, by rw [h, h2]⟩
    · right; exact ⟨y, by simp [hy], h⟩

/-! ### greatest element -/

/-- `r` is the greatest element of `l` (`none` iff `l` is empty). -/
def IsLatest (l : List Int) (r : Option Int) : Prop :=
  match r with
  | none => l = []
  | some m => m ∈ l ∧ ∀ x ∈ l, x ≤ m

theorem IsLatest.unique {l : List Int} {r r' : Option Int} (h : IsLatest l r) (h' : IsLatest l r') :
    r = r' := by
  cases r with
  | none =>
    cases r' with
    | none => rfl
    | some m' => simp only [IsLatest] at h h'; subst h; simp at h'
  | some m =>
    cases r' with
    | none => simp only [IsLatest] at h h'; subst h'; simp at h
    | some m' =>
      simp only [IsLatest] at h h'
      have h1 := h.2 m' h'.1
      have h2 := h'.2 m h.1
      have : m = m' := by omega
      rw [this]

theorem IsLatest.congr {l l' : List Int} {r : Option Int} (hm : ∀ x, x ∈ l ↔ x ∈ l')
    (h : IsLatest l r) : IsLatest l' r := by
  cases r with
  | none =>
    simp only [IsLatest] at h ⊢; subst h
    cases l' with
    | nil => rfl
    | cons a t => have := (hm a).mpr (by simp); simp at this
  | some m =>
    simp only [IsLatest] at h ⊢
    exact ⟨(hm m).mp h.1, fun x hx => h.2 x ((hm x).mpr hx)⟩

theorem latest_isLatest (l : List Int) : IsLatest l (latest l) := by
  induction l with
  | nil => simp [latest, IsLatest]
  | cons t ts ih =>
    unfold latest
    cases hl : latest ts with
    | none =>
      rw [hl] at ih; simp only [IsLatest] at ih; subst ih
      simp [IsLatest]
    | some m =>
      rw [hl] at ih; simp only [IsLatest] at ih ⊢
      refine ⟨?_, ?_⟩
      · by_cases h : t ≤ m
        · have : max t m = m := by omega
          rw [this]; simp [ih.1]
        · have : max t m = t := by omega
          rw [this]; simp
      · intro x hx
        rcases List.mem_cons.mp hx with rfl | hx
        · omega
        · have := ih.2 x hx; omega

theorem maxStep_isLatest (pre : List Int) (acc : Option Int) (t : Int) (h : IsLatest pre acc) :
    IsLatest (pre ++ [t]) (maxStep acc t) := by
  cases acc with
  | none =>
    simp only [IsLatest] at h; subst h; simp [maxStep, IsLatest]
  | some m =>
    simp only [IsLatest] at h
    by_cases htm : t ≥ m
    · simp only [maxStep, htm, ↓reduceIte, IsLatest]
      refine ⟨by simp, ?_⟩
      intro x hx
      rcases List.mem_append.mp hx with hx | hx
      · have := h.2 x hx; omega
      · simp at hx; omega
    · simp only [maxStep, htm, ↓reduceIte, IsLatest]
      refine ⟨by simp [h.1], ?_⟩
      intro x hx
      rcases List.mem_append.mp hx with hx | hx
      · exact h.2 x hx
      · simp at hx; omega

theorem foldl_max_isLatest (l : List Int) (pre : List Int) (acc : Option Int)
    (h : IsLatest pre acc) : IsLatest (pre ++ l) (l.foldl maxStep acc) := by
  induction l generalizing pre acc with
  | nil => simpa using h
  | cons t ts ih =>
    simp only [List.foldl_cons]
    have := ih (pre ++ [t]) (maxStep acc t) (maxStep_isLatest pre acc t h)
    simpa [List.append_assoc] using this

theorem maxOpt_isLatest (l : List Int) : IsLatest l (maxOpt l) := by
  have := foldl_max_isLatest l [] none (by simp [IsLatest])
  simpa [maxOpt] using this

theorem maxOpt_eq_latest (l : List Int) : maxOpt l = latest l :=
  (maxOpt_isLatest l).unique (latest_isLatest l)

/-! ### accessors -/

theorem orderState_mem_timestamps (st : OrderState) (x : Int) :
    st.timeExchange = some x ↔ x ∈ st.timestamps := by
  cases st with
  | cancelInFlight o =>
    cases o <;> simp [OrderState.timeExchange, OrderState.timestamps, eq_comm]
  | _ => simp [OrderState.timeExchange, OrderState.timestamps, eq_comm]

theorem orderState_isLatest (st : OrderState) : IsLatest st.timestamps st.timeExchange := by
  cases st with
  | cancelInFlight o =>
    cases o <;> simp [OrderState.timeExchange, OrderState.timestamps, IsLatest]
  | _ => simp [OrderState.timeExchange, OrderState.timestamps, IsLatest]

theorem snapshot_isLatest (s : AccountSnapshot) :
    IsLatest (EngineEvent.accountItem (.snapshot s)).timestamps s.timeMostRecent := by
  unfold AccountSnapshot.timeMostRecent
  refine IsLatest.congr ?_ (maxOpt_isLatest _)
  intro x
  simp only [EngineEvent.timestamps, List.mem_append, List.mem_flatMap, List.mem_filterMap,
    orderState_mem_timestamps]
  constructor
  · rintro (h | h)
    · right; exact h
    · left; exact h
  · rintro (h | h)
    · right; exact h
    · left; exact h

theorem timeExchange_isLatest (ev : EngineEvent) : IsLatest ev.timestamps ev.timeExchange := by
  cases ev with
  | accountItem kind =>
    cases kind with
    | snapshot s => exact snapshot_isLatest s
    | orderSnapshot st => exact orderState_isLatest st
    | orderCancelled r =>
      cases r <;> simp [EngineEvent.timeExchange, EngineEvent.timestamps, IsLatest]
    | _ => simp [EngineEvent.timeExchange, EngineEvent.timestamps, IsLatest]
  | _ => simp [EngineEvent.timeExchange, EngineEvent.timestamps, IsLatest]

/-! ### history -/

def Call.entry : Call → Option (Int × Option Int)
  | .process te now => some (now, te)
  | .read _ => none

theorem historyOf_snoc (calls : List Call) (x : Call) :
    historyOf (calls ++ [x]) =
      match x.entry with
      | some e => e :: historyOf calls
      | none => historyOf calls := by
  cases x <;> simp [historyOf, Call.entry, List.filterMap_append]

/-- The invariant tying the concrete state to the history-only specification. -/
def Tied (seed w0 : Int) (h : History) (c : HistoricalClock) : Prop :=
  c.timeExchangeLast = specLast seed h ∧ c.timeLiveLastEvent = specAnchor seed w0 h

theorem tied_step (seed w0 : Int) (h : History) (c : HistoricalClock) (x : Call)
    (ht : Tied seed w0 h c) :
    Tied seed w0 (match x.entry with
      | some e => e :: h
      | none => h) (c.step x) := by
  obtain ⟨h1, h2⟩ := ht
  cases x with
  | read now => exact ⟨h1, h2⟩
  | process te now =>
    cases te with
    | none => exact ⟨h1, h2⟩
    | some t =>
      simp only [Call.entry, HistoricalClock.step]
      by_cases hle : c.timeExchangeLast ≤ t
      · rw [process_accept c t now hle]
        refine ⟨?_, ?_⟩
        · simp only [specLast]; rw [← h1]; omega
        · simp only [specAnchor]; rw [← h1]; simp [hle]
      · rw [process_older c t now (by omega)]
        refine ⟨?_, ?_⟩
        · simp only [specLast]; rw [← h1]; omega
        · simp only [specAnchor]; rw [← h1]; simp [hle, h2]

theorem tied_run (seed w0 : Int) (calls : List Call) :
    Tied seed w0 (historyOf calls) ((HistoricalClock.new seed w0).run calls) := by
  suffices H : ∀ r : List Call,
      Tied seed w0 (historyOf r.reverse) ((HistoricalClock.new seed w0).run r.reverse) by
    simpa using H calls.reverse
  intro r
  induction r with
  | nil => exact ⟨rfl, rfl⟩
  | cons x r ih =>
    rw [List.reverse_cons, run_append, historyOf_snoc]
    exact tied_step seed w0 _ _ x ih

/-! ### reported time -/

/-- Wall-clock readings of a call sequence never go back, starting from `w`. -/
def WallsFrom (w : Int) : List Call → Prop
  | [] => True
  | x :: rest => w ≤ x.now ∧ WallsFrom x.now rest

/-- No accepted event carries an exchange time that the clock has already overtaken by
extrapolation. -/
def NotBehind (c : HistoricalClock) : List Call → Prop
  | [] => True
  | .read _ :: rest => NotBehind c rest
  | .process te now :: rest =>
    (∀ t, te = some t → c.timeExchangeLast ≤ t → c.time now ≤ t) ∧
      NotBehind (c.process te now).1 rest

theorem readings_ge (c : HistoricalClock) (w : Int) (calls : List Call)
    (ha : c.timeLiveLastEvent ≤ w) (hw : WallsFrom w calls) (hb : NotBehind c calls) :
    (∀ r ∈ c.readings calls, c.time w ≤ r) ∧ (c.readings calls).Pairwise (· ≤ ·) := by
  induction calls generalizing c w with
  | nil => simp [HistoricalClock.readings]
  | cons x rest ih =>
    obtain ⟨hw1, hw2⟩ := hw
    cases x with
    | read now =>
      simp only [Call.now] at hw1 hw2
      simp only [HistoricalClock.readings]
      have hmono : c.time w ≤ c.time now := by
        rw [time_of_ge c w ha, time_of_ge c now (by omega)]; omega
      have ⟨h1, h2⟩ := ih c now (by omega) hw2 hb
      refine ⟨?_, ?_⟩
      · intro r hr
        rcases List.mem_cons.mp hr with rfl | hr
        · exact hmono
        · exact Int.le_trans hmono (h1 r hr)
      · exact List.pairwise_cons.mpr ⟨h1, h2⟩
    | process te now =>
      simp only [Call.now] at hw1 hw2
      simp only [HistoricalClock.readings]
      obtain ⟨hb1, hb2⟩ := hb
      have hmono : c.time w ≤ c.time now := by
        rw [time_of_ge c w ha, time_of_ge c now (by omega)]; omega
      cases te with
      | none =>
        have ⟨h1, h2⟩ := ih c now (by omega) hw2 hb2
        exact ⟨fun r hr => Int.le_trans hmono (h1 r hr), h2⟩
      | some t =>
        by_cases hle : c.timeExchangeLast ≤ t
        · rw [process_accept c t now hle] at hb2 ⊢
          have ⟨h1, h2⟩ := ih _ now (by simp) hw2 hb2
          refine ⟨?_, h2⟩
          intro r hr
          have h3 := h1 r hr
          rw [time_of_ge _ now (by simp)] at h3
          simp only at h3
          have := hb1 t rfl hle
          omega
        · rw [process_older c t now (by omega)] at hb2 ⊢
          have ⟨h1, h2⟩ := ih c now (by omega) hw2 hb2
          exact ⟨fun r hr => Int.le_trans hmono (h1 r hr), h2⟩

end BarterModel.Clock
