import BarterModel.Model.Engine
import BarterModel.Model.Position

/-! Netting of fills in the engine-level model: helper lemmas (statements of record are in Props/C19). -/
namespace BarterModel.Engine

/-- a carried position is well formed when its open quantity is positive -/
def PosWF : Option (Side × Rat) → Prop
  | none => True
  | some (_, q) => 0 < q

theorem netFill_wf (pos : Option (Side × Rat)) (side : Side) (q : Rat) (h : PosWF pos) (hq : 0 < q) :
    PosWF (netFill pos side q) := by
  cases pos with
  | none => simpa [netFill, PosWF] using hq
  | some p =>
    obtain ⟨ps, pq⟩ := p
    simp only [PosWF] at h
    simp only [netFill]
    by_cases h1 : ps = side
    · simp only [h1, if_true, PosWF]; grind
    · by_cases h2 : pq > q
      · simp only [h1, h2, if_false, if_true, PosWF]; grind
      · by_cases h3 : pq = q
        · simp [h1, h3, PosWF]
        · simp only [h1, h2, h3, if_false, PosWF]; grind

def signedFill (side : Side) (q : Rat) : Rat := match side with | .buy => q | .sell => -q

theorem signedQty_netFill (pos : Option (Side × Rat)) (side : Side) (q : Rat) :
    signedQty (netFill pos side q) = signedQty pos + signedFill side q := by
  cases pos with
  | none => cases side <;> simp [netFill, signedQty, signedFill] <;> grind
  | some p =>
    obtain ⟨ps, pq⟩ := p
    simp only [netFill]
    by_cases h2 : pq > q
    · cases ps <;> cases side <;> simp [h2, signedQty, signedFill] <;> grind
    · by_cases h3 : pq = q
      · cases ps <;> cases side <;> simp [h3, signedQty, signedFill] <;> grind
      · cases ps <;> cases side <;> simp [h2, h3, signedQty, signedFill] <;> grind

theorem tradeBetween_netFill (pos : Option (Side × Rat)) (side : Side) (q : Rat) (hq : 0 < q) :
    tradeBetween pos (netFill pos side q) = some (side, q) := by
  simp only [tradeBetween, signedQty_netFill]
  cases side
  · have e : signedQty pos + signedFill .buy q - signedQty pos = q := by simp only [signedFill]; grind
    rw [e, if_pos hq]
  · have e : signedQty pos + signedFill .sell q - signedQty pos = -q := by simp only [signedFill]; grind
    rw [e]
    have h1 : ¬ 0 < -q := by grind
    have h2 : -q < 0 := by grind
    rw [if_neg h1, if_pos h2, Rat.neg_neg]

/-- a history of fills netted from flat -/
def netAll (fills : List (Side × Rat)) (pos : Option (Side × Rat)) : Option (Side × Rat) :=
  fills.foldl (fun p f => netFill p f.1 f.2) pos

def signedSum (fills : List (Side × Rat)) : Rat := (fills.map fun f => signedFill f.1 f.2).sum

theorem netAll_wf (fills : List (Side × Rat)) (pos : Option (Side × Rat)) (h : PosWF pos)
    (hq : ∀ f ∈ fills, 0 < f.2) : PosWF (netAll fills pos) := by
  induction fills generalizing pos with
  | nil => exact h
  | cons f fs ih =>
    simp only [netAll, List.foldl_cons]
    exact ih _ (netFill_wf pos f.1 f.2 h (hq f (by simp))) (fun g hg => hq g (by simp [hg]))

theorem signedQty_netAll (fills : List (Side × Rat)) (pos : Option (Side × Rat)) :
    signedQty (netAll fills pos) = signedQty pos + signedSum fills := by
  induction fills generalizing pos with
  | nil => simp [netAll, signedSum, Rat.add_zero]
  | cons f fs ih =>
    simp only [netAll, List.foldl_cons, signedSum, List.map_cons, List.sum_cons]
    have := ih (netFill pos f.1 f.2)
    simp only [netAll, signedSum] at this
    rw [this, signedQty_netFill]; grind

/-- a well-formed carried position is determined by its signed quantity -/
theorem pos_of_signed (pos : Option (Side × Rat)) (h : PosWF pos) :
    pos = (if 0 < signedQty pos then some (.buy, signedQty pos)
           else if signedQty pos < 0 then some (.sell, -signedQty pos) else none) := by
  cases pos with
  | none => simp [signedQty]
  | some p =>
    obtain ⟨s, q⟩ := p
    simp only [PosWF] at h
    cases s
    · show some (Side.buy, q) = if 0 < q then some (Side.buy, q) else if q < 0 then some (Side.sell, -q) else none
      rw [if_pos h]
    · show some (Side.sell, q) = if 0 < -q then some (Side.buy, -q) else if -q < 0 then some (Side.sell, - -q) else none
      have h1 : ¬ (0 < -q) := by grind
      have h2 : -q < 0 := by grind
      rw [if_neg h1, if_pos h2, Rat.neg_neg]

/-- mapping of the position model's side (Model/Position, C02) -/
def ofPSide : BarterModel.Position.Side → Side
  | .buy => .buy
  | .sell => .sell

theorem ofPSide_inj (a b : BarterModel.Position.Side) : ofPSide a = ofPSide b ↔ a = b := by
  cases a <;> cases b <;> simp [ofPSide]

/-- projection of a C02 position on what the engine-level model carries -/
def carried (p : Option BarterModel.Position.Position) : Option (Side × Rat) :=
  p.map fun p => (ofPSide p.side, p.quantityAbs)

open BarterModel.Position in
theorem abs_pos (x : Rat) (h : 0 < x) : BarterModel.Position.abs x = x := by
  unfold BarterModel.Position.abs; grind

open BarterModel.Position in
/-- `netFill` IS the C02 position model's `Position::update_from_trade`, projected on (side, quantity_abs) -/
theorem netFill_is_position_model (p : Position) (t : Trade)
    (hi : p.instrument = t.instrument) (hq : 0 < t.quantity) :
    carried (p.updateFromTrade t).1
      = netFill (some (ofPSide p.side, p.quantityAbs)) (ofPSide t.side) t.quantity := by
  have ha := abs_pos t.quantity hq
  unfold BarterModel.Position.Position.updateFromTrade
  rw [if_neg (by simpa using hi)]
  simp only [Position.pushTrade, netFill, ofPSide_inj]
  by_cases h1 : p.side = t.side
  · simp only [h1, if_true, carried, Option.map_some, Position.increase, Position.updatePnlUnrealised, ha]
    split <;> simp [ofPSide_inj, h1]
  · by_cases h2 : p.quantityAbs > t.quantity
    · simp [h1, h2, carried, Position.reduce, Position.updatePnlUnrealised, Position.updatePnlRealised, ha]
    · by_cases h3 : p.quantityAbs = t.quantity
      · simp [h1, h3, carried, ha]
      · have h4 : 0 ≤ t.quantity - p.quantityAbs := by grind
        have h5 : BarterModel.Position.abs (t.quantity - p.quantityAbs) = t.quantity - p.quantityAbs := by
          unfold BarterModel.Position.abs; rw [if_pos h4]
        simp [h1, h2, h3, carried, Position.flip, Position.ofTrade, ha, h5]

open BarterModel.Position in
theorem enter_is_position_model (t : Trade) (hq : 0 < t.quantity) :
    carried (PositionManager.init.update t).1.current = netFill none (ofPSide t.side) t.quantity := by
  simp [PositionManager.update, PositionManager.init, carried, Position.ofTrade, netFill, abs_pos _ hq]

end BarterModel.Engine
